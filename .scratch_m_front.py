import os
p=os.environ['MUTDIR']+'/myst_parser/mdit_to_docutils/base.py'
s=open(p).read(); old="        self.current_node += nodes_list\n"; assert old in s
open(p,'w').write(s.replace(old,"        self.current_node.insert(0, nodes_list)\n"))
