import sys, json
sys.path[:0]=['/verif','/repo']
from gen import c02_model as M
from gen import c02_lib as L
def show(t, ind=0):
    if t[0]=="X": print(" "*ind+repr(t[1])); return
    print(" "*ind+t[1], {k:v for k,v in t[2].items()})
    for c in t[3]: show(c, ind+2)
CASES=json.load(open("/verif/.scratch_r2_cases.json"))
for text,mode,exts in CASES:
    for be in ("docutils","sphinx"):
        case={"text":text,"mode":mode,"exts":exts,"backend":be}
        cfg=L.make_config(mode,exts); root,toks,env=L.token_tree(cfg,text)
        rep,_=M.model_render("C02","render",[(case,root,0,None)])
        r=M.dec_reply(rep[0]); print(be); show(r[1]) if r[0]=="ok" else print(r)
