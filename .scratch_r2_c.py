import sys, json
sys.path[:0]=['/verif','/repo']
from gen import c02_model as M
from gen import c02_lib as L
L.SphinxDriver.get()
c={"text": "```{code-block} python\n:linenos:\n:emphasize-lines: 1\n\nx = 1\ny = 2\n```\n\n```{note}\n[x](http://a.b) and {sub}`r`\n```\n", "mode": "myst", "exts": ["substitution"], "backend": "docutils", "kw": {}}
doc,w,_=M.impl_parse(c)
print(doc.pformat()); print(w)
print(M.impl_parse.last_dynamic)
r=M.correspond("C02",[c])
print({k:v for k,v in r[0].items() if k!="oracle_tests"})
