import os
p=os.environ['MUTDIR']+'/myst_parser/mdit_to_docutils/sphinx_.py'
s=open(p).read(); old="        elif path_id is not None and ("; assert old in s
open(p,'w').write(s.replace(old,"        elif False and path_id is not None and ("))
