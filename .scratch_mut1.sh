#!/bin/bash
name=$1; prop=$2; d=/verif/.scratch-mut-$name
rm -rf $d; cp -r /repo $d
export MUTDIR=$d
if [[ "$3" == git:* ]]; then (cd $d && eval "${3#git:}") >/dev/null 2>&1; else python3 "$3"; fi
cd /verif
out=$(VERIF_REPO=$d ./check $prop 2>&1); rc=$?
line=$(echo "$out" | grep -m1 "^VIOLATION" | cut -c1-170)
tie=$(echo "$out" | grep -m1 "tie-break" | cut -c1-300)
echo "MUTANT $name [$prop] exit=$rc :: $line :: $tie" >> /verif/.scratch_mutants.log
rm -rf $d
