import sys, json, random
sys.path[:0]=['/verif','/repo']
from gen import c02_model as M
import importlib
pid=sys.argv[1] if len(sys.argv)>1 else "C02"
P=importlib.import_module("props."+pid)
class Ctx:
    tier="quick"; deep=False
    def __init__(s): s.rng=random.Random(int(sys.argv[2]) if len(sys.argv)>2 else 0)
    def budget(s,a,b,c): return a
ctx=Ctx()
want=sys.argv[3] if len(sys.argv)>3 else "dyn"
cases=[c for l,c in P.corr_cases(ctx) if l.startswith(want)]
print(len(cases),"cases")
for stage in (("parse",) if pid=="C02" else ("parse","xform")):
    res=M.correspond(pid,cases,stage)
    from collections import Counter
    print(stage, Counter(r["status"] for r in res))
    seen=set()
    for c,r in zip(cases,res):
        if r["status"] in ("agree","notmodelled"): continue
        k=(r.get("what"),str(r.get("at"))[-40:],str(r.get("impl"))[:50],str(r.get("model"))[:50],r.get("exc"))
        if k in seen: continue
        seen.add(k)
        print(json.dumps({"case":c,"r":{k:v for k,v in r.items() if k!="oracle_tests"}})[:900]); print()
st=M.statement_check(pid,cases)
from collections import Counter
print(Counter((None if r is None else (r["static"],r["dropped"],r["equal"])) for r in st))
for c,r in zip(cases,st):
    if r and r["static"] and not r["dropped"] and r["lexer_ok"] and not r["equal"]:
        print("STATEMENT FAIL", json.dumps(c)[:500]); break
n=0
for c,r in zip(cases,st):
    if r and r["static"] and not r["dropped"] and not r["equal"]:
        print("STATEMENT", r, json.dumps(c)[:600]); n+=1
        if n>4: break
