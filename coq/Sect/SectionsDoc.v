(* Whole documents: headings at document level interleaved with paragraphs, containers
   (whose headings become rubrics) and heading-offset includes.  The section structure is
   the one the specification gives for the sequence of document-level headings with their
   effective levels. *)
From Coq Require Import List Arith Bool Lia.
From MV Require Import Base.Res Sect.Sections Sect.SectionsSpec Sect.SectionsProofs.
Import ListNotations.

(* number of headings inside a token (each consumes one heading number) *)
Definition count_headings (t : tok) : nat := length (heading_levels 0 t).

(* the document-level headings of a token rendered at document level with heading offset [off],
   the first heading number being [id]: (heading number, effective level) *)
Fixpoint doc_headings (off id : nat) (t : tok) : list (nat * nat) :=
  match t with
  | THeading tag => [(id, tag + off)]
  | TPara => []
  | TContainer _ => []
  | TDirective _ _ => []
  | TInclude o ts =>
      (fix go (l : list tok) (id : nat) : list (nat * nat) :=
         match l with
         | [] => []
         | x :: l' => doc_headings (off + o) id x ++ go l' (id + count_headings x)
         end) ts id
  end.

Fixpoint doc_headings_list (off id : nat) (l : list tok) : list (nat * nat) :=
  match l with
  | [] => []
  | x :: l' => doc_headings off id x ++ doc_headings_list off (id + count_headings x) l'
  end.

Lemma doc_headings_include o ts off id : doc_headings off id (TInclude o ts) = doc_headings_list (off + o) id ts.
Proof.
  cbn [doc_headings]. revert id. induction ts as [|x l IH]; intro id; simpl; auto. rewrite IH. reflexivity.
Qed.

Definition levels (hl : list (nat * nat)) : list nat := map snd hl.

(* node of the parent: the section of the heading at that position, or the document *)
Definition pref_ids (hl : list (nat * nat)) (p : option nat) : nref :=
  match p with
  | None => Doc
  | Some j => match nth_error hl j with Some (id, _) => Sec id | None => Doc end
  end.

Definition exp_sec (hl : list (nat * nat)) (k : nat) : list (nref * nat) :=
  match nth_error hl k with
  | Some (id, _) => [(pref_ids hl (parent_spec (levels hl) k), id)]
  | None => []
  end.

Definition exp_warn_ids (hl : list (nat * nat)) (k : nat) : list (nat * nat * nat) :=
  match nth_error hl k, plevel (levels hl) (parent_spec (levels hl) k) with
  | Some (id, l), Some pl => if 1 <? l - pl then [(id, pl, l)] else []
  | _, _ => []
  end.

(* ---------- the level map, with heading numbers ---------- *)

Definition InvG (hl : list (nat * nat)) (m : lmap) : Prop :=
  exists m', m = (0, Doc) :: m' /\ sorted_keys m /\
    (forall l r, In (l, r) m' ->
       exists j id, r = Sec id /\ nth_error hl j = Some (id, l) /\ still_open (levels hl) j (length hl)) /\
    (forall j id l, nth_error hl j = Some (id, l) -> still_open (levels hl) j (length hl) -> In (l, Sec id) m').

Lemma InvG_lm_ok hl m : InvG hl m -> lm_ok m.
Proof. intros (m' & E & Hs & _). split; eauto. Qed.

Lemma levels_nth hl j id l : nth_error hl j = Some (id, l) -> nth_error (levels hl) j = Some l.
Proof. intro H. unfold levels. rewrite nth_error_map, H. reflexivity. Qed.

Lemma levels_nth_inv hl j l : nth_error (levels hl) j = Some l -> exists id, nth_error hl j = Some (id, l).
Proof.
  unfold levels. rewrite nth_error_map. destruct (nth_error hl j) as [[id l']|]; simpl; intro H; inversion H. eauto.
Qed.

Lemma levels_app hl x : levels (hl ++ [x]) = levels hl ++ [snd x].
Proof. unfold levels. rewrite map_app. reflexivity. Qed.

Lemma levels_length hl : length (levels hl) = length hl.
Proof. apply map_length. Qed.

Lemma InvG_init : InvG [] [(0, Doc)].
Proof.
  exists []. split; auto. split; [constructor; constructor|]. split.
  - intros l r [].
  - intros j id l H. destruct j; discriminate.
Qed.

Lemma InvG_step hl m L id : InvG hl m -> 1 <= L ->
  InvG (hl ++ [(id, L)]) (filter (fun e => fst e <=? L) (dict_set m L (Sec id))).
Proof.
  intros HI HL. pose proof (lm_ok_step m L (Sec id) (InvG_lm_ok _ _ HI) HL) as [Hs2 _].
  destruct HI as (m' & E & Hs & Hc & Hd).
  rewrite set_prune_normal_form in * by auto.
  subst m. simpl in *. destruct L as [|L']; [lia|]. simpl in *.
  set (L := S L') in *.
  exists (filter (fun e => fst e <? L) m' ++ [(L, Sec id)]).
  split; [reflexivity|]. split; [exact Hs2|].
  rewrite app_length, levels_app. simpl. rewrite Nat.add_1_r. rewrite <- (levels_length hl). split.
  - intros l r Hin. apply in_app_or in Hin as [Hin|[Hin|[]]].
    + apply filter_In in Hin as [Hin Hlt]. simpl in Hlt. apply Nat.ltb_lt in Hlt.
      destruct (Hc l r Hin) as (j & id' & -> & Ej & Ho). exists j, id'. split; auto.
      pose proof (nth_error_some_lt _ _ _ Ej) as Hj.
      split; [rewrite nth_error_app_l; auto|].
      rewrite <- (levels_length hl) in Ho.
      apply (still_open_snoc (levels hl) L j l (levels_nth _ _ _ _ Ej)). auto.
    + inversion Hin; subst. exists (length hl), id. split; auto. split.
      * apply nth_error_snoc.
      * intros k lj lk Hk. rewrite levels_length in Hk. lia.
  - intros j id' l Ej Ho.
    destruct (Nat.eq_dec j (length hl)) as [->|Hne].
    + rewrite nth_error_snoc in Ej. inversion Ej; subst. apply in_or_app. right. left. reflexivity.
    + assert (Hj : j < length hl).
      { apply nth_error_some_lt in Ej. rewrite app_length in Ej. simpl in Ej. lia. }
      rewrite nth_error_app_l in Ej by auto.
      apply (still_open_snoc (levels hl) L j l (levels_nth _ _ _ _ Ej)) in Ho as [Ho Hlt].
      apply in_or_app. left. apply filter_In. split.
      * apply (Hd j id' l Ej). rewrite <- (levels_length hl). exact Ho.
      * simpl. apply Nat.ltb_lt. exact Hlt.
Qed.

Lemma parent_lookupG hl m L : InvG hl m -> Forall (fun x => 1 <= snd x) hl -> 1 <= L ->
  exists pl r p,
    py_max (filter (fun sl => sl <? L) (map fst m)) = Ok pl /\ dict_get m pl = Ok r /\ pl < L /\
    ParentSpec (levels hl ++ [L]) (length hl) p /\
    (forall x, r = pref_ids (hl ++ [x]) p) /\ plevel (levels hl ++ [L]) p = Some pl.
Proof.
  intros HI Hge HL. pose proof (InvG_lm_ok _ _ HI) as Hok.
  destruct (parent_found m L Hok HL) as (pl & r & Hmax & Hget & Hlt & Hin & Hub).
  destruct HI as (m' & E & Hs & Hc & Hd).
  rewrite Forall_forall in Hge.
  assert (Hcand : forall j, cand (levels hl ++ [L]) (length hl) j ->
            exists id lj, nth_error hl j = Some (id, lj) /\ lj < L /\ lj <= pl /\ 1 <= lj /\
                          still_open (levels hl) j (length hl)).
  { intros j (Hj & (lj & li & Ej & Ei & Hl) & Ho).
    rewrite <- (levels_length hl) in Hj, Ei, Ho.
    rewrite nth_error_app_l in Ej by auto. rewrite nth_error_snoc in Ei. inversion Ei; subst li.
    apply still_open_app_restrict in Ho; auto.
    destruct (levels_nth_inv _ _ _ Ej) as (id & Eid).
    rewrite (levels_length hl) in Ho.
    exists id, lj. repeat split; auto.
    - apply Hub; auto. subst m. simpl. right. apply in_map_iff. exists (lj, Sec id). split; auto.
      apply (Hd j id lj Eid Ho).
    - apply (Hge (id, lj)). eapply nth_error_In; eauto. }
  exists pl, r. subst m. destruct Hin as [Hin|Hin].
  - inversion Hin; subst pl r. exists None. repeat split; auto.
    intros j Hcj. destruct (Hcand j Hcj) as (id & lj & _ & _ & H1 & H2 & _). lia.
  - destruct (Hc pl r Hin) as (j & id & -> & Ej & Ho).
    pose proof (nth_error_some_lt _ _ _ Ej) as Hj.
    exists (Some j). repeat split; auto.
    + exists pl, L. repeat split; auto.
      * rewrite nth_error_app_l by (rewrite levels_length; auto). eapply levels_nth; eauto.
      * rewrite <- (levels_length hl). apply nth_error_snoc.
    + rewrite <- (levels_length hl). apply still_open_app_restrict; [rewrite levels_length; auto|].
      rewrite levels_length. exact Ho.
    + intros j' Hcj'. destruct (Hcand j' Hcj') as (id' & lj' & Ej' & _ & Hle & _ & _).
      destruct (le_lt_dec j' j) as [|Hgt]; auto. exfalso.
      assert (Hj' : j' < length hl) by (destruct Hcj'; auto).
      specialize (Ho j' pl lj' (conj Hgt Hj') (levels_nth _ _ _ _ Ej) (levels_nth _ _ _ _ Ej')). lia.
    + intro x. simpl. rewrite nth_error_app_l by auto. rewrite Ej. reflexivity.
    + simpl. rewrite nth_error_app_l by (rewrite levels_length; auto). eapply levels_nth; eauto.
Qed.

(* ---------- states at document level ---------- *)

Definition DInv (hl : list (nat * nat)) (s : st) : Prop :=
  InvG hl (lvl s) /\ is_doc_or_section (cur s) = true /\ troot s = None /\
  Forall (fun x => 1 <= snd x) hl /\
  secs (log s) = flat_map (exp_sec hl) (seq 0 (length hl)) /\
  warns (log s) = flat_map (exp_warn_ids hl) (seq 0 (length hl)).

Lemma DInv_init : DInv [] init.
Proof. unfold DInv, init; simpl. repeat split; auto. apply InvG_init. Qed.

Lemma pref_ids_app hl x p k : parent_spec (levels hl) k = p -> k < length hl ->
  pref_ids (hl ++ [x]) p = pref_ids hl p.
Proof.
  intros E Hk. destruct p as [j|]; simpl; auto.
  unfold parent_spec in E. apply last_below_some in E as [Hj _].
  rewrite nth_error_app_l by lia. reflexivity.
Qed.

Lemma exp_sec_app hl x k : k < length hl -> exp_sec (hl ++ [x]) k = exp_sec hl k.
Proof.
  intro Hk. unfold exp_sec. rewrite nth_error_app_l by auto.
  rewrite levels_app, parent_spec_app by (rewrite levels_length; auto).
  destruct (nth_error hl k) as [[id l]|]; auto.
  rewrite (pref_ids_app hl x _ k eq_refl Hk). reflexivity.
Qed.

Lemma exp_warn_ids_app hl x k : k < length hl -> exp_warn_ids (hl ++ [x]) k = exp_warn_ids hl k.
Proof.
  intro Hk. unfold exp_warn_ids. rewrite nth_error_app_l by auto.
  rewrite levels_app, parent_spec_app by (rewrite levels_length; auto).
  destruct (parent_spec (levels hl) k) as [j|] eqn:E; simpl; auto.
  unfold parent_spec in E. apply last_below_some in E as [Hj _].
  rewrite nth_error_app_l by (rewrite levels_length; lia). reflexivity.
Qed.

Lemma heading_stepG hl s tag : DInv hl s -> 1 <= tag ->
  exists s', render_heading tag s = Ok s' /\ DInv (hl ++ [(nh s, tag + hoff s)]) s' /\
             hoff s' = hoff s /\ nh s' = S (nh s).
Proof.
  intros (HI & Hcur & Htr & Hge & Hsec & Hw) Ht.
  set (L := tag + hoff s). assert (HL : 1 <= L) by (unfold L; lia).
  destruct (parent_lookupG hl (lvl s) L HI Hge HL) as (pl & r & p & Hmax & Hget & Hlt & Hp & Hr & Hpl).
  assert (Ep : parent_spec (levels (hl ++ [(nh s, L)])) (length hl) = p).
  { rewrite levels_app. simpl. eapply ParentSpec_unique; [apply parent_spec_sound | exact Hp]. }
  unfold render_heading. fold L. cbn [troot set_nh cur]. rewrite Htr, Hcur. cbn [orb negb].
  unfold update_section_level_state. cbn [lvl set_nh cur]. rewrite Hmax. cbn [bind]. rewrite Hget. cbn [bind].
  rewrite (warn_cond pl L Hlt).
  assert (Hseq : seq 0 (length (hl ++ [(nh s, L)])) = seq 0 (length hl) ++ [length hl]).
  { rewrite app_length. simpl. rewrite Nat.add_1_r. rewrite seq_S. reflexivity. }
  assert (Hedge : exp_sec (hl ++ [(nh s, L)]) (length hl) = [(r, nh s)]).
  { unfold exp_sec. rewrite nth_error_snoc, Ep, <- (Hr (nh s, L)). reflexivity. }
  assert (Hwarn : exp_warn_ids (hl ++ [(nh s, L)]) (length hl) = if 1 <? L - pl then [(nh s, pl, L)] else []).
  { unfold exp_warn_ids. rewrite nth_error_snoc, Ep, levels_app. simpl. rewrite Hpl. reflexivity. }
  eexists. split; [reflexivity|]. split; [|split; destruct (1 <? L - pl); reflexivity].
  unfold DInv. split; [| split; [| split; [| split; [| split]]]].
  - destruct (1 <? L - pl); cbn; apply InvG_step; auto.
  - destruct (1 <? L - pl); reflexivity.
  - destruct (1 <? L - pl); cbn; auto.
  - apply Forall_app. split; auto.
  - rewrite Hseq, flat_map_app. simpl. rewrite Hedge, app_nil_r.
    rewrite (flat_map_ext_in' (exp_sec (hl ++ [(nh s, L)])) (exp_sec hl)).
    2:{ intros i Hi. apply in_seq in Hi. apply exp_sec_app. lia. }
    rewrite <- Hsec.
    destruct (1 <? L - pl); cbn; rewrite ?secs_app; cbn; rewrite ?app_nil_r; reflexivity.
  - rewrite Hseq, flat_map_app. simpl. rewrite Hwarn, app_nil_r.
    rewrite (flat_map_ext_in' (exp_warn_ids (hl ++ [(nh s, L)])) (exp_warn_ids hl)).
    2:{ intros i Hi. apply in_seq in Hi. apply exp_warn_ids_app. lia. }
    rewrite <- Hw.
    destruct (1 <? L - pl); cbn; rewrite ?warns_app; cbn; rewrite ?app_nil_r; reflexivity.
Qed.

(* the number of headings in a token does not depend on the offset *)
Lemma flat_map_length_ext {A B} (f g : A -> list B) l :
  Forall (fun x => length (f x) = length (g x)) l -> length (flat_map f l) = length (flat_map g l).
Proof. induction 1; simpl; auto. rewrite !app_length. congruence. Qed.

Lemma heading_levels_length t : forall off off', length (heading_levels off t) = length (heading_levels off' t).
Proof.
  induction t as [tag| |ts IH|mt ts IH|o ts IH] using tok_ind'; intros off off'; simpl; auto;
    apply flat_map_length_ext; rewrite Forall_forall in *; intros x Hx; apply IH; auto.
Qed.

Lemma count_flat off ts : length (flat_map (heading_levels off) ts) = length (flat_map (heading_levels 0) ts).
Proof. apply flat_map_length_ext. apply Forall_forall. intros x _. apply heading_levels_length. Qed.

Lemma count_sum ts : length (flat_map (heading_levels 0) ts) = fold_right (fun x n => count_headings x + n) 0 ts.
Proof. induction ts as [|x l IH]; simpl; auto. rewrite app_length, IH. reflexivity. Qed.

Definition doc_step (t : tok) : Prop :=
  tags_ok t = true -> no_titles t = true -> forall hl s, DInv hl s ->
  exists s', render t s = Ok s' /\ DInv (hl ++ doc_headings (hoff s) (nh s) t) s' /\
             hoff s' = hoff s /\ nh s' = nh s + count_headings t.

Lemma mfold_doc ts : Forall doc_step ts ->
  forallb tags_ok ts = true -> forallb no_titles ts = true -> forall hl s, DInv hl s ->
  exists s', mfold render ts s = Ok s' /\ DInv (hl ++ doc_headings_list (hoff s) (nh s) ts) s' /\
             hoff s' = hoff s /\ nh s' = nh s + length (flat_map (heading_levels 0) ts).
Proof.
  induction 1 as [|t ts Ht _ IH]; intros Hok Hnt hl s HI; simpl.
  - exists s. rewrite app_nil_r. split; [reflexivity|]. split; [exact HI|]. split; [reflexivity | lia].
  - simpl in Hok, Hnt. apply andb_true_iff in Hok as [Hok1 Hok2]. apply andb_true_iff in Hnt as [Hnt1 Hnt2].
    destruct (Ht Hok1 Hnt1 hl s HI) as (s1 & H1 & HI1 & Hoff1 & Hnh1). rewrite H1.
    destruct (IH Hok2 Hnt2 _ s1 HI1) as (s2 & H2 & HI2 & Hoff2 & Hnh2).
    exists s2. split; auto. rewrite Hoff1, Hnh1 in *. rewrite <- app_assoc in HI2.
    split; [exact HI2|]. split; [congruence|].
    rewrite app_length. unfold count_headings in *. lia.
Qed.

Lemma render_doc t : doc_step t.
Proof.
  induction t as [tag| |ts IH|mt ts IH|o ts IH] using tok_ind'; intros Hok Hnt hl s HI.
  - cbn [tags_ok] in Hok. apply Nat.leb_le in Hok.
    destruct (heading_stepG hl s tag HI Hok) as (s' & H1 & H2 & H3 & H4).
    exists s'. cbn [render doc_headings]. split; [exact H1|]. split; [exact H2|]. split; [exact H3|].
    unfold count_headings. simpl. lia.
  - cbn [render doc_headings]. eexists. split; [reflexivity|]. rewrite app_nil_r.
    destruct HI as (A & B & C & D & E & F). unfold DInv, count_headings. cbn.
    rewrite secs_app, warns_app. cbn. rewrite !app_nil_r. repeat split; auto.
  - cbn [no_titles] in Hnt.
    assert (Hfr : troot_fresh s). { destruct HI as (_ & _ & C & _). intros r Hr. congruence. }
    destruct (nested_headings_are_rubrics ts s Hfr Hnt) as (s' & H1 & A1 & A2 & A3 & A4 & A5 & A6 & A7 & A8).
    exists s'. split; auto. cbn [doc_headings]. rewrite app_nil_r.
    destruct HI as (A & B & C & D & E & F). unfold DInv. rewrite A1, A2, A4, A5, A6.
    repeat split; auto. unfold count_headings. simpl. rewrite A8, (count_flat (hoff s)). reflexivity.
  - cbn [no_titles] in Hnt. apply andb_true_iff in Hnt as [Hmt Hnt]. destruct mt; [discriminate|].
    assert (Hfr : troot_fresh s). { destruct HI as (_ & _ & C & _). intros r Hr. congruence. }
    destruct (directive_headings_are_rubrics ts s Hfr Hnt) as (s' & H1 & A1 & A2 & A3 & A4 & A5 & A6 & A7 & A8).
    exists s'. split; auto. cbn [doc_headings]. rewrite app_nil_r.
    destruct HI as (A & B & C & D & E & F). unfold DInv. rewrite A1, A2, A4, A5, A6.
    repeat split; auto. unfold count_headings. simpl. rewrite A8, (count_flat (hoff s)). reflexivity.
  - cbn [tags_ok] in Hok. cbn [no_titles] in Hnt. cbn [render]. unfold nested_render_text.
    assert (HI2 : DInv hl (set_hoff s (hoff s + o))) by exact HI.
    destruct (mfold_doc ts IH Hok Hnt hl _ HI2) as (s3 & H3 & HI3 & Hoff3 & Hnh3). cbn [bind]. rewrite H3. cbn [bind].
    eexists. split; [reflexivity|]. rewrite doc_headings_include. cbn in *.
    split; [exact HI3|]. split; auto. unfold count_headings. simpl. rewrite Hnh3, (count_flat o). reflexivity.
Qed.

(* C05_document_sections *)
Theorem document_sections ts : forallb tags_ok ts = true -> forallb no_titles ts = true ->
  exists s, render_document ts = Ok s /\
    secs (log s) = flat_map (exp_sec (doc_headings_list 0 0 ts)) (seq 0 (length (doc_headings_list 0 0 ts))) /\
    warns (log s) = flat_map (exp_warn_ids (doc_headings_list 0 0 ts)) (seq 0 (length (doc_headings_list 0 0 ts))).
Proof.
  intros Hok Hnt.
  assert (HF : Forall doc_step ts) by (apply Forall_forall; intros t _; apply render_doc).
  destruct (mfold_doc ts HF Hok Hnt [] init DInv_init) as (s & H & HI & _).
  exists s. split; auto. simpl in HI. destruct HI as (_ & _ & _ & _ & E & F). auto.
Qed.

(* ---------- the open finding, characterised ---------- *)

(* A directive that nested-parses with match_titles=True, rendered in ANY state (the current node
   may be a block quote, a list item, ...) whose level map is the one after the document-level
   headings hl: a heading directly in its body opens a section, and that section is attached to the
   node the specification names for a document-level heading of that level at this point - the
   closest still-open heading of lower level among hl, else the document - not to the directive's
   node and not to the current container.  Afterwards level map, current node, offset and temp root
   are as before. *)
Theorem titled_directive_attaches hl s tag :
  InvG hl (lvl s) -> Forall (fun x => 1 <= snd x) hl -> 1 <= tag ->
  exists s' p, render (TDirective true [THeading tag]) s = Ok s' /\
    ParentSpec (levels hl ++ [tag + hoff s]) (length hl) p /\
    secs (log s') = secs (log s) ++ [(pref_ids (hl ++ [(nh s, tag + hoff s)]) p, nh s)] /\
    lvl s' = lvl s /\ cur s' = cur s /\ hoff s' = hoff s /\ troot s' = troot s.
Proof.
  intros HI Hge Ht.
  set (L := tag + hoff s). assert (HL : 1 <= L) by (unfold L; lia).
  destruct (parent_lookupG hl (lvl s) L HI Hge HL) as (pl & r & p & Hmax & Hget & Hlt & Hp & Hr & Hpl).
  cbn [render]. unfold nested_render_text. cbn [mfold]. cbn [render].
  unfold render_heading. cbn [troot set_troot set_hoff set_cur set_nc set_nh cur hoff nh lvl].
  rewrite Nat.add_0_r. fold L. cbn [nref_eqb]. rewrite Nat.eqb_refl. cbn [orb negb].
  unfold update_section_level_state. cbn [lvl cur set_nh set_troot set_hoff set_cur set_nc]. rewrite Hmax. cbn [bind]. rewrite Hget. cbn [bind].
  eexists. exists p. split; [reflexivity|]. split; [exact Hp|].
  rewrite (Hr (nh s, L)).
  destruct ((pl <? L) && negb (pl + 1 =? L)); cbn; rewrite ?secs_app; cbn; rewrite ?app_nil_r; repeat split; auto.
Qed.
