(* Model of docutils.nodes.document.set_id as used for headings (one name per node, no id yet,
   settings id_prefix = "", auto_id_prefix = "%"), and the renderer's slug table with the values
   it stores: slug -> (line, node["ids"][0], title).  Executable definitions only. *)
From Coq Require Import List NArith Arith Bool.
From MV Require Import Base.PyStr Base.Res Refs.RUtil Refs.Anchors Sect.Slug.
Import ListNotations.
Local Open Scope nat_scope.

(*  while True: counter += 1; id = f(counter); if id not in self.ids: break
    [n] is the value the counter takes in this iteration *)
Fixpoint first_free (fuel : nat) (f : N -> str) (n : N) (ids : list str) : res (str * N) :=
  match fuel with
  | O => Raise OutOfFuel
  | S fu => if mem_str (f n) ids then first_free fu f (N.succ n) ids else Ok (f n, n)
  end.

Definition nonempty_s (s : str) : bool := match s with [] => false | _ => true end.

(* set_id(node): [base_id] = make_id(name) (external), [tag_id] = make_id(node.tagname);
   [ids] = keys of document.ids, [counters] = document.id_counter.
   Returns the new id and the new counters; the caller registers ids[id] = node. *)
Definition set_id (base_id tag_id : str) (ids : list str) (counters : list (str * N))
  : res (str * list (str * N)) :=
  if nonempty_s base_id && negb (mem_str base_id ids) then Ok (base_id, counters)
  else
    (* for/else: disambiguate the name-derived id, or use the tag name *)
    let prefix := (if nonempty_s base_id then base_id else tag_id) ++ [45%N] in
    let c := match dget counters prefix with Some c => c | None => 0%N end in
    match first_free (S (length ids)) (fun n => prefix ++ show n) (N.succ c) ids with
    | Raise e => Raise e
    | Ok (id, n) => Ok (id, dset counters prefix n)
    end.

(* the ids given to a sequence of nodes (base id, tag id), starting from [ids] *)
Fixpoint assign_ids (nodes : list (str * str)) (ids : list str) (counters : list (str * N))
  : res (list str) :=
  match nodes with
  | [] => Ok []
  | (b, t) :: nodes' =>
      match set_id b t ids counters with
      | Raise e => Raise e
      | Ok (id, counters') =>
          match assign_ids nodes' (ids ++ [id]) counters' with
          | Raise e => Raise e
          | Ok l => Ok (id :: l)
          end
      end
  end.

(* self._heading_slugs[slug] = (node.line, node["ids"][0], implicit_text), for the table of Slug.v
   whose values are heading numbers *)
Definition slugs_of (line : nat -> option N) (sid title : nat -> str) (d : sdict) : slugs_t :=
  map (fun e => (fst e, (line (snd e), sid (snd e), title (snd e)))) d.
