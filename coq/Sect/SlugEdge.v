(* Where the renderer's default_slugify (no strip) and the plug-in's slugify (strip first) differ:
   exact characterisation.  The leading / trailing white space that strip() removes survives in the
   renderer's slug exactly as one '-' per U+0020 in it. *)
From Coq Require Import List NArith Arith Bool Lia.
From MV Require Import Base.PyStr Base.Res Sect.Slug Sect.SlugTables Sect.SlugProofs.
Import ListNotations.
Local Open Scope nat_scope.

(* the white space prefix removed by lstrip *)
Fixpoint lead (is_space : N -> bool) (s : str) : str :=
  match s with
  | [] => []
  | c :: s' => if is_space c then c :: lead is_space s' else []
  end.

(* the white space suffix removed by strip *)
Definition trail (is_space : N -> bool) (s : str) : str :=
  rev (lead is_space (rev (lstrip is_space s))).

Definition count32 (s : str) : nat := length (filter (fun c => (c =? 32)%N) s).

Lemma lead_lstrip is_space s : s = lead is_space s ++ lstrip is_space s.
Proof.
  induction s as [|c s IH]; simpl; auto.
  destruct (is_space c); simpl; [f_equal; exact IH | reflexivity].
Qed.

Lemma lead_spaces is_space s : Forall (fun c => is_space c = true) (lead is_space s).
Proof.
  induction s as [|c s IH]; simpl; [constructor|].
  destruct (is_space c) eqn:E; constructor; auto.
Qed.

Lemma strip_decomp is_space s :
  s = lead is_space s ++ strip is_space s ++ trail is_space s.
Proof.
  unfold strip, trail. set (m := lstrip is_space s).
  rewrite <- rev_app_distr, <- (lead_lstrip is_space (rev m)), rev_involutive.
  apply lead_lstrip.
Qed.

Lemma trail_spaces is_space s : Forall (fun c => is_space c = true) (trail is_space s).
Proof.
  unfold trail. apply Forall_forall. intros c Hc. apply in_rev in Hc.
  pose proof (lead_spaces is_space (rev (lstrip is_space s))) as H. rewrite Forall_forall in H. auto.
Qed.

Lemma filter_all_false' {A} (f : A -> bool) l : (forall x, In x l -> f x = false) -> filter f l = [].
Proof.
  induction l as [|x l IH]; simpl; intro H; auto.
  rewrite (H x) by auto. apply IH. auto.
Qed.

Section Edge.
  Variable lower_char : N -> str.      (* str.lower on one character *)
  Variable is_space is_word : N -> bool.
  Variable cls : list citem.
  Definition lower_cw (s : str) : str := flat_map lower_char s.

  (* white space is not changed by lower(), is removed by the cleaning unless it is U+0020, and
     the hyphen is kept *)
  Hypothesis H_lower : forall c, is_space c = true -> lower_char c = [c].
  Hypothesis H_clean : forall c, is_space c = true -> c <> 32%N -> class_mem is_word cls c = false.
  Hypothesis H_hyphen : class_mem is_word cls 45%N = true.

  Definition dslug (t : str) : str := default_slugify lower_cw is_word cls t.
  Definition pslug (t : str) : str := plugin_slugify lower_cw is_space is_word cls t.

  Lemma dslug_app a b : dslug (a ++ b) = dslug a ++ dslug b.
  Proof.
    unfold dslug, default_slugify, re_sub_neg, replace_sp_hy, lower_cw.
    rewrite flat_map_app, map_app, filter_app. reflexivity.
  Qed.

  Lemma dslug_spaces ws : Forall (fun c => is_space c = true) ws -> dslug ws = repeat 45%N (count32 ws).
  Proof.
    induction 1 as [|c ws Hc _ IH]; [reflexivity|].
    change (c :: ws) with ([c] ++ ws). rewrite dslug_app, IH.
    unfold count32. simpl. unfold dslug, default_slugify, re_sub_neg, replace_sp_hy, lower_cw. simpl.
    rewrite (H_lower c Hc). simpl.
    destruct (c =? 32)%N eqn:E.
    - rewrite H_hyphen. reflexivity.
    - apply N.eqb_neq in E. rewrite (H_clean c Hc E). reflexivity.
  Qed.

  (* renderer slug = '-' * (spaces at the left edge) + plug-in slug + '-' * (spaces at the right edge) *)
  Theorem edge_decomposition t :
    dslug t = repeat 45%N (count32 (lead is_space t)) ++ pslug t ++ repeat 45%N (count32 (trail is_space t)).
  Proof.
    rewrite (strip_decomp is_space t) at 1. rewrite !dslug_app.
    rewrite (dslug_spaces _ (lead_spaces is_space t)), (dslug_spaces _ (trail_spaces is_space t)).
    reflexivity.
  Qed.

  Lemma count32_zero s : count32 s = 0 <-> ~ In 32%N s.
  Proof.
    unfold count32. split.
    - intros H Hin. assert (Hf : In 32%N (filter (fun c => (c =? 32)%N) s)) by (apply filter_In; auto).
      destruct (filter _ s); [destruct Hf | discriminate].
    - intro H. rewrite filter_all_false'; auto. intros x Hx. apply N.eqb_neq. intro; subst; auto.
  Qed.

  (* the disagreement set: the slugs differ exactly when an ASCII space sits in the stripped edges *)
  Theorem slug_agree_iff t :
    dslug t = pslug t <-> (~ In 32%N (lead is_space t) /\ ~ In 32%N (trail is_space t)).
  Proof.
    rewrite <- !count32_zero. rewrite (edge_decomposition t). split.
    - intro H. apply (f_equal (@length N)) in H. rewrite !app_length, !repeat_length in H. lia.
    - intros [-> ->]. simpl. rewrite app_nil_r. reflexivity.
  Qed.
End Edge.

(* ---------- enumeration of a range tree (to check finitely many white space characters) ---------- *)

Fixpoint rtree_ranges (t : rtree) : list (N * N) :=
  match t with
  | RLeaf => []
  | RNode l lo hi r => rtree_ranges l ++ (lo, hi) :: rtree_ranges r
  end.

Definition nrange (lo hi : N) : list N :=
  map (fun k => (lo + N.of_nat k)%N) (seq 0 (S (N.to_nat (hi - lo)))).

Definition rtree_elems (t : rtree) : list N :=
  flat_map (fun r => nrange (fst r) (snd r)) (rtree_ranges t).

Lemma nrange_in lo hi c : (lo <= c)%N -> (c <= hi)%N -> In c (nrange lo hi).
Proof.
  intros H1 H2. unfold nrange. apply in_map_iff. exists (N.to_nat (c - lo)). split.
  - rewrite N2Nat.id. lia.
  - apply in_seq. lia.
Qed.

Lemma rtree_mem_in t c : rtree_mem t c = true -> In c (rtree_elems t).
Proof.
  unfold rtree_elems. induction t as [|l IHl lo hi r IHr]; cbn [rtree_mem rtree_ranges]; [discriminate|].
  rewrite flat_map_app. cbn [flat_map fst snd].
  destruct (c <? lo)%N eqn:E1.
  - intro H. apply in_or_app. left. auto.
  - destruct (hi <? c)%N eqn:E2; intro H.
    + apply in_or_app. right. apply in_or_app. right. auto.
    + apply in_or_app. right. apply in_or_app. left.
      apply N.ltb_ge in E1. apply N.ltb_ge in E2. apply nrange_in; auto.
Qed.
