(* Round 3: the definitions regenerated from base.py (Gen/SectSrc.v) equal the hand-written model
   (Sect/Sections.v).  These are the proof obligations that an edit of update_section_level_state,
   render_heading or nested_render_text breaks. *)
From Coq Require Import List Arith Bool Lia.
From MV Require Import Base.Res Sect.Sections Sect.SectionsSpec Sect.SectionsProofs Gen.SectSrc.
Import ListNotations.

(* decide the (closed) comparisons of both sides, so that an equivalent rewording of the warning
   condition in the source (flipped comparison, swapped operands) does not break the refinement *)
Ltac bdestr :=
  repeat match goal with
         | |- context [?a <? ?b] => destruct (Nat.ltb_spec a b)
         | |- context [?a <=? ?b] => destruct (Nat.leb_spec a b)
         | |- context [?a =? ?b] => destruct (Nat.eqb_spec a b)
         end;
  cbn [andb orb negb]; first [reflexivity | exfalso; lia].

Theorem update_section_level_state_src_eq s section level :
  update_section_level_state_src s section level = update_section_level_state s section level.
Proof.
  unfold update_section_level_state_src, update_section_level_state.
  destruct (py_max _) as [pl|e]; cbn [bind]; [|reflexivity].
  destruct (dict_get (lvl s) pl) as [p|e]; cbn [bind]; [|reflexivity].
  bdestr.
Qed.

Theorem render_heading_src_eq tag s : render_heading_src tag s = render_heading tag s.
Proof.
  unfold render_heading_src, render_heading.
  destruct (negb _); [reflexivity|].
  rewrite update_section_level_state_src_eq.
  destruct (update_section_level_state _ _ _); reflexivity.
Qed.

Theorem nested_render_text_src_eq rend tr off s :
  nested_render_text_src rend tr off s = nested_render_text rend tr off s.
Proof.
  unfold nested_render_text_src, nested_render_text.
  destruct tr as [r|]; cbn [bind].
  - destruct (rend _) as [s3|e]; reflexivity.
  - destruct (rend _) as [s3|e]; reflexivity.
Qed.

(* a document of headings rendered with the regenerated step *)
Definition run_levels_src (ls : list nat) : res st := mfold render_heading_src ls init.

Lemma mfold_map {A T S} (g : A -> T) (f : T -> S -> res S) l s :
  mfold f (map g l) s = mfold (fun a => f (g a)) l s.
Proof.
  revert s. induction l as [|a l IH]; intro s; simpl; auto.
  destruct (f (g a) s); auto.
Qed.

Lemma mfold_ext {T S} (f g : T -> S -> res S) l : (forall t s, f t s = g t s) -> forall s, mfold f l s = mfold g l s.
Proof.
  intro H. induction l as [|a l IH]; intro s; simpl; auto.
  rewrite H. destruct (g a s); auto.
Qed.

Theorem run_levels_src_eq ls : run_levels_src ls = run_levels ls.
Proof.
  unfold run_levels_src, run_levels, render_document, render_tokens. rewrite mfold_map.
  apply mfold_ext. intros t s. cbn [render]. apply render_heading_src_eq.
Qed.

(* C05_sections_refine_spec_src / C05_skip_warnings_src *)
Theorem sections_refine_spec_src ls : Forall (fun l => 1 <= l) ls ->
  exists s, run_levels_src ls = Ok s /\
    filter non_warn (log s) = map (exp_edge ls) (seq 0 (length ls)) /\
    warns (log s) = flat_map (exp_warn ls) (seq 0 (length ls)) /\
    lm_ok (lvl s).
Proof.
  intro H. rewrite run_levels_src_eq.
  destruct (run_levels_inv ls H) as (s & Hr & HI).
  exists s. split; auto. destruct HI as (A & _ & _ & _ & _ & B & C).
  split; [exact B|]. split; [exact C|]. eapply Inv_lm_ok; eauto.
Qed.
