(* Round 5: the CLI half regenerated from the plug-in's anchors_plugin / _anchor_func and from
   cli.py print_anchors (Gen/AnchorsCliSrc.v) equals the hand-written model (Sect/Slug.v:
   anchor_func, print_anchors). *)
From Coq Require Import List NArith Arith Bool Lia.
From MV Require Import Base.PyStr Base.Res Sect.Slug Sect.SlugSrcLib Sect.SlugProofs Gen.PyUnicodeSlug Gen.SlugSrc
                       Sect.SlugSrcProofs Gen.AnchorsCliSrc.
Import ListNotations.
Local Open Scope nat_scope.

Lemma selected_src_eq max l : selected_src cli_min_level_src max l = ((1 <=? l) && (l <=? max)).
Proof.
  unfold selected_src, cli_min_level_src.
  destruct (Nat.leb_spec 1 l), (Nat.ltb_spec l (max + 1)), (Nat.leb_spec l max); cbn [andb]; try reflexivity; exfalso; lia.
Qed.

Lemma gen_go_eq max slug_func : forall hs slugs,
  anchor_go_src (selected_src cli_min_level_src max) slug_func hs slugs = anchor_func max slug_func hs slugs.
Proof.
  induction hs as [|h hs IH]; intro slugs; cbn [anchor_go_src anchor_func]; [reflexivity|].
  cbv zeta. rewrite selected_src_eq.
  destruct (negb ((1 <=? h_level h) && (h_level h <=? max))).
  - rewrite IH. destruct (anchor_func max slug_func hs slugs); reflexivity.
  - rewrite title_src_eq, unique_slug_src_eq.
    destruct (plugin_unique (slug_func (inline_title (h_children h))) slugs) as [u|e]; cbn [bind]; [|reflexivity].
    rewrite IH. destruct (anchor_func max slug_func hs (u :: slugs)); reflexivity.
Qed.

Theorem anchor_func_src_eq max slug_func hs :
  anchor_func_src (selected_src cli_min_level_src max) slug_func hs = anchor_func max slug_func hs [].
Proof. unfold anchor_func_src. apply gen_go_eq. Qed.

(* myst-anchors as regenerated = the model's print_anchors *)
Theorem print_anchors_src_eq level slug_func hs :
  print_anchors_src level slug_func hs = print_anchors level slug_func hs.
Proof.
  unfold print_anchors_src, print_anchors. unfold cli_max_level_src. rewrite anchor_func_src_eq.
  destruct (anchor_func level slug_func hs []); reflexivity.
Qed.
