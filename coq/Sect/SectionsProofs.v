From Coq Require Import List Arith Bool Lia.
From MV Require Import Base.Res Sect.Sections Sect.SectionsSpec.
Import ListNotations.

(* ================= the functional spec computes the declarative one ================= *)

Lemma last_below_some f i j :
  last_below f i = Some j -> j < i /\ f j = true /\ forall j', j < j' < i -> f j' = false.
Proof.
  induction i as [|i IH]; simpl; [discriminate|].
  destruct (f i) eqn:E; intro H.
  - inversion H; subst. repeat split; auto. intros; lia.
  - destruct (IH H) as (H1 & H2 & H3). repeat split; auto.
    intros j' Hj. destruct (Nat.eq_dec j' i); [subst; auto | apply H3; lia].
Qed.

Lemma last_below_none f i : last_below f i = None -> forall j, j < i -> f j = false.
Proof.
  induction i as [|i IH]; simpl; intros H j Hj; [lia|].
  destruct (f i) eqn:E; [discriminate|].
  destruct (Nat.eq_dec j i); [subst; auto | apply IH; auto; lia].
Qed.

Lemma last_below_ext f g i : (forall j, j < i -> f j = g j) -> last_below f i = last_below g i.
Proof.
  induction i as [|i IH]; simpl; intro H; auto.
  rewrite (H i) by lia. rewrite IH; auto.
Qed.

Lemma lowerb_spec ls j i : lowerb ls j i = true <-> lower ls j i.
Proof.
  unfold lowerb, lower. split.
  - destruct (nth_error ls j) as [a|]; [|discriminate].
    destruct (nth_error ls i) as [b|]; [|discriminate].
    intro H. apply Nat.ltb_lt in H. eauto.
  - intros (a & b & -> & -> & H). apply Nat.ltb_lt. exact H.
Qed.

Lemma openb_spec ls j i : openb ls j i = true <-> still_open ls j i.
Proof.
  unfold openb, still_open. rewrite forallb_forall. split.
  - intros H k lj lk Hk Hj Hkk.
    assert (Hin : In k (seq (S j) (i - S j))) by (apply in_seq; lia).
    specialize (H k Hin). rewrite Hj, Hkk in H. apply Nat.ltb_lt. exact H.
  - intros H k Hin. apply in_seq in Hin.
    destruct (nth_error ls j) as [a|] eqn:Ea; auto.
    destruct (nth_error ls k) as [b|] eqn:Eb; auto.
    apply Nat.ltb_lt. apply (H k a b); auto. lia.
Qed.

Lemma candb_spec ls i j : j < i -> (lowerb ls j i && openb ls j i = true <-> cand ls i j).
Proof.
  intro Hj. unfold cand. rewrite andb_true_iff, lowerb_spec, openb_spec. tauto.
Qed.

Lemma parent_spec_sound ls i : ParentSpec ls i (parent_spec ls i).
Proof.
  unfold parent_spec. destruct (last_below _ i) as [j|] eqn:E; simpl.
  - apply last_below_some in E as (H1 & H2 & H3). split.
    + apply candb_spec; auto.
    + intros j' Hc. destruct (le_lt_dec j' j) as [|Hlt]; auto.
      assert (Hj' : j' < i) by (destruct Hc; auto).
      specialize (H3 j' (conj Hlt Hj')). apply candb_spec in Hc; auto. congruence.
  - intros j Hc. assert (Hj : j < i) by (destruct Hc; auto).
    pose proof (last_below_none _ _ E j Hj) as H. apply candb_spec in Hc; auto. simpl in H. congruence.
Qed.

Lemma ParentSpec_unique ls i p q : ParentSpec ls i p -> ParentSpec ls i q -> p = q.
Proof.
  destruct p as [j|], q as [j'|]; simpl; intros H1 H2; auto.
  - destruct H1 as [C1 M1], H2 as [C2 M2]. f_equal. apply Nat.le_antisymm; auto.
  - destruct H1 as [C1 _]. exfalso. eapply H2; eauto.
  - destruct H2 as [C2 _]. exfalso. eapply H1; eauto.
Qed.

(* the simpler reading: the greatest preceding heading of lower level is automatically still open *)
Lemma greatest_lower_is_open ls i j :
  j < i -> lower ls j i -> (forall j', j < j' < i -> ~ lower ls j' i) -> still_open ls j i.
Proof.
  intros Hj (lj & li & Ej & Ei & Hlt) Hmax k lj' lk Hk Ej' Ek.
  rewrite Ej in Ej'. inversion Ej'; subst lj'.
  destruct (le_lt_dec lk lj) as [Hle|]; auto.
  exfalso. apply (Hmax k Hk). exists lk, li. repeat split; auto. lia.
Qed.

(* the spec of heading i only looks at the levels up to i *)
Lemma nth_error_app_l {A} (l l' : list A) k : k < length l -> nth_error (l ++ l') k = nth_error l k.
Proof. intro H. apply nth_error_app1. exact H. Qed.

Lemma forallb_ext_in' {A} (f g : A -> bool) l : (forall x, In x l -> f x = g x) -> forallb f l = forallb g l.
Proof.
  induction l as [|x l IH]; simpl; intro H; auto.
  rewrite (H x) by auto. rewrite IH; auto.
Qed.

Lemma parent_spec_app ls ls' i : i < length ls -> parent_spec (ls ++ ls') i = parent_spec ls i.
Proof.
  intro Hi. unfold parent_spec. apply last_below_ext. intros j Hj.
  unfold lowerb, openb. rewrite !nth_error_app_l by lia. f_equal.
  apply forallb_ext_in'. intros k Hk. apply in_seq in Hk. rewrite !nth_error_app_l by lia. reflexivity.
Qed.

(* ================= dict / max lemmas ================= *)

Lemma fold_left_max_spec l a :
  let r := fold_left Nat.max l a in
  (r = a \/ In r l) /\ a <= r /\ forall y, In y l -> y <= r.
Proof.
  revert a. induction l as [|x l IH]; intro a; simpl.
  - repeat split; auto. intros y [].
  - destruct (IH (Nat.max a x)) as (H1 & H2 & H3). repeat split.
    + destruct H1 as [H1|H1]; auto.
      rewrite H1. destruct (Nat.max_dec a x) as [E|E]; rewrite E; auto.
    + lia.
    + intros y [Hy|Hy]; [subst; lia | auto].
Qed.

Lemma py_max_spec l x : In x l ->
  exists mx, py_max l = Ok mx /\ In mx l /\ forall y, In y l -> y <= mx.
Proof.
  destruct l as [|a l]; [intros []|]. intros _. simpl.
  destruct (fold_left_max_spec l a) as (H1 & H2 & H3).
  eexists; split; [reflexivity|]. split.
  - destruct H1 as [H1|H1]; [left; auto | right; auto].
  - intros y [Hy|Hy]; [subst; auto | auto].
Qed.

Lemma dict_get_in m k : In k (map fst m) -> exists v, dict_get m k = Ok v /\ In (k, v) m.
Proof.
  induction m as [|[k' v'] m IH]; simpl; [intros []|].
  intros [H|H].
  - subst. rewrite Nat.eqb_refl. eauto.
  - destruct (k' =? k) eqn:E.
    + apply Nat.eqb_eq in E. subst. eauto.
    + destruct (IH H) as (v & H1 & H2). eauto.
Qed.

Lemma filter_all_false {A} (f : A -> bool) l : (forall x, In x l -> f x = false) -> filter f l = [].
Proof.
  induction l as [|x l IH]; simpl; intro H; auto.
  rewrite (H x) by auto. apply IH. auto.
Qed.

Lemma sorted_keys_inv k v m : sorted_keys ((k, v) :: m) -> sorted_keys m /\ Forall (fun e => k < fst e) m.
Proof. intro H. inversion H; subst. auto. Qed.

(* set + prune on a sorted map: the entries below the level, then the new entry *)
Lemma set_prune_normal_form m L v : sorted_keys m ->
  filter (fun e => fst e <=? L) (dict_set m L v) = filter (fun e => fst e <? L) m ++ [(L, v)].
Proof.
  induction m as [|[k x] m IH]; intro Hs; simpl.
  - rewrite Nat.leb_refl. reflexivity.
  - apply sorted_keys_inv in Hs as [Hs Hall]. rewrite Forall_forall in Hall.
    destruct (k =? L) eqn:E.
    + apply Nat.eqb_eq in E. subst k. simpl. rewrite Nat.leb_refl, Nat.ltb_irrefl.
      rewrite !filter_all_false; auto.
      * intros e He. apply Hall in He. apply Nat.ltb_ge. lia.
      * intros e He. apply Hall in He. apply Nat.leb_gt. lia.
    + apply Nat.eqb_neq in E. simpl. rewrite IH by auto.
      destruct (k <=? L) eqn:E1, (k <? L) eqn:E2; auto.
      * apply Nat.leb_le in E1. apply Nat.ltb_ge in E2. lia.
      * apply Nat.leb_gt in E1. apply Nat.ltb_lt in E2. lia.
Qed.

Lemma sorted_keys_filter f m : sorted_keys m -> sorted_keys (filter f m).
Proof.
  induction 1 as [|k v m Hs IH Hall]; simpl; [constructor|].
  destruct (f (k, v)); auto. constructor; auto.
  rewrite Forall_forall in *. intros e He. apply filter_In in He as [He _]. auto.
Qed.

Lemma sorted_keys_snoc m L v : sorted_keys m -> (forall e, In e m -> fst e < L) -> sorted_keys (m ++ [(L, v)]).
Proof.
  induction 1 as [|k x m Hs IH Hall]; simpl; intro H.
  - constructor; [constructor | constructor].
  - constructor.
    + apply IH. intros e He. apply H. right. auto.
    + rewrite Forall_forall in *. intros e He. apply in_app_or in He as [He|[He|[]]]; auto.
      subst e. simpl. apply (H (k, x)). left. auto.
Qed.

Lemma lm_ok_step m L v : lm_ok m -> 1 <= L ->
  lm_ok (filter (fun e => fst e <=? L) (dict_set m L v)).
Proof.
  intros [Hs [m' E]] HL. rewrite set_prune_normal_form by auto. split.
  - apply sorted_keys_snoc; [apply sorted_keys_filter; auto|].
    intros e He. apply filter_In in He as [_ He]. apply Nat.ltb_lt. exact He.
  - subst m. simpl. destruct L; [lia|]. simpl. eauto.
Qed.

(* on a well-formed map and a level >= 1 neither max() nor the lookup can raise *)
Lemma parent_found m L : lm_ok m -> 1 <= L ->
  exists pl r, py_max (filter (fun sl => sl <? L) (map fst m)) = Ok pl /\ dict_get m pl = Ok r
               /\ pl < L /\ In (pl, r) m /\ forall k, In k (map fst m) -> k < L -> k <= pl.
Proof.
  intros [Hs [m' E]] HL.
  assert (H0 : In 0 (filter (fun sl => sl <? L) (map fst m))).
  { subst m. apply filter_In. split; [left; auto|]. apply Nat.ltb_lt. lia. }
  destruct (py_max_spec _ _ H0) as (pl & Hmax & Hin & Hub).
  apply filter_In in Hin as [Hin Hlt]. apply Nat.ltb_lt in Hlt.
  destruct (dict_get_in _ _ Hin) as (r & Hget & Hr).
  exists pl, r. repeat split; auto.
  intros k Hk Hkl. apply Hub. apply filter_In. split; auto. apply Nat.ltb_lt. auto.
Qed.

(* ================= the level map after a sequence of document-level headings ================= *)

(* the map holds exactly the document and the still-open headings, each under its level *)
Definition Inv (ls : list nat) (m : lmap) : Prop :=
  exists m', m = (0, Doc) :: m' /\ sorted_keys m /\
    (forall l r, In (l, r) m' ->
       exists j, r = Sec j /\ nth_error ls j = Some l /\ still_open ls j (length ls)) /\
    (forall j l, nth_error ls j = Some l -> still_open ls j (length ls) -> In (l, Sec j) m').

Lemma Inv_lm_ok ls m : Inv ls m -> lm_ok m.
Proof. intros (m' & E & Hs & _). split; eauto. Qed.

Lemma nth_error_some_lt {A} (l : list A) k x : nth_error l k = Some x -> k < length l.
Proof. intro H. apply nth_error_Some. congruence. Qed.

Lemma nth_error_snoc {A} (l : list A) x : nth_error (l ++ [x]) (length l) = Some x.
Proof. rewrite nth_error_app2 by lia. rewrite Nat.sub_diag. reflexivity. Qed.

Lemma still_open_app_restrict ls L j : j < length ls ->
  still_open (ls ++ [L]) j (length ls) <-> still_open ls j (length ls).
Proof.
  intro Hj. unfold still_open. split; intros H k lj lk Hk Ej Ek.
  - apply (H k lj lk Hk); rewrite nth_error_app_l; auto; lia.
  - rewrite nth_error_app_l in Ej, Ek by lia. eauto.
Qed.

Lemma still_open_snoc ls L j l : nth_error ls j = Some l ->
  still_open (ls ++ [L]) j (S (length ls)) <-> (still_open ls j (length ls) /\ l < L).
Proof.
  intro Ej. pose proof (nth_error_some_lt _ _ _ Ej) as Hj.
  unfold still_open. split.
  - intro H. split.
    + intros k lj lk Hk Ej' Ek. apply (H k lj lk); try lia; rewrite nth_error_app_l; auto; lia.
    + apply (H (length ls) l L); try lia.
      * rewrite nth_error_app_l; auto.
      * apply nth_error_snoc.
  - intros [H HL] k lj lk Hk Ej' Ek.
    rewrite nth_error_app_l in Ej' by lia. rewrite Ej in Ej'. inversion Ej'; subst lj.
    destruct (Nat.eq_dec k (length ls)) as [->|Hne].
    + rewrite nth_error_snoc in Ek. inversion Ek; subst. exact HL.
    + rewrite nth_error_app_l in Ek by lia. apply (H k l lk); auto. lia.
Qed.

Lemma Inv_init : Inv [] [(0, Doc)].
Proof.
  exists []. split; auto. split; [constructor; constructor|]. split.
  - intros l r [].
  - intros j l H. destruct j; discriminate.
Qed.

Lemma Inv_step ls m L : Inv ls m -> 1 <= L ->
  Inv (ls ++ [L]) (filter (fun e => fst e <=? L) (dict_set m L (Sec (length ls)))).
Proof.
  intros (m' & E & Hs & Hc & Hd) HL.
  pose proof (lm_ok_step m L (Sec (length ls)) (Inv_lm_ok _ _ (ex_intro _ m' (conj E (conj Hs (conj Hc Hd))))) HL) as [Hs2 _].
  rewrite set_prune_normal_form in * by auto.
  subst m. simpl in *. destruct L as [|L']; [lia|]. simpl in *.
  set (L := S L') in *.
  exists (filter (fun e => fst e <? L) m' ++ [(L, Sec (length ls))]).
  split; [reflexivity|]. split; [exact Hs2|]. rewrite app_length. simpl. rewrite Nat.add_1_r. split.
  - intros l r Hin. apply in_app_or in Hin as [Hin|[Hin|[]]].
    + apply filter_In in Hin as [Hin Hlt]. simpl in Hlt. apply Nat.ltb_lt in Hlt.
      destruct (Hc l r Hin) as (j & -> & Ej & Ho). exists j. split; auto.
      pose proof (nth_error_some_lt _ _ _ Ej) as Hj.
      split; [rewrite nth_error_app_l; auto|].
      apply (still_open_snoc ls L j l Ej). auto.
    + inversion Hin; subst. exists (length ls). split; auto. split; [apply nth_error_snoc|].
      intros k lj lk Hk. lia.
  - intros j l Ej Ho.
    destruct (Nat.eq_dec j (length ls)) as [->|Hne].
    + rewrite nth_error_snoc in Ej. inversion Ej; subst. apply in_or_app. right. left. reflexivity.
    + assert (Hj : j < length ls).
      { apply nth_error_some_lt in Ej. rewrite app_length in Ej. simpl in Ej. lia. }
      rewrite nth_error_app_l in Ej by auto.
      apply (still_open_snoc ls L j l Ej) in Ho as [Ho Hlt].
      apply in_or_app. left. apply filter_In. split; [apply Hd; auto|].
      simpl. apply Nat.ltb_lt. exact Hlt.
Qed.

(* the parent found by max() + lookup is the one of the specification *)
Lemma parent_lookup ls m L : Inv ls m -> Forall (fun l => 1 <= l) ls -> 1 <= L ->
  exists pl r p,
    py_max (filter (fun sl => sl <? L) (map fst m)) = Ok pl /\ dict_get m pl = Ok r /\ pl < L /\
    ParentSpec (ls ++ [L]) (length ls) p /\ r = pref p /\ plevel (ls ++ [L]) p = Some pl.
Proof.
  intros HI Hge HL. pose proof (Inv_lm_ok _ _ HI) as Hok.
  destruct (parent_found m L Hok HL) as (pl & r & Hmax & Hget & Hlt & Hin & Hub).
  destruct HI as (m' & E & Hs & Hc & Hd).
  rewrite Forall_forall in Hge.
  (* every candidate of the spec sits in the map under a key < L *)
  assert (Hcand : forall j, cand (ls ++ [L]) (length ls) j ->
            exists lj, nth_error ls j = Some lj /\ lj < L /\ lj <= pl /\ 1 <= lj /\ still_open ls j (length ls)).
  { intros j (Hj & (lj & li & Ej & Ei & Hl) & Ho).
    rewrite nth_error_app_l in Ej by auto. rewrite nth_error_snoc in Ei. inversion Ei; subst li.
    apply still_open_app_restrict in Ho; auto.
    exists lj. repeat split; auto.
    - apply Hub; auto. subst m. simpl. right. apply in_map_iff. exists (lj, Sec j). split; auto.
    - apply Hge. eapply nth_error_In; eauto. }
  exists pl, r. subst m. destruct Hin as [Hin|Hin].
  - inversion Hin; subst pl r. exists None. repeat split; auto.
    intros j Hcj. destruct (Hcand j Hcj) as (lj & _ & _ & H1 & H2 & _). lia.
  - destruct (Hc pl r Hin) as (j & -> & Ej & Ho).
    pose proof (nth_error_some_lt _ _ _ Ej) as Hj.
    exists (Some j). repeat split; auto.
    + exists pl, L. repeat split; auto; [rewrite nth_error_app_l; auto | apply nth_error_snoc].
    + apply still_open_app_restrict; auto.
    + intros j' Hcj'. destruct (Hcand j' Hcj') as (lj' & Ej' & _ & Hle & _ & _).
      destruct (le_lt_dec j' j) as [|Hgt]; auto. exfalso.
      assert (Hj' : j' < length ls) by (destruct Hcj'; auto).
      specialize (Ho j' pl lj' (conj Hgt Hj') Ej Ej'). lia.
    + simpl. rewrite nth_error_app_l; auto.
Qed.

(* ================= documents that consist of headings ================= *)

Definition non_warn (e : entry) : bool := negb (is_warn e).

Definition StInv (ls : list nat) (s : st) : Prop :=
  Inv ls (lvl s) /\ is_doc_or_section (cur s) = true /\ hoff s = 0 /\ troot s = None /\
  nh s = length ls /\
  filter non_warn (log s) = map (exp_edge ls) (seq 0 (length ls)) /\
  warns (log s) = flat_map (exp_warn ls) (seq 0 (length ls)).

Lemma exp_edge_app ls ls' i : i < length ls -> exp_edge (ls ++ ls') i = exp_edge ls i.
Proof. intro H. unfold exp_edge. rewrite parent_spec_app; auto. Qed.

Lemma exp_warn_app ls ls' i : i < length ls -> exp_warn (ls ++ ls') i = exp_warn ls i.
Proof.
  intro H. unfold exp_warn. rewrite parent_spec_app, nth_error_app_l by auto.
  destruct (parent_spec ls i) as [j|] eqn:E; simpl; auto.
  unfold parent_spec in E. apply last_below_some in E as [Hj _].
  rewrite nth_error_app_l by lia. reflexivity.
Qed.

Lemma flat_map_ext_in' {A B} (f g : A -> list B) l : (forall x, In x l -> f x = g x) -> flat_map f l = flat_map g l.
Proof.
  induction l as [|x l IH]; simpl; intro H; auto.
  rewrite (H x) by auto. rewrite IH; auto.
Qed.

Lemma warns_app l l' : warns (l ++ l') = warns l ++ warns l'.
Proof. unfold warns. apply flat_map_app. Qed.
Lemma secs_app l l' : secs (l ++ l') = secs l ++ secs l'.
Proof. unfold secs. apply flat_map_app. Qed.
Lemma rubs_app l l' : rubs (l ++ l') = rubs l ++ rubs l'.
Proof. unfold rubs. apply flat_map_app. Qed.

Lemma warn_cond pl L : pl < L -> (pl <? L) && negb (pl + 1 =? L) = (1 <? L - pl).
Proof.
  intro H. destruct (pl <? L) eqn:E1; [|apply Nat.ltb_ge in E1; lia]. simpl.
  destruct (pl + 1 =? L) eqn:E2, (1 <? L - pl) eqn:E3; simpl; auto.
  - apply Nat.eqb_eq in E2. apply Nat.ltb_lt in E3. lia.
  - apply Nat.eqb_neq in E2. apply Nat.ltb_ge in E3. lia.
Qed.

Lemma heading_step ls s L : StInv ls s -> Forall (fun l => 1 <= l) ls -> 1 <= L ->
  exists s', render_heading L s = Ok s' /\ StInv (ls ++ [L]) s'.
Proof.
  intros (HI & Hcur & Hoff & Htr & Hnh & Hlog & Hw) Hge HL.
  destruct (parent_lookup ls (lvl s) L HI Hge HL) as (pl & r & p & Hmax & Hget & Hlt & Hp & Hr & Hpl).
  assert (Ep : parent_spec (ls ++ [L]) (length ls) = p).
  { eapply ParentSpec_unique; [apply parent_spec_sound | exact Hp]. }
  unfold render_heading. rewrite Hoff, Nat.add_0_r. cbn [troot set_nh cur]. rewrite Htr, Hcur. cbn [orb negb].
  unfold update_section_level_state. cbn [lvl set_nh cur]. rewrite Hmax. cbn [bind]. rewrite Hget. cbn [bind].
  rewrite (warn_cond pl L Hlt).
  assert (Hseq : seq 0 (length (ls ++ [L])) = seq 0 (length ls) ++ [length ls]).
  { rewrite app_length. simpl. rewrite Nat.add_1_r. rewrite seq_S. reflexivity. }
  assert (Hedge : exp_edge (ls ++ [L]) (length ls) = (r, ISec (length ls))).
  { unfold exp_edge. rewrite Ep, Hr. reflexivity. }
  assert (Hwarn : exp_warn (ls ++ [L]) (length ls) = if 1 <? L - pl then [(length ls, pl, L)] else []).
  { unfold exp_warn. rewrite Ep, Hpl, nth_error_snoc. reflexivity. }
  eexists. split; [reflexivity|].
  unfold StInv. rewrite Hnh.
  split; [| split; [| split; [| split; [| split; [| split]]]]].
  - destruct (1 <? L - pl); cbn; apply Inv_step; auto.
  - destruct (1 <? L - pl); reflexivity.
  - destruct (1 <? L - pl); cbn; auto.
  - destruct (1 <? L - pl); cbn; auto.
  - destruct (1 <? L - pl); cbn; rewrite app_length; simpl; lia.
  - rewrite Hseq, map_app. simpl. rewrite Hedge.
    rewrite (map_ext_in (exp_edge (ls ++ [L])) (exp_edge ls)).
    2:{ intros i Hi. apply in_seq in Hi. apply exp_edge_app. lia. }
    rewrite <- Hlog.
    destruct (1 <? L - pl); cbn; rewrite ?filter_app; cbn; rewrite ?app_nil_r; reflexivity.
  - rewrite Hseq, flat_map_app. simpl. rewrite Hwarn, app_nil_r.
    rewrite (flat_map_ext_in' (exp_warn (ls ++ [L])) (exp_warn ls)).
    2:{ intros i Hi. apply in_seq in Hi. apply exp_warn_app. lia. }
    rewrite <- Hw.
    destruct (1 <? L - pl); cbn; rewrite ?warns_app; cbn; rewrite ?app_nil_r; reflexivity.
Qed.

Lemma mfold_app {T S} (f : T -> S -> res S) a b s :
  mfold f (a ++ b) s = match mfold f a s with Ok s' => mfold f b s' | Raise e => Raise e end.
Proof.
  revert s. induction a as [|t a IH]; intro s; simpl; auto.
  destruct (f t s); auto.
Qed.

Lemma StInv_init : StInv [] init.
Proof.
  unfold StInv, init; simpl. repeat split; auto. apply Inv_init.
Qed.

Lemma run_levels_inv ls : Forall (fun l => 1 <= l) ls -> exists s, run_levels ls = Ok s /\ StInv ls s.
Proof.
  induction ls as [|L ls IH] using rev_ind; intro Hge.
  - exists init. split; [reflexivity | apply StInv_init].
  - apply Forall_app in Hge as [Hge HL]. inversion HL; subst.
    destruct (IH Hge) as (s & Hrun & HI).
    destruct (heading_step ls s L HI Hge) as (s' & Hs' & HI'); auto.
    exists s'. split; auto.
    unfold run_levels, render_document, render_tokens in *. rewrite map_app, mfold_app, Hrun. simpl.
    rewrite Hs'. reflexivity.
Qed.

(* C05_sections_refine_spec / C05_skip_warnings *)
Theorem sections_refine_spec ls : Forall (fun l => 1 <= l) ls ->
  exists s, run_levels ls = Ok s /\
    filter non_warn (log s) = map (exp_edge ls) (seq 0 (length ls)) /\
    (forall i, i < length ls -> ParentSpec ls i (parent_spec ls i)).
Proof.
  intro H. destruct (run_levels_inv ls H) as (s & Hr & HI).
  exists s. split; auto. split; [apply HI|]. intros. apply parent_spec_sound.
Qed.

Theorem skip_warnings ls : Forall (fun l => 1 <= l) ls ->
  exists s, run_levels ls = Ok s /\
    warns (log s) = flat_map (exp_warn ls) (seq 0 (length ls)) /\
    filter non_warn (log s) = map (exp_edge ls) (seq 0 (length ls)).
Proof.
  intro H. destruct (run_levels_inv ls H) as (s & Hr & HI).
  exists s. split; auto. split; apply HI.
Qed.

Lemma secs_of_edges ls n : secs (map (exp_edge ls) (seq 0 n)) = map (fun i => (pref (parent_spec ls i), i)) (seq 0 n).
Proof.
  generalize 0. induction n as [|n IH]; intro a; simpl; auto. rewrite IH. reflexivity.
Qed.

Lemma secs_filter_non_warn l : secs (filter non_warn l) = secs l.
Proof.
  unfold secs, non_warn, is_warn. induction l as [|[p x] l IH]; simpl; auto.
  destruct x; simpl; rewrite ?IH; auto.
Qed.

(* ================= arbitrary token trees ================= *)

Section TokInd.
  Variable P : tok -> Prop.
  Hypothesis HH : forall tag, P (THeading tag).
  Hypothesis HP : P TPara.
  Hypothesis HC : forall ts, Forall P ts -> P (TContainer ts).
  Hypothesis HD : forall mt ts, Forall P ts -> P (TDirective mt ts).
  Hypothesis HI : forall off ts, Forall P ts -> P (TInclude off ts).
  Fixpoint tok_ind' (t : tok) : P t :=
    let all := fix go (l : list tok) : Forall P l :=
      match l with
      | [] => Forall_nil P
      | x :: l' => Forall_cons x (tok_ind' x) (go l')
      end in
    match t with
    | THeading tag => HH tag
    | TPara => HP
    | TContainer ts => HC ts (all ts)
    | TDirective mt ts => HD mt ts (all ts)
    | TInclude off ts => HI off ts (all ts)
    end.
End TokInd.

Lemma nref_eqb_eq a b : nref_eqb a b = true <-> a = b.
Proof.
  destruct a, b; simpl; split; intro H; try discriminate; auto;
    try (apply Nat.eqb_eq in H; subst; auto); try (inversion H; subst; apply Nat.eqb_refl).
Qed.

Definition wf (s : st) : Prop := lm_ok (lvl s) /\ troot_fresh s.

Lemma wf_init : wf init.
Proof.
  split.
  - split; [constructor; constructor | exists []; reflexivity].
  - intros r H. discriminate.
Qed.

(* update_section_level_state on a well-formed map with a level >= 1: never raises *)
Lemma update_ok s i level : lm_ok (lvl s) -> 1 <= level ->
  exists s', update_section_level_state s i level = Ok s' /\ lm_ok (lvl s') /\
             troot s' = troot s /\ nc s' = nc s /\ cur s' = cur s /\ hoff s' = hoff s /\ nh s' = nh s.
Proof.
  intros Hok HL. destruct (parent_found (lvl s) level Hok HL) as (pl & r & Hmax & Hget & _).
  unfold update_section_level_state. rewrite Hmax. cbn [bind]. rewrite Hget. cbn [bind].
  eexists. split; [reflexivity|].
  destruct ((pl <? level) && negb (pl + 1 =? level)); cbn; repeat split; auto; apply lm_ok_step; auto.
Qed.

Lemma troot_fresh_mono s s' : troot_fresh s -> troot s' = troot s -> nc s <= nc s' -> troot_fresh s'.
Proof.
  intros H E Hle r Hr. rewrite E in Hr. destruct (H r Hr) as (k & -> & Hk). exists k. split; auto. lia.
Qed.

Lemma heading_wf tag s : 1 <= tag -> wf s ->
  exists s', render_heading tag s = Ok s' /\ wf s' /\ nc s <= nc s'.
Proof.
  intros Ht [Hok Hfr]. unfold render_heading.
  match goal with |- context [if ?b then _ else _] => destruct b end.
  - eexists. split; [reflexivity|]. split; [split|]; cbn; auto.
  - destruct (update_ok (set_nh s (S (nh s))) (nh s) (tag + hoff s)) as (s' & Hu & Hok' & Htr & Hnc & _); cbn; auto; try lia.
    rewrite Hu. cbn [bind]. eexists. split; [reflexivity|]. split; [split|]; cbn; auto.
    + apply (troot_fresh_mono s); auto. cbn. rewrite Hnc. cbn. lia.
    + rewrite Hnc. cbn. lia.
Qed.

Lemma mfold_wf ts :
  Forall (fun t => tags_ok t = true -> forall s, wf s -> exists s', render t s = Ok s' /\ wf s' /\ nc s <= nc s') ts ->
  forallb tags_ok ts = true -> forall s, wf s -> exists s', mfold render ts s = Ok s' /\ wf s' /\ nc s <= nc s'.
Proof.
  induction 1 as [|t ts Ht _ IH]; intros Hok s Hwf; simpl.
  - exists s. auto.
  - simpl in Hok. apply andb_true_iff in Hok as [Hok1 Hok2].
    destruct (Ht Hok1 s Hwf) as (s1 & H1 & Hwf1 & Hle1). rewrite H1.
    destruct (IH Hok2 s1 Hwf1) as (s2 & H2 & Hwf2 & Hle2). exists s2. repeat split; auto; try apply Hwf2. lia.
Qed.

(* C05_level_map_inv: for every token tree with tags >= 1, rendering from a well-formed state
   never raises and ends in a well-formed state *)
Lemma render_wf t : tags_ok t = true -> forall s, wf s ->
  exists s', render t s = Ok s' /\ wf s' /\ nc s <= nc s'.
Proof.
  induction t as [tag| |ts IH|mt ts IH|off ts IH] using tok_ind'; intros Hok s Hwf.
  - cbn [tags_ok] in Hok. apply Nat.leb_le in Hok. apply heading_wf; auto.
  - simpl. eexists. split; [reflexivity|]. split; [exact Hwf | cbn; lia].
  - simpl in Hok. cbn [render].
    set (s1 := set_cur (append (set_nc s (S (nc s))) (cur s) (ICont (nc s))) (Cont (nc s))).
    assert (Hwf1 : wf s1).
    { destruct Hwf as [H1 H2]. split; [exact H1|]. apply (troot_fresh_mono s); auto. cbn. lia. }
    destruct (mfold_wf ts IH Hok s1 Hwf1) as (s2 & H2 & Hwf2 & Hle). rewrite H2. cbn [bind].
    eexists. split; [reflexivity|]. split.
    + destruct Hwf2 as [A B]. split; [exact A|]. apply (troot_fresh_mono s2); auto.
    + cbn in *. lia.
  - simpl in Hok. cbn [render]. unfold nested_render_text.
    set (s0 := set_cur (set_nc s (S (nc s))) (Cont (nc s))).
    set (s2 := match (if mt then Some (Cont (nc s)) else None) with
               | Some r => set_troot (set_hoff s0 (hoff s0 + 0)) (Some r) | None => set_hoff s0 (hoff s0 + 0) end).
    assert (Hwf2 : wf s2).
    { destruct Hwf as [H1 H2]. subst s2 s0. destruct mt; split; cbn; auto.
      - intros r Hr. cbn in Hr. inversion Hr; subst. exists (nc s). split; auto.
      - apply (troot_fresh_mono s); auto. cbn. lia. }
    destruct (mfold_wf ts IH Hok s2 Hwf2) as (s3 & H3 & Hwf3 & Hle). rewrite H3. cbn [bind].
    assert (Hnc2 : nc s2 = S (nc s)) by (subst s2 s0; destruct mt; reflexivity).
    eexists. split; [reflexivity|]. destruct Hwf as [H1 H2]. destruct Hwf3 as [A B]. split; [split|].
    + destruct mt; cbn; auto.
    + destruct mt; cbn.
      * intros r Hr. cbn in Hr. destruct (H2 r Hr) as (k & -> & Hk). exists k. split; auto. cbn. lia.
      * intros r Hr. cbn in Hr. apply B in Hr. exact Hr.
    + destruct mt; cbn; lia.
  - simpl in Hok. cbn [render]. unfold nested_render_text.
    assert (Hwf2 : wf (set_hoff s (hoff s + off))) by (destruct Hwf; split; auto).
    destruct (mfold_wf ts IH Hok _ Hwf2) as (s3 & H3 & Hwf3 & Hle). rewrite H3. cbn [bind].
    eexists. split; [reflexivity|]. destruct Hwf3 as [A B]. split; [split|]; cbn in *; auto.
Qed.

Theorem level_map_inv ts : forallb tags_ok ts = true ->
  exists s, render_document ts = Ok s /\ lm_ok (lvl s).
Proof.
  intro Hok.
  assert (HF : Forall (fun t => tags_ok t = true -> forall s, wf s ->
                 exists s', render t s = Ok s' /\ wf s' /\ nc s <= nc s') ts).
  { apply Forall_forall. intros t _. apply render_wf. }
  destruct (mfold_wf ts HF Hok init wf_init) as (s & H & [Hwf _] & _).
  exists s. split; auto.
Qed.

(* ================= headings below a container ================= *)

(* numbering of consecutive headings *)
Definition number (a : nat) (l : list nat) : list (nat * nat) := combine (seq a (length l)) l.

Lemma number_app a l1 l2 : number a (l1 ++ l2) = number a l1 ++ number (a + length l1) l2.
Proof.
  unfold number. revert a. induction l1 as [|x l1 IH]; intro a; simpl.
  - rewrite Nat.add_0_r. reflexivity.
  - rewrite IH. rewrite Nat.add_succ_r. reflexivity.
Qed.

(* the current node is an element that is neither document, section nor the temp root *)
Definition nested_ctx (s : st) : Prop :=
  exists c, cur s = Cont c /\ troot s <> Some (Cont c) /\ troot_fresh s.

(* what rendering may change below a container: only the log grows, and only by
   non-section, non-warning entries; the rubrics record the levels *)
Definition frame (lv : list nat) (s s' : st) : Prop :=
  lvl s' = lvl s /\ cur s' = cur s /\ hoff s' = hoff s /\ troot s' = troot s /\ nc s <= nc s' /\
  secs (log s') = secs (log s) /\ warns (log s') = warns (log s) /\
  rubs (log s') = rubs (log s) ++ number (nh s) lv /\ nh s' = nh s + length lv.

Lemma mfold_frame ts :
  Forall (fun t => no_titles t = true -> forall s, nested_ctx s ->
            exists s', render t s = Ok s' /\ frame (heading_levels (hoff s) t) s s') ts ->
  forallb no_titles ts = true -> forall s, nested_ctx s ->
  exists s', mfold render ts s = Ok s' /\ frame (flat_map (heading_levels (hoff s)) ts) s s'.
Proof.
  induction 1 as [|t ts Ht _ IH]; intros Hok s Hctx; simpl.
  - exists s. split; auto. unfold frame, number. simpl. rewrite app_nil_r. repeat split; auto.
  - simpl in Hok. apply andb_true_iff in Hok as [Hok1 Hok2].
    destruct (Ht Hok1 s Hctx) as (s1 & H1 & F1). rewrite H1.
    destruct F1 as (A1 & A2 & A3 & A4 & A5 & A6 & A7 & A8 & A9).
    assert (Hctx1 : nested_ctx s1).
    { destruct Hctx as (c & C1 & C2 & C3). exists c. rewrite A2, A4. repeat split; auto.
      apply (troot_fresh_mono s); auto. }
    destruct (IH Hok2 s1 Hctx1) as (s2 & H2 & F2). exists s2. split; auto.
    destruct F2 as (B1 & B2 & B3 & B4 & B5 & B6 & B7 & B8 & B9). rewrite A3 in *.
    unfold frame. rewrite number_app, app_length. repeat split; try congruence; try lia.
    rewrite B8, A8, A9, app_assoc. reflexivity.
Qed.

Lemma render_frame t : no_titles t = true -> forall s, nested_ctx s ->
  exists s', render t s = Ok s' /\ frame (heading_levels (hoff s) t) s s'.
Proof.
  induction t as [tag| |ts IH|mt ts IH|off ts IH] using tok_ind'; intros Hok s Hctx.
  - destruct Hctx as (c & C1 & C2 & C3). cbn [render]. unfold render_heading. cbn [troot set_nh cur].
    rewrite C1.
    assert (E : match troot s with Some r => nref_eqb (Cont c) r | None => false end = false).
    { destruct (troot s) as [r|] eqn:Er; auto. destruct (nref_eqb (Cont c) r) eqn:E; auto.
      apply nref_eqb_eq in E. subst r. congruence. }
    rewrite E. cbn [orb negb is_doc_or_section].
    eexists. split; [reflexivity|]. unfold frame, number. cbn.
    rewrite secs_app, warns_app, rubs_app. cbn. rewrite !app_nil_r. repeat split; auto; lia.
  - cbn [render]. eexists. split; [reflexivity|]. unfold frame, number. cbn.
    rewrite secs_app, warns_app, rubs_app. cbn. rewrite !app_nil_r. repeat split; auto; lia.
  - cbn [no_titles] in Hok. cbn [render].
    set (s1 := set_cur (append (set_nc s (S (nc s))) (cur s) (ICont (nc s))) (Cont (nc s))).
    assert (Hctx1 : nested_ctx s1).
    { destruct Hctx as (c & C1 & C2 & C3). exists (nc s). subst s1. cbn. repeat split; auto.
      - intro Hr. destruct (C3 _ Hr) as (k & Ek & Hk). inversion Ek. lia.
      - apply (troot_fresh_mono s); auto. cbn. lia. }
    destruct (mfold_frame ts IH Hok s1 Hctx1) as (s2 & H2 & F2). rewrite H2. cbn [bind].
    eexists. split; [reflexivity|].
    destruct F2 as (B1 & B2 & B3 & B4 & B5 & B6 & B7 & B8 & B9). subst s1. cbn in *.
    rewrite secs_app, warns_app, rubs_app in *. cbn in *. rewrite !app_nil_r in *.
    unfold frame. cbn. repeat split; auto; lia.
  - cbn [no_titles] in Hok. apply andb_true_iff in Hok as [Hmt Hok]. destruct mt; [discriminate|].
    cbn [render]. unfold nested_render_text.
    set (s0 := set_cur (set_nc s (S (nc s))) (Cont (nc s))).
    set (s2 := set_hoff s0 (hoff s0 + 0)).
    assert (Hoff2 : hoff s2 = hoff s) by (subst s2 s0; cbn; lia).
    assert (Hctx2 : nested_ctx s2).
    { destruct Hctx as (c & C1 & C2 & C3). exists (nc s). subst s2 s0. cbn. repeat split; auto.
      - intro Hr. destruct (C3 _ Hr) as (k & Ek & Hk). inversion Ek. lia.
      - apply (troot_fresh_mono s); auto. cbn. lia. }
    destruct (mfold_frame ts IH Hok s2 Hctx2) as (s3 & H3 & F3). cbn [bind]. rewrite H3. cbn [bind].
    eexists. split; [reflexivity|]. rewrite Hoff2 in F3.
    destruct F3 as (B1 & B2 & B3 & B4 & B5 & B6 & B7 & B8 & B9). subst s2 s0. cbn in *.
    unfold frame. cbn. rewrite secs_app, warns_app, rubs_app. cbn. rewrite !app_nil_r.
    repeat split; auto; lia.
  - cbn [no_titles] in Hok. cbn [render]. unfold nested_render_text.
    assert (Hctx2 : nested_ctx (set_hoff s (hoff s + off))).
    { destruct Hctx as (c & C1 & C2 & C3). exists c. cbn. repeat split; auto. }
    destruct (mfold_frame ts IH Hok _ Hctx2) as (s3 & H3 & F3). cbn [bind]. rewrite H3. cbn [bind].
    eexists. split; [reflexivity|].
    destruct F3 as (B1 & B2 & B3 & B4 & B5 & B6 & B7 & B8 & B9). cbn in *.
    unfold frame. cbn. repeat split; auto.
Qed.

(* C05_nested_headings_are_rubrics *)
Theorem nested_headings_are_rubrics ts s : troot_fresh s -> forallb no_titles ts = true ->
  exists s', render (TContainer ts) s = Ok s' /\
    lvl s' = lvl s /\ cur s' = cur s /\ hoff s' = hoff s /\ troot s' = troot s /\
    secs (log s') = secs (log s) /\ warns (log s') = warns (log s) /\
    rubs (log s') = rubs (log s) ++ number (nh s) (flat_map (heading_levels (hoff s)) ts) /\
    nh s' = nh s + length (flat_map (heading_levels (hoff s)) ts).
Proof.
  intros Hfr Hok. cbn [render].
  set (s1 := set_cur (append (set_nc s (S (nc s))) (cur s) (ICont (nc s))) (Cont (nc s))).
  assert (Hctx1 : nested_ctx s1).
  { exists (nc s). subst s1. cbn. repeat split; auto.
    - intro Hr. destruct (Hfr _ Hr) as (k & Ek & Hk). inversion Ek. lia.
    - apply (troot_fresh_mono s); auto. cbn. lia. }
  assert (HF : Forall (fun t => no_titles t = true -> forall s, nested_ctx s ->
                 exists s', render t s = Ok s' /\ frame (heading_levels (hoff s) t) s s') ts).
  { apply Forall_forall. intros t _. apply render_frame. }
  destruct (mfold_frame ts HF Hok s1 Hctx1) as (s2 & H2 & F2). rewrite H2. cbn [bind].
  eexists. split; [reflexivity|].
  destruct F2 as (B1 & B2 & B3 & B4 & B5 & B6 & B7 & B8 & B9). subst s1. cbn in *.
  rewrite secs_app, warns_app, rubs_app in *. cbn in *. rewrite !app_nil_r in *.
  repeat split; auto.
Qed.

(* the same for the body of a directive that does not ask for titles (e.g. an admonition):
   the heading offset in force stays *)
Theorem directive_headings_are_rubrics ts s : troot_fresh s -> forallb no_titles ts = true ->
  exists s', render (TDirective false ts) s = Ok s' /\
    lvl s' = lvl s /\ cur s' = cur s /\ hoff s' = hoff s /\ troot s' = troot s /\
    secs (log s') = secs (log s) /\ warns (log s') = warns (log s) /\
    rubs (log s') = rubs (log s) ++ number (nh s) (flat_map (heading_levels (hoff s)) ts) /\
    nh s' = nh s + length (flat_map (heading_levels (hoff s)) ts).
Proof.
  intros Hfr Hok. cbn [render]. unfold nested_render_text.
  set (s0 := set_cur (set_nc s (S (nc s))) (Cont (nc s))).
  set (s2 := set_hoff s0 (hoff s0 + 0)).
  assert (Hoff2 : hoff s2 = hoff s) by (subst s2 s0; cbn; lia).
  assert (Hctx2 : nested_ctx s2).
  { exists (nc s). subst s2 s0. cbn. repeat split; auto.
    - intro Hr. destruct (Hfr _ Hr) as (k & Ek & Hk). inversion Ek. lia.
    - apply (troot_fresh_mono s); auto. cbn. lia. }
  assert (HF : Forall (fun t => no_titles t = true -> forall s, nested_ctx s ->
                 exists s', render t s = Ok s' /\ frame (heading_levels (hoff s) t) s s') ts).
  { apply Forall_forall. intros t _. apply render_frame. }
  destruct (mfold_frame ts HF Hok s2 Hctx2) as (s3 & H3 & F3). cbn [bind]. rewrite H3. cbn [bind].
  eexists. split; [reflexivity|]. rewrite Hoff2 in F3.
  destruct F3 as (B1 & B2 & B3 & B4 & B5 & B6 & B7 & B8 & B9). subst s2 s0. cbn in *.
  rewrite secs_app, warns_app, rubs_app. cbn. rewrite !app_nil_r.
  repeat split; auto.
Qed.

(* C05_restore_after_nested *)
Theorem nested_render_text_restores rend r off s s' :
  nested_render_text rend (Some r) off s = Ok s' ->
  lvl s' = lvl s /\ hoff s' = hoff s /\ troot s' = troot s.
Proof.
  unfold nested_render_text. destruct (rend _) as [s3|e]; cbn [bind]; intro H; [|discriminate].
  inversion H; subst. cbn. auto.
Qed.

Theorem nested_render_text_restores_offset rend off s s' :
  nested_render_text rend None off s = Ok s' -> hoff s' = hoff s.
Proof.
  unfold nested_render_text. destruct (rend _) as [s3|e]; cbn [bind]; intro H; [|discriminate].
  inversion H; subst. cbn. auto.
Qed.

Theorem directive_with_titles_restores ts s s' :
  render (TDirective true ts) s = Ok s' ->
  lvl s' = lvl s /\ hoff s' = hoff s /\ troot s' = troot s /\ cur s' = cur s.
Proof.
  cbn [render].
  destruct (nested_render_text _ _ _ _) as [s1|e] eqn:E; cbn [bind]; intro H; [|discriminate].
  apply nested_render_text_restores in E. inversion H; subst. cbn in *. tauto.
Qed.
