(* The generated Unicode tables meet the premises of the edge characterisation (SlugEdge.v):
   checked by computation over the finitely many white space characters. *)
From Coq Require Import List NArith Arith Bool.
From MV Require Import Base.PyStr Base.Res Sect.Slug Sect.SlugTables Sect.SlugProofs Sect.SlugEdge Gen.PyUnicodeSlug.
Import ListNotations.
Local Open Scope nat_scope.

Definition py_lower_char (c : N) : str :=
  match ltree_get lower_tree c with Some v => v | None => [c] end.

Lemma py_lower_is_charwise : py_lower = lower_cw py_lower_char.
Proof. reflexivity. Qed.

Definition space_check (c : N) : bool :=
  str_eqb (py_lower_char c) [c] && ((c =? 32)%N || negb (class_mem py_is_word render_class c)).

Lemma space_check_all : forallb space_check (rtree_elems space_tree) = true.
Proof. vm_compute. reflexivity. Qed.

Lemma py_space_check c : py_is_space c = true -> space_check c = true.
Proof.
  intro H. apply rtree_mem_in in H.
  pose proof space_check_all as A. rewrite forallb_forall in A. auto.
Qed.

Lemma py_H_lower c : py_is_space c = true -> py_lower_char c = [c].
Proof.
  intro H. apply py_space_check in H. unfold space_check in H.
  apply andb_true_iff in H as [H _]. apply str_eqb_eq in H. exact H.
Qed.

Lemma py_H_clean c : py_is_space c = true -> c <> 32%N -> class_mem py_is_word render_class c = false.
Proof.
  intros H Hc. apply py_space_check in H. unfold space_check in H.
  apply andb_true_iff in H as [_ H]. apply orb_true_iff in H as [H|H].
  - apply N.eqb_eq in H. contradiction.
  - apply negb_true_iff in H. exact H.
Qed.

Lemma py_H_hyphen : class_mem py_is_word render_class 45%N = true.
Proof. vm_compute. reflexivity. Qed.

(* the title has no U+0020 in the white space that strip() removes at either end *)
Definition edge_space_free (h : heading) : Prop :=
  ~ In 32%N (lead py_is_space (inline_title (h_children h))) /\
  ~ In 32%N (trail py_is_space (inline_title (h_children h))).

Lemma py_edge_decomposition t :
  default_slugify py_lower py_is_word render_class t =
  repeat 45%N (count32 (lead py_is_space t)) ++
  plugin_slugify py_lower py_is_space py_is_word render_class t ++
  repeat 45%N (count32 (trail py_is_space t)).
Proof. exact (edge_decomposition py_lower_char py_is_space py_is_word render_class py_H_lower py_H_clean py_H_hyphen t). Qed.

Lemma py_agree_iff t :
  default_slugify py_lower py_is_word render_class t =
  plugin_slugify py_lower py_is_space py_is_word render_class t <->
  (~ In 32%N (lead py_is_space t) /\ ~ In 32%N (trail py_is_space t)).
Proof. exact (slug_agree_iff py_lower_char py_is_space py_is_word render_class py_H_lower py_H_clean py_H_hyphen t). Qed.

Theorem py_matches_cli depth hs : Forall (fun h => 1 <= h_level h) hs -> Forall edge_space_free hs ->
  print_anchors depth (pf py_lower py_is_space py_is_word render_class) hs =
  Ok (rendered_anchors hs (fst (render_slugs depth (rf py_lower py_is_word render_class) hs))).
Proof.
  intros Hge He. apply matches_cli_agree; auto.
  rewrite Forall_forall in *. intros h Hh. unfold agree, pf. symmetry. apply py_agree_iff. apply He. exact Hh.
Qed.
