(* Specification of section nesting, written independently of the level-map machine:
   the parent of heading i in a sequence of levels ls. *)
From Coq Require Import List Arith Bool Lia.
From MV Require Import Sect.Sections.
Import ListNotations.

(* heading j is still open just before heading i: no heading strictly between them
   has a level <= the level of j *)
Definition still_open (ls : list nat) (j i : nat) : Prop :=
  forall k lj lk, j < k < i -> nth_error ls j = Some lj -> nth_error ls k = Some lk -> lj < lk.

(* heading j has a lower level than heading i *)
Definition lower (ls : list nat) (j i : nat) : Prop :=
  exists lj li, nth_error ls j = Some lj /\ nth_error ls i = Some li /\ lj < li.

(* j is a preceding, still open heading of lower level *)
Definition cand (ls : list nat) (i j : nat) : Prop :=
  j < i /\ lower ls j i /\ still_open ls j i.

(* "the closest preceding still-open heading of lower level (or the document)" *)
Definition ParentSpec (ls : list nat) (i : nat) (p : option nat) : Prop :=
  match p with
  | Some j => cand ls i j /\ (forall j', cand ls i j' -> j' <= j)
  | None => forall j, ~ cand ls i j
  end.

(* the same, as a function (backward scan) *)
Definition lowerb (ls : list nat) (j i : nat) : bool :=
  match nth_error ls j, nth_error ls i with
  | Some a, Some b => a <? b
  | _, _ => false
  end.

Definition openb (ls : list nat) (j i : nat) : bool :=
  forallb (fun k => match nth_error ls j, nth_error ls k with
                    | Some a, Some b => a <? b
                    | _, _ => true
                    end) (seq (S j) (i - S j)).

Fixpoint last_below (f : nat -> bool) (i : nat) : option nat :=
  match i with
  | O => None
  | S j => if f j then Some j else last_below f j
  end.

Definition parent_spec (ls : list nat) (i : nat) : option nat :=
  last_below (fun j => lowerb ls j i && openb ls j i) i.

Definition pref (p : option nat) : nref :=
  match p with Some j => Sec j | None => Doc end.

(* level of the parent: 0 for the document *)
Definition plevel (ls : list nat) (p : option nat) : option nat :=
  match p with Some j => nth_error ls j | None => Some 0 end.

(* the doctree edge expected for heading i, and the warning expected for it:
   exactly when its level exceeds its parent's level by more than one *)
Definition exp_edge (ls : list nat) (i : nat) : entry := (pref (parent_spec ls i), ISec i).

Definition exp_warn (ls : list nat) (i : nat) : list (nat * nat * nat) :=
  match nth_error ls i, plevel ls (parent_spec ls i) with
  | Some l, Some pl => if 1 <? l - pl then [(i, pl, l)] else []
  | _, _ => []
  end.

(* levels of the headings inside a token (in render order), given the heading offset in
   force: a directive body keeps it, an include adds its own offset *)
Fixpoint heading_levels (off : nat) (t : tok) : list nat :=
  match t with
  | THeading tag => [tag + off]
  | TPara => []
  | TContainer ts => flat_map (heading_levels off) ts
  | TDirective _ ts => flat_map (heading_levels off) ts
  | TInclude o ts => flat_map (heading_levels (off + o)) ts
  end.

(* no directive in the token asks for match_titles *)
Fixpoint no_titles (t : tok) : bool :=
  match t with
  | THeading _ | TPara => true
  | TContainer ts => forallb no_titles ts
  | TDirective mt ts => negb mt && forallb no_titles ts
  | TInclude _ ts => forallb no_titles ts
  end.

(* every heading tag is at least 1 (h1..h6) *)
Fixpoint tags_ok (t : tok) : bool :=
  match t with
  | THeading tag => 1 <=? tag
  | TPara => true
  | TContainer ts | TDirective _ ts | TInclude _ ts => forallb tags_ok ts
  end.

(* the level map is well formed: level 0 (the document) first, keys strictly increasing *)
Inductive sorted_keys : lmap -> Prop :=
| sk_nil : sorted_keys []
| sk_cons : forall k v m, sorted_keys m -> Forall (fun e => k < fst e) m -> sorted_keys ((k, v) :: m).

Definition lm_ok (m : lmap) : Prop :=
  sorted_keys m /\ exists m', m = (0, Doc) :: m'.

(* the temp root, when set, is a container node that already exists *)
Definition troot_fresh (s : st) : Prop :=
  forall r, troot s = Some r -> exists k, r = Cont k /\ k < nc s.
