(* C10 resolvability: composition of the slug assignment (Slug.v) with the model of
   ResolveAnchorIds.apply of the C09 builder (Refs/Anchors.v), and distinctness of section ids. *)
From Coq Require Import List NArith Arith Bool Lia FinFun.
From MV Require Import Base.PyStr Base.Res Refs.RUtil Refs.RUtilProofs Refs.Anchors Refs.AnchorsProofs
                       Sect.Slug Sect.SlugProofs Sect.SlugIds.
Import ListNotations.
Local Open Scope nat_scope.

Lemma str_eqb_sym a b : str_eqb a b = str_eqb b a.
Proof.
  destruct (str_eqb a b) eqn:E.
  - apply str_eqb_eq in E. subst. symmetry. apply str_eqb_refl.
  - symmetry. apply str_eqb_neq. apply str_eqb_neq in E. congruence.
Qed.

(* glue: the C09 dictionary lookup on the stored table = the lookup of Slug.v *)
Lemma dget_slugs_of line sid title d s :
  dget (slugs_of line sid title d) s =
  option_map (fun k => (line k, sid k, title k)) (sdict_get d s).
Proof.
  induction d as [|[k v] d IH]; simpl; auto.
  rewrite (str_eqb_sym s k). destruct (str_eqb k s); auto.
Qed.

(* C10_resolvable *)
Theorem resolvable nl sphinx suppressed slug_hash depth f hs line sid title ex k r rf :
  nth_error (fst (render_slugs depth f hs)) k = Some (SlugOk r) ->
  dget ex r = None ->                       (* no explicit target of the same name *)
  r_frag rf = r ->
  let o := resolve_one nl sphinx suppressed slug_hash ex
             (slugs_of line sid title (snd (render_slugs depth f hs))) rf in
  o_refid o = Some (sid k) /\ o_warn o = [] /\ o_pending o = false /\ o_msg o = false.
Proof.
  intros Hk Hex Hr.
  pose proof (resolvable_model depth f hs k r Hk) as Hget.
  destruct (resolution_order nl sphinx suppressed slug_hash ex
              (slugs_of line sid title (snd (render_slugs depth f hs))) rf) as [_ H2].
  apply (H2 (line k) (sid k) (title k)).
  - rewrite Hr. exact Hex.
  - rewrite Hr, dget_slugs_of, Hget. reflexivity.
Qed.

(* ================= set_id gives fresh ids ================= *)

Lemma first_free_spec f ids : forall fuel n r n',
  first_free fuel f n ids = Ok (r, n') -> r = f n' /\ ~ In r ids /\ (n <= n')%N.
Proof.
  induction fuel as [|fu IH]; intros n r n' H; [discriminate|].
  cbn [first_free] in H. destruct (mem_str (f n) ids) eqn:E.
  - apply IH in H as (H1 & H2 & H3). repeat split; auto. lia.
  - inversion H; subst. repeat split; auto; try lia.
    intro Hin. apply mem_str_In in Hin. congruence.
Qed.

Lemma first_free_exn f ids : forall fuel n e, first_free fuel f n ids = Raise e -> e = OutOfFuel.
Proof.
  induction fuel as [|fu IH]; intros n e H; cbn [first_free] in H.
  - inversion H. reflexivity.
  - destruct (mem_str (f n) ids); [eauto | discriminate].
Qed.

Lemma first_free_fuel f ids (Hinj : Injective f) : forall fuel n0 k,
  (forall j, j < k -> In (f (n0 + N.of_nat j)%N) ids) -> length ids < fuel + k ->
  first_free fuel f (n0 + N.of_nat k)%N ids <> Raise OutOfFuel.
Proof.
  induction fuel as [|fu IH]; intros n0 k Ht Hlen.
  - exfalso.
    assert (Hnd : NoDup (map (fun j => f (n0 + N.of_nat j)%N) (seq 0 k))).
    { apply Injective_map_NoDup; [|apply seq_NoDup].
      intros a b Hab. apply Hinj in Hab. lia. }
    assert (Hincl : incl (map (fun j => f (n0 + N.of_nat j)%N) (seq 0 k)) ids).
    { intros x Hx. apply in_map_iff in Hx as (j & <- & Hj). apply in_seq in Hj. apply Ht. lia. }
    pose proof (NoDup_incl_length Hnd Hincl) as Hl. rewrite map_length, seq_length in Hl. simpl in Hlen. lia.
  - cbn [first_free]. destruct (mem_str (f (n0 + N.of_nat k)%N) ids) eqn:E; [|discriminate].
    apply mem_str_In in E.
    replace (N.succ (n0 + N.of_nat k)) with (n0 + N.of_nat (S k))%N by lia.
    apply IH; [|lia].
    intros j Hj. destruct (Nat.eq_dec j k); [subst; auto | apply Ht; lia].
Qed.

Lemma prefix_show_inj prefix : Injective (fun n => prefix ++ show n).
Proof. intros a b H. apply app_inv_head in H. apply show_inj in H. exact H. Qed.

(* set_id terminates and returns an id that is not in use *)
Theorem set_id_fresh base_id tag_id ids counters :
  exists id counters', set_id base_id tag_id ids counters = Ok (id, counters') /\ ~ In id ids.
Proof.
  unfold set_id. destruct (nonempty_s base_id && negb (mem_str base_id ids)) eqn:E.
  - apply andb_true_iff in E as [_ E]. apply negb_true_iff in E.
    exists base_id, counters. split; auto. intro Hin. apply mem_str_In in Hin. congruence.
  - set (prefix := (if nonempty_s base_id then base_id else tag_id) ++ [45%N]).
    set (c := match dget counters prefix with Some c => c | None => 0%N end).
    destruct (first_free (S (length ids)) (fun n => prefix ++ show n) (N.succ c) ids) as [[id n]|e] eqn:F.
    + apply first_free_spec in F as (_ & Hf & _). eauto.
    + exfalso. pose proof (first_free_exn _ _ _ _ _ F) as ->. revert F.
      replace (N.succ c) with (N.succ c + N.of_nat 0)%N by lia.
      apply first_free_fuel; [apply prefix_show_inj | intros; lia | simpl; lia].
Qed.

(* distinct sections get distinct ids (and none of the ids already in the document) *)
Theorem assign_ids_distinct : forall nodes ids counters,
  exists l, assign_ids nodes ids counters = Ok l /\ length l = length nodes /\
            NoDup l /\ forall x, In x l -> ~ In x ids.
Proof.
  induction nodes as [|[b t] nodes IH]; intros ids counters; cbn [assign_ids].
  - exists []. repeat split; auto. constructor.
  - destruct (set_id_fresh b t ids counters) as (id & cs' & Hs & Hf). rewrite Hs.
    destruct (IH (ids ++ [id]) cs') as (l & Hl & Hlen & Hnd & Hdis). rewrite Hl.
    exists (id :: l). repeat split; auto.
    + simpl. congruence.
    + constructor; auto. intro Hin. apply (Hdis id Hin). apply in_or_app. right. left. reflexivity.
    + intros x [Hx|Hx]; [subst; auto|]. intro Hin. apply (Hdis x Hx). apply in_or_app. left. exact Hin.
Qed.
