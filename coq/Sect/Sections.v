(* Model of the section machinery of myst_parser/mdit_to_docutils/base.py:
   setup_render (_level_to_section, _heading_offset), update_section_level_state,
   render_heading (section / rubric branch), current_node_context, nested_render_text
   (with its _restore of heading offset, temp root and level map) and the callers that
   matter for headings: container tokens (block_quote, list_item, ...), directives whose
   run() calls state.nested_parse (MockState.nested_parse) and MockIncludeDirective
   (heading-offset).  Executable definitions only; proofs are in SectionsProofs.v.

   The doctree is represented by the chronological log of `parent.append(child)` calls:
   an entry (p, x) says that x was appended to node p.  Per parent the order of its
   entries is the order of its children. *)
From Coq Require Import List Arith Bool.
From MV Require Import Base.Res.
Import ListNotations.

(* a docutils node that can be `current_node` / a value of _level_to_section *)
Inductive nref : Type :=
| Doc                   (* the document *)
| Sec (i : nat)         (* nodes.section created for heading number i *)
| Cont (c : nat).       (* any other element (block_quote, list_item, admonition, ...) number c *)

Definition nref_eqb (a b : nref) : bool :=
  match a, b with
  | Doc, Doc => true
  | Sec i, Sec j => i =? j
  | Cont i, Cont j => i =? j
  | _, _ => false
  end.

Inductive item : Type :=
| ISec (i : nat)                (* the section of heading i *)
| IRub (i level : nat)          (* nodes.rubric(level=level) of heading i *)
| IPara                         (* some other block node *)
| ICont (c : nat)               (* container node c *)
| IWarn (i pl level : nat).     (* system_message [myst.header] for heading i: parent level pl, level *)

Definition entry : Type := (nref * item)%type.

(* self._level_to_section : dict[int, node], in insertion order *)
Definition lmap : Type := list (nat * nref).

Fixpoint dict_get (m : lmap) (k : nat) : res nref :=
  match m with
  | [] => Raise KeyError
  | (k', v) :: m' => if k' =? k then Ok v else dict_get m' k
  end.

(* d[k] = v : an existing key keeps its position, a new key goes to the end *)
Fixpoint dict_set (m : lmap) (k : nat) (v : nref) : lmap :=
  match m with
  | [] => [(k, v)]
  | (k', v') :: m' => if k' =? k then (k', v) :: m' else (k', v') :: dict_set m' k v
  end.

(* max(iterable): ValueError on an empty iterable *)
Definition py_max (l : list nat) : res nat :=
  match l with
  | [] => Raise ValueError
  | x :: l' => Ok (fold_left Nat.max l' x)
  end.

Record st : Type := mkst {
  cur : nref;             (* self.current_node *)
  lvl : lmap;             (* self._level_to_section *)
  hoff : nat;             (* self._heading_offset *)
  troot : option nref;    (* self.md_env.get("temp_root_node") *)
  log : list entry;       (* the doctree, as the sequence of append calls *)
  nh : nat;               (* number of headings rendered so far (identity of the next one) *)
  nc : nat                (* number of container nodes allocated so far *)
}.

Definition set_cur (s : st) (x : nref) : st := mkst x (lvl s) (hoff s) (troot s) (log s) (nh s) (nc s).
Definition set_lvl (s : st) (x : lmap) : st := mkst (cur s) x (hoff s) (troot s) (log s) (nh s) (nc s).
Definition set_hoff (s : st) (x : nat) : st := mkst (cur s) (lvl s) x (troot s) (log s) (nh s) (nc s).
Definition set_troot (s : st) (x : option nref) : st := mkst (cur s) (lvl s) (hoff s) x (log s) (nh s) (nc s).
Definition set_nh (s : st) (x : nat) : st := mkst (cur s) (lvl s) (hoff s) (troot s) (log s) x (nc s).
Definition set_nc (s : st) (x : nat) : st := mkst (cur s) (lvl s) (hoff s) (troot s) (log s) (nh s) x.
(* p.append(x) *)
Definition append (s : st) (p : nref) (x : item) : st :=
  mkst (cur s) (lvl s) (hoff s) (troot s) (log s ++ [(p, x)]) (nh s) (nc s).

(* setup_render *)
Definition init : st := mkst Doc [(0, Doc)] 0 None [] 0 0.

(* update_section_level_state(section, level) *)
Definition update_section_level_state (s : st) (section : nat) (level : nat) : res st :=
  (* parent_level = max(sl for sl in self._level_to_section if level > sl) *)
  do parent_level <- py_max (filter (fun sl => sl <? level) (map fst (lvl s)));
  do parent <- dict_get (lvl s) parent_level;
  (* if (level > parent_level) and (parent_level + 1 != level): create_warning(append_to=current_node) *)
  let s1 := if (parent_level <? level) && negb (parent_level + 1 =? level)
            then append s (cur s) (IWarn section parent_level level) else s in
  (* parent.append(section) *)
  let s2 := append s1 parent (ISec section) in
  (* self._level_to_section[level] = section *)
  let m1 := dict_set (lvl s2) level (Sec section) in
  (* keep the entries with section_level <= level *)
  Ok (set_lvl s2 (filter (fun e => fst e <=? level) m1)).

Definition is_doc_or_section (n : nref) : bool :=
  match n with Doc | Sec _ => true | Cont _ => false end.

(* render_heading; [tag] is int(token.tag[1]) *)
Definition render_heading (tag : nat) (s0 : st) : res st :=
  let level := tag + hoff s0 in
  let i := nh s0 in
  let s := set_nh s0 (S i) in
  let parent_of_temp_root :=
    match troot s with Some r => nref_eqb (cur s) r | None => false end in
  if negb (parent_of_temp_root || is_doc_or_section (cur s)) then
    (* rubric = nodes.rubric(..., level=level); current_node_context(rubric, append=True) restores
       current_node after the inline children; nothing else is touched *)
    Ok (append s (cur s) (IRub i level))
  else
    do s' <- update_section_level_state s i level;
    (* self.current_node = new_section  (permanent) *)
    Ok (set_cur s' (Sec i)).

(* block tokens, as far as headings are concerned *)
Inductive tok : Type :=
| THeading (tag : nat)
| TPara                                            (* a leaf block: appends one node *)
| TContainer (children : list tok)                 (* current_node_context(node, append=True); render_children *)
| TDirective (match_titles : bool) (children : list tok)   (* run() calls state.nested_parse(content, _, node, match_titles) *)
| TInclude (offset : nat) (children : list tok).   (* {include} with :heading-offset: *)

(* the `for child in ...: render(child)` loops *)
Definition mfold {T S : Type} (f : T -> S -> res S) : list T -> S -> res S :=
  fix go (ts : list T) (s : S) : res S :=
    match ts with
    | [] => Ok s
    | t :: ts' => match f t s with Ok s' => go ts' s' | Raise e => Raise e end
    end.

(* nested_render_text(text, lineno, temp_root_node, heading_offset): [rend] renders the parsed tokens.
   The restore is not in a try/finally: an exception propagates without it. *)
Definition nested_render_text (rend : st -> res st) (temp_root_node : option nref)
           (heading_offset : nat) (s : st) : res st :=
  let current_heading_offset := hoff s in
  let current_level_to_section := lvl s in
  let current_root_node := troot s in
  (* self._heading_offset = current_heading_offset + heading_offset  (offsets accumulate, fix: commit) *)
  let s1 := set_hoff s (current_heading_offset + heading_offset) in
  let s2 := match temp_root_node with Some r => set_troot s1 (Some r) | None => s1 end in
  do s3 <- rend s2;
  let s4 := set_hoff s3 current_heading_offset in
  Ok (match temp_root_node with
      | Some _ => set_lvl (set_troot s4 current_root_node) current_level_to_section
      | None => s4
      end).

Fixpoint render (t : tok) (s : st) {struct t} : res st :=
  match t with
  | TPara => Ok (append s (cur s) IPara)
  | THeading tag => render_heading tag s
  | TContainer ts =>
      let c := nc s in
      let saved := cur s in
      let s1 := set_cur (append (set_nc s (S c)) (cur s) (ICont c)) (Cont c) in
      do s2 <- mfold render ts s1;
      Ok (set_cur s2 saved)
  | TDirective mt ts =>
      (* the directive creates its node, MockState.nested_parse: current_node_context(node) around
         nested_render_text(..., temp_root_node = node if match_titles else None) with the default
         heading_offset 0 (the offset in force stays); the returned nodes are appended to current_node afterwards *)
      let c := nc s in
      let s0 := set_nc s (S c) in
      let saved := cur s0 in
      do s1 <- nested_render_text (mfold render ts) (if mt then Some (Cont c) else None) 0
                                  (set_cur s0 (Cont c));
      let s2 := set_cur s1 saved in
      Ok (append s2 (cur s2) (ICont c))
  | TInclude off ts =>
      (* MockIncludeDirective.run: nested_render_text(file_content, ..., heading_offset=off) at the
         current node, no temp root; returns []; the offset is added to the one in force *)
      nested_render_text (mfold render ts) None off s
  end.

Definition render_tokens (ts : list tok) (s : st) : res st := mfold render ts s.

(* DocutilsRenderer.render: setup_render + _render_tokens *)
Definition render_document (ts : list tok) : res st := render_tokens ts init.

(* a document that consists of headings only *)
Definition run_levels (ls : list nat) : res st := render_document (map THeading ls).

(* ---- observations on the log ---- *)
Definition secs (l : list entry) : list (nref * nat) :=
  flat_map (fun e => match snd e with ISec i => [(fst e, i)] | _ => [] end) l.
Definition rubs (l : list entry) : list (nat * nat) :=
  flat_map (fun e => match snd e with IRub i lv => [(i, lv)] | _ => [] end) l.
Definition warns (l : list entry) : list (nat * nat * nat) :=
  flat_map (fun e => match snd e with IWarn i pl lv => [(i, pl, lv)] | _ => [] end) l.
Definition is_warn (e : entry) : bool := match snd e with IWarn _ _ _ => true | _ => false end.
