(* Round 3: the definitions regenerated from the sources (Gen/SlugSrc.v) equal the hand-written model
   (Sect/Slug.v).  These are the proof obligations that an edit of default_slugify / compute_unique_slug
   (base.py) or slugify / unique_slug (anchors plug-in) breaks. *)
From Coq Require Import List NArith Arith Bool Lia.
From MV Require Import Base.PyStr Base.Res Sect.Slug Sect.SlugTables Sect.SlugSrcLib Sect.SlugProofs
                       Gen.PyUnicodeSlug Gen.SlugSrc.
Import ListNotations.
Local Open Scope nat_scope.

Lemma default_slugify_src_eq lower is_word t :
  default_slugify_src lower is_word t = default_slugify lower is_word render_class t.
Proof. reflexivity. Qed.

Lemma plugin_slugify_src_eq lower is_space is_word t :
  plugin_slugify_src lower is_space is_word t = plugin_slugify lower is_space is_word plugin_class t.
Proof. reflexivity. Qed.

Lemma title_src_eq children :
  flat_map (fun child : ttype * str => if type_in (fst child) [TText; TCodeInline] then snd child else []) children =
  inline_title children.
Proof.
  unfold inline_title. apply flat_map_ext. intros [ty c]. destruct ty; reflexivity.
Qed.

(* the generated loops, in normal form: parameter [step] is what the loop body assigns to the slug *)
Section Loop.
  Variable slugs : list str.
  Variable base : str.
  Variable loop : nat -> str * N -> res (str * N).
  Hypothesis loop_spec : forall fuel st,
    loop fuel st =
    match fuel with
    | O => Raise OutOfFuel
    | S f => let '(slug, i) := st in
             if mem_str slug slugs then loop f (base ++ [45%N] ++ show i, (i + 1)%N) else Ok st
    end.

  Lemma loop_eq : forall fuel slug i,
    match loop fuel (slug, i) with Raise e => Raise e | Ok st => Ok (fst st) end =
    render_loop fuel base slug i slugs.
  Proof.
    induction fuel as [|f IH]; intros slug i; rewrite loop_spec; cbn [render_loop]; [reflexivity|].
    destruct (mem_str slug slugs); [|reflexivity].
    rewrite N.add_1_r. apply IH.
  Qed.
End Loop.

Definition gen_loop (slugs : list str) (base : str) : nat -> str * N -> res (str * N) :=
  fix __loop (__fuel : nat) (__st : str * N) {struct __fuel} : res (str * N) :=
    match __fuel with
    | O => Raise OutOfFuel
    | S __f => let '(slug, i) := __st in
               if mem_str slug slugs then __loop __f (base ++ [45%N] ++ show i, (i + 1)%N) else Ok __st
    end.

Lemma gen_loop_eq slugs base fuel slug i :
  match gen_loop slugs base fuel (slug, i) with Raise e => Raise e | Ok st => Ok (fst st) end =
  render_loop fuel base slug i slugs.
Proof.
  apply (loop_eq slugs base (gen_loop slugs base)). intros f st. destruct f; reflexivity.
Qed.

Theorem compute_unique_slug_src_eq default children slugs sf :
  compute_unique_slug_src default children slugs sf =
  compute_unique_slug (match sf with None => default | Some f => f end) children slugs.
Proof.
  unfold compute_unique_slug_src, compute_unique_slug. rewrite title_src_eq.
  destruct ((match sf with None => default | Some f => f end) (inline_title children)) as [base|e]; cbn [bind]; [|reflexivity].
  unfold render_unique. rewrite <- gen_loop_eq.
  change (match gen_loop slugs base (S (length slugs)) (base, 1%N) with
          | Raise e => Raise e | Ok st => let '(slug, _) := st in Ok slug end =
          match gen_loop slugs base (S (length slugs)) (base, 1%N) with
          | Raise e => Raise e | Ok st => Ok (fst st) end).
  destruct (gen_loop slugs base (S (length slugs)) (base, 1%N)) as [[s i]|e]; reflexivity.
Qed.

Theorem unique_slug_src_eq slug slugs :
  unique_slug_src slug slugs =
  match plugin_unique slug slugs with Raise e => Raise e | Ok u => Ok (u, u :: slugs) end.
Proof.
  unfold unique_slug_src. rewrite plugin_unique_eq. unfold render_unique. rewrite <- gen_loop_eq.
  change (match gen_loop slugs slug (S (length slugs)) (slug, 1%N) with
          | Raise e => Raise e | Ok st => let '(uniq, _) := st in Ok (uniq, uniq :: slugs) end =
          match match gen_loop slugs slug (S (length slugs)) (slug, 1%N) with
                | Raise e => Raise e | Ok st => Ok (fst st) end with
          | Raise e => Raise e | Ok u => Ok (u, u :: slugs) end).
  destruct (gen_loop slugs slug (S (length slugs)) (slug, 1%N)) as [[s i]|e]; reflexivity.
Qed.

(* ---------- the document loop over the regenerated compute_unique_slug ---------- *)

Definition heading_target_with (cu : list (ttype * str) -> list str -> res str)
           (depth : nat) (h : heading) (i : nat) (d : sdict) : slug_out * sdict :=
  if depth <? h_level h then (SlugNone, d)
  else match cu (h_children h) (map fst d) with
       | Raise _ => (SlugWarn, d)
       | Ok s => (SlugOk s, sdict_set d s i)
       end.

Fixpoint render_from_with (cu : list (ttype * str) -> list str -> res str)
         (depth : nat) (hs : list heading) (i : nat) (d : sdict) : list slug_out * sdict :=
  match hs with
  | [] => ([], d)
  | h :: hs' =>
      let '(o, d1) := heading_target_with cu depth h i d in
      let '(os, d2) := render_from_with cu depth hs' (S i) d1 in
      (o :: os, d2)
  end.

(* generate_heading_target's slug part around the regenerated compute_unique_slug;
   [sf] = md_config.heading_slug_func (None = default) *)
Definition render_slugs_src (depth : nat) (default : str -> res str) (sf : option (str -> res str))
           (hs : list heading) : list slug_out * sdict :=
  render_from_with (fun ch sl => compute_unique_slug_src default ch sl sf) depth hs 0 [].

Definition sel (default : str -> res str) (sf : option (str -> res str)) : str -> res str :=
  match sf with None => default | Some f => f end.

Lemma render_from_with_eq cu f depth : (forall ch sl, cu ch sl = compute_unique_slug f ch sl) ->
  forall hs i d, render_from_with cu depth hs i d = render_from depth f hs i d.
Proof.
  intro H. induction hs as [|h hs IH]; intros i d; cbn [render_from_with render_from]; [reflexivity|].
  unfold heading_target_with, heading_target. rewrite H.
  destruct (depth <? h_level h).
  - rewrite IH. reflexivity.
  - destruct (compute_unique_slug f (h_children h) (map fst d)); rewrite IH; reflexivity.
Qed.

Theorem render_slugs_src_eq depth default sf hs :
  render_slugs_src depth default sf hs = render_slugs depth (sel default sf) hs.
Proof.
  unfold render_slugs_src, render_slugs. apply render_from_with_eq.
  intros ch sl. apply compute_unique_slug_src_eq.
Qed.

(* C10_suffix_rule_src *)
Theorem suffix_rule_src default children slugs sf base :
  sel default sf (inline_title children) = Ok base ->
  exists r, compute_unique_slug_src default children slugs sf = Ok r /\ SuffixRule base slugs r.
Proof.
  intro Hb. rewrite compute_unique_slug_src_eq. unfold compute_unique_slug. fold (sel default sf). rewrite Hb. cbn [bind].
  apply render_unique_ok.
Qed.

(* a raising slug function propagates (generate_heading_target turns it into the warning) *)
Theorem slug_func_raises_src default children slugs sf e :
  sel default sf (inline_title children) = Raise e ->
  compute_unique_slug_src default children slugs sf = Raise e.
Proof.
  intro Hb. rewrite compute_unique_slug_src_eq. unfold compute_unique_slug. fold (sel default sf). rewrite Hb. reflexivity.
Qed.

(* C10_slugs_nodup_src / C10_document_rule_src *)
Theorem slugs_nodup_src depth default sf hs : NoDup (assigned (fst (render_slugs_src depth default sf hs))).
Proof. rewrite render_slugs_src_eq. apply slugs_nodup. Qed.

Theorem document_rule_src depth default sf hs :
  SeqRule depth (sel default sf) [] hs (fst (render_slugs_src depth default sf hs)).
Proof. rewrite render_slugs_src_eq. apply render_slugs_rule. Qed.

(* the plug-in's regenerated unique_slug: least-suffix result, added to the set *)
Theorem unique_slug_src_rule slug slugs :
  exists u, unique_slug_src slug slugs = Ok (u, u :: slugs) /\ SuffixRule slug slugs u.
Proof.
  rewrite unique_slug_src_eq. destruct (plugin_unique_ok slug slugs) as (u & Hu & Hr). rewrite Hu. eauto.
Qed.
