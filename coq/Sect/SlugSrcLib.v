(* Library functions the regenerated code of Gen/SlugSrc.v refers to (domain mapping of gen/c10_src.py). *)
From Coq Require Import List NArith Bool.
From MV Require Import Base.PyStr Base.Res Sect.Slug.
Import ListNotations.
Local Open Scope N_scope.

(* s.replace(a, b) for single characters a, b *)
Definition replace_c (a b : N) (s : str) : str := map (fun c => if c =? a then b else c) s.

Definition ttype_eqb (a b : ttype) : bool :=
  match a, b with
  | TText, TText | TCodeInline, TCodeInline | TOther, TOther => true
  | _, _ => false
  end.

(* child.type in [...] *)
Definition type_in (t : ttype) (l : list ttype) : bool := existsb (ttype_eqb t) l.
