(* Model of heading anchors:
   - myst_parser/mdit_to_docutils/base.py: default_slugify, compute_unique_slug,
     generate_heading_target (the slug part: depth test, try/except, _heading_slugs)
   - mdit_py_plugins/anchors/index.py: slugify, unique_slug, _anchor_func
   - myst_parser/cli.py: print_anchors (anchors plug-in + filter on the level)
   Executable definitions only; proofs are in SlugProofs.v. *)
From Coq Require Import List NArith Arith Bool.
From MV Require Import Base.PyStr Base.Res.
Import ListNotations.
Local Open Scope nat_scope.

(* ---------- character classes of a negated regex class [^...] ---------- *)
Inductive citem : Type :=
| CWord                      (* \w *)
| CRange (lo hi : N)         (* a-b *)
| CChar (c : N).             (* a literal (or escaped) character *)

Section SlugFns.
  Variable lower : str -> str.       (* str.lower() *)
  Variable is_space : N -> bool.     (* the characters str.strip() removes *)
  Variable is_word : N -> bool.      (* re \w on str patterns *)

  Definition item_mem (c : N) (it : citem) : bool :=
    match it with
    | CWord => is_word c
    | CRange lo hi => (lo <=? c)%N && (c <=? hi)%N
    | CChar x => (c =? x)%N
    end.

  Definition class_mem (cls : list citem) (c : N) : bool := existsb (item_mem c) cls.

  (* re.compile("[^cls]").sub("", s) *)
  Definition re_sub_neg (cls : list citem) (s : str) : str := filter (class_mem cls) s.

  (* s.replace(" ", "-") *)
  Definition replace_sp_hy (s : str) : str := map (fun c => if (c =? 32)%N then 45%N else c) s.

  Fixpoint lstrip (s : str) : str :=
    match s with
    | [] => []
    | c :: s' => if is_space c then lstrip s' else s
    end.

  (* s.strip() *)
  Definition strip (s : str) : str := rev (lstrip (rev (lstrip s))).

  (* base.py default_slugify:
     _SLUGIFY_CLEAN_REGEX.sub("", title.lower().replace(" ", "-"))   -- note: no strip() *)
  Definition default_slugify (cls : list citem) (title : str) : str :=
    re_sub_neg cls (replace_sp_hy (lower title)).

  (* anchors plug-in: re.sub(r"[^...]", "", title.strip().lower().replace(" ", "-")) *)
  Definition plugin_slugify (cls : list citem) (title : str) : str :=
    re_sub_neg cls (replace_sp_hy (lower (strip title))).
End SlugFns.

(* ---------- uniqueness loops ---------- *)

(* f"{base}-{i}" *)
Definition suffixed (base : str) (i : N) : str := base ++ 45%N :: show i.

(* compute_unique_slug (after the repair):
     base = slug = slug_func(title); i = 1
     while slug in slugs: slug = f"{base}-{i}"; i += 1 *)
Fixpoint render_loop (fuel : nat) (base slug : str) (i : N) (slugs : list str) : res str :=
  match fuel with
  | O => Raise OutOfFuel
  | S f => if mem_str slug slugs then render_loop f base (suffixed base i) (N.succ i) slugs
           else Ok slug
  end.

Definition render_unique (base : str) (slugs : list str) : res str :=
  render_loop (S (length slugs)) base base 1%N slugs.

(* the loop as it was before the repair:  slug = f"{slug}-{i}"  (cumulative) *)
Fixpoint render_loop_cumulative (fuel : nat) (slug : str) (i : N) (slugs : list str) : res str :=
  match fuel with
  | O => Raise OutOfFuel
  | S f => if mem_str slug slugs then render_loop_cumulative f (suffixed slug i) (N.succ i) slugs
           else Ok slug
  end.

Definition render_unique_cumulative (base : str) (slugs : list str) : res str :=
  render_loop_cumulative (S (length slugs)) base 1%N slugs.

(* anchors plug-in unique_slug(slug, slugs):
     uniq = slug; i = 1
     while uniq in slugs: uniq = f"{slug}-{i}"; i += 1
   (the caller's set gets uniq added) *)
Fixpoint plugin_loop (fuel : nat) (slug uniq : str) (i : N) (slugs : list str) : res str :=
  match fuel with
  | O => Raise OutOfFuel
  | S f => if mem_str uniq slugs then plugin_loop f slug (suffixed slug i) (N.succ i) slugs
           else Ok uniq
  end.

Definition plugin_unique (slug : str) (slugs : list str) : res str :=
  plugin_loop (S (length slugs)) slug slug 1%N slugs.

(* ---------- headings ---------- *)

Inductive ttype : Type := TText | TCodeInline | TOther.

Record heading : Type := mkh {
  h_level : nat;                       (* int(token.tag[1]) (+ heading offset on the render side) *)
  h_children : list (ttype * str)      (* the inline token's children: type, content *)
}.

(* "".join(child.content for child in inline.children if child.type in ["text", "code_inline"]) *)
Definition inline_title (children : list (ttype * str)) : str :=
  flat_map (fun tc => match fst tc with TText | TCodeInline => snd tc | TOther => [] end) children.

(* ---------- renderer: generate_heading_target ---------- *)

(* self._heading_slugs : dict slug -> (line, id, text); the value is represented by the
   number of the heading it belongs to *)
Definition sdict : Type := list (str * nat).

Fixpoint sdict_set (d : sdict) (k : str) (v : nat) : sdict :=
  match d with
  | [] => [(k, v)]
  | (k', v') :: d' => if str_eqb k' k then (k', v) :: d' else (k', v') :: sdict_set d' k v
  end.

Fixpoint sdict_get (d : sdict) (k : str) : option nat :=
  match d with
  | [] => None
  | (k', v) :: d' => if str_eqb k' k then Some v else sdict_get d' k
  end.

Inductive slug_out : Type :=
| SlugNone                 (* deeper than heading_anchors: no slug *)
| SlugWarn                 (* the slug function raised: one heading_slug warning, no slug *)
| SlugOk (s : str).        (* node["slug"] = s *)

(* compute_unique_slug(token, slugs, slug_func) *)
Definition compute_unique_slug (slug_func : str -> res str) (children : list (ttype * str))
           (slugs : list str) : res str :=
  do base <- slug_func (inline_title children);
  render_unique base slugs.

(* the slug part of generate_heading_target for heading number i *)
Definition heading_target (depth : nat) (slug_func : str -> res str) (h : heading) (i : nat)
           (d : sdict) : slug_out * sdict :=
  if depth <? h_level h then (SlugNone, d)          (* if level > heading_anchors: return *)
  else match compute_unique_slug slug_func (h_children h) (map fst d) with
       | Raise _ => (SlugWarn, d)                   (* except Exception: create_warning(HEADING_SLUG) *)
       | Ok s => (SlugOk s, sdict_set d s i)
       end.

Fixpoint render_from (depth : nat) (slug_func : str -> res str) (hs : list heading) (i : nat)
         (d : sdict) : list slug_out * sdict :=
  match hs with
  | [] => ([], d)
  | h :: hs' =>
      let '(o, d1) := heading_target depth slug_func h i d in
      let '(os, d2) := render_from depth slug_func hs' (S i) d1 in
      (o :: os, d2)
  end.

(* all headings of a document in render order; heading_slug_func = None selects the default *)
Definition render_slugs (depth : nat) (slug_func : str -> res str) (hs : list heading)
  : list slug_out * sdict := render_from depth slug_func hs 0 [].

(* ---------- myst-anchors ---------- *)

(* _anchor_func of the plug-in: the id attribute of every heading_open token *)
Fixpoint anchor_func (max_level : nat) (slug_func : str -> str) (hs : list heading)
         (slugs : list str) : res (list (option str)) :=
  match hs with
  | [] => Ok []
  | h :: hs' =>
      (* level not in range(min_level=1, max_level + 1): continue *)
      if negb ((1 <=? h_level h) && (h_level h <=? max_level)) then
        do r <- anchor_func max_level slug_func hs' slugs; Ok (None :: r)
      else
        do u <- plugin_unique (slug_func (inline_title (h_children h))) slugs;
        do r <- anchor_func max_level slug_func hs' (u :: slugs);
        Ok (Some u :: r)
  end.

(* print_anchors: the filter keeps heading tokens with level <= args.level;
   the result is the (level, id attribute) of the printed <hN> tags *)
Definition print_anchors (level : nat) (slug_func : str -> str) (hs : list heading)
  : res (list (nat * option str)) :=
  do ids <- anchor_func level slug_func hs [];
  Ok (filter (fun li => fst li <=? level) (combine (map h_level hs) ids)).

(* what the renderer assigned, in the same shape *)
Definition rendered_anchors (hs : list heading) (outs : list slug_out) : list (nat * option str) :=
  flat_map (fun ho => match snd ho with SlugOk s => [(h_level (fst ho), Some s)] | _ => [] end)
           (combine hs outs).

Definition assigned (outs : list slug_out) : list str :=
  flat_map (fun o => match o with SlugOk s => [s] | _ => [] end) outs.
