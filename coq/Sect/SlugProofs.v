From Coq Require Import List NArith Arith Bool Lia FinFun.
From MV Require Import Base.PyStr Base.Res Sect.Slug.
Import ListNotations.
Local Open Scope nat_scope.

(* ================= decimal printing is injective ================= *)

Definition dval (a : N) (l : str) : N := fold_left (fun a d => (10 * a + (d - 48))%N) l a.

Lemma show_fuel_val fuel : forall n acc, (n < 2 ^ N.of_nat fuel)%N ->
  dval 0 (show_fuel fuel n acc) = dval n acc.
Proof.
  induction fuel as [|f IH]; intros n acc Hn.
  - simpl in *. assert (n = 0%N) by lia. subst. reflexivity.
  - cbn [show_fuel]. rewrite Nat2N.inj_succ, N.pow_succ_r' in Hn.
    assert (Hd : (n = 10 * (n / 10) + n mod 10)%N) by (apply N.div_mod; lia).
    assert (Hm : (n mod 10 < 10)%N) by (apply N.mod_lt; lia).
    destruct (n / 10 =? 0)%N eqn:E.
    + apply N.eqb_eq in E. unfold dval. cbn [fold_left]. unfold digit.
      f_equal. rewrite E in Hd. clear Hn IH. set (m := (n mod 10)%N) in *. lia.
    + apply N.eqb_neq in E. rewrite IH.
      * unfold dval. cbn [fold_left]. unfold digit. f_equal. clear Hn IH E.
        set (q := (n / 10)%N) in *. set (m := (n mod 10)%N) in *. lia.
      * apply N.div_lt_upper_bound; lia.
Qed.

Lemma show_val n : dval 0 (show n) = n.
Proof.
  unfold show. rewrite show_fuel_val; [reflexivity|].
  rewrite Nat2N.inj_succ, N2Nat.id.
  destruct (N.eq_dec n 0) as [->|Hn]; [reflexivity|].
  apply N.log2_spec. lia.
Qed.

Lemma show_inj a b : show a = show b -> a = b.
Proof. intro H. rewrite <- (show_val a), <- (show_val b), H. reflexivity. Qed.

(* ================= candidates ================= *)

(* candidate number k of the loops: the base slug, then base-1, base-2, ... *)
Definition cand (base : str) (k : nat) : str :=
  match k with O => base | S _ => suffixed base (N.of_nat k) end.

Lemma cand_inj base : Injective (cand base).
Proof.
  intros a b H. destruct a as [|a], b as [|b]; auto; unfold cand, suffixed in H.
  - apply (f_equal (@length N)) in H. rewrite app_length in H. simpl in H. lia.
  - apply (f_equal (@length N)) in H. rewrite app_length in H. simpl in H. lia.
  - apply app_inv_head in H. inversion H as [H1]. apply show_inj in H1. exact (Nat2N.inj (S a) (S b) H1).
Qed.

(* the rule: the result is candidate k, it is free, and all earlier candidates are taken;
   i.e. the base slug if that is free, else base-k for the least k >= 1 with base-k free *)
Definition SuffixRule (base : str) (slugs : list str) (r : str) : Prop :=
  exists k, r = cand base k /\ ~ In r slugs /\ forall j, j < k -> In (cand base j) slugs.

Lemma SuffixRule_unique base slugs r r' : SuffixRule base slugs r -> SuffixRule base slugs r' -> r = r'.
Proof.
  intros (k & -> & Hf & Ht) (k' & -> & Hf' & Ht').
  destruct (lt_eq_lt_dec k k') as [[H|H]|H]; [| subst; auto |].
  - exfalso. apply Hf. apply Ht'. exact H.
  - exfalso. apply Hf'. apply Ht. exact H.
Qed.

Lemma SuffixRule_ext base l l' r : (forall x, In x l <-> In x l') -> SuffixRule base l r -> SuffixRule base l' r.
Proof.
  intros He (k & -> & Hf & Ht). exists k. split; auto. split.
  - intro H. apply Hf. apply He. exact H.
  - intros j Hj. apply He. auto.
Qed.

(* readable form *)
Lemma SuffixRule_readable base slugs r : SuffixRule base slugs r <->
  (r = base /\ ~ In base slugs) \/
  (exists k, 1 <= k /\ r = suffixed base (N.of_nat k) /\ In base slugs /\ ~ In r slugs /\
             forall j, 1 <= j < k -> In (suffixed base (N.of_nat j)) slugs).
Proof.
  split.
  - intros (k & -> & Hf & Ht). destruct k as [|k].
    + left. auto.
    + right. exists (S k). repeat split; auto; try lia.
      * apply (Ht 0). lia.
      * intros j Hj. specialize (Ht j). destruct j; [lia|]. apply Ht. lia.
  - intros [[-> Hf]|(k & Hk & -> & Hb & Hf & Ht)].
    + exists 0. repeat split; auto. intros; lia.
    + exists k. destruct k; [lia|]. repeat split; auto.
      intros j Hj. destruct j; [exact Hb|]. apply Ht. lia.
Qed.

(* ================= the loops ================= *)

Lemma render_loop_spec base slugs : forall fuel k r,
  (forall j, j < k -> In (cand base j) slugs) ->
  render_loop fuel base (cand base k) (N.of_nat (S k)) slugs = Ok r ->
  exists k', k <= k' /\ r = cand base k' /\ ~ In r slugs /\ forall j, j < k' -> In (cand base j) slugs.
Proof.
  induction fuel as [|f IH]; intros k r Ht H; [discriminate|].
  cbn [render_loop] in H. destruct (mem_str (cand base k) slugs) eqn:E.
  - apply mem_str_In in E.
    change (suffixed base (N.of_nat (S k))) with (cand base (S k)) in H.
    rewrite <- Nat2N.inj_succ in H.
    destruct (IH (S k) r) as (k' & Hk' & Hr & Hf & Ht'); auto.
    + intros j Hj. destruct (Nat.eq_dec j k); [subst; auto | apply Ht; lia].
    + exists k'. repeat split; auto. lia.
  - inversion H; subst. exists k. repeat split; auto.
    intro Hin. apply mem_str_In in Hin. congruence.
Qed.

Lemma render_loop_exn base slugs : forall fuel slug i e,
  render_loop fuel base slug i slugs = Raise e -> e = OutOfFuel.
Proof.
  induction fuel as [|f IH]; intros slug i e H; cbn [render_loop] in H.
  - inversion H. reflexivity.
  - destruct (mem_str slug slugs); [eauto | discriminate].
Qed.

(* pigeonhole: k pairwise distinct candidates inside slugs *)
Lemma cands_bound base slugs k : (forall j, j < k -> In (cand base j) slugs) -> k <= length slugs.
Proof.
  intro H.
  assert (Hnd : NoDup (map (cand base) (seq 0 k))).
  { apply Injective_map_NoDup; [apply cand_inj | apply seq_NoDup]. }
  assert (Hincl : incl (map (cand base) (seq 0 k)) slugs).
  { intros x Hx. apply in_map_iff in Hx as (j & <- & Hj). apply in_seq in Hj. apply H. lia. }
  pose proof (NoDup_incl_length Hnd Hincl) as Hl. rewrite map_length, seq_length in Hl. exact Hl.
Qed.

Lemma render_loop_fuel base slugs : forall fuel k,
  (forall j, j < k -> In (cand base j) slugs) -> length slugs < fuel + k ->
  render_loop fuel base (cand base k) (N.of_nat (S k)) slugs <> Raise OutOfFuel.
Proof.
  induction fuel as [|f IH]; intros k Ht Hlen.
  - apply cands_bound in Ht. simpl in Hlen. lia.
  - cbn [render_loop]. destruct (mem_str (cand base k) slugs) eqn:E; [|discriminate].
    apply mem_str_In in E.
    change (suffixed base (N.of_nat (S k))) with (cand base (S k)).
    rewrite <- Nat2N.inj_succ. apply IH.
    + intros j Hj. destruct (Nat.eq_dec j k); [subst; auto | apply Ht; lia].
    + lia.
Qed.

(* C10_unique_terminates + C10_suffix_rule for one call *)
Theorem render_unique_ok base slugs :
  exists r, render_unique base slugs = Ok r /\ SuffixRule base slugs r.
Proof.
  unfold render_unique.
  change base with (cand base 0) at 2. change 1%N with (N.of_nat 1).
  destruct (render_loop _ base (cand base 0) (N.of_nat 1) slugs) as [r|e] eqn:E.
  - exists r. split; auto.
    apply render_loop_spec in E as (k' & _ & Hr & Hf & Ht); [|intros; lia].
    exists k'. auto.
  - exfalso. pose proof (render_loop_exn _ _ _ _ _ _ E) as ->.
    revert E. apply render_loop_fuel; [intros; lia | lia].
Qed.

Lemma plugin_loop_eq slugs : forall fuel slug uniq i,
  plugin_loop fuel slug uniq i slugs = render_loop fuel slug uniq i slugs.
Proof.
  induction fuel as [|f IH]; intros; cbn [plugin_loop render_loop]; [reflexivity|].
  rewrite IH. reflexivity.
Qed.

Lemma plugin_unique_eq base slugs : plugin_unique base slugs = render_unique base slugs.
Proof. apply plugin_loop_eq. Qed.

Theorem plugin_unique_ok base slugs :
  exists r, plugin_unique base slugs = Ok r /\ SuffixRule base slugs r.
Proof. rewrite plugin_unique_eq. apply render_unique_ok. Qed.

(* ================= the slug dictionary ================= *)

Lemma sdict_get_set d k v k' :
  sdict_get (sdict_set d k v) k' = if str_eqb k k' then Some v else sdict_get d k'.
Proof.
  induction d as [|[k0 v0] d IH]; simpl.
  - reflexivity.
  - destruct (str_eqb k0 k) eqn:E.
    + apply str_eqb_eq in E. subst k0. simpl. destruct (str_eqb k k'); reflexivity.
    + simpl. rewrite IH. destruct (str_eqb k0 k') eqn:E1; auto.
      apply str_eqb_eq in E1. subst k0.
      destruct (str_eqb k k') eqn:E2; [|reflexivity].
      apply str_eqb_eq in E2. subst. rewrite str_eqb_refl in E. discriminate.
Qed.

Lemma sdict_set_new d k v : ~ In k (map fst d) -> sdict_set d k v = d ++ [(k, v)].
Proof.
  induction d as [|[k0 v0] d IH]; simpl; intro H; auto.
  destruct (str_eqb k0 k) eqn:E.
  - apply str_eqb_eq in E. subst. exfalso. apply H. left. reflexivity.
  - rewrite IH; auto.
Qed.

Lemma sdict_get_in d k v : sdict_get d k = Some v -> In k (map fst d).
Proof.
  induction d as [|[k0 v0] d IH]; simpl; [discriminate|].
  destruct (str_eqb k0 k) eqn:E; intro H.
  - apply str_eqb_eq in E. left. exact E.
  - right. auto.
Qed.

(* ================= a whole document ================= *)

(* the assignment of slugs to a sequence of headings, as a specification *)
Inductive SeqRule (depth : nat) (f : str -> res str) : list str -> list heading -> list slug_out -> Prop :=
| SR_nil : forall prior, SeqRule depth f prior [] []
| SR_deep : forall prior h hs outs, depth < h_level h ->
    SeqRule depth f prior hs outs -> SeqRule depth f prior (h :: hs) (SlugNone :: outs)
| SR_warn : forall prior h hs outs e, h_level h <= depth ->
    f (inline_title (h_children h)) = Raise e ->
    SeqRule depth f prior hs outs -> SeqRule depth f prior (h :: hs) (SlugWarn :: outs)
| SR_ok : forall prior h hs outs base r, h_level h <= depth ->
    f (inline_title (h_children h)) = Ok base -> SuffixRule base prior r ->
    SeqRule depth f (prior ++ [r]) hs outs -> SeqRule depth f prior (h :: hs) (SlugOk r :: outs).

Lemma heading_target_cases depth f h i d :
  (depth < h_level h /\ heading_target depth f h i d = (SlugNone, d)) \/
  (h_level h <= depth /\ exists e, f (inline_title (h_children h)) = Raise e /\
     heading_target depth f h i d = (SlugWarn, d)) \/
  (h_level h <= depth /\ exists base r, f (inline_title (h_children h)) = Ok base /\
     SuffixRule base (map fst d) r /\ heading_target depth f h i d = (SlugOk r, d ++ [(r, i)])).
Proof.
  unfold heading_target. destruct (depth <? h_level h) eqn:E.
  - apply Nat.ltb_lt in E. left. auto.
  - apply Nat.ltb_ge in E. right. unfold compute_unique_slug.
    destruct (f (inline_title (h_children h))) as [base|e] eqn:Ef; cbn [bind].
    + right. split; auto. destruct (render_unique_ok base (map fst d)) as (r & Hr & Hrule).
      rewrite Hr. exists base, r. repeat split; auto.
      rewrite sdict_set_new; auto. destruct Hrule as (k & _ & Hf & _). exact Hf.
    + left. split; auto. exists e. auto.
Qed.

Lemma render_from_rule depth f : forall hs i d,
  SeqRule depth f (map fst d) hs (fst (render_from depth f hs i d)).
Proof.
  induction hs as [|h hs IH]; intros i d; cbn [render_from].
  - constructor.
  - destruct (heading_target_cases depth f h i d) as [[H1 H2]|[[H1 (e & He & H2)]|[H1 (base & r & Hb & Hr & H2)]]];
      rewrite H2; specialize (IH (S i)).
    + specialize (IH d). destruct (render_from depth f hs (S i) d) as [os d2]. simpl in *. constructor; auto.
    + specialize (IH d). destruct (render_from depth f hs (S i) d) as [os d2]. simpl in *. econstructor; eauto.
    + specialize (IH (d ++ [(r, i)])). destruct (render_from depth f hs (S i) (d ++ [(r, i)])) as [os d2].
      simpl in *. rewrite map_app in IH. econstructor; eauto.
Qed.

(* C10_suffix_rule / C10_depth / C10_custom_func in one statement *)
Theorem render_slugs_rule depth f hs : SeqRule depth f [] hs (fst (render_slugs depth f hs)).
Proof. apply (render_from_rule depth f hs 0 []). Qed.

(* consequences of the rule *)
Lemma NoDup_app_snoc {A} (l : list A) r : NoDup l -> ~ In r l -> NoDup (l ++ [r]).
Proof.
  induction l as [|x l IH]; simpl; intros Hnd Hr.
  - constructor; [intros [] | constructor].
  - inversion Hnd; subst. constructor.
    + intro H. apply in_app_or in H as [H|[H|[]]]; [contradiction|]. subst. apply Hr. left. reflexivity.
    + apply IH; auto.
Qed.

Lemma SeqRule_assigned depth f prior hs outs : SeqRule depth f prior hs outs ->
  NoDup prior -> NoDup (prior ++ assigned outs).
Proof.
  induction 1 as [prior|prior h hs outs Hd Hr IH|prior h hs outs e Hd He Hr IH|prior h hs outs base r Hd Hb Hs Hr IH];
    intro Hnd; simpl.
  - rewrite app_nil_r. exact Hnd.
  - apply IH. exact Hnd.
  - apply IH. exact Hnd.
  - change (r :: assigned outs) with ([r] ++ assigned outs). rewrite app_assoc. apply IH.
    destruct Hs as (k & _ & Hf & _).
    apply NoDup_app_snoc; auto.
Qed.

(* C10_slugs_nodup *)
Theorem slugs_nodup depth f hs : NoDup (assigned (fst (render_slugs depth f hs))).
Proof.
  pose proof (SeqRule_assigned _ _ _ _ _ (render_slugs_rule depth f hs) (NoDup_nil _)) as H.
  exact H.
Qed.

(* the keys of the dictionary: what was there, then the assigned slugs *)
Lemma render_from_keys depth f : forall hs i d,
  map fst (snd (render_from depth f hs i d)) = map fst d ++ assigned (fst (render_from depth f hs i d)).
Proof.
  induction hs as [|h hs IH]; intros i d; cbn [render_from].
  - simpl. rewrite app_nil_r. reflexivity.
  - destruct (heading_target_cases depth f h i d) as [[H1 H2]|[[H1 (e & He & H2)]|[H1 (base & r & Hb & Hr & H2)]]];
      rewrite H2.
    + specialize (IH (S i) d). destruct (render_from depth f hs (S i) d) as [os d2]. simpl in *. exact IH.
    + specialize (IH (S i) d). destruct (render_from depth f hs (S i) d) as [os d2]. simpl in *. exact IH.
    + specialize (IH (S i) (d ++ [(r, i)])). destruct (render_from depth f hs (S i) (d ++ [(r, i)])) as [os d2].
      simpl in *. rewrite IH, map_app, <- app_assoc. reflexivity.
Qed.

(* a heading's slug, looked up in the final dictionary, gives that heading *)
Lemma render_from_keeps depth f : forall hs i d k v,
  sdict_get d k = Some v -> sdict_get (snd (render_from depth f hs i d)) k = Some v.
Proof.
  induction hs as [|h hs IH]; intros i d k v Hget; cbn [render_from]; auto.
  destruct (heading_target_cases depth f h i d) as [[H1 H2]|[[H1 (e & He & H2)]|[H1 (base & r & Hb & Hr & H2)]]];
    rewrite H2.
  - specialize (IH (S i) d k v Hget). destruct (render_from depth f hs (S i) d). exact IH.
  - specialize (IH (S i) d k v Hget). destruct (render_from depth f hs (S i) d). exact IH.
  - assert (Hget' : sdict_get (d ++ [(r, i)]) k = Some v).
    { destruct Hr as (n & _ & Hf & _). rewrite <- (sdict_set_new d r i Hf), sdict_get_set.
      destruct (str_eqb r k) eqn:E; auto. apply str_eqb_eq in E. subst. exfalso. apply Hf.
      eapply sdict_get_in; eauto. }
    specialize (IH (S i) _ k v Hget'). destruct (render_from depth f hs (S i) (d ++ [(r, i)])). exact IH.
Qed.

Lemma render_from_resolves depth f : forall hs i d k r,
  nth_error (fst (render_from depth f hs i d)) k = Some (SlugOk r) ->
  sdict_get (snd (render_from depth f hs i d)) r = Some (i + k).
Proof.
  induction hs as [|h hs IH]; intros i d k r Hn; cbn [render_from] in *.
  - destruct k; discriminate.
  - destruct (heading_target_cases depth f h i d) as [[H1 H2]|[[H1 (e & He & H2)]|[H1 (base & r0 & Hb & Hr & H2)]]];
      rewrite H2 in *.
    + specialize (IH (S i) d). destruct (render_from depth f hs (S i) d) as [os d2]. simpl in *.
      destruct k; [discriminate|]. simpl in Hn. rewrite (IH k r Hn). f_equal. lia.
    + specialize (IH (S i) d). destruct (render_from depth f hs (S i) d) as [os d2]. simpl in *.
      destruct k; [discriminate|]. simpl in Hn. rewrite (IH k r Hn). f_equal. lia.
    + pose proof (render_from_keeps depth f hs (S i) (d ++ [(r0, i)]) r0 i) as Hk.
      specialize (IH (S i) (d ++ [(r0, i)])).
      destruct (render_from depth f hs (S i) (d ++ [(r0, i)])) as [os d2]. simpl in *.
      destruct k.
      * simpl in Hn. inversion Hn; subst r0. rewrite Nat.add_0_r. apply Hk.
        destruct Hr as (n & _ & Hf & _). rewrite <- (sdict_set_new d r i Hf), sdict_get_set, str_eqb_refl. reflexivity.
      * simpl in Hn. rewrite (IH k r Hn). f_equal. lia.
Qed.

Theorem resolvable_model depth f hs k r :
  nth_error (fst (render_slugs depth f hs)) k = Some (SlugOk r) ->
  sdict_get (snd (render_slugs depth f hs)) r = Some k.
Proof. intro H. apply (render_from_resolves depth f hs 0 [] k r H). Qed.

(* ---- per heading readings of the rule ---- *)

Lemma SeqRule_length depth f prior hs outs : SeqRule depth f prior hs outs -> length outs = length hs.
Proof. induction 1; simpl; auto. Qed.

(* C10_depth: no slug exactly for the headings deeper than heading_anchors
   (given a slug function that does not raise) *)
Lemma SeqRule_depth depth f prior hs outs : SeqRule depth f prior hs outs ->
  forall k h o, nth_error hs k = Some h -> nth_error outs k = Some o ->
    (depth < h_level h -> o = SlugNone) /\ (o = SlugNone -> depth < h_level h).
Proof.
  induction 1 as [prior|prior h0 hs outs Hd Hr IH|prior h0 hs outs e Hd He Hr IH|prior h0 hs outs base r Hd Hb Hs Hr IH];
    intros k h o Hh Ho.
  - destruct k; discriminate.
  - destruct k; simpl in *; [inversion Hh; inversion Ho; subst; auto | eauto].
  - destruct k; simpl in *; [inversion Hh; inversion Ho; subst; split; [lia | discriminate] | eauto].
  - destruct k; simpl in *; [inversion Hh; inversion Ho; subst; split; [lia | discriminate] | eauto].
Qed.

(* ... and these headings do not influence the slugs of the others *)
Lemma SeqRule_filter depth f prior hs outs : SeqRule depth f prior hs outs ->
  SeqRule depth f prior (filter (fun h => h_level h <=? depth) hs)
          (filter (fun o => match o with SlugNone => false | _ => true end) outs).
Proof.
  induction 1 as [prior|prior h0 hs outs Hd Hr IH|prior h0 hs outs e Hd He Hr IH|prior h0 hs outs base r Hd Hb Hs Hr IH];
    simpl.
  - constructor.
  - assert (E : (h_level h0 <=? depth) = false) by (apply Nat.leb_gt; auto). rewrite E. exact IH.
  - assert (E : (h_level h0 <=? depth) = true) by (apply Nat.leb_le; auto). rewrite E. econstructor; eauto.
  - assert (E : (h_level h0 <=? depth) = true) by (apply Nat.leb_le; auto). rewrite E. econstructor; eauto.
Qed.

(* the rule determines the output *)
Lemma SeqRule_functional depth f prior hs outs outs' :
  SeqRule depth f prior hs outs -> SeqRule depth f prior hs outs' -> outs = outs'.
Proof.
  intro H. revert outs'.
  induction H as [prior|prior h0 hs outs Hd Hr IH|prior h0 hs outs e Hd He Hr IH|prior h0 hs outs base r Hd Hb Hs Hr IH];
    intros outs' H'; inversion H'; subst; try lia; try congruence.
  - f_equal. auto.
  - f_equal. auto.
  - assert (base0 = base) by congruence. subst base0.
    assert (r0 = r) by (eapply SuffixRule_unique; eauto). subst r0. f_equal. auto.
Qed.

Theorem depth_independent depth f hs :
  fst (render_slugs depth f (filter (fun h => h_level h <=? depth) hs)) =
  filter (fun o => match o with SlugNone => false | _ => true end) (fst (render_slugs depth f hs)).
Proof.
  eapply SeqRule_functional; [apply render_slugs_rule|].
  apply SeqRule_filter. apply render_slugs_rule.
Qed.

(* C10_custom_func: a raising slug function: that heading gets a warning and no slug, and the
   others get what they would get without that heading *)
Lemma SeqRule_drop_failing depth f prior hs outs : SeqRule depth f prior hs outs ->
  SeqRule depth f prior
    (filter (fun h => match f (inline_title (h_children h)) with Raise _ => (depth <? h_level h) | Ok _ => true end) hs)
    (filter (fun o => match o with SlugWarn => false | _ => true end) outs).
Proof.
  induction 1 as [prior|prior h0 hs outs Hd Hr IH|prior h0 hs outs e Hd He Hr IH|prior h0 hs outs base r Hd Hb Hs Hr IH];
    simpl.
  - constructor.
  - assert (E : (depth <? h_level h0) = true) by (apply Nat.ltb_lt; auto).
    destruct (f (inline_title (h_children h0))); rewrite ?E; constructor; auto.
  - rewrite He. assert (E : (depth <? h_level h0) = false) by (apply Nat.ltb_ge; auto). rewrite E. exact IH.
  - rewrite Hb. econstructor; eauto.
Qed.

(* ================= renderer = myst-anchors ================= *)

Section MatchCli.
  Variable lower : str -> str.
  Variable is_space is_word : N -> bool.
  Variable cls : list citem.

  Definition rf (t : str) : res str := Ok (default_slugify lower is_word cls t).
  Definition pf (t : str) : str := plugin_slugify lower is_space is_word cls t.

  (* the title has no leading / trailing white space: strip() is the identity on it *)
  Definition trimmed (h : heading) : Prop :=
    strip is_space (inline_title (h_children h)) = inline_title (h_children h).

  (* the two slugify functions agree on the title of the heading *)
  Definition agree (h : heading) : Prop :=
    pf (inline_title (h_children h)) = default_slugify lower is_word cls (inline_title (h_children h)).

  Lemma trimmed_agree h : trimmed h -> agree h.
  Proof. unfold trimmed, agree, pf, plugin_slugify, default_slugify. intro H. rewrite H. reflexivity. Qed.

  Lemma anchors_match depth : forall hs i d ss,
    Forall (fun h => 1 <= h_level h) hs -> Forall agree hs ->
    (forall x, In x (map fst d) <-> In x ss) ->
    exists ids, anchor_func depth pf hs ss = Ok ids /\
      filter (fun li => fst li <=? depth) (combine (map h_level hs) ids) =
      rendered_anchors hs (fst (render_from depth rf hs i d)).
  Proof.
    induction hs as [|h hs IH]; intros i d ss Hge Htr Hmem.
    - exists []. split; reflexivity.
    - inversion Hge as [|h' hs' Hl Hge']; subst. inversion Htr as [|h'' hs'' Ht Htr']; subst.
      cbn [anchor_func render_from].
      destruct (heading_target_cases depth rf h i d) as [[H1 H2]|[[H1 (e & He & H2)]|[H1 (base & r & Hb & Hr & H2)]]];
        rewrite H2.
      + assert (E1 : (h_level h <=? depth) = false) by (apply Nat.leb_gt; auto).
        rewrite E1, andb_false_r. cbn [negb].
        destruct (IH (S i) d ss Hge' Htr' Hmem) as (ids & Hids & Hf). rewrite Hids. cbn [bind].
        exists (None :: ids). split; auto.
        destruct (render_from depth rf hs (S i) d) as [os d2]. cbn [fst] in *.
        cbn [map combine filter fst]. rewrite E1. unfold rendered_anchors in *. cbn. exact Hf.
      + discriminate.
      + assert (E1 : (h_level h <=? depth) = true) by (apply Nat.leb_le; auto).
        assert (E0 : (1 <=? h_level h) = true) by (apply Nat.leb_le; auto).
        rewrite E1, E0. cbn [andb negb].
        unfold rf in Hb. inversion Hb as [Hbase].
        assert (Epf : pf (inline_title (h_children h)) = base).
        { unfold agree in Ht. rewrite Ht. exact Hbase. }
        rewrite Epf.
        destruct (plugin_unique_ok base ss) as (u & Hu & Hru). rewrite Hu. cbn [bind].
        assert (u = r).
        { eapply SuffixRule_unique; [|exact Hr]. eapply SuffixRule_ext; [|exact Hru].
          intro x. symmetry. apply Hmem. }
        subst u.
        assert (Hmem' : forall x, In x (map fst (d ++ [(r, i)])) <-> In x (r :: ss)).
        { intro x. rewrite map_app, in_app_iff. simpl. rewrite Hmem. tauto. }
        destruct (IH (S i) (d ++ [(r, i)]) (r :: ss) Hge' Htr' Hmem') as (ids & Hids & Hf). rewrite Hids. cbn [bind].
        exists (Some r :: ids). split; auto.
        destruct (render_from depth rf hs (S i) (d ++ [(r, i)])) as [os d2]. cbn [fst] in *.
        cbn [map combine filter fst]. rewrite E1. unfold rendered_anchors in *. cbn. rewrite Hf. reflexivity.
  Qed.

  (* C10_matches_cli_partial *)
  Theorem matches_cli_agree depth hs : Forall (fun h => 1 <= h_level h) hs -> Forall agree hs ->
    print_anchors depth pf hs = Ok (rendered_anchors hs (fst (render_slugs depth rf hs))).
  Proof.
    intros Hge Htr. unfold print_anchors, render_slugs.
    destruct (anchors_match depth hs 0 [] [] Hge Htr) as (ids & Hids & Hf).
    - intro x. simpl. tauto.
    - rewrite Hids. cbn [bind]. rewrite Hf. reflexivity.
  Qed.

  Theorem matches_cli depth hs : Forall (fun h => 1 <= h_level h) hs -> Forall trimmed hs ->
    print_anchors depth pf hs = Ok (rendered_anchors hs (fst (render_slugs depth rf hs))).
  Proof.
    intros Hge Htr. apply matches_cli_agree; auto.
    rewrite Forall_forall in *. intros h Hh. apply trimmed_agree. auto.
  Qed.
End MatchCli.

(* ================= the code before the repairs ================= *)

Lemma suffix_rule_refuted_cumulative :
  exists base slugs r, render_unique_cumulative base slugs = Ok r /\ ~ SuffixRule base slugs r.
Proof.
  exists [97%N], [[97%N]; [97%N; 45%N; 49%N]], [97%N; 45%N; 49%N; 45%N; 50%N].
  split; [vm_compute; reflexivity|].
  intro H.
  assert (H2 : SuffixRule [97%N] [[97%N]; [97%N; 45%N; 49%N]] [97%N; 45%N; 50%N]).
  { exists 2. split; [vm_compute; reflexivity|]. split.
    - intros [E|[E|[]]]; discriminate.
    - intros j Hj. destruct j as [|[|j]]; [left; reflexivity | right; left; vm_compute; reflexivity | lia]. }
  pose proof (SuffixRule_unique _ _ _ _ H H2) as E. discriminate.
Qed.

(* ================= the GitHub rule: what a default slug consists of ================= *)

Lemma replace_sp_hy_no_space s c : In c (replace_sp_hy s) -> c <> 32%N.
Proof.
  unfold replace_sp_hy. intro H. apply in_map_iff in H as (x & Hx & _).
  destruct (x =? 32)%N eqn:E; subst.
  - discriminate.
  - apply N.eqb_neq in E. exact E.
Qed.

Lemma slug_charset lower is_word lo hi title c :
  In c (default_slugify lower is_word [CWord; CRange lo hi; CChar 45%N; CChar 32%N] title) ->
  is_word c = true \/ (lo <= c /\ c <= hi)%N \/ c = 45%N.
Proof.
  unfold default_slugify, re_sub_neg. intro H. apply filter_In in H as [Hin Hm].
  apply replace_sp_hy_no_space in Hin.
  unfold class_mem in Hm. cbn [existsb item_mem] in Hm.
  repeat (apply orb_true_iff in Hm as [Hm|Hm]); auto.
  - right. left. apply andb_true_iff in Hm as [H1 H2]. apply N.leb_le in H1. apply N.leb_le in H2. auto.
  - right. right. apply N.eqb_eq in Hm. exact Hm.
  - apply N.eqb_eq in Hm. contradiction.
  - discriminate.
Qed.

(* lower-casing and hyphenation happen before the cleaning; nothing is ever added *)
Lemma slug_is_cleaned lower is_word cls title :
  default_slugify lower is_word cls title =
  filter (class_mem is_word cls) (map (fun c => if (c =? 32)%N then 45%N else c) (lower title)).
Proof. reflexivity. Qed.
