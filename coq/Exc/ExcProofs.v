(* C01 (b): what the check means (general lemma) and the finite checks over the regenerated
   tables, discharged by computation in the kernel's VM. *)
From Coq Require Import List String Bool Arith.
From MV Require Import Exc.ExcDefs Gen.ExcFlow Exc.ExcFlow.
Import ListNotations.
Open Scope string_scope.

(* meaning of class_ok: some handler of the function, or some class the function declares,
   is the class itself or one of its ancestors *)
Lemma covered_spec e hs : covered e hs = true <-> exists h, In h hs /\ subclass e h = true.
Proof. unfold covered. apply existsb_exists. Qed.

Lemma site_checked_sound : forall s es,
  lookup (base_key (s_callee s)) raises = Some es -> uncovered s = [] ->
  forall e, In e es ->
  exists h, In h (s_handlers s ++ declared_of (s_file s) (s_func s)) /\ subclass e h = true.
Proof.
  intros s es Hl Hu e He. unfold uncovered in Hu. rewrite Hl in Hu.
  assert (Hc : class_ok s e = true).
  { destruct (class_ok s e) eqn:E; [reflexivity|].
    assert (In e (filter (fun e0 => negb (class_ok s e0)) es)).
    { apply filter_In. split; [exact He|]. rewrite E. reflexivity. }
    rewrite Hu in H. destruct H. }
  unfold class_ok in Hc. apply orb_true_iff in Hc. destruct Hc as [Hc|Hc];
    apply covered_spec in Hc; destruct Hc as [h [Hin Hs]]; exists h; split; auto; apply in_or_app; auto.
Qed.

(* a site that passes the check outside the stated exceptions (out of scope / whitelist) *)
Lemma site_ok_cases s : site_ok s = true ->
  in_out_scope (s_file s) (s_func s) = true \/ whitelisted s = true \/ uncovered s = [].
Proof.
  unfold site_ok. intro H. apply orb_true_iff in H. destruct H as [H|H].
  - apply orb_true_iff in H. tauto.
  - right. right. destruct (uncovered s); [reflexivity|discriminate].
Qed.

Lemma sites_all_ok : List.length sites = n_sites /\ forallb site_ok sites = true.
Proof. split; vm_compute; reflexivity. Qed.

Lemma rstmts_all_ok : List.length raise_stmts = n_raise_stmts /\ forallb rstmt_ok raise_stmts = true.
Proof. split; vm_compute; reflexivity. Qed.

Lemma tables_ok : declared_ok = true /\ classes_known = true /\ tables_live = true.
Proof. repeat split; vm_compute; reflexivity. Qed.

(* open defects (sites listed in open_sites; none today): each listed site is really uncovered *)
Definition open_check (w : string * string * string * nat * string) : bool :=
  match w with (f, g, c, i, _) =>
    match find (fun s => site_key_eqb s f g c i) sites with
    | Some s => negb (site_ok s) && mem_s "ValueError" (uncovered s)
    | None => false
    end
  end.

Lemma mem_s_In x l : mem_s x l = true -> In x l.
Proof.
  unfold mem_s. intro H. apply existsb_exists in H. destruct H as [y [Hy E]].
  apply String.eqb_eq in E. subst. exact Hy.
Qed.

Lemma open_sites_uncovered :
  forall f g c i sig, In (f, g, c, i, sig) open_sites ->
    exists s, In s sites /\ site_key_eqb s f g c i = true /\ site_ok s = false /\ In "ValueError" (uncovered s).
Proof.
  assert (Hall : forallb open_check open_sites = true) by (vm_compute; reflexivity).
  intros f g c i sig Hin. rewrite forallb_forall in Hall. specialize (Hall _ Hin).
  unfold open_check in Hall.
  destruct (find (fun s => site_key_eqb s f g c i) sites) as [s|] eqn:E; [|discriminate].
  apply find_some in E. destruct E as [Hs Hk]. apply andb_true_iff in Hall. destruct Hall as [H1 H2].
  exists s. repeat split; auto.
  - apply negb_true_iff. exact H1.
  - apply mem_s_In. exact H2.
Qed.

(* every except clause of the package: reports, re-raises declared classes only, or is a justified silent fallback *)
Lemma handlers_all_ok : forallb handler_ok handlers = true /\ silent_live = true.
Proof. split; vm_compute; reflexivity. Qed.
