(* Refinement: the expansion driven by the regenerated guard code returns (with the guard state restored) exactly
   when the hand-written model [expand] returns; hence the totality theorem holds for the translated code. *)
From Coq Require Import List NArith Bool Lia Arith.
From MV Require Import Base.PyStr Base.Res Exc.CoreModel Exc.CoreProofs Gen.GuardSrc Exc.CoreSrc.
Import ListNotations.

Definition lift {A} (r : res unit) (st : A) : res A := match r with Ok _ => Ok st | Raise e => Raise e end.

Lemma hits_truthy active refs : py_truthy (py_intersection refs active) = hits active refs.
Proof.
  unfold py_intersection, hits. induction refs as [|r t IH]; [reflexivity|].
  cbn [filter existsb]. destruct (mem_str r active); [reflexivity|exact IH].
Qed.

Lemma diff_restores active refs : hits active refs = false ->
  py_difference_update (py_update active refs) refs = active.
Proof.
  intro H. unfold py_difference_update, py_update. rewrite filter_app.
  assert (E1 : filter (fun x => negb (mem_str x refs)) refs = []).
  { clear H. assert (G : forall l, (forall x, In x l -> mem_str x refs = true) -> filter (fun x => negb (mem_str x refs)) l = []).
    { induction l as [|x l IH]; intro Hl; [reflexivity|]. cbn [filter]. rewrite (Hl x (or_introl eq_refl)). cbn [negb].
      apply IH. intros y Hy. apply Hl. right. exact Hy. }
    apply G. intros x Hx. apply mem_str_In. exact Hx. }
  rewrite E1. cbn [app].
  assert (G : forall l, (forall x, In x l -> mem_str x refs = false) -> filter (fun x => negb (mem_str x refs)) l = l).
  { induction l as [|x l IH]; intro Hl; [reflexivity|]. cbn [filter]. rewrite (Hl x (or_introl eq_refl)). cbn [negb].
    f_equal. apply IH. intros y Hy. apply Hl. right. exact Hy. }
  apply G. intros x Hx. destruct (mem_str x refs) eqn:E; [|reflexivity].
  apply mem_str_In in E. pose proof (hits_false_all _ _ H x E) as Hm.
  assert (mem_str x active = true) by (apply mem_str_In; exact Hx). congruence.
Qed.

Section SubstRefine.
  Variable succs : list str -> list (list str).

  Lemma subst_src_refines : forall fuel active refs,
    expand_subst_src succs fuel active refs = lift (expand succs fuel active refs) active.
  Proof.
    induction fuel as [|f IH]; intros active refs; [reflexivity|].
    cbn [expand_subst_src expand]. unfold render_substitution_guard_src.
    rewrite hits_truthy. destruct (hits active refs) eqn:Hh; [reflexivity|].
    unfold py_update at 1.
    assert (Hthread : forall l,
      thread (list str) (expand_subst_src succs f) (refs ++ active) l =
      lift ((fix all (l : list (list str)) : res unit :=
               match l with [] => Ok tt | c :: l' => do _ <- expand succs f (refs ++ active) c ; all l' end) l) (refs ++ active)).
    { induction l as [|c t IHt]; [reflexivity|].
      cbn [thread]. rewrite IH. destruct (expand succs f (refs ++ active) c) as [[]|e]; cbn [lift bind]; [exact IHt|reflexivity]. }
    rewrite Hthread.
    match goal with |- context [lift ?r _] => destruct r as [[]|e] end; cbn [lift]; [|reflexivity].
    f_equal. exact (diff_restores active refs Hh).
  Qed.

  (* totality of the translated substitution guard: nesting bounded by the number of distinct names *)
  Theorem subst_src_total : forall U, closed succs U -> forall refs, refs <> [] -> incl refs U ->
    expand_subst_src succs (S (length U)) [] refs = Ok [].
  Proof.
    intros U HU refs Hne Hin. rewrite subst_src_refines. rewrite (expand_total succs U HU refs Hne Hin). reflexivity.
  Qed.
End SubstRefine.

Definition equivm (a b : list str) : Prop := forall x, mem_str x a = mem_str x b.

Lemma removelast_app_one (l : list str) k : removelast (l ++ [k]) = l.
Proof. apply removelast_last. Qed.

Section IncludeRefine.
  Variable succs : str -> list str.

  Lemma include_src_refines : forall fuel log active key, equivm log active ->
    expand_include_src succs fuel log key = lift (expand (lift_inc succs) fuel active [key]) log.
  Proof.
    induction fuel as [|f IH]; intros log active key Heq; [reflexivity|].
    cbn [expand_include_src expand]. unfold include_guard_src, py_in.
    assert (Hh : hits active [key] = mem_str key log).
    { unfold hits. cbn [existsb]. rewrite orb_false_r. symmetry. apply Heq. }
    rewrite Hh. destruct (mem_str key log) eqn:Hm; [reflexivity|].
    unfold py_append.
    assert (Heq' : equivm (log ++ [key]) ([key] ++ active)).
    { intro x. rewrite !mem_str_app. rewrite (Heq x). cbn [mem_str]. rewrite orb_false_r. apply orb_comm. }
    cbn [lift_inc].
    assert (Hthread : forall l,
      thread str (expand_include_src succs f) (log ++ [key]) l =
      lift ((fix all (l : list (list str)) : res unit :=
               match l with [] => Ok tt | c :: l' => do _ <- expand (lift_inc succs) f ([key] ++ active) c ; all l' end)
            (map (fun k' => [k']) l)) (log ++ [key])).
    { induction l as [|c t IHt]; [reflexivity|].
      cbn [thread map]. rewrite (IH (log ++ [key]) ([key] ++ active) c Heq').
      destruct (expand (lift_inc succs) f ([key] ++ active) [c]) as [[]|e]; cbn [lift bind]; [exact IHt|reflexivity]. }
    rewrite Hthread.
    match goal with |- context [lift ?r _] => destruct r as [[]|e] end; cbn [lift]; [|reflexivity].
    unfold py_pop. rewrite removelast_app_one. reflexivity.
  Qed.

  Lemma lift_inc_closed U : (forall k k', In k' (succs k) -> In k' U) -> closed (lift_inc succs) U.
  Proof.
    intros H ks c Hc. unfold lift_inc in Hc. destruct ks as [|k [|k2 t]]; try destruct Hc.
    apply in_map_iff in Hc. destruct Hc as [k' [E Hk']]. subst c. split; [discriminate|].
    intros x [<-|[]]. exact (H k k' Hk').
  Qed.

  (* totality of the translated include guard: nesting bounded by the number of distinct include keys *)
  Theorem include_src_total : forall U, (forall k k', In k' (succs k) -> In k' U) -> forall key, In key U ->
    expand_include_src succs (S (length U)) [] key = Ok [].
  Proof.
    intros U HU key Hk. rewrite (include_src_refines (S (length U)) [] [] key (fun x => eq_refl)).
    rewrite (expand_total (lift_inc succs) U (lift_inc_closed U HU) [key]); [reflexivity|discriminate|].
    intros x [<-|[]]. exact Hk.
  Qed.
End IncludeRefine.
