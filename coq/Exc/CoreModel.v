(* C01 (a): small executable models of the places where the renderer could fail to return:
   - update_section_level_state: max() over the section levels below the new heading level
   - guarded re-entrant expansion: {include} of files (guard: the include log of
     MockIncludeDirective.run) and {{substitution}} (guard: document.sub_references of
     render_substitution).  Definitions only; proofs are in Exc/CoreProofs.v. *)
From Coq Require Import List NArith Bool.
From MV Require Import Base.PyStr Base.Res.
Import ListNotations.
Open Scope N_scope.

(* ---------------------------------------------------------------- section levels *)

(* Python max(iterable): ValueError on an empty iterable *)
Definition py_max (l : list N) : res N :=
  match l with
  | [] => Raise ValueError
  | x :: l' => Ok (fold_left N.max l' x)
  end.

(* parent_level = max(l for l in self._level_to_section if level > l) *)
Definition parent_level (lm : list N) (level : N) : res N :=
  py_max (filter (fun l => l <? level) lm).

(* self._level_to_section[level] = section (a dict: one entry per level); then keep the levels <= level *)
Definition update_levels (lm : list N) (level : N) : res (list N) :=
  do _ <- parent_level lm level ;
  Ok (filter (fun l => l <=? level) (level :: filter (fun l => negb (l =? level)) lm)).

(* a document: the sequence of heading levels (tag digit + heading_offset), from {0: document} *)
Fixpoint run_headings (lm : list N) (levels : list N) : res (list N) :=
  match levels with
  | [] => Ok lm
  | h :: t => do lm' <- update_levels lm h ; run_headings lm' t
  end.

(* ---------------------------------------------------------------- guarded expansion *)

Section Guarded.
  (* a call is identified by its keys: for {include} the singleton [normalised path + clip options],
     for a substitution token the names its expression references.  [succs ks] = the calls
     found in the text that call ks produces (the include directives of the included file /
     the substitution tokens of the rendered value). *)
  Variable succs : list str -> list (list str).

  Definition hits (active ks : list str) : bool := existsb (fun k => mem_str k active) ks.

  (* with the guard: a call that meets an active key is reported (warning) and not expanded *)
  Fixpoint expand (fuel : nat) (active : list str) (ks : list str) : res unit :=
    match fuel with
    | O => Raise OutOfFuel
    | S f =>
        if hits active ks then Ok tt
        else (fix all (l : list (list str)) : res unit :=
                match l with
                | [] => Ok tt
                | c :: l' => do _ <- expand f (ks ++ active) c ; all l'
                end) (succs ks)
    end.

  (* without any guard (MockIncludeDirective.run before the include log existed) *)
  Fixpoint expand_nolog (fuel : nat) (ks : list str) : res unit :=
    match fuel with
    | O => Raise OutOfFuel
    | S f => (fix all (l : list (list str)) : res unit :=
                match l with
                | [] => Ok tt
                | c :: l' => do _ <- expand_nolog f c ; all l'
                end) (succs ks)
    end.

  (* every call that can arise names at least one key, and only keys of the finite universe U
     (the include keys written in the finite set of files / the defined substitution names) *)
  Definition closed (U : list str) : Prop :=
    forall ks c, In c (succs ks) -> c <> [] /\ incl c U.
End Guarded.

(* a file that includes itself / a substitution whose value is itself *)
Definition succs_self (ks : list str) : list (list str) := [ks].

(* ---------------------------------------------------------------- primitives used by the regenerated guard code
   (coq/Gen/GuardSrc.v, translated from the source by gen/c01_guards.py); sets are lists without order *)
Definition py_in (k : str) (l : list str) : bool := mem_str k l.
Definition py_append (l : list str) (k : str) : list str := l ++ [k].
Definition py_pop (l : list str) : list str := removelast l.
Definition py_intersection (a s : list str) : list str := filter (fun x => mem_str x s) a.
Definition py_truthy (l : list str) : bool := match l with [] => false | _ => true end.
Definition py_update (s a : list str) : list str := a ++ s.
Definition py_difference_update (s a : list str) : list str := filter (fun x => negb (mem_str x a)) s.

(* the nested render of a call: its children, one after the other, threading the guard state *)
Section Thread.
  Variable K : Type.
  Variable step : list str -> K -> res (list str).
  Fixpoint thread (st : list str) (l : list K) : res (list str) :=
    match l with
    | [] => Ok st
    | c :: t => do st' <- step st c ; thread st' t
    end.
End Thread.
