(* C01 (b): the hand-written, TRUSTED tables and the executable checker over the generated
   call-site table.  Executable definitions only; lemmas are in Exc/ExcProofs.v.

   raises    : callee key -> exception classes the callee may raise on user-controlled input
               (from the documentation / source of the library named; a class stands for
               itself and all its subclasses)
   declared  : functions of the package that let exceptions escape by design, the callee key
               under which their own call sites are recorded, and the classes that may escape
   whitelist : call sites that cannot raise for a stated reason (each with its justification)
   out_scope : functions that are not reachable from Parser.parse with document data
   open_sites: sites of defects that are still open (each refuted by a theorem in Props/C01.v) *)
From Coq Require Import List String Ascii Bool Arith.
From MV Require Import Exc.ExcDefs Gen.ExcFlow.
Import ListNotations.
Open Scope string_scope.

(* CLASSES-BEGIN *)
Definition E_Exception := "Exception".
Definition E_Value := "ValueError".
Definition E_Type := "TypeError".
Definition E_OS := "OSError".
Definition E_Markup := "docutils.parsers.rst.states.MarkupError".
Definition E_Directive := "docutils.parsers.rst.DirectiveError".
Definition E_Mocking := "myst_parser.mocking.MockingError".
Definition E_Tokenize := "myst_parser.parsers.options.TokenizeError".
Definition E_Topmatter := "myst_parser.config.main.TopmatterReadError".
Definition E_NoUri := "sphinx.errors.NoUri".
Definition E_Zlib := "zlib.error".
Definition E_UnicodeDecode := "UnicodeDecodeError".
Definition E_Http := "http.client.HTTPException".

Definition inventory_errors := [E_OS; E_Value; E_Zlib; E_UnicodeDecode; E_Http; "EOFError"].

Definition raises : list (string * list string) := [
  (* PyYAML: every loader error derives from YAMLError; the scalar constructors of the safe
     loader additionally let plain Python errors through (float('x'), bool_values['x'],
     timestamp regexp None, chr() of an out-of-range \U escape), and deep nesting recurses *)
  ("yaml.safe_load", ["yaml.error.YAMLError"; E_Value; "KeyError"; "AttributeError"; "OverflowError"; E_Type; "RecursionError"]);
  (* every call site passes a str (or an int): TypeError needs an argument of another type *)
  ("int", [E_Value]);
  ("float", [E_Value; E_Type; "OverflowError"]);
  ("chr", [E_Value; "OverflowError"; E_Type]);
  ("ord", [E_Type]);
  ("open", [E_OS; E_Value]);
  ("Path.read_text", [E_OS; E_UnicodeDecode; "LookupError"; E_Value]);
  ("Path.is_file", [E_OS]);
  ("os.path.relpath", [E_Value]);
  ("urlopen", [E_OS; E_Value; E_Http]);
  ("import_module", ["ImportError"; E_Value; E_Type]);
  ("getattr", ["AttributeError"]);
  ("urlparse", [E_Value]);
  ("parselinenos", [E_Value]);
  (* (a value nested deeply enough to exhaust json's recursion has exhausted PyYAML's first) *)
  ("json.dumps", [E_Type; E_Value]);
  ("json.loads", [E_Value; E_Type]);
  ("zlib.decompress", [E_Zlib]);
  ("bytes.decode", [E_UnicodeDecode]);
  ("stream.read", [E_OS]);
  ("lexer.init", ["docutils.utils.code_analyzer.LexerError"]);
  (* docutils option conversion functions: "raise ValueError or TypeError" (directive how-to); several of them
     raise AttributeError when the value is empty (None): unicode_code, figwidth_value *)
  ("option_converter", [E_Value; E_Type; "AttributeError"]);
  ("attr_converter", [E_Value]);
  ("tokenize_html", [E_Exception]);
  ("HTMLParser.feed", [E_Exception]);
  ("options_to_items", [E_Tokenize]);
  ("parse_directive_text", [E_Markup]);
  ("fetch_inventory", inventory_errors);
  ("read_topmatter", [E_Topmatter]);
  ("validate_field", [E_Type; E_Value]);
  ("validator", [E_Type; E_Value]);
  ("config.init", [E_Type; E_Value]);
  (* user supplied slug function: anything *)
  ("compute_unique_slug", [E_Exception]);
  ("slug_func", [E_Exception]);
  ("token_line", [E_Value]);
  (* docutils directive contract: DirectiveError (or messages); the mocked state raises MockingError *)
  ("directive.run", [E_Directive; E_Mocking]);
  ("mock_api", [E_Directive; E_Mocking; E_Markup]);
  (* docutils role contract: problems are returned as system messages *)
  ("role_func", []);
  (* jinja2: template errors, undefined variables and whatever the evaluated expression raises *)
  ("jinja.render", [E_Exception]);
  ("jinja.parse", ["jinja2.exceptions.TemplateSyntaxError"]);
  ("rst.parse", []);
  ("events.emit", ["sphinx.errors.ExtensionError"]);
  (* os.path.abspath / realpath / os.access reject a path with an embedded NUL character *)
  ("env.relfn2path", [E_Value]);
  ("os.access", [E_Value]);
  (* transform phase: subscripts on doctree nodes / registries, list.remove / Element.replace *)
  ("subscript", ["KeyError"; "IndexError"; E_Type]);
  ("list.remove", [E_Value]);
  ("domain.resolve", ["NotImplementedError"]);
  ("make_refnode", [E_NoUri]);
  ("resolve_myst_ref_any", [E_NoUri]);
  ("state.nested_parse", []);
  ("list.index", [E_Value]);
  ("sorted", [E_Type]);
  ("max", [E_Value]);
  ("min", [E_Value]);
  ("next", ["StopIteration"]);
  ("re.compile", ["re.error"]);
  ("yaml.dump", [E_Exception]);
  ("docutils.publish", [E_Exception])
].

(* file, function-name prefix ("" = every function of the file), callee key, classes that escape by design *)
Definition declared : list (string * string * string * list string) := [
  ("myst_parser/config/main.py", "read_topmatter", "read_topmatter", [E_Topmatter]);
  ("myst_parser/config/main.py", "check_", "validate_field", [E_Type; E_Value]);
  ("myst_parser/config/main.py", "MdParserConfig.__post_init__", "config.init", [E_Type; E_Value]);
  ("myst_parser/config/dc_validators.py", "", "validate_field", [E_Type; E_Value]);
  ("myst_parser/inventory.py", "load", "fetch_inventory", inventory_errors);
  ("myst_parser/inventory.py", "_load_v", "fetch_inventory", inventory_errors);
  ("myst_parser/inventory.py", "InventoryFileReader.", "fetch_inventory", inventory_errors);
  ("myst_parser/inventory.py", "fetch_inventory", "fetch_inventory", inventory_errors);
  ("myst_parser/parsers/directives.py", "parse_directive_", "parse_directive_text", [E_Markup]);
  ("myst_parser/parsers/directives.py", "_parse_directive_options", "parse_directive_text", [E_Markup]);
  ("myst_parser/parsers/options.py", "", "options_to_items", [E_Tokenize]);
  ("myst_parser/mocking.py", "MockIncludeDirective.run", "directive.run", [E_Directive; E_Mocking]);
  ("myst_parser/mocking.py", "MockState.", "mock_api", [E_Directive; E_Mocking; E_Markup]);
  ("myst_parser/mocking.py", "MockInliner.", "mock_api", [E_Mocking]);
  ("myst_parser/mocking.py", "MockStateMachine.", "mock_api", [E_Mocking]);
  ("myst_parser/mdit_to_docutils/base.py", "compute_unique_slug", "compute_unique_slug", [E_Exception]);
  ("myst_parser/mdit_to_docutils/base.py", "token_line", "token_line", [E_Value]);
  ("myst_parser/mdit_to_docutils/base.py", "DocutilsRenderer._parse_linenos", "parselinenos", [E_Value]);
  ("myst_parser/parsers/parse_html.py", "", "tokenize_html", [E_Exception]);
  ("myst_parser/sphinx_ext/myst_refs.py", "MystReferenceResolver.resolve_myst_ref_any", "resolve_myst_ref_any", [E_NoUri]);
  ("myst_parser/sphinx_ext/myst_refs.py", "MystReferenceResolver._resolve_", "resolve_myst_ref_any", [E_NoUri]);
  ("myst_parser/sphinx_ext/directives.py", "align", "option_converter", [E_Value; E_Type; "AttributeError"]);
  ("myst_parser/sphinx_ext/directives.py", "figwidth_value", "option_converter", [E_Value; E_Type; "AttributeError"]);
  ("myst_parser/parsers/docutils_.py", "create_myst_config", "config.init", [E_Type; E_Value])
].
(* CLASSES-END *)

(* file, function prefix, justification *)
Definition out_scope : list (string * string * string) := [
  ("myst_parser/_docs.py", "", "directives of the project's own documentation build; not part of the parser");
  ("myst_parser/cli.py", "", "command line tool (myst-anchors)");
  ("myst_parser/inventory.py", "inventory_cli", "command line tool (myst-inv)");
  ("myst_parser/parsers/docutils_.py", "_validate_", "docutils option-parser validators: run by docutils on configuration values before any document is parsed; docutils reports their ValueError as a configuration error");
  ("myst_parser/parsers/docutils_.py", "_create_validate_", "docutils option-parser validators (see _validate_)");
  ("myst_parser/parsers/docutils_.py", "_attr_to_optparse_option", "import-time construction of the settings spec from the dataclass fields");
  ("myst_parser/parsers/docutils_.py", "attr_to_optparse_option", "import-time construction of the settings spec");
  ("myst_parser/parsers/docutils_.py", "create_myst_settings_spec", "import-time construction of the settings spec");
  ("myst_parser/parsers/docutils_.py", "_run_cli", "command line entry points");
  ("myst_parser/parsers/docutils_.py", "cli_", "command line entry points");
  ("myst_parser/parsers/docutils_.py", "to_html5_demo", "convenience API wrapping docutils publish_string");
  ("myst_parser/sphinx_ext/myst_refs.py", "MystReferenceResolver.log_warning", "regular expressions come from conf.py (nitpick_ignore_regex), not from documents");
  ("myst_parser/sphinx_ext/mathjax.py", "html_visit_displaymath", "HTML writer visitor (SkipNode is the docutils visitor protocol); the writers are outside C01");
  ("myst_parser/parsers/parse_html.py", "Element.render", "abstract method of the HTML AST base class; every node class built by the parser overrides it")
].

(* file, function, callee key, ordinal, justification *)
Definition whitelist : list (string * string * string * nat * string) := [
  ("myst_parser/mdit_to_docutils/base.py", "DocutilsRenderer.update_section_level_state", "max", 0,
   "the level map always holds level 0 (the document) and a heading has level >= 1: theorem C01_section_parent_exists");
  ("myst_parser/mocking.py", "MockState.__init__.Struct", "max", 0,
   "max over the keys of the level map, which always holds level 0 (C01_section_parent_exists)");
  ("myst_parser/mocking.py", "MockState._nest_line_block_segment", "min", 0,
   "called by the docutils line-block directive after assert_has_content(), and recursively only on non-empty blocks");
  ("myst_parser/mdit_to_docutils/base.py", "DocutilsRenderer.render_heading", "int", 0,
   "token.tag of a heading token is h1..h6 (markdown-it heading / lheading rules)");
  ("myst_parser/mdit_to_docutils/base.py", "DocutilsRenderer.create_highlighted_code_block", "lexer.init", 1,
   "tokennames='none': docutils' Lexer returns before looking up a pygments lexer, the only source of LexerError");
  ("myst_parser/mdit_to_docutils/base.py", "DocutilsRenderer.render_substitution", "jinja.parse", 0,
   "the same template source was compiled by env.from_string() in the try block just above");
  ("myst_parser/mdit_to_docutils/base.py", "DocutilsRenderer.render_image.<lambda>", "option_converter", 0,
   "directives.choice raises only ValueError on a str argument; the lambda is itself the attr_converter");
  ("myst_parser/mdit_to_docutils/base.py", "DocutilsRenderer.render_html_block", "token_line", 0, "O_token_map");
  ("myst_parser/mdit_to_docutils/base.py", "DocutilsRenderer.render_footnote_reference", "token_line", 0, "O_token_map");
  ("myst_parser/mdit_to_docutils/base.py", "DocutilsRenderer.render_myst_role", "token_line", 0, "guarded by 'if token.map'");
  ("myst_parser/mdit_to_docutils/base.py", "DocutilsRenderer.render_dl", "token_line", 0, "O_token_map");
  ("myst_parser/mdit_to_docutils/base.py", "DocutilsRenderer.render_dl", "token_line", 1, "O_token_map");
  ("myst_parser/mdit_to_docutils/base.py", "DocutilsRenderer.render_field_list", "token_line", 0, "O_token_map");
  ("myst_parser/mdit_to_docutils/base.py", "DocutilsRenderer.render_restructuredtext", "token_line", 0, "O_token_map");
  ("myst_parser/mdit_to_docutils/base.py", "DocutilsRenderer.render_directive", "token_line", 0, "O_token_map");
  ("myst_parser/mdit_to_docutils/base.py", "DocutilsRenderer.render_substitution", "token_line", 0, "O_token_map");
  ("myst_parser/parsers/options.py", "_scan_flow_scalar_non_spaces", "int", 0,
   "the loop above has checked that the next 'length' characters are hexadecimal digits");
  ("myst_parser/parsers/options.py", "_scan_flow_scalar_non_spaces", "chr", 0,
   "code <= 0x10FFFF is checked on the line above (else TokenizeError)");
  ("myst_parser/parsers/options.py", "_scan_block_scalar_indicators", "int", 0, "ch is one decimal digit (membership test above)");
  ("myst_parser/parsers/options.py", "_scan_block_scalar_indicators", "int", 1, "ch is one decimal digit (membership test above)");
  ("myst_parser/mdit_to_docutils/html_to_nodes.py", "option_line.<lambda>", "ord", 0, "m.group(0) is one character (the regex is a single character class)");
  ("myst_parser/mdit_to_docutils/html_to_nodes.py", "html_to_nodes", "sorted", 0, "keys are attribute names: all str");
  ("myst_parser/mdit_to_docutils/html_to_nodes.py", "html_to_nodes", "sorted", 1, "keys are attribute names: all str");
  ("myst_parser/parsers/directives.py", "_parse_directive_options", "sorted", 0, "option names: all str");
  ("myst_parser/parsers/directives.py", "_parse_directive_options", "sorted", 1, "option names: all str");
  ("myst_parser/mdit_to_docutils/transforms.py", "SortFootnotes.apply._sort_key", "list.index", 0, "guarded by 'in ref_order'");
  ("myst_parser/mdit_to_docutils/transforms.py", "SortFootnotes.apply", "sorted", 0, "keys are int");
  ("myst_parser/mdit_to_docutils/transforms.py", "CollectFootnotes.apply", "sorted", 0,
   "labels of MyST footnotes are decimal after the docutils Footnotes transform, so every key is an int (symbol footnotes cannot be written in MyST)");
  ("myst_parser/config/main.py", "merge_file_level", "config.init", 0,
   "config.copy() re-validates the field values of an already validated config object");
  ("myst_parser/config/main.py", "merge_file_level", "getattr", 0, "name is a dataclass field of the config (checked against fields above)");
  ("myst_parser/config/dc_validators.py", "validate_fields", "getattr", 0, "field.name is a dataclass field of the instance");
  ("myst_parser/mdit_to_docutils/sphinx_.py", "SphinxRenderer._handle_relative_docs", "os.path.relpath", 0,
   "both arguments are non-empty POSIX paths (ValueError only for an empty path or different Windows drives)");
  ("myst_parser/mocking.py", "MockIncludeDirective.run", "os.path.relpath", 0, "non-empty absolute paths");
  ("myst_parser/mocking.py", "MockIncludeDirective.run", "os.path.relpath", 1, "non-empty absolute paths");
  ("myst_parser/mocking.py", "MockIncludeDirective.run", "events.emit", 0,
   "ExtensionError wraps a failure of a third-party 'include-read' handler: an extension defect, not a document defect");
  ("myst_parser/sphinx_ext/myst_refs.py", "MystReferenceResolver.resolve_myst_ref_any", "domain.resolve", 1,
   "resolve_xref is the legacy interface that every Sphinx Domain implements");
  ("myst_parser/mdit_to_docutils/transforms.py", "UnreferencedFootnotesDetector.apply", "subscript:node['backrefs']", 0, "docutils gives every Element the list attributes ids, classes, names, dupnames (Element.list_attributes) and footnotes 'backrefs' (set by nodes.footnote / note_*): the key always exists");
  ("myst_parser/mdit_to_docutils/transforms.py", "UnreferencedFootnotesDetector.apply", "subscript:node['backrefs']", 1, "docutils gives every Element the list attributes ids, classes, names, dupnames (Element.list_attributes) and footnotes 'backrefs' (set by nodes.footnote / note_*): the key always exists");
  ("myst_parser/mdit_to_docutils/transforms.py", "UnreferencedFootnotesDetector.apply", "subscript:node['backrefs']", 2, "docutils gives every Element the list attributes ids, classes, names, dupnames (Element.list_attributes) and footnotes 'backrefs' (set by nodes.footnote / note_*): the key always exists");
  ("myst_parser/mdit_to_docutils/transforms.py", "UnreferencedFootnotesDetector.apply", "subscript:node['names']", 0, "docutils gives every Element the list attributes ids, classes, names, dupnames (Element.list_attributes) and footnotes 'backrefs' (set by nodes.footnote / note_*): the key always exists");
  ("myst_parser/mdit_to_docutils/transforms.py", "UnreferencedFootnotesDetector.apply", "subscript:node['names']", 1, "docutils gives every Element the list attributes ids, classes, names, dupnames (Element.list_attributes) and footnotes 'backrefs' (set by nodes.footnote / note_*): the key always exists");
  ("myst_parser/mdit_to_docutils/transforms.py", "UnreferencedFootnotesDetector.apply", "subscript:node['names']", 2, "docutils gives every Element the list attributes ids, classes, names, dupnames (Element.list_attributes) and footnotes 'backrefs' (set by nodes.footnote / note_*): the key always exists");
  ("myst_parser/mdit_to_docutils/transforms.py", "UnreferencedFootnotesDetector.apply", "subscript:node['names']", 3, "docutils gives every Element the list attributes ids, classes, names, dupnames (Element.list_attributes) and footnotes 'backrefs' (set by nodes.footnote / note_*): the key always exists");
  ("myst_parser/mdit_to_docutils/transforms.py", "UnreferencedFootnotesDetector.apply", "subscript:node['names'][0]", 0, "evaluated only when node['names'] is non-empty (conditional expression on the same line, inside 'if ... and node[names]')");
  ("myst_parser/mdit_to_docutils/transforms.py", "UnreferencedFootnotesDetector.apply", "subscript:node['dupnames'][0]", 0, "unreachable: the enclosing if requires node['names'] to be non-empty, so the else branch of the conditional expression is never taken");
  ("myst_parser/mdit_to_docutils/transforms.py", "UnreferencedFootnotesDetector.apply", "subscript:node['dupnames']", 0, "docutils gives every Element the list attributes ids, classes, names, dupnames (Element.list_attributes) and footnotes 'backrefs' (set by nodes.footnote / note_*): the key always exists");
  ("myst_parser/mdit_to_docutils/transforms.py", "SortFootnotes.apply", "subscript:node['refname']", 0, "guarded by 'if ''refname'' in node' in the comprehension");
  ("myst_parser/mdit_to_docutils/transforms.py", "SortFootnotes.apply._sort_key", "subscript:node['names']", 0, "docutils gives every Element the list attributes ids, classes, names, dupnames (Element.list_attributes) and footnotes 'backrefs' (set by nodes.footnote / note_*): the key always exists");
  ("myst_parser/mdit_to_docutils/transforms.py", "SortFootnotes.apply._sort_key", "subscript:node['names']", 1, "docutils gives every Element the list attributes ids, classes, names, dupnames (Element.list_attributes) and footnotes 'backrefs' (set by nodes.footnote / note_*): the key always exists");
  ("myst_parser/mdit_to_docutils/transforms.py", "SortFootnotes.apply._sort_key", "subscript:node['names']", 2, "docutils gives every Element the list attributes ids, classes, names, dupnames (Element.list_attributes) and footnotes 'backrefs' (set by nodes.footnote / note_*): the key always exists");
  ("myst_parser/mdit_to_docutils/transforms.py", "SortFootnotes.apply._sort_key", "subscript:node['names'][0]", 0, "guarded by the truthiness test of node['names'] at the start of the condition");
  ("myst_parser/mdit_to_docutils/transforms.py", "SortFootnotes.apply._sort_key", "subscript:node['names'][0]", 1, "guarded by the truthiness test of node['names'] at the start of the condition");
  ("myst_parser/mdit_to_docutils/transforms.py", "CollectFootnotes.apply", "subscript:footnote.children[0]", 0, "every footnote of document.footnotes / autofootnotes / symbol_footnotes has a label as first child: manual ones get it in render_footnote_reference, auto-numbered ones from docutils' Footnotes transform (priority 620, this transform runs at 623)");
  ("myst_parser/mdit_to_docutils/transforms.py", "CollectFootnotes.apply", "list.remove:footnote.parent", 0, "the footnote is a child of its parent (parent pointers are maintained by docutils' Element.append / remove)");
  ("myst_parser/mdit_to_docutils/transforms.py", "ResolveAnchorIds.apply", "subscript:self.document.nameids[name]", 0, "name iterates document.nametypes; docutils sets nameids[name] and nametypes[name] together (document.set_name_id_map / set_duplicate_name_id)");
  ("myst_parser/mdit_to_docutils/transforms.py", "ResolveAnchorIds.apply", "subscript:self.document.ids[labelid]", 0, "labelid is a non-None value of document.nameids: docutils registers the node under that id in document.ids (set_id)");
  ("myst_parser/mdit_to_docutils/transforms.py", "ResolveAnchorIds.apply", "subscript:node['refid']", 0, "guarded by 'refid' in node");
  ("myst_parser/mdit_to_docutils/transforms.py", "ResolveAnchorIds.apply", "subscript:node['names'][0]", 0, "same statement as Sphinx' StandardDomain.process_doc: a target has a refid only after PropagateTargets / IndirectHyperlinks, which register the referenced node under that id and move the target's names to it (O_propagate_targets, exercised by the search over (x)= targets and eval-rst indirect targets)");
  ("myst_parser/mdit_to_docutils/transforms.py", "ResolveAnchorIds.apply", "subscript:node['names']", 0, "docutils gives every Element the list attributes ids, classes, names, dupnames (Element.list_attributes) and footnotes 'backrefs' (set by nodes.footnote / note_*): the key always exists (see node['names'][0] for the referenced node being present)");
  ("myst_parser/mdit_to_docutils/transforms.py", "ResolveAnchorIds.apply", "subscript:node[0]", 0, "guarded by 'and node.children'");
  ("myst_parser/mdit_to_docutils/transforms.py", "ResolveAnchorIds.apply", "subscript:node[0]", 1, "guarded by 'and node.children'");
  ("myst_parser/mdit_to_docutils/transforms.py", "ResolveAnchorIds.apply", "subscript:refnode['refuri']", 0, "only reference nodes built by render_link_anchor carry id_link (tested just above), and it sets refuri; copy_attributes cannot set id_link from user attributes");
  ("myst_parser/mdit_to_docutils/transforms.py", "ResolveAnchorIds.apply", "subscript:refnode['refuri']", 1, "only reference nodes built by render_link_anchor carry id_link (tested just above), and it sets refuri; copy_attributes cannot set id_link from user attributes");
  ("myst_parser/mdit_to_docutils/transforms.py", "ResolveAnchorIds.apply", "subscript:explicit[target]", 0, "guarded by 'target in explicit'");
  ("myst_parser/mdit_to_docutils/transforms.py", "ResolveAnchorIds.apply", "subscript:slugs[target]", 0, "guarded by 'target in slugs'");
  ("myst_parser/mdit_to_docutils/transforms.py", "ResolveAnchorIds.apply", "subscript:refnode['classes']", 0, "docutils gives every Element the list attributes ids, classes, names, dupnames (Element.list_attributes) and footnotes 'backrefs' (set by nodes.footnote / note_*): the key always exists");
  ("myst_parser/mdit_to_docutils/transforms.py", "ResolveAnchorIds.apply", "subscript:refnode[attr]", 0, "attr ranges over ids, names, dupnames: docutils gives every Element the list attributes ids, classes, names, dupnames (Element.list_attributes) and footnotes 'backrefs' (set by nodes.footnote / note_*): the key always exists");
  ("myst_parser/mdit_to_docutils/transforms.py", "ResolveAnchorIds.apply", "list.remove:refnode.parent.replace", 0, "refnode comes from findall(document): it is a child of its parent");
  ("myst_parser/parsers/docutils_.py", "Parser.parse", "list.remove:node.parent.replace", 0, "node comes from document.traverse(nodes.raw): it is a child of its parent");
  ("myst_parser/mocking.py", "MockIncludeDirective.run", "env.relfn2path", 0, "the argument is the directive argument text: markdown-it replaces NUL characters of the source by U+FFFD and directive arguments are not percent-decoded, so no NUL can reach os.path");
  ("myst_parser/mdit_to_docutils/sphinx_.py", "SphinxRenderer.render_link_path", "os.access", 0,
   "abs_path is the result of _abs_path(): os.path.abspath has accepted it (a destination with a NUL character gives None, tested first in the same condition)");
  ("myst_parser/inventory.py", "_create_regex", "re.compile", 0,
   "the pattern consists of re.escape()d characters and '.*' only (C19 model of _create_regex)")
].

(* raise statements that are not part of exception flow to the parser's caller *)
Definition raise_whitelist : list (string * string * string) := [
  ("myst_parser/mdit_to_docutils/base.py", "DocutilsRenderer.__getattr__",
   "Python attribute protocol: AttributeError for a missing attribute; hasattr()/getattr(default) callers rely on it")
].

(* handlers that neither report nor re-raise: file, function, ordinal of the handler in the function, justification *)
Definition silent_ok : list (string * string * nat * string) := [
  ("myst_parser/config/dc_validators.py", "in_._validator", 0, "membership test on an unhashable value: falls through to the ValueError raised just below");
  ("myst_parser/config/main.py", "read_topmatter", 0, "empty input: there is no front matter, None is returned");
  ("myst_parser/mdit_to_docutils/base.py", "DocutilsRenderer.sphinx_env", 0, "no Sphinx environment on the settings object: the property returns None");
  ("myst_parser/mdit_to_docutils/base.py", "DocutilsRenderer.add_line_and_source_path", 0, "a token without a source map has no line: node.line is left unset");
  ("myst_parser/mdit_to_docutils/base.py", "DocutilsRenderer.render_code_block", 0, "non-integer lineno-start: the defaults (no line numbers) are kept");
  ("myst_parser/mdit_to_docutils/base.py", "DocutilsRenderer.render_fence", 0, "non-integer lineno-start: the defaults (no line numbers) are kept");
  ("myst_parser/mdit_to_docutils/base.py", "DocutilsRenderer.render_link_inventory", 1, "fewer than three ':' parts in the inventory path: the remaining filters stay None");
  ("myst_parser/mdit_to_docutils/base.py", "DocutilsRenderer.dict_to_fm_field_list", 0, "value not serialisable as JSON: shown as str(value)");
  ("myst_parser/mdit_to_docutils/sphinx_.py", "_is_file", 0, "a path the OS rejects is not a file (the caller then emits the pending_xref / xref_missing path)");
  ("myst_parser/mdit_to_docutils/sphinx_.py", "SphinxRenderer._abs_path", 0, "destination with a NUL character: None is returned and every caller reports it as myst.xref_missing");
  ("myst_parser/mdit_to_docutils/transforms.py", "CollectFootnotes.apply._sort_key", 0, "non-integer footnote label: sorted after the integer ones");
  ("myst_parser/mocking.py", "MockIncludeDirective.run", 0, "no Sphinx environment: the include argument is used as a plain path");
  ("myst_parser/parsers/directives.py", "_parse_directive_options", 2, "unknown option name: collected in unknown_options and reported by one warning after the loop");
  ("myst_parser/parsers/docutils_.py", "Parser.parse", 1, "malformed front matter: reported as 'Malformed YAML' by render_front_matter during the render");
  ("myst_parser/parsers/sphinx_.py", "MystParser.parse", 0, "malformed front matter: reported as 'Malformed YAML' by render_front_matter during the render");
  ("myst_parser/parsers/parse_html.py", "HtmlToAst.parse_marked_section", 0, "html.parser asserts on an unknown marked section: the text is kept as data");
  ("myst_parser/sphinx_ext/myst_refs.py", "MystReferenceResolver.run", 0, "builder without URIs: the reference is replaced by its content node");
  ("myst_parser/sphinx_ext/myst_refs.py", "MystReferenceResolver.resolve_myst_ref_doc", 0, "builder without URIs: the inner node is used")
].

(* sites of defects that are open today: (file, function, callee, ordinal, finding signature) *)
Definition open_sites : list (string * string * string * nat * string) := [
  (* none today.  History: until 3eadb40 the two urlparse() sites of render_link_url / render_link_inventory;
     until 9a2ab65 (C12 builder) the sphinx_env.relfn2path / os.access sites of SphinxRenderer.render_link_project,
     render_link_path, render_link_unknown (a destination with %00 becomes a NUL character: ValueError). *)
].

(* ---------------------------------------------------------------- checker *)

(* a callee key may carry the source text of the expression after a colon ("subscript:node['names']") *)
Fixpoint base_key (s : string) : string :=
  match s with
  | EmptyString => EmptyString
  | String c r => if Ascii.eqb c ":"%char then EmptyString else String c (base_key r)
  end.

Definition ancestors (c : string) : option (list string) := lookup c mro.

(* e is h or a subclass of h, by the interpreter-generated MRO table *)
Definition subclass (e h : string) : bool :=
  String.eqb e h || match ancestors e with Some l => mem_s h l | None => false end.

Definition covered (e : string) (hs : list string) : bool := existsb (subclass e) hs.

Definition fmatch (file fpre : string) (f g : string) : bool :=
  String.eqb file f && String.prefix fpre g.

Definition declared_of (file func : string) : list string :=
  flat_map (fun d => match d with (f, p, _, cls) => if fmatch f p file func then cls else [] end) declared.

Definition in_out_scope (file func : string) : bool :=
  existsb (fun d => match d with (f, p, _) => fmatch f p file func end) out_scope.

Definition site_key_eqb (s : site) (file func callee : string) (idx : nat) : bool :=
  String.eqb (s_file s) file && String.eqb (s_func s) func && String.eqb (s_callee s) callee && Nat.eqb (s_idx s) idx.

Definition whitelisted (s : site) : bool :=
  existsb (fun w => match w with (f, g, c, i, _) => site_key_eqb s f g c i end) whitelist.

Definition is_open (s : site) : bool :=
  existsb (fun w => match w with (f, g, c, i, _) => site_key_eqb s f g c i end) open_sites.

(* class e raised by the callee at site s is caught by a handler of the function, or escapes
   the function as one of the classes the function is declared to let through *)
Definition class_ok (s : site) (e : string) : bool :=
  covered e (s_handlers s) || covered e (declared_of (s_file s) (s_func s)).

(* the classes of raises(callee) that are neither caught nor declared at s *)
Definition uncovered (s : site) : list string :=
  match lookup (base_key (s_callee s)) raises with
  | None => ["<unknown callee>"]
  | Some es => filter (fun e => negb (class_ok s e)) es
  end.

Definition site_ok (s : site) : bool :=
  in_out_scope (s_file s) (s_func s) || whitelisted s ||
  match uncovered s with [] => true | _ => false end.

Definition rstmt_ok (r : rstmt) : bool :=
  in_out_scope (r_file r) (r_func r) ||
  existsb (fun w => match w with (f, g, _) => String.eqb f (r_file r) && String.eqb g (r_func r) end) raise_whitelist ||
  forallb (fun c =>
     if String.eqb c "<reraise>"
     then negb (match declared_of (r_file r) (r_func r) with [] => true | _ => false end)
     else covered c (r_handlers r) || covered c (declared_of (r_file r) (r_func r))) (r_classes r).

(* handler bodies: a handler reports (warning / system message), or re-raises only classes that its function
   declares (so that the function's call sites are checked against them), or is a justified silent fallback *)
Definition handler_ok (h : hrow) : bool :=
  in_out_scope (h_file h) (h_func h) ||
  (if String.eqb (h_action h) "warn" then true
   else if String.eqb (h_action h) "raise"
        then forallb (fun c => covered c (declared_of (h_file h) (h_func h))) (h_reraised h)
        else existsb (fun w => match w with (f, g, i, _) =>
               String.eqb f (h_file h) && String.eqb g (h_func h) && Nat.eqb i (h_idx h) end) silent_ok).

Definition silent_live : bool :=
  forallb (fun w => match w with (f, g, i, _) =>
     existsb (fun h => String.eqb f (h_file h) && String.eqb g (h_func h) && Nat.eqb i (h_idx h)
                       && String.eqb (h_action h) "silent") handlers end) silent_ok.

(* the classes a declared function lets escape are among raises(its callee key): the call
   sites of the function are then checked against them *)
Definition declared_ok : bool :=
  forallb (fun d => match d with (_, _, key, cls) =>
     match lookup key raises with
     | None => false
     | Some es => forallb (fun c => covered c es) cls
     end end) declared.

(* every class named in the hand tables is known to the interpreter (has an MRO entry) *)
Definition classes_known : bool :=
  forallb (fun kv => forallb (fun c => match ancestors c with Some _ => true | None => false end) (snd kv)) raises &&
  forallb (fun d => match d with (_, _, _, cls) =>
     forallb (fun c => match ancestors c with Some _ => true | None => false end) cls end) declared &&
  match unresolved_classes with [] => true | _ => false end.

(* whitelist / open entries that no longer name a site of the source (stale entries) *)
Definition entry_live (f g c : string) (i : nat) : bool := existsb (fun s => site_key_eqb s f g c i) sites.
Definition tables_live : bool :=
  forallb (fun w => match w with (f, g, c, i, _) => entry_live f g c i end) whitelist &&
  forallb (fun w => match w with (f, g, c, i, _) => entry_live f g c i end) open_sites.

(* prediction used by the fault-injection correspondence: does class e, raised by the callee
   at site s, stay inside the parser (true) or escape to the caller of Parser.parse (false)? *)
Definition predict (s : site) (e : string) : bool := class_ok s e.

(* ---------------------------------------------------------------- table rendering
   One line per (site, class of raises(callee)):  file|func|callee|idx|class|predict|status
   read by the fault-injection correspondence (props/C01.py), so that the prediction it
   compares with the implementation is the one computed by these definitions. *)
Definition digit_str (n : nat) : string :=
  match n with
  | 0 => "0" | 1 => "1" | 2 => "2" | 3 => "3" | 4 => "4" | 5 => "5" | 6 => "6" | 7 => "7" | 8 => "8" | _ => "9"
  end.
(* (printing helper of the harness table only; "?" marks exhausted fuel, which S n never reaches) *)
Fixpoint nat_str_fuel (fuel n : nat) : string :=
  match fuel with
  | O => "?"
  | S f => if Nat.ltb n 10 then digit_str n else nat_str_fuel f (Nat.div n 10) ++ digit_str (Nat.modulo n 10)
  end.
Definition nat_str (n : nat) : string := nat_str_fuel (S n) n.

Definition status (s : site) : string :=
  if in_out_scope (s_file s) (s_func s) then "out_scope"
  else if whitelisted s then "whitelist"
  else if is_open s then "open"
  else "checked".

Definition site_lines (s : site) : string :=
  let es := match lookup (base_key (s_callee s)) raises with Some es => es | None => ["<unknown callee>"] end in
  String.concat "" (map (fun e =>
    s_file s ++ "|" ++ s_func s ++ "|" ++ s_callee s ++ "|" ++ nat_str (s_idx s) ++ "|" ++ e ++ "|" ++
    (if predict s e then "1" else "0") ++ "|" ++ status s ++ ";") es).

Definition prediction_table : string := String.concat "" (map site_lines sites).
