(* C01 (a), source-translation tie: the recursive expansion driven by the guard code REGENERATED from
   render_substitution / MockIncludeDirective.run (coq/Gen/GuardSrc.v).  Definitions only. *)
From Coq Require Import List NArith Bool.
From MV Require Import Base.PyStr Base.Res Exc.CoreModel Gen.GuardSrc.
Import ListNotations.

(* substitutions: a token references the names [refs]; the tokens found in the text it renders are [succs refs] *)
Fixpoint expand_subst_src (succs : list str -> list (list str)) (fuel : nat) (active refs : list str) : res (list str) :=
  match fuel with
  | O => Raise OutOfFuel
  | S f => render_substitution_guard_src
             (fun act => thread (list str) (expand_subst_src succs f) act (succs refs)) active refs
  end.

(* includes: a file key (normalised path + clip options); the include directives of that file are [succs key] *)
Fixpoint expand_include_src (succs : str -> list str) (fuel : nat) (log : list str) (key : str) : res (list str) :=
  match fuel with
  | O => Raise OutOfFuel
  | S f => include_guard_src (fun lg => thread str (expand_include_src succs f) lg (succs key)) log key
  end.

(* the include graph as a call graph of singleton calls, for the model [expand] *)
Definition lift_inc (succs : str -> list str) (ks : list str) : list (list str) :=
  match ks with [k] => map (fun k' => [k']) (succs k) | _ => [] end.
