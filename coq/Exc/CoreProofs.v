From Coq Require Import List NArith Bool Lia Arith.
From MV Require Import Base.PyStr Base.Res Exc.CoreModel.
Import ListNotations.
Open Scope N_scope.

(* ---------------------------------------------------------------- section levels *)

Lemma py_max_nonempty l : l <> [] -> exists m, py_max l = Ok m.
Proof. destruct l as [|x l']; [congruence|]. intros _. eexists. reflexivity. Qed.

Lemma parent_level_ok lm level : In 0 lm -> 1 <= level -> exists p, parent_level lm level = Ok p.
Proof.
  intros H0 Hl. unfold parent_level. apply py_max_nonempty.
  intro E. assert (Hin : In 0 (filter (fun l => l <? level) lm)).
  { apply filter_In. split; [exact H0|]. apply N.ltb_lt. lia. }
  rewrite E in Hin. exact Hin.
Qed.

Lemma update_levels_ok lm level :
  In 0 lm -> 1 <= level -> exists lm', update_levels lm level = Ok lm' /\ In 0 lm'.
Proof.
  intros H0 Hl. unfold update_levels.
  destruct (parent_level_ok lm level H0 Hl) as [p Hp]. rewrite Hp. cbn [bind].
  eexists. split; [reflexivity|].
  apply filter_In. split; [|apply N.leb_le; lia].
  right. apply filter_In. split; [exact H0|]. apply negb_true_iff. apply N.eqb_neq. lia.
Qed.

Theorem section_parent_exists : forall levels lm,
  In 0 lm -> (forall h, In h levels -> 1 <= h) ->
  exists lm', run_headings lm levels = Ok lm' /\ In 0 lm'.
Proof.
  induction levels as [|h t IH]; intros lm H0 Hall; cbn [run_headings].
  - eauto.
  - destruct (update_levels_ok lm h H0 (Hall h (or_introl eq_refl))) as [lm' [E H0']].
    rewrite E. cbn [bind]. apply IH; [exact H0'|]. intros x Hx. apply Hall. right. exact Hx.
Qed.

(* ---------------------------------------------------------------- guarded expansion *)

Definition remaining (U active : list str) : list str := filter (fun k => negb (mem_str k active)) U.

Lemma filter_length_le {A} (p : A -> bool) l : (length (filter p l) <= length l)%nat.
Proof. induction l as [|x l IH]; simpl; [lia|]. destruct (p x); simpl; lia. Qed.

Lemma filter_length_lt {A} (p q : A -> bool) (l : list A) (x : A) :
  (forall y, q y = true -> p y = true) -> In x l -> p x = true -> q x = false ->
  (length (filter q l) < length (filter p l))%nat.
Proof.
  intros Himp. induction l as [|y l IH]; intros Hin Hp Hq; [destruct Hin|].
  simpl. destruct Hin as [->|Hin].
  - rewrite Hp, Hq. simpl.
    assert (length (filter q l) <= length (filter p l))%nat.
    { clear -Himp. induction l as [|z l IH]; simpl; [lia|].
      destruct (q z) eqn:Eq.
      - rewrite (Himp z Eq). simpl. lia.
      - destruct (p z); simpl; lia. }
    lia.
  - specialize (IH Hin Hp Hq). destruct (q y) eqn:Eq.
    + rewrite (Himp y Eq). simpl. lia.
    + destruct (p y); simpl; lia.
Qed.

Lemma mem_str_app k a b : mem_str k (a ++ b) = mem_str k a || mem_str k b.
Proof. induction a as [|x a IH]; simpl; [reflexivity|]. rewrite IH. apply orb_assoc. Qed.

Lemma hits_false_all active ks : hits active ks = false -> forall k, In k ks -> mem_str k active = false.
Proof.
  unfold hits. intros H k Hk. destruct (mem_str k active) eqn:E; [|reflexivity].
  assert (existsb (fun k0 => mem_str k0 active) ks = true) by (apply existsb_exists; eauto). congruence.
Qed.

Lemma remaining_shrinks U active ks :
  ks <> [] -> incl ks U -> hits active ks = false ->
  (length (remaining U (ks ++ active)) < length (remaining U active))%nat.
Proof.
  intros Hne Hincl Hh. destruct ks as [|k0 ks']; [congruence|].
  unfold remaining. apply filter_length_lt with (x := k0).
  - intros y Hy. rewrite mem_str_app in Hy. apply negb_true_iff in Hy. apply orb_false_iff in Hy.
    apply negb_true_iff. tauto.
  - apply Hincl. left. reflexivity.
  - apply negb_true_iff. apply (hits_false_all _ _ Hh). left. reflexivity.
  - apply negb_false_iff. rewrite mem_str_app. apply orb_true_iff. left. simpl.
    rewrite str_eqb_refl. reflexivity.
Qed.

Section GuardedProofs.
  Variable succs : list str -> list (list str).
  Variable U : list str.
  Hypothesis Hclosed : closed succs U.

  Lemma expand_ok : forall fuel active ks,
    ks <> [] -> incl ks U -> (length (remaining U active) < fuel)%nat ->
    expand succs fuel active ks = Ok tt.
  Proof.
    induction fuel as [|f IH]; intros active ks Hne Hincl Hlt; [lia|].
    cbn [expand]. destruct (hits active ks) eqn:Hh; [reflexivity|].
    pose proof (remaining_shrinks U active ks Hne Hincl Hh) as Hs.
    assert (Hall : forall c, In c (succs ks) -> expand succs f (ks ++ active) c = Ok tt).
    { intros c Hc. destruct (Hclosed ks c Hc) as [Hcne Hcin]. apply IH; [exact Hcne|exact Hcin|lia]. }
    induction (succs ks) as [|c l IHl]; [reflexivity|].
    rewrite (Hall c (or_introl eq_refl)). cbn [bind]. apply IHl. intros c' Hc'. apply Hall. right. exact Hc'.
  Qed.

  (* the fuel "number of distinct keys + 1" suffices at top level *)
  Theorem expand_total : forall ks, ks <> [] -> incl ks U ->
    expand succs (S (length U)) [] ks = Ok tt.
  Proof.
    intros ks Hne Hincl. apply expand_ok; [exact Hne|exact Hincl|].
    unfold remaining. pose proof (filter_length_le (fun k => negb (mem_str k [])) U). lia.
  Qed.
End GuardedProofs.

(* a self-including file, without the include log: every fuel is exhausted *)
Theorem nolog_self_diverges : forall fuel ks, expand_nolog succs_self fuel ks = Raise OutOfFuel.
Proof.
  induction fuel as [|f IH]; intros ks; [reflexivity|].
  cbn [expand_nolog succs_self]. rewrite IH. reflexivity.
Qed.

(* a call with no key at all is never stopped by the guard *)
Theorem guard_needs_a_key : forall fuel active, expand succs_self fuel active [] = Raise OutOfFuel.
Proof.
  induction fuel as [|f IH]; intros active; [reflexivity|].
  cbn [expand succs_self hits existsb]. rewrite IH. reflexivity.
Qed.

(* with the log, the self-including file is reported at the second visit *)
Example self_include_with_log : expand succs_self 3 [] [[97]] = Ok tt.
Proof. vm_compute. reflexivity. Qed.
