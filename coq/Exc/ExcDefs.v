(* C01 exception-flow tables: record types shared by the generated table (Gen/ExcFlow.v)
   and the hand-written tables / checker (Exc/ExcFlow.v).  Identifiers (file names, function
   names, callee keys, qualified Python class names) are Coq strings: they are table keys,
   not modelled Python strings. *)
From Coq Require Import List String Bool Arith.
Import ListNotations.
Open Scope string_scope.

(* one call of a raising callee *)
Record site := mk_site {
  s_file : string;            (* module file, relative to the repository *)
  s_func : string;            (* enclosing function, dotted (Class.method.inner) or <module> *)
  s_line : nat;               (* line of the call (information only: never used as a key) *)
  s_callee : string;          (* callee key of the curated list *)
  s_idx : nat;                (* ordinal of this callee inside the function *)
  s_handlers : list string    (* classes named by the enclosing try handlers / suppress() of the function *)
}.

(* one raise statement *)
Record rstmt := mk_rstmt {
  r_file : string;
  r_func : string;
  r_line : nat;
  r_classes : list string;    (* class raised; "<reraise>" for a bare raise / exc.clone() *)
  r_handlers : list string
}.

(* one except clause (or suppress block) *)
Record hrow := mk_hrow {
  h_file : string;
  h_func : string;
  h_line : nat;
  h_idx : nat;                (* ordinal of the handler inside the function *)
  h_caught : list string;
  h_reraised : list string;   (* classes raised inside the handler body (a bare raise / exc.clone() = the caught classes) *)
  h_action : string           (* raise | warn | silent *)
}.

Fixpoint lookup {A} (k : string) (l : list (string * A)) : option A :=
  match l with
  | [] => None
  | (k', v) :: l' => if String.eqb k k' then Some v else lookup k l'
  end.

Definition mem_s (x : string) (l : list string) : bool := existsb (String.eqb x) l.
