(* C18: lemmas about the association-list model of Python dicts used by Load.v. *)
From Coq Require Import List NArith Bool Lia.
From MV Require Import Base.PyStr Inv.WildModel InvLoad.Basics InvLoad.Load.
Import ListNotations.
Open Scope N_scope.

Lemma str_eqb_sym a b : str_eqb a b = str_eqb b a.
Proof.
  destruct (str_eqb a b) eqn:E.
  - apply str_eqb_eq in E. subst. symmetry. apply str_eqb_refl.
  - symmetry. apply str_eqb_neq. apply str_eqb_neq in E. congruence.
Qed.

Section AL.
Context {V : Type}.
Implicit Types (l : list (str * V)) (k : str).

Lemma al_get_set k v l k' :
  al_get k' (al_set k v l) = if str_eqb k' k then Some v else al_get k' l.
Proof.
  induction l as [|[k0 v0] l IH]; cbn [al_set al_get].
  - destruct (str_eqb k' k); reflexivity.
  - destruct (str_eqb k k0) eqn:E; cbn [al_get].
    + apply str_eqb_eq in E. subst k0. destruct (str_eqb k' k); reflexivity.
    + destruct (str_eqb k' k0) eqn:E'.
      * apply str_eqb_eq in E'. subst k0. rewrite str_eqb_sym, E. reflexivity.
      * exact IH.
Qed.

Lemma al_get_app k l1 l2 :
  al_get k (l1 ++ l2) = match al_get k l1 with Some v => Some v | None => al_get k l2 end.
Proof.
  induction l1 as [|[k0 v0] l1 IH]; cbn [app al_get]; [reflexivity|].
  destruct (str_eqb k k0); [reflexivity | exact IH].
Qed.

Lemma al_get_setdefault k v l k' :
  al_get k' (al_setdefault k v l) =
  match al_get k' l with
  | Some x => Some x
  | None => if str_eqb k' k then Some v else None
  end.
Proof.
  unfold al_setdefault, al_mem. destruct (al_get k l) eqn:G.
  - destruct (al_get k' l) eqn:G'; [reflexivity|].
    destruct (str_eqb k' k) eqn:E; [|reflexivity].
    apply str_eqb_eq in E. subst. congruence.
  - rewrite al_get_app. cbn [al_get]. destruct (al_get k' l); [reflexivity|].
    destruct (str_eqb k' k); reflexivity.
Qed.

Lemma al_get_update k f l k' :
  al_get k' (al_update k f l) =
  if str_eqb k' k then option_map f (al_get k l) else al_get k' l.
Proof.
  induction l as [|[k0 v0] l IH]; cbn [al_update al_get].
  - destruct (str_eqb k' k); reflexivity.
  - destruct (str_eqb k k0) eqn:E; cbn [al_get].
    + apply str_eqb_eq in E. subst k0. destruct (str_eqb k' k) eqn:E'; [reflexivity|reflexivity].
    + destruct (str_eqb k' k0) eqn:E'.
      * apply str_eqb_eq in E'. subst k0. rewrite str_eqb_sym, E. reflexivity.
      * rewrite IH. reflexivity.
Qed.

Lemma al_mem_get k l : al_mem k l = match al_get k l with Some _ => true | None => false end.
Proof. reflexivity. Qed.

End AL.

(* ---------------- nested tables ---------------- *)

Lemma objs_lookup_insert d t n it objs d' t' n' :
  objs_lookup (objs_insert d t n it objs) d' t' n' =
  if str_eqb d' d && str_eqb t' t && str_eqb n' n then Some it
  else objs_lookup objs d' t' n'.
Proof.
  unfold objs_lookup, objs_insert.
  rewrite al_get_update. rewrite !al_get_setdefault.
  destruct (str_eqb d' d) eqn:Ed; cbn [andb].
  - apply str_eqb_eq in Ed. subst d'. rewrite str_eqb_refl.
    destruct (al_get d objs) as [dm|] eqn:Gd; cbn [option_map].
    + rewrite al_get_update, !al_get_setdefault.
      destruct (str_eqb t' t) eqn:Et; cbn [andb].
      * apply str_eqb_eq in Et. subst t'. rewrite str_eqb_refl.
        destruct (al_get t dm) as [tm|] eqn:Gt; cbn [option_map]; rewrite al_get_set;
          destruct (str_eqb n' n); reflexivity.
      * destruct (al_get t' dm); reflexivity.
    + rewrite al_get_update, !al_get_setdefault. cbn [al_get].
      destruct (str_eqb t' t) eqn:Et; cbn [andb].
      * apply str_eqb_eq in Et. subst t'. rewrite str_eqb_refl. cbn [option_map].
        rewrite al_get_set. cbn [al_get]. destruct (str_eqb n' n); reflexivity.
      * reflexivity.
  - destruct (al_get d' objs); reflexivity.
Qed.

Lemma sinv_lookup_insert k n v s k' n' :
  sinv_lookup (sinv_insert k n v s) k' n' =
  if str_eqb k' k && str_eqb n' n then Some v else sinv_lookup s k' n'.
Proof.
  unfold sinv_lookup, sinv_insert. rewrite al_get_update, !al_get_setdefault.
  destruct (str_eqb k' k) eqn:Ek; cbn [andb].
  - apply str_eqb_eq in Ek. subst k'. rewrite str_eqb_refl.
    destruct (al_get k s) as [m|]; cbn [option_map]; rewrite al_get_set; cbn [al_get];
      destruct (str_eqb n' n); reflexivity.
  - destruct (al_get k' s); reflexivity.
Qed.

(* the keys of the outer table after an insertion *)
Lemma objs_insert_mem d t n it objs d' :
  al_mem d' (objs_insert d t n it objs) = al_mem d' objs || str_eqb d' d.
Proof.
  unfold objs_insert. rewrite !al_mem_get, al_get_update, !al_get_setdefault.
  destruct (str_eqb d' d) eqn:E.
  - apply str_eqb_eq in E. subst. rewrite str_eqb_refl.
    destruct (al_get d objs); reflexivity.
  - destruct (al_get d' objs); reflexivity.
Qed.

Lemma sinv_insert_mem k n v s k' :
  al_mem k' (sinv_insert k n v s) = al_mem k' s || str_eqb k' k.
Proof.
  unfold sinv_insert. rewrite !al_mem_get, al_get_update, !al_get_setdefault.
  destruct (str_eqb k' k) eqn:E.
  - apply str_eqb_eq in E. subst. rewrite str_eqb_refl. destruct (al_get k s); reflexivity.
  - destruct (al_get k' s); reflexivity.
Qed.

(* ---------------- fresh keys: insertion appends ---------------- *)

Definition keys {V} (l : list (str * V)) : list str := map fst l.

Section AL2.
Context {V : Type}.
Implicit Types (l : list (str * V)) (k : str).

Lemma al_mem_app k l1 l2 : al_mem k (l1 ++ l2) = al_mem k l1 || al_mem k l2.
Proof. unfold al_mem. rewrite al_get_app. destruct (al_get k l1); reflexivity. Qed.

Lemma al_mem_false k l : al_mem k l = false <-> ~ In k (keys l).
Proof.
  unfold al_mem. induction l as [|[k0 v0] l IH]; cbn [al_get keys map fst In].
  - split; [intros _ []|reflexivity].
  - destruct (str_eqb k k0) eqn:E.
    + apply str_eqb_eq in E. subst. split; [discriminate|]. intro H. exfalso. apply H. left. reflexivity.
    + apply str_eqb_neq in E. rewrite IH. unfold keys. split.
      * intros H [C|C]; [congruence | contradiction].
      * intros H C. apply H. right. exact C.
Qed.

Lemma al_setdefault_fresh k v l : al_mem k l = false -> al_setdefault k v l = l ++ [(k, v)].
Proof. intro H. unfold al_setdefault. rewrite H. reflexivity. Qed.

Lemma al_setdefault_present k v l : al_mem k l = true -> al_setdefault k v l = l.
Proof. intro H. unfold al_setdefault. rewrite H. reflexivity. Qed.

Lemma al_mem_last k v l : al_mem k (l ++ [(k, v)]) = true.
Proof. rewrite al_mem_app. unfold al_mem at 2. cbn [al_get]. rewrite str_eqb_refl. apply orb_true_r. Qed.

Lemma al_update_last k f v l : al_mem k l = false ->
  al_update k f (l ++ [(k, v)]) = l ++ [(k, f v)].
Proof.
  induction l as [|[k0 v0] l IH]; cbn [app al_update]; intro H.
  - rewrite str_eqb_refl. reflexivity.
  - unfold al_mem in H. cbn [al_get] in H. destruct (str_eqb k k0) eqn:E; [discriminate|].
    rewrite IH; [reflexivity|]. unfold al_mem. exact H.
Qed.

Lemma al_set_fresh k v l : al_mem k l = false -> al_set k v l = l ++ [(k, v)].
Proof.
  induction l as [|[k0 v0] l IH]; cbn [app al_set]; intro H; [reflexivity|].
  unfold al_mem in H. cbn [al_get] in H. destruct (str_eqb k k0) eqn:E; [discriminate|].
  rewrite IH; [reflexivity|]. unfold al_mem. exact H.
Qed.

End AL2.
