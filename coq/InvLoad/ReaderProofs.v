(* C18: proofs about the reader model (Reader.v): every operation is a function of the bytes
   that are still to come ("pending") and of the eof flag, whatever the chunking. *)
From Coq Require Import List NArith Bool Lia Arith.
From MV Require Import Base.PyStr InvLoad.Basics InvLoad.Reader.
Import ListNotations.
Open Scope N_scope.

(* ---------------- find_char / firstn / skipn ---------------- *)

Lemma find_char_None c s : find_char c s = None <-> ~ In c s.
Proof.
  induction s as [|x s IH]; simpl.
  - tauto.
  - destruct (N.eqb x c) eqn:E.
    + apply N.eqb_eq in E. subst. split; [discriminate | intro H; exfalso; apply H; auto].
    + apply N.eqb_neq in E. destruct (find_char c s) eqn:F; simpl.
      * split; [discriminate|]. intro H. exfalso.
        assert (G : ~ In c s) by (intro G; apply H; right; exact G).
        apply IH in G. discriminate.
      * split; [|reflexivity]. intros _ [H|H]; [congruence|]. apply (proj1 IH); auto.
Qed.

Lemma find_char_Some c s n : find_char c s = Some n ->
  (n < length s)%nat /\ s = firstn n s ++ c :: skipn (S n) s /\ find_char c (firstn n s) = None.
Proof.
  revert n. induction s as [|x s IH]; simpl; intros n H; [discriminate|].
  destruct (N.eqb x c) eqn:E.
  - inversion H; subst. apply N.eqb_eq in E. subst. simpl. repeat split; auto. lia.
  - destruct (find_char c s) as [m|] eqn:F; simpl in H; [|discriminate].
    inversion H; subst. destruct (IH m eq_refl) as [H1 [H2 H3]].
    repeat split; [simpl; lia| |].
    + simpl. f_equal. exact H2.
    + simpl. rewrite E, H3. reflexivity.
Qed.

Lemma find_char_app_l c a b n : find_char c a = Some n -> find_char c (a ++ b) = Some n.
Proof.
  revert n. induction a as [|x a IH]; simpl; intros n H; [discriminate|].
  destruct (N.eqb x c); [exact H|].
  destruct (find_char c a) as [m|]; simpl in H; [|discriminate].
  rewrite (IH m eq_refl). exact H.
Qed.

Lemma find_char_app_r c a b : find_char c a = None ->
  find_char c (a ++ b) = option_map (fun k => (length a + k)%nat) (find_char c b).
Proof.
  induction a as [|x a IH]; simpl; intro H.
  - destruct (find_char c b); reflexivity.
  - destruct (N.eqb x c); [discriminate|].
    destruct (find_char c a); simpl in H; [discriminate|].
    rewrite (IH eq_refl). destruct (find_char c b); reflexivity.
Qed.

Lemma find_char_hit c a b : find_char c a = None -> find_char c (a ++ c :: b) = Some (length a).
Proof.
  intro H. rewrite (find_char_app_r _ _ _ H). simpl. rewrite N.eqb_refl. simpl. f_equal. lia.
Qed.

Lemma firstn_app_l {A} n (a b : list A) : (n <= length a)%nat -> firstn n (a ++ b) = firstn n a.
Proof. intro H. rewrite firstn_app. replace (n - length a)%nat with O by lia. simpl. apply app_nil_r. Qed.

Lemma skipn_app_l {A} n (a b : list A) : (n <= length a)%nat -> skipn n (a ++ b) = skipn n a ++ b.
Proof. intro H. rewrite skipn_app. replace (n - length a)%nat with O by lia. reflexivity. Qed.

(* ---------------- pending bytes ---------------- *)

(* the bytes the stream still delivers: up to the first b"" *)
Fixpoint live (s : list bytes) : bytes :=
  match s with
  | [] => []
  | c :: s' => if is_nil c then [] else c ++ live s'
  end.

Definition pending (r : reader) : bytes :=
  if eof r then buffer r else buffer r ++ live (stream r).

(* reader invariant between calls: at eof the buffer has been consumed *)
Definition rwf (r : reader) : Prop := eof r = true -> buffer r = [].
(* inside readline's loop *)
Definition rwf' (r : reader) : Prop := eof r = true -> find_nl (buffer r) = None.

Lemma rwf_rwf' r : rwf r -> rwf' r.
Proof. intros H E. rewrite (H E). reflexivity. Qed.

Lemma live_nonempty cs : Forall (fun c => c <> []) cs -> live cs = concat cs.
Proof.
  induction 1 as [|c cs Hc _ IH]; simpl; [reflexivity|].
  destruct c; [contradiction|]. simpl. rewrite IH. reflexivity.
Qed.

Lemma live_single x : live [x] = x.
Proof. simpl. destruct x; simpl; [reflexivity|]. rewrite app_nil_r. reflexivity. Qed.

Lemma is_nil_true {A} (l : list A) : is_nil l = true -> l = [].
Proof. destruct l; [reflexivity|discriminate]. Qed.

(* read_buffer does not change what is pending *)
Lemma read_buffer_pending r : eof r = false -> pending (read_buffer r) = pending r.
Proof.
  intro E. unfold pending, read_buffer. rewrite E.
  destruct (stream r) as [|c s]; simpl.
  - rewrite !app_nil_r. reflexivity.
  - destruct (is_nil c) eqn:Ec; simpl.
    + apply is_nil_true in Ec. subst. rewrite !app_nil_r. reflexivity.
    + rewrite app_assoc. reflexivity.
Qed.

Lemma read_buffer_len r : pending_len (read_buffer r) = pending_len r.
Proof.
  unfold pending_len, read_buffer. destruct (stream r) as [|c s]; simpl.
  - rewrite app_nil_r. reflexivity.
  - rewrite !app_length. lia.
Qed.

Lemma read_buffer_stream r : stream (read_buffer r) = tl (stream r).
Proof. unfold read_buffer. destruct (stream r); reflexivity. Qed.

Lemma read_buffer_rwf' r : find_nl (buffer r) = None -> eof r = false ->
  eof (read_buffer r) = true -> find_nl (buffer (read_buffer r)) = None.
Proof.
  intros F E. unfold read_buffer. destruct (stream r) as [|c s]; simpl.
  - intros _. rewrite app_nil_r. exact F.
  - destruct (is_nil c) eqn:Ec; simpl.
    + intros _. apply is_nil_true in Ec. subst. rewrite app_nil_r. exact F.
    + congruence.
Qed.

Lemma skipn_S_tl {A} k (l : list A) : skipn (S k) l = skipn k (tl l).
Proof. destruct l; simpl; [destruct k; reflexivity | reflexivity]. Qed.

(* ---------------- readline ---------------- *)

Lemma readline_loop_spec : forall fuel r, (eof r = true \/ (length (stream r) < fuel)%nat) -> rwf' r ->
  exists r1, readline_loop fuel r = IOk r1 /\ pending r1 = pending r /\
    pending_len r1 = pending_len r /\
    (exists k, stream r1 = skipn k (stream r) /\
               (find_nl (buffer r) = None -> eof r = false -> (1 <= k)%nat)) /\
    match find_nl (buffer r1) with Some _ => eof r1 = false | None => eof r1 = true end.
Proof.
  induction fuel as [|f IH]; intros r Hlen Hwf.
  { destruct Hlen as [E|Hlen]; [|lia]. cbn [readline_loop].
    exists r. rewrite E, (Hwf E). repeat split; auto.
    exists O. split; [reflexivity|]. intros; discriminate. }
  cbn [readline_loop]. destruct (find_nl (buffer r)) eqn:F.
  - exists r. repeat split; auto.
    + exists O. split; [reflexivity|]. intros; discriminate.
    + rewrite F. destruct (eof r) eqn:E; [|reflexivity].
      rewrite (Hwf E) in F. discriminate.
  - destruct (eof r) eqn:E.
    + exists r. repeat split; auto.
      * exists O. split; [reflexivity|]. intros; discriminate.
      * rewrite F. exact E.
    + destruct (IH (read_buffer r)) as [r1 [H1 [H2 [H3 [[k [H4 _]] H5]]]]].
      * destruct Hlen as [C|Hlen]; [congruence|].
        unfold read_buffer. destruct (stream r) as [|c s]; cbn; [left; reflexivity|].
        right. simpl in Hlen. lia.
      * intro E'. apply read_buffer_rwf'; assumption.
      * exists r1. repeat split; auto.
        -- rewrite H2. apply read_buffer_pending. exact E.
        -- rewrite H3. apply read_buffer_len.
        -- exists (S k). split; [|intros; lia].
           rewrite H4, read_buffer_stream. symmetry. apply skipn_S_tl.
Qed.

(* the pure description of one readline on the pending bytes:
   (bytes of the line, bytes pending afterwards, eof afterwards) *)
Definition a_readline (p : bytes) : bytes * (bytes * bool) :=
  match find_nl p with
  | Some pos => (firstn pos p, (skipn (S pos) p, false))
  | None => (p, ([], true))
  end.

(* p.split(b"\n") *)
Fixpoint split_nl (p : bytes) : list bytes :=
  match p with
  | [] => [[]]
  | c :: p' => if c =? 10 then [] :: split_nl p'
               else match split_nl p' with
                    | l :: ls => (c :: l) :: ls
                    | [] => [[c]]
                    end
  end.

Lemma split_nl_none p : find_nl p = None -> split_nl p = [p].
Proof.
  unfold find_nl. induction p as [|c p IH]; simpl; intro H; [reflexivity|].
  destruct (c =? 10) eqn:E; [discriminate|].
  destruct (find_char 10 p); simpl in H; [discriminate|].
  rewrite (IH eq_refl). reflexivity.
Qed.

Lemma split_nl_some p pos : find_nl p = Some pos ->
  split_nl p = firstn pos p :: split_nl (skipn (S pos) p).
Proof.
  unfold find_nl. revert pos. induction p as [|c p IH]; simpl; intros pos H; [discriminate|].
  destruct (c =? 10) eqn:E.
  - inversion H; subst. reflexivity.
  - destruct (find_char 10 p) as [m|]; simpl in H; [|discriminate].
    inversion H; subst. rewrite (IH m eq_refl). reflexivity.
Qed.

Section ReaderFacts.

Variable decode : bytes -> option str.
Notation dec := (dec decode).
Notation readline := (readline decode).

Lemma readline_spec r : rwf r ->
  exists r', readline r = (dob line <- dec (fst (a_readline (pending r))); IOk (line, r')) /\
    rwf r' /\ (pending r', eof r') = snd (a_readline (pending r)) /\
    (exists k, stream r' = skipn k (stream r) /\
               (find_nl (buffer r) = None -> eof r = false -> (1 <= k)%nat)) /\
    (find_nl (pending r) <> None -> (pending_len r' < pending_len r)%nat).
Proof.
  intro Hwf. unfold readline.
  destruct (readline_loop_spec (readline_fuel r) r) as [r1 [H1 [H2 [H3 [Hk H5]]]]].
  - right. unfold readline_fuel. lia.
  - apply rwf_rwf'. exact Hwf.
  - rewrite H1. cbn [ibind]. unfold a_readline.
    destruct (find_nl (buffer r1)) as [pos|] eqn:F.
    + (* a newline is in the buffer *)
      destruct (find_char_Some _ _ _ F) as [Hpos [Hsplit Hpre]].
      assert (P : pending r = buffer r1 ++ live (stream r1)).
      { rewrite <- H2. unfold pending. rewrite H5. reflexivity. }
      assert (FP : find_nl (pending r) = Some pos).
      { rewrite P. apply find_char_app_l. exact F. }
      rewrite FP. cbn [fst snd].
      rewrite P. rewrite firstn_app_l by lia. rewrite skipn_app_l by lia.
      exists (set_buffer r1 (skipn (S pos) (buffer r1))).
      split; [reflexivity|]. repeat split.
      * intro E. cbn in E. congruence.
      * unfold pending. cbn. rewrite H5. reflexivity.
      * exact Hk.
      * intros _. rewrite <- H3. unfold pending_len. cbn [buffer stream set_buffer].
        rewrite skipn_length. lia.
    + (* end of stream without a newline *)
      assert (P : pending r = buffer r1).
      { rewrite <- H2. unfold pending. rewrite H5. reflexivity. }
      rewrite P, F. cbn [fst snd].
      exists (set_buffer r1 []). split; [reflexivity|]. repeat split.
      * unfold pending. cbn. rewrite H5. reflexivity.
      * exact Hk.
      * intro C. contradiction.
Qed.

(* ---------------- readlines ---------------- *)

(* decode the pieces in order, stop at the first failure; [skip]: drop lines that decode to "" *)
Fixpoint decode_lines (skip : bool) (ps : list bytes) : lseq :=
  match ps with
  | [] => ([], None)
  | p :: ps' =>
      match dec p with
      | IRaise e => ([], Some e)
      | IOk l => let q := decode_lines skip ps' in
                 if skip && is_nil l then q else lseq_cons l q
      end
  end.

Definition a_readlines (p : bytes) (e : bool) : lseq :=
  if e then ([], None) else decode_lines true (split_nl p).

Lemma readlines_loop_spec : forall fuel r,
  (eof r = true \/ (pending_len r < fuel)%nat) -> rwf r ->
  readlines_loop decode fuel r = a_readlines (pending r) (eof r).
Proof.
  induction fuel as [|f IH]; intros r Hf Hwf.
  { destruct Hf as [E|Hf]; [|lia]. cbn [readlines_loop]. unfold a_readlines. rewrite E. reflexivity. }
  cbn [readlines_loop]. unfold a_readlines. destruct (eof r) eqn:E; [reflexivity|].
  destruct Hf as [C|Hf]; [congruence|].
  destruct (readline_spec r Hwf) as [r' [H1 [H2 [H3 [_ H5]]]]].
  rewrite H1. unfold a_readline in *.
  destruct (find_nl (pending r)) as [pos|] eqn:F; cbn [fst snd] in *.
  - rewrite (split_nl_some _ _ F). cbn [decode_lines].
    destruct (dec (firstn pos (pending r))) as [line|e]; cbn [ibind]; [|reflexivity].
    inversion H3 as [[P E']].
    rewrite IH; [| right; assert (Hlt := H5 ltac:(discriminate)); lia | exact H2].
    rewrite P, E'. unfold a_readlines. reflexivity.
  - rewrite (split_nl_none _ F). cbn [decode_lines].
    destruct (dec (pending r)) as [line|e]; cbn [ibind]; [|reflexivity].
    inversion H3 as [[P E']].
    rewrite IH; [| left; exact E' | exact H2].
    rewrite P, E'. unfold a_readlines. reflexivity.
Qed.

Lemma readlines_spec r : rwf r -> readlines decode r = a_readlines (pending r) (eof r).
Proof. intro H. unfold readlines. apply readlines_loop_spec; [right; lia | exact H]. Qed.

End ReaderFacts.

(* ---------------- read_compressed_chunks / read_compressed_lines ---------------- *)

Definition lseq_app (q q' : lseq) : lseq :=
  match snd q with
  | Some _ => q
  | None => (fst q ++ fst q', snd q')
  end.

Lemma lseq_app_nil q : lseq_app ([], None) q = q.
Proof. destruct q; reflexivity. Qed.

Lemma lseq_app_cons l q x : lseq_app ([l], None) (lseq_app q x) = lseq_app (lseq_cons l q) x.
Proof. destruct q as [ls [e|]]; reflexivity. Qed.

Lemma split_nl_nonempty p : split_nl p <> [].
Proof.
  induction p as [|c p IH]; simpl; [discriminate|].
  destruct (c =? 10); [discriminate|]. destruct (split_nl p); discriminate.
Qed.

(* drop the last piece if it is empty: "if buf:" *)
Fixpoint trim_last (ps : list bytes) : list bytes :=
  match ps with
  | [] => []
  | p :: ps' => match ps' with
                | [] => if is_nil p then [] else [p]
                | _ => p :: trim_last ps'
                end
  end.

Lemma trim_last_cons p ps : ps <> [] -> trim_last (p :: ps) = p :: trim_last ps.
Proof. destruct ps; [contradiction|reflexivity]. Qed.

(* the zlib oracle: a streaming transducer whose state is determined by the consumed prefix *)
Definition zlib_stream_ok (dstate : Type) (dstep : dstate -> bytes -> dstate * bytes)
           (derr : dstate -> bool) : Prop :=
  (forall st a b, dstep st (a ++ b) =
                  let (st1, o1) := dstep st a in
                  let (st2, o2) := dstep st1 b in (st2, o1 ++ o2)) /\
  (forall st a, derr st = true -> derr (fst (dstep st a)) = true).

Section ZlibFacts.

Variable dstate : Type.
Variable dinit : dstate.
Variable dstep : dstate -> bytes -> dstate * bytes.
Variable dflush : dstate -> bytes.
Variable derr : dstate -> bool.
Variable decode : bytes -> option str.
Hypothesis O_zlib_stream : zlib_stream_ok dstate dstep derr.

Notation dec := (dec decode).
Notation decode_lines := (decode_lines decode).
Notation rcl_inner := (rcl_inner decode).
Notation rcl_loop := (rcl_loop decode).
Notation rcc_loop := (rcc_loop dstate dstep dflush derr).
Notation read_compressed_lines := (read_compressed_lines dstate dinit dstep dflush derr decode).

(* all lines of a decompressed body, in order, lazily decoded *)
Definition lines_of (b : bytes) : lseq := decode_lines false (trim_last (split_nl b)).

Lemma lines_of_none b : find_nl b = None ->
  lines_of b = if is_nil b then ([], None)
               else match dec b with IOk line => ([line], None) | IRaise e => ([], Some e) end.
Proof.
  intro F. unfold lines_of. rewrite (split_nl_none _ F). cbn [trim_last].
  destruct (is_nil b); [reflexivity|]. cbn [decode_lines andb].
  destruct (dec b); reflexivity.
Qed.

Lemma lines_of_some b pos : find_nl b = Some pos ->
  lines_of b = lseq_app (decode_lines false [firstn pos b]) (lines_of (skipn (S pos) b)).
Proof.
  intro F. unfold lines_of. rewrite (split_nl_some _ _ F).
  rewrite trim_last_cons by apply split_nl_nonempty.
  cbn [decode_lines andb]. destruct (dec (firstn pos b)) as [l|e]; [|reflexivity].
  unfold lseq_app, lseq_cons. cbn. reflexivity.
Qed.

Lemma rcl_inner_spec : forall fuel buf rest, (length buf <= fuel)%nat ->
  let (q, buf2) := rcl_inner fuel buf in
  (snd q = None -> find_nl buf2 = None) /\
  lines_of (buf ++ rest) = lseq_app q (lines_of (buf2 ++ rest)).
Proof.
  induction fuel as [|f IH]; intros buf rest Hlen.
  - destruct buf; [|simpl in Hlen; lia].
    change (rcl_inner 0 []) with (@pair lseq bytes ([], None) []).
    split; [reflexivity|]. rewrite lseq_app_nil. reflexivity.
  - cbn [Reader.rcl_inner]. destruct (find_nl buf) as [pos|] eqn:F.
    + destruct (find_char_Some _ _ _ F) as [Hpos _].
      assert (F' : find_nl (buf ++ rest) = Some pos) by (apply find_char_app_l; exact F).
      rewrite (lines_of_some _ _ F'). rewrite firstn_app_l by lia. rewrite skipn_app_l by lia.
      cbn [decode_lines andb].
      destruct (dec (firstn pos buf)) as [line|e].
      * specialize (IH (skipn (S pos) buf) rest).
        destruct (rcl_inner f (skipn (S pos) buf)) as [q' rest'].
        destruct IH as [I1 I2]; [rewrite skipn_length; lia|].
        split.
        -- unfold lseq_cons. cbn. exact I1.
        -- rewrite I2. unfold lseq_cons at 1. cbn [fst snd]. apply lseq_app_cons.
      * split; [discriminate|]. reflexivity.
    + split; [intros; exact F|]. rewrite lseq_app_nil. reflexivity.
Qed.

Lemma rcl_loop_spec : forall chunks buf, find_nl buf = None ->
  rcl_loop chunks None buf = lines_of (buf ++ concat chunks).
Proof.
  induction chunks as [|c cs IH]; intros buf F.
  - cbn [Reader.rcl_loop concat]. rewrite app_nil_r. rewrite (lines_of_none _ F). reflexivity.
  - cbn [Reader.rcl_loop concat]. rewrite app_assoc.
    assert (S := rcl_inner_spec (length (buf ++ c)) (buf ++ c) (concat cs) (le_n _)).
    destruct (rcl_inner (length (buf ++ c)) (buf ++ c)) as [q buf2].
    destruct S as [S1 S2]. rewrite S2. unfold lseq_app.
    destruct (snd q) as [e|] eqn:Q; [reflexivity|].
    rewrite (IH buf2 (S1 eq_refl)). reflexivity.
Qed.

Lemma dec_err b e : dec b = IRaise e -> e = UnicodeDecodeErr.
Proof. unfold Reader.dec. destruct (decode b); intro H; inversion H; reflexivity. Qed.

Lemma decode_lines_err skip ps x : snd (decode_lines skip ps) = Some x -> x = UnicodeDecodeErr.
Proof.
  induction ps as [|p ps IH]; cbn [ReaderProofs.decode_lines]; [discriminate|].
  destruct (dec p) as [l|e] eqn:D.
  - destruct (skip && is_nil l); [exact IH|]. unfold lseq_cons. cbn [snd]. exact IH.
  - cbn [snd]. intro H. inversion H; subst. apply (dec_err _ _ D).
Qed.

Lemma rcl_inner_err fuel buf x : (length buf <= fuel)%nat ->
  snd (fst (rcl_inner fuel buf)) = Some x -> x = UnicodeDecodeErr.
Proof.
  intros Hlen H. assert (S := rcl_inner_spec fuel buf [] Hlen).
  destruct (rcl_inner fuel buf) as [q buf2]. cbn [fst] in H. destruct S as [_ S].
  unfold lseq_app in S. rewrite H in S. apply (decode_lines_err false (trim_last (split_nl (buf ++ [])))).
  fold (lines_of (buf ++ [])). rewrite S. exact H.
Qed.

Lemma rcl_loop_exc : forall chunks e buf,
  exists ls x, rcl_loop chunks (Some e) buf = (ls, Some x) /\ (x = e \/ x = UnicodeDecodeErr).
Proof.
  induction chunks as [|c cs IH]; intros e buf.
  - cbn. eauto.
  - cbn [Reader.rcl_loop].
    assert (R := rcl_inner_err (length (buf ++ c)) (buf ++ c)).
    destruct (rcl_inner (length (buf ++ c)) (buf ++ c)) as [q buf2].
    destruct q as [ls [x|]]; cbn [fst snd] in *.
    + exists ls, x. split; [reflexivity|]. right. apply R; [lia|reflexivity].
    + destruct (IH e buf2) as [ls' [x' [H Hx]]]. rewrite H. cbn. eauto.
Qed.

Lemma rcc_loop_eof fuel r st : eof r = true -> rcc_loop fuel r st = ([dflush st], None).
Proof. intro E. destruct fuel; cbn; rewrite E; reflexivity. Qed.

Lemma rcc_loop_spec : forall fuel r st0, eof r = false -> (length (stream r) < fuel)%nat ->
  let (st, out) := dstep st0 (buffer r ++ live (stream r)) in
  if derr st then exists outs, rcc_loop fuel r st0 = (outs, Some ZlibErr)
  else exists outs, rcc_loop fuel r st0 = (outs ++ [dflush st], None) /\ concat outs = out.
Proof.
  destruct O_zlib_stream as [Z1 Z2].
  induction fuel as [|f IH]; intros r st0 E Hlen; [lia|].
  cbn [Reader.rcc_loop]. rewrite E. unfold read_buffer.
  destruct (stream r) as [|c s] eqn:Hs; cbn [stream_read live].
  - cbn [buffer set_buffer is_nil eof stream].
    destruct (dstep st0 (buffer r ++ [])) as [st' o]. destruct (derr st').
    + exists []. reflexivity.
    + rewrite rcc_loop_eof by reflexivity. exists [o]. split; [reflexivity|]. cbn. apply app_nil_r.
  - destruct (is_nil c) eqn:Ec.
    + apply is_nil_true in Ec. subst c. cbn [buffer set_buffer is_nil eof stream].
      destruct (dstep st0 (buffer r ++ [])) as [st' o]. destruct (derr st').
      * exists []. reflexivity.
      * rewrite rcc_loop_eof by reflexivity. exists [o]. split; [reflexivity|]. cbn. apply app_nil_r.
    + cbn [buffer set_buffer eof stream].
      rewrite app_assoc. rewrite Z1.
      destruct (dstep st0 (buffer r ++ c)) as [st1 o1] eqn:D1.
      specialize (IH {| stream := s; buffer := []; eof := eof r |} st1 E).
      cbn [stream buffer app] in IH.
      destruct (dstep st1 (live s)) as [st2 o2] eqn:D2.
      destruct (derr st1) eqn:E1.
      * assert (E2 : derr st2 = true).
        { specialize (Z2 st1 (live s) E1). rewrite D2 in Z2. exact Z2. }
        rewrite E2. exists []. reflexivity.
      * unfold set_buffer. cbn [stream buffer eof].
        simpl in Hlen. specialize (IH ltac:(lia)).
        destruct (derr st2).
        -- destruct IH as [outs H]. rewrite H. exists (o1 :: outs). reflexivity.
        -- destruct IH as [outs [H C]]. rewrite H. exists (o1 :: outs). split; [reflexivity|].
           cbn. rewrite C. reflexivity.
Qed.

(* the pure description of read_compressed_lines *)
Definition a_rcl (p : bytes) (e : bool) : lseq :=
  if e then lines_of (dflush dinit)
  else let (st, out) := dstep dinit p in
       if derr st then ([], Some ZlibErr) else lines_of (out ++ dflush st).

(* zlib.error on the pending bytes *)
Definition zlib_fails (p : bytes) (e : bool) : bool :=
  if e then false else derr (fst (dstep dinit p)).

Lemma rcl_spec r : rwf r ->
  (zlib_fails (pending r) (eof r) = false -> read_compressed_lines r = a_rcl (pending r) (eof r)) /\
  (zlib_fails (pending r) (eof r) = true ->
   exists ls x, read_compressed_lines r = (ls, Some x) /\ (x = ZlibErr \/ x = UnicodeDecodeErr)).
Proof.
  intro Hwf. unfold Reader.read_compressed_lines, read_compressed_chunks, zlib_fails, a_rcl, pending.
  destruct (eof r) eqn:E.
  - rewrite rcc_loop_eof by exact E. split; [|discriminate]. intros _.
    rewrite rcl_loop_spec by reflexivity. cbn. rewrite app_nil_r. reflexivity.
  - assert (S := rcc_loop_spec (readline_fuel r) r dinit E ltac:(unfold readline_fuel; lia)).
    destruct (dstep dinit (buffer r ++ live (stream r))) as [st out]. cbn [fst].
    destruct (derr st).
    + split; [discriminate|]. intros _. destruct S as [outs H]. rewrite H. apply rcl_loop_exc.
    + split; [|discriminate]. intros _. destruct S as [outs [H C]]. rewrite H.
      rewrite rcl_loop_spec by reflexivity. cbn [app]. rewrite concat_app. cbn [concat].
      rewrite C, app_nil_r. reflexivity.
Qed.

(* with nothing left in the stream the zlib error surfaces before any line is decoded *)
Lemma rcl_spec_single r : rwf r -> stream r = [] ->
  read_compressed_lines r = a_rcl (pending r) (eof r).
Proof.
  intros Hwf Hs. destruct (zlib_fails (pending r) (eof r)) eqn:Z.
  - unfold zlib_fails, a_rcl, pending in *. destruct (eof r) eqn:E; [discriminate|].
    unfold Reader.read_compressed_lines, read_compressed_chunks, readline_fuel.
    rewrite Hs in *. cbn [length Reader.rcc_loop]. rewrite E. unfold read_buffer. rewrite Hs.
    cbn [stream_read buffer live] in *.
    destruct (dstep dinit (buffer r ++ [])) as [st out]. cbn [fst] in Z. rewrite Z.
    reflexivity.
  - apply rcl_spec; assumption.
Qed.

End ZlibFacts.

(* ---------------- termination: the fuel supplied by the model always suffices ---------------- *)

Lemma readline_loop_terminates : forall fuel r,
  (eof r = true \/ (length (stream r) < fuel)%nat) -> exists r1, readline_loop fuel r = IOk r1.
Proof.
  induction fuel as [|f IH]; intros r Hlen.
  - destruct Hlen as [E|Hlen]; [|lia]. cbn [readline_loop]. rewrite E.
    destruct (find_nl (buffer r)); eauto.
  - cbn [readline_loop]. destruct (find_nl (buffer r)); [eauto|].
    destruct (eof r) eqn:E; [eauto|]. apply IH.
    destruct Hlen as [C|Hlen]; [congruence|].
    unfold read_buffer. destruct (stream r) as [|c s]; cbn; [left; reflexivity|].
    right. simpl in Hlen. lia.
Qed.

(* readline returns after at most len(stream)+1 reads, for every reader state *)
Theorem readline_terminates (decode : bytes -> option str) (r : reader) :
  readline decode r <> IRaise OutOfFuelErr.
Proof.
  unfold readline. destruct (readline_loop_terminates (readline_fuel r) r) as [r1 H].
  - right. unfold readline_fuel. lia.
  - rewrite H. cbn [ibind]. unfold dec.
    destruct (find_nl (buffer r1)).
    + destruct (decode (firstn n (buffer r1))); cbn [ibind]; discriminate.
    + destruct (decode (buffer r1)); cbn [ibind]; discriminate.
Qed.
