(* C18: the Python text operations used by the inventory loaders (MyST and Sphinx):
   str.rstrip / bytes.rstrip, str.split(None, k), str.splitlines, "in", str.split(":", 1),
   posixpath.join, strict UTF-8 decoding.  Executable definitions only; each is compared
   with CPython by the correspondence run (props/C18.py, helper commands). *)
From Coq Require Import List NArith Bool.
From MV Require Import Base.PyStr InvLoad.Regex Gen.Inventory InvLoad.Basics.
Import ListNotations.
Open Scope N_scope.

Definition is_space (c : N) : bool := mem_N c ws_table.          (* str.isspace *)
Definition is_bspace (c : N) : bool := mem_N c bytes_ws_table.   (* bytes.isspace *)
Definition is_linesep (c : N) : bool := mem_N c linesep_table.   (* str.splitlines separators *)

Definition re_tables : tables := {| t_ws := ws_table; t_digits := digit_ranges |}.

(* s.rstrip() with the whitespace predicate p *)
Fixpoint rstrip_by (p : N -> bool) (s : list N) : list N :=
  match s with
  | [] => []
  | c :: s' => match rstrip_by p s' with
               | [] => if p c then [] else [c]
               | r => c :: r
               end
  end.

Definition rstrip (s : str) : str := rstrip_by is_space s.
Definition brstrip (b : bytes) : bytes := rstrip_by is_bspace b.

Fixpoint lstrip (s : str) : str :=
  match s with
  | c :: s' => if is_space c then lstrip s' else s
  | [] => []
  end.

Fixpoint take_word (s : str) : str * str :=
  match s with
  | [] => ([], [])
  | c :: s' => if is_space c then ([], s)
               else let (w, r) := take_word s' in (c :: w, r)
  end.

(* s.split(None, maxcount): words separated by runs of whitespace; after maxcount words the
   remainder (leading whitespace skipped, trailing whitespace kept) is the last element *)
Fixpoint split_ws (maxcount : nat) (s : str) {struct maxcount} : list str :=
  match lstrip s with
  | [] => []
  | s1 =>
      match maxcount with
      | O => [s1]
      | S m => let (w, r) := take_word s1 in w :: split_ws m r
      end
  end.

(* s.splitlines(): the separators of linesep_table, "\r\n" counts once, no trailing "" *)
Fixpoint splitlines (s : str) : list str :=
  match s with
  | [] => []
  | c :: s' =>
      if is_linesep c then
        [] :: (if c =? 13 then
                 match s' with
                 | x :: s'' => if x =? 10 then splitlines s'' else splitlines s'
                 | [] => []
                 end
               else splitlines s')
      else match splitlines s' with
           | [] => [[c]]
           | l :: ls => (c :: l) :: ls
           end
  end.

(* sub in s *)
Fixpoint contains (sub s : list N) : bool :=
  startswith s sub || match s with [] => false | _ :: s' => contains sub s' end.

(* s.split(c, 1) for a string that contains c: (before the first c, after it) *)
Fixpoint split_at (c : N) (s : str) : str * str :=
  match s with
  | [] => ([], [])
  | x :: s' => if x =? c then ([], s')
               else let (a, b) := split_at c s' in (x :: a, b)
  end.

(* b.split(b"\n", k): at most k splits *)
Fixpoint bsplit_nl (k : nat) (b : bytes) : list bytes :=
  match k with
  | O => [b]
  | S k' => match find_nl b with
            | None => [b]
            | Some pos => firstn pos b :: bsplit_nl k' (skipn (S pos) b)
            end
  end.

(* posixpath.join(a, b) *)
Definition pjoin (a b : str) : str :=
  if startswith b [47] then b
  else if is_nil a || endswith a [47] then a ++ b
  else a ++ [47] ++ b.

(* bytes.decode(): strict UTF-8 (no overlong forms, no surrogates, at most U+10FFFF) *)
Definition cont (b : N) : bool := (128 <=? b) && (b <=? 191).

Fixpoint utf8_decode (bs : bytes) : option str :=
  match bs with
  | [] => Some []
  | b0 :: r0 =>
      if b0 <? 128 then option_map (cons b0) (utf8_decode r0)
      else if (194 <=? b0) && (b0 <=? 223) then
        match r0 with
        | b1 :: r1 =>
            if cont b1 then option_map (cons ((b0 - 192) * 64 + (b1 - 128))) (utf8_decode r1)
            else None
        | _ => None
        end
      else if (224 <=? b0) && (b0 <=? 239) then
        match r0 with
        | b1 :: b2 :: r2 =>
            if ((if b0 =? 224 then 160 else 128) <=? b1) &&
               (b1 <=? (if b0 =? 237 then 159 else 191)) && cont b2
            then option_map (cons ((b0 - 224) * 4096 + (b1 - 128) * 64 + (b2 - 128)))
                            (utf8_decode r2)
            else None
        | _ => None
        end
      else if (240 <=? b0) && (b0 <=? 244) then
        match r0 with
        | b1 :: b2 :: b3 :: r3 =>
            if ((if b0 =? 240 then 144 else 128) <=? b1) &&
               (b1 <=? (if b0 =? 244 then 143 else 191)) && cont b2 && cont b3
            then option_map (cons ((b0 - 240) * 262144 + (b1 - 128) * 4096
                                   + (b2 - 128) * 64 + (b3 - 128)))
                            (utf8_decode r3)
            else None
        | _ => None
        end
      else None
  end.
