(* C18: the zlib hypotheses are satisfiable (table decompressor of the model runner, identity
   codec), and a witness that without them being "error free" the exception class can depend on
   the chunking. *)
From Coq Require Import List NArith Bool Lia.
From MV Require Import Base.PyStr Inv.WildModel Gen.Inventory InvLoad.Regex InvLoad.Basics InvLoad.PyText
  InvLoad.Reader InvLoad.Load InvLoad.SphinxInv InvLoad.TableCodec InvLoad.ReaderProofs.
Import ListNotations.
Open Scope N_scope.

Lemma tstep_app st a b :
  tstep st (a ++ b) = let (st1, o1) := tstep st a in
                      let (st2, o2) := tstep st1 b in (st2, o1 ++ o2).
Proof.
  revert st. induction a as [|c a IH]; intro st; cbn [app tstep].
  - destruct (tstep st b); reflexivity.
  - destruct (tstep1 st c) as [s1 o1]. rewrite IH.
    destruct (tstep s1 a) as [s2 o2]. destruct (tstep s2 b) as [s3 o3].
    rewrite app_assoc. reflexivity.
Qed.

Lemma tstep1_bad st c : t_bad st = true -> t_bad (fst (tstep1 st c)) = true.
Proof. intro H. unfold tstep1. rewrite H. exact H. Qed.

Lemma tstep_bad st a : t_bad st = true -> t_bad (fst (tstep st a)) = true.
Proof.
  revert st. induction a as [|c a IH]; intros st H; cbn [tstep]; [exact H|].
  assert (H1 := tstep1_bad st c H). destruct (tstep1 st c) as [s1 o1]. cbn [fst] in H1.
  specialize (IH s1 H1). destruct (tstep s1 a). exact IH.
Qed.

Theorem table_codec_ok : zlib_stream_ok tstate tstep terr.
Proof. split; [exact tstep_app | exact tstep_bad]. Qed.

(* the identity "compression" *)
Definition idstep (st : unit) (a : bytes) : unit * bytes := (st, a).
Definition idflush (st : unit) : bytes := [].
Definition iderr (st : unit) : bool := false.

Theorem id_codec_ok : zlib_stream_ok unit idstep iderr.
Proof. split; [reflexivity | discriminate]. Qed.

(* a corrupt stream after an undecodable line: one read raises zlib.error, three reads raise
   UnicodeDecodeError *)
Definition bad_table : ztable := [(1, Some [255; 10]); (2, Some []); (3, None)].
Definition v2_header : bytes :=
  hdr_v2 ++ [10] ++ [35; 10] ++ [35; 10] ++ zlib_marker ++ [10].

Lemma exception_class_depends_on_chunking :
  load_exec bad_table [v2_header ++ [1; 2; 3]] None = IRaise ZlibErr /\
  load_exec bad_table [v2_header ++ [1]; [2]; [3]] None = IRaise UnicodeDecodeErr.
Proof. split; vm_compute; reflexivity. Qed.

Theorem exception_class_refuted :
  exists (tab : ztable) (cs : list bytes), load_exec tab cs None <> load_exec tab [live cs] None.
Proof.
  exists bad_table, [v2_header ++ [1]; [2]; [3]].
  intro H. vm_compute in H. discriminate.
Qed.
