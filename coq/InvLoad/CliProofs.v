(* C18: the CLI's filtering loop keeps exactly the entries whose domain, object type, name
   and location match; fetch dispatch facts. *)
From Coq Require Import List NArith Bool Lia.
From MV Require Import Base.PyStr Inv.WildModel Gen.Inventory InvLoad.Basics InvLoad.PyText InvLoad.Reader
  InvLoad.Load InvLoad.Cli InvLoad.DictProofs.
Import ListNotations.
Open Scope N_scope.

(* unique keys at the three levels: what Python dicts guarantee *)
Definition wf_keys (objs : objs_t) : Prop :=
  NoDup (keys objs) /\
  Forall (fun '(d, ts) => NoDup (keys ts) /\ Forall (fun '(t, es) => NoDup (keys es)) ts) objs.

Definition W (x p : str) : bool := match_with_wildcard x (Some p).

(* args.loc is None or "" -> no location filter *)
Definition loc_ok (loc : option str) (l : str) : bool :=
  match loc with
  | Some p => is_nil p || match_with_wildcard l (Some p)
  | None => true
  end.

Lemma cli_step_alt loc objs m :
  cli_step loc objs m =
  if loc_ok loc (m_loc m)
  then objs_insert (m_domain m) (m_otype m) (m_name m) {| it_loc := m_loc m; it_text := m_text m |} objs
  else objs.
Proof.
  unfold cli_step, loc_ok. destruct loc as [p|]; [|reflexivity].
  destruct (is_nil p); cbn [negb andb orb]; [reflexivity|].
  destruct (match_with_wildcard (m_loc m) (Some p)); reflexivity.
Qed.

Section Pick.

Variable loc : option str.
Variables d t n : str.

Definition cond (m : invmatch) : bool :=
  loc_ok loc (m_loc m) &&
  (str_eqb d (m_domain m) && str_eqb t (m_otype m) && str_eqb n (m_name m)).

(* the last match with key (d, t, n) that passes the location filter *)
Fixpoint pick (ms : list invmatch) : option item :=
  match ms with
  | [] => None
  | m :: ms' => match pick ms' with
                | Some x => Some x
                | None => if cond m then Some {| it_loc := m_loc m; it_text := m_text m |} else None
                end
  end.

Lemma fold_lookup : forall ms acc,
  objs_lookup (fold_left (cli_step loc) ms acc) d t n =
  match pick ms with Some it => Some it | None => objs_lookup acc d t n end.
Proof.
  induction ms as [|m ms IH]; intro acc; [reflexivity|].
  cbn [fold_left pick]. rewrite IH. destruct (pick ms); [reflexivity|].
  rewrite cli_step_alt. unfold cond. destruct (loc_ok loc (m_loc m)); cbn [andb]; [|reflexivity].
  rewrite objs_lookup_insert.
  destruct (str_eqb d (m_domain m) && str_eqb t (m_otype m) && str_eqb n (m_name m)); reflexivity.
Qed.

Lemma pick_app l1 l2 :
  pick (l1 ++ l2) = match pick l2 with Some x => Some x | None => pick l1 end.
Proof.
  induction l1 as [|m l1 IH]; cbn [app pick].
  - destruct (pick l2); reflexivity.
  - rewrite IH. destruct (pick l2); reflexivity.
Qed.

Lemma pick_none ms : (forall m, In m ms -> cond m = false) -> pick ms = None.
Proof.
  induction ms as [|m ms IH]; intro H; [reflexivity|]. cbn [pick].
  rewrite IH by (intros x Hx; apply H; right; exact Hx).
  rewrite (H m) by (left; reflexivity). reflexivity.
Qed.

(* flat_map over a dict with unique keys: only the value under the wanted key contributes *)
Lemma pick_assoc {V} (F : str * V -> list invmatch) (G : V -> option item) (k : str) :
  forall l : list (str * V), NoDup (keys l) ->
  (forall k0 v, In (k0, v) l -> pick (F (k0, v)) = if str_eqb k k0 then G v else None) ->
  pick (flat_map F l) = match al_get k l with Some v => G v | None => None end.
Proof.
  induction l as [|[k0 v0] l IH]; intros ND H; [reflexivity|].
  cbn [flat_map al_get]. rewrite pick_app.
  change (keys ((k0, v0) :: l)) with (k0 :: keys l) in ND. inversion ND as [|? ? NI ND']; subst.
  rewrite IH; [| exact ND' | intros k1 v1 Hin; apply H; right; exact Hin].
  rewrite (H k0 v0) by (left; reflexivity).
  destruct (str_eqb k k0) eqn:E.
  - apply str_eqb_eq in E. subst k0.
    assert (A : al_get k l = None).
    { apply al_mem_false in NI. unfold al_mem in NI. destruct (al_get k l); [discriminate|reflexivity]. }
    rewrite A. reflexivity.
  - destruct (al_get k l) as [v|]; [destruct (G v)|]; reflexivity.
Qed.

End Pick.

Section Filter.

Variables qd qo qt : str.
Variable loc : option str.
Variables d t n : str.
Variable inv : inventory.

Notation pick := (pick loc d t n).

Definition mk (dname oname tname : str) (it : item) : invmatch :=
  {| m_inv := []; m_domain := dname; m_otype := oname; m_name := tname;
     m_project := inv_name inv; m_version := inv_version inv; m_base := inv_base inv;
     m_loc := it_loc it; m_text := it_text it |}.

Definition Fe (dname oname : str) (e : str * item) : list invmatch :=
  let '(tname, it) := e in if match_with_wildcard tname (Some qt) then [mk dname oname tname it] else [].
Definition Ft (dname : str) (e : str * list (str * item)) : list invmatch :=
  let '(oname, odata) := e in
  if negb (match_with_wildcard oname (Some qo)) then [] else flat_map (Fe dname oname) odata.
Definition Fd (e : str * list (str * list (str * item))) : list invmatch :=
  let '(dname, ddata) := e in
  if negb (match_with_wildcard dname (Some qd)) then [] else flat_map (Ft dname) ddata.

Lemma filter_unfold :
  filter_inventories [([], inv)] None (Some qd) (Some qo) (Some qt) = flat_map Fd (inv_objects inv).
Proof. unfold filter_inventories. cbn [flat_map match_with_wildcard negb]. rewrite app_nil_r. reflexivity. Qed.

Definition Ge (it : item) : option item :=
  if W n qt && loc_ok loc (it_loc it) then Some it else None.

Lemma item_eta it : {| it_loc := it_loc it; it_text := it_text it |} = it.
Proof. destruct it; reflexivity. Qed.

Lemma pick_entries dname oname es : NoDup (keys es) ->
  pick (flat_map (Fe dname oname) es) =
  if str_eqb d dname && str_eqb t oname
  then match al_get n es with Some it => Ge it | None => None end
  else None.
Proof.
  intro ND. destruct (str_eqb d dname && str_eqb t oname) eqn:K.
  - apply (pick_assoc loc d t n (Fe dname oname) Ge n es ND).
    intros n0 it _. unfold Fe, Ge, W.
    destruct (str_eqb n n0) eqn:E.
    + apply str_eqb_eq in E. subst n0.
      destruct (match_with_wildcard n (Some qt)); cbn [CliProofs.pick andb]; [|reflexivity].
      unfold cond, mk. cbn [m_loc m_domain m_otype m_name m_text]. rewrite K, str_eqb_refl.
      rewrite item_eta. destruct (loc_ok loc (it_loc it)); reflexivity.
    + destruct (match_with_wildcard n0 (Some qt)); cbn [CliProofs.pick]; [|reflexivity].
      unfold cond, mk. cbn [m_loc m_domain m_otype m_name]. rewrite E, !andb_false_r. reflexivity.
  - apply pick_none. intros m Hm. apply in_flat_map in Hm. destruct Hm as [[n0 it] [_ Hm]].
    unfold Fe in Hm. destruct (match_with_wildcard n0 (Some qt)); [|contradiction].
    destruct Hm as [Hm|[]]. subst m. unfold cond, mk. cbn [m_loc m_domain m_otype m_name].
    rewrite K. cbn [andb]. apply andb_false_r.
Qed.

Definition Gt (es : list (str * item)) : option item :=
  if W t qo then match al_get n es with Some it => Ge it | None => None end else None.

Lemma pick_types dname ts : NoDup (keys ts) -> Forall (fun '(t0, es) => NoDup (keys es)) ts ->
  pick (flat_map (Ft dname) ts) =
  if str_eqb d dname then match al_get t ts with Some es => Gt es | None => None end else None.
Proof.
  intros ND WF. destruct (str_eqb d dname) eqn:K.
  - apply (pick_assoc loc d t n (Ft dname) Gt t ts ND).
    intros t0 es Hin. rewrite Forall_forall in WF. assert (NDe := WF (t0, es) Hin). cbn beta iota in NDe.
    unfold Ft, Gt, W. destruct (str_eqb t t0) eqn:E.
    + apply str_eqb_eq in E. subst t0.
      destruct (match_with_wildcard t (Some qo)); cbn [negb]; [|reflexivity].
      rewrite (pick_entries dname t es NDe). rewrite K, str_eqb_refl. reflexivity.
    + destruct (match_with_wildcard t0 (Some qo)); cbn [negb]; [|reflexivity].
      rewrite (pick_entries dname t0 es NDe). rewrite E, andb_false_r. reflexivity.
  - apply pick_none. intros m Hm. apply in_flat_map in Hm. destruct Hm as [[t0 es] [_ Hm]].
    unfold Ft in Hm. destruct (negb (match_with_wildcard t0 (Some qo))); [contradiction|].
    apply in_flat_map in Hm. destruct Hm as [[n0 it] [_ Hm]].
    unfold Fe in Hm. destruct (match_with_wildcard n0 (Some qt)); [|contradiction].
    destruct Hm as [Hm|[]]. subst m. unfold cond, mk. cbn [m_loc m_domain m_otype m_name].
    rewrite K. cbn [andb]. apply andb_false_r.
Qed.

Definition Gd (ts : list (str * list (str * item))) : option item :=
  if W d qd then match al_get t ts with Some es => Gt es | None => None end else None.

Lemma pick_domains : wf_keys (inv_objects inv) ->
  pick (flat_map Fd (inv_objects inv)) =
  match al_get d (inv_objects inv) with Some ts => Gd ts | None => None end.
Proof.
  intros [ND WF]. apply (pick_assoc loc d t n Fd Gd d (inv_objects inv) ND).
  intros d0 ts Hin. rewrite Forall_forall in WF. assert (W0 := WF (d0, ts) Hin). cbn beta iota in W0.
  destruct W0 as [NDt WFt]. unfold Fd, Gd, W. destruct (str_eqb d d0) eqn:E.
  - apply str_eqb_eq in E. subst d0.
    destruct (match_with_wildcard d (Some qd)); cbn [negb]; [|reflexivity].
    rewrite (pick_types d ts NDt WFt). rewrite str_eqb_refl. reflexivity.
  - destruct (match_with_wildcard d0 (Some qd)); cbn [negb]; [|reflexivity].
    rewrite (pick_types d0 ts NDt WFt). rewrite E. reflexivity.
Qed.

(* the filtered inventory holds exactly the entries that match all four filters *)
Theorem cli_filter_lookup base : wf_keys (inv_objects inv) ->
  objs_lookup (inv_objects (cli_filter inv base qd qo qt loc)) d t n =
  match objs_lookup (inv_objects inv) d t n with
  | Some it => if W d qd && W t qo && W n qt && loc_ok loc (it_loc it) then Some it else None
  | None => None
  end.
Proof.
  intro WK. unfold cli_filter. cbn [inv_objects mk_inv]. rewrite filter_unfold.
  rewrite fold_lookup. rewrite (pick_domains WK). unfold objs_lookup, Gd, Gt, Ge. cbn [al_get].
  destruct (al_get d (inv_objects inv)) as [ts|]; [|reflexivity].
  destruct (W d qd); cbn [andb].
  - destruct (al_get t ts) as [es|]; [|reflexivity].
    destruct (W t qo); cbn [andb].
    + destruct (al_get n es) as [it|]; [|reflexivity]. destruct (W n qt && loc_ok loc (it_loc it)); reflexivity.
    + destruct (al_get n es); reflexivity.
  - destruct (al_get t ts) as [es|]; [|reflexivity]. destruct (al_get n es); reflexivity.
Qed.

End Filter.

(* ---------------- acquisition ---------------- *)

Section FetchFacts.

Variable url_load : str -> option str -> ires inventory.
Variable file_load : str -> option str -> ires inventory.

(* a path that does not start with http:// or https:// is only ever opened as a file,
   with no base URL *)
Theorem cli_fetch_file uri : is_http uri = false ->
  cli_fetch url_load file_load uri = (dob inv <- file_load uri None; IOk (inv, None)) /\
  forall base, fetch_inventory url_load file_load uri base = file_load uri base.
Proof. intro H. unfold cli_fetch, fetch_inventory. rewrite H. auto. Qed.

(* a URL: the URL itself first, with everything before the last "/" as base; only if that
   raises, URL + "/objects.inv" with the URL as base *)
Theorem cli_fetch_url uri : is_http uri = true ->
  (forall inv, url_load uri None = IOk inv ->
     cli_fetch url_load file_load uri = IOk (inv, Some (rsplit_slash uri))) /\
  (forall e, url_load uri None = IRaise e ->
     cli_fetch url_load file_load uri =
     (dob inv <- url_load (uri ++ s_objects_inv) None; IOk (inv, Some uri))) /\
  forall base, fetch_inventory url_load file_load uri base = url_load uri base.
Proof.
  intro H. unfold cli_fetch, fetch_inventory. rewrite H. repeat split.
  - intros inv E. rewrite E. reflexivity.
  - intros e E. rewrite E. reflexivity.
Qed.

Theorem fetch_dispatch uri :
  (is_http uri = false ->
     cli_fetch url_load file_load uri = (dob inv <- file_load uri None; IOk (inv, None)) /\
     forall base, fetch_inventory url_load file_load uri base = file_load uri base) /\
  (is_http uri = true ->
     (forall inv, url_load uri None = IOk inv ->
        cli_fetch url_load file_load uri = IOk (inv, Some (rsplit_slash uri))) /\
     (forall e, url_load uri None = IRaise e ->
        cli_fetch url_load file_load uri =
        (dob inv <- url_load (uri ++ s_objects_inv) None; IOk (inv, Some uri))) /\
     forall base, fetch_inventory url_load file_load uri base = url_load uri base).
Proof. split; [apply cli_fetch_file | apply cli_fetch_url]. Qed.

End FetchFacts.

(* ---------------- whatever load returns has unique keys ---------------- *)

Section KeysFacts.
Context {V : Type}.
Implicit Types (l : list (str * V)).

Lemma keys_al_set k v l : keys (al_set k v l) = if al_mem k l then keys l else keys l ++ [k].
Proof.
  unfold al_mem. induction l as [|[k0 v0] l IH]; cbn [al_set al_get keys map fst app]; [reflexivity|].
  destruct (str_eqb k k0) eqn:E; cbn [keys map fst].
  - apply str_eqb_eq in E. subst. reflexivity.
  - unfold keys in IH. rewrite IH. destruct (al_get k l); reflexivity.
Qed.

Lemma keys_al_setdefault k v l : keys (al_setdefault k v l) = if al_mem k l then keys l else keys l ++ [k].
Proof.
  unfold al_setdefault. destruct (al_mem k l); [reflexivity|]. unfold keys. rewrite map_app. reflexivity.
Qed.

Lemma keys_al_update k f l : keys (al_update k f l) = keys l.
Proof.
  induction l as [|[k0 v0] l IH]; cbn [al_update keys map fst]; [reflexivity|].
  destruct (str_eqb k k0) eqn:E; cbn [keys map fst].
  - reflexivity.
  - unfold keys in IH. rewrite IH. reflexivity.
Qed.

Lemma NoDup_snoc k (ks : list str) : NoDup ks -> ~ In k ks -> NoDup (ks ++ [k]).
Proof.
  intros ND NI. apply NoDup_rev in ND. rewrite <- (rev_involutive (ks ++ [k])). apply NoDup_rev.
  rewrite rev_app_distr. cbn. constructor; [|exact ND]. intro C. apply NI. apply in_rev. exact C.
Qed.

Lemma NoDup_keys_set k v l : NoDup (keys l) -> NoDup (keys (al_set k v l)).
Proof.
  intro ND. rewrite keys_al_set. destruct (al_mem k l) eqn:M; [exact ND|].
  apply NoDup_snoc; [exact ND | apply al_mem_false; exact M].
Qed.

Lemma NoDup_keys_setdefault k v l : NoDup (keys l) -> NoDup (keys (al_setdefault k v l)).
Proof.
  intro ND. rewrite keys_al_setdefault. destruct (al_mem k l) eqn:M; [exact ND|].
  apply NoDup_snoc; [exact ND | apply al_mem_false; exact M].
Qed.

Lemma Forall_al_update (P : V -> Prop) k f l :
  Forall (fun '(_, v) => P v) l -> (forall v, P v -> P (f v)) ->
  Forall (fun '(_, v) => P v) (al_update k f l).
Proof.
  intros F H. induction l as [|[k0 v0] l IH]; cbn [al_update]; [constructor|].
  inversion F as [|? ? P0 F']; subst. destruct (str_eqb k k0); constructor; auto.
Qed.

Lemma Forall_al_setdefault (P : V -> Prop) k v l :
  Forall (fun '(_, v) => P v) l -> P v -> Forall (fun '(_, v) => P v) (al_setdefault k v l).
Proof.
  intros F H. unfold al_setdefault. destruct (al_mem k l); [exact F|].
  apply Forall_app. split; [exact F|]. constructor; [exact H | constructor].
Qed.

End KeysFacts.

Lemma wf_keys_insert d t n it objs : wf_keys objs -> wf_keys (objs_insert d t n it objs).
Proof.
  intros [ND WF]. unfold objs_insert. split.
  - rewrite keys_al_update. apply NoDup_keys_setdefault. exact ND.
  - apply (Forall_al_update (fun ts => NoDup (keys ts) /\ Forall (fun '(t0, es) => NoDup (keys es)) ts)).
    + apply Forall_al_setdefault; [exact WF|]. split; constructor.
    + intros ts [NDt WFt]. split.
      * rewrite keys_al_update. apply NoDup_keys_setdefault. exact NDt.
      * apply (Forall_al_update (fun es => NoDup (keys es))).
        -- apply Forall_al_setdefault; [exact WFt | constructor].
        -- intros es NDe. apply NoDup_keys_set. exact NDe.
Qed.

Lemma wf_keys_nil : wf_keys [].
Proof. split; constructor. Qed.

Lemma fold_lines_inv (P : objs_t -> Prop) step :
  (forall o l o', P o -> step o l = IOk o' -> P o') ->
  forall ls g o o', P o -> fold_lines step o ls g = IOk o' -> P o'.
Proof.
  intros H. induction ls as [|l ls IH]; intros g o o' Po F; cbn [fold_lines] in F.
  - destruct g; inversion F; subst. exact Po.
  - destruct (step o l) as [o1|e] eqn:S; cbn [ibind] in F; [|discriminate].
    apply (IH g o1 o'); [eapply H; eassumption | exact F].
Qed.

Lemma ibind_ok {A B} (r : ires A) (f : A -> ires B) x :
  ibind r f = IOk x -> exists a, r = IOk a /\ f a = IOk x.
Proof. destruct r; cbn; intro H; [eauto | discriminate]. Qed.

Section LoadKeys.

Variable dstate : Type.
Variable dinit : dstate.
Variable dstep : dstate -> bytes -> dstate * bytes.
Variable dflush : dstate -> bytes.
Variable derr : dstate -> bool.
Variable decode : bytes -> option str.
Variable match_line : str -> option (str * str * str * str * str).

Lemma v1_step_keys o l o' : wf_keys o -> v1_step o l = IOk o' -> wf_keys o'.
Proof.
  intros Wo H. unfold v1_step in H.
  destruct (split_ws 2 (rstrip l)) as [|a [|b [|c [|x r]]]]; try discriminate.
  destruct (str_eqb b s_mod); inversion H; subst; apply wf_keys_insert; exact Wo.
Qed.

Lemma v2_step_keys o l : wf_keys o -> wf_keys (v2_step match_line o l).
Proof.
  intro Wo. unfold v2_step.
  destruct (match_line (rstrip l)) as [[[[[name type] prio] loc] text]|]; [|exact Wo].
  destruct (negb (mem_N c_colon type)); [exact Wo|].
  destruct (str_eqb type s_py_module && al_mem s_module (al_get_or_empty s_py o)
            && al_mem name (al_get_or_empty s_module (al_get_or_empty s_py o))); [exact Wo|].
  destruct (split_at c_colon type). apply wf_keys_insert. exact Wo.
Qed.

(* every inventory that load returns has unique keys at the three levels *)
Theorem load_wf_keys cs base inv :
  load dstate dinit dstep dflush derr decode match_line cs base = IOk inv -> wf_keys (inv_objects inv).
Proof.
  unfold load. intro H.
  apply ibind_ok in H. destruct H as [[l0 r0] [_ H]].
  destruct (str_eqb (rstrip l0) hdr_v1).
  - unfold load_v1 in H.
    apply ibind_ok in H. destruct H as [[l1 r1] [_ H]].
    apply ibind_ok in H. destruct H as [[l2 r2] [_ H]].
    apply ibind_ok in H. destruct H as [objs [F H]]. inversion H; subst. cbn [inv_objects mk_inv].
    eapply (fold_lines_inv wf_keys v1_step v1_step_keys); [apply wf_keys_nil | exact F].
  - destruct (str_eqb (rstrip l0) hdr_v2); [|discriminate].
    unfold load_v2 in H.
    apply ibind_ok in H. destruct H as [[l1 r1] [_ H]].
    apply ibind_ok in H. destruct H as [[l2 r2] [_ H]].
    apply ibind_ok in H. destruct H as [[l3 r3] [_ H]].
    destruct (negb (contains zlib_marker l3)); [discriminate|].
    apply ibind_ok in H. destruct H as [objs [F H]]. inversion H; subst. cbn [inv_objects mk_inv].
    eapply (fold_lines_inv wf_keys (fun o l => IOk (v2_step match_line o l))); [| apply wf_keys_nil | exact F].
    intros o l o' Wo E. inversion E; subst. apply v2_step_keys. exact Wo.
Qed.

End LoadKeys.
