(* C18: shared basic definitions for the inventory loader models (coq/InvLoad):
   bytes, the exception classes that matter, lazy line sequences, byte-buffer helpers.
   Executable definitions only. *)
From Coq Require Import List NArith Bool.
From MV Require Import Base.PyStr.
Import ListNotations.
Open Scope N_scope.

Definition bytes := list N.

(* the Python exception classes the loaders can raise *)
Inductive iexn : Type :=
| ValueErr             (* ValueError (bad header, too few fields) *)
| UnicodeDecodeErr     (* bytes.decode() *)
| ZlibErr              (* zlib.error *)
| OutOfFuelErr.        (* not a Python exception: model fuel exhausted *)

Inductive ires (A : Type) : Type :=
| IOk (a : A)
| IRaise (e : iexn).
Arguments IOk {A} a.
Arguments IRaise {A} e.

Definition ibind {A B} (r : ires A) (f : A -> ires B) : ires B :=
  match r with IOk a => f a | IRaise e => IRaise e end.

Notation "'dob' x <- r ; k" := (ibind r (fun x => k))
  (at level 200, x pattern, r at level 100, k at level 200, right associativity).

Definition is_nil {A} (l : list A) : bool := match l with [] => true | _ => false end.

(* a generator of lines consumed by a for-loop: the lines it yields, then possibly an
   exception raised inside the generator (which ends the loop) *)
Definition lseq : Type := list str * option iexn.

Definition lseq_cons (l : str) (q : lseq) : lseq := (l :: fst q, snd q).

(* b.find(b"\n") *)
Definition find_nl (b : bytes) : option nat := find_char 10 b.

Definition eqb_iexn (a b : iexn) : bool :=
  match a, b with
  | ValueErr, ValueErr | UnicodeDecodeErr, UnicodeDecodeErr
  | ZlibErr, ZlibErr | OutOfFuelErr, OutOfFuelErr => true
  | _, _ => false
  end.
