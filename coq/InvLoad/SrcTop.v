(* C18 round 3: the property theorems restated for the definitions regenerated from the source. *)
From Coq Require Import List NArith ZArith Bool.
From MV Require Import Base.PyStr Inv.WildModel Gen.Inventory InvLoad.Basics InvLoad.PyText InvLoad.Reader
  InvLoad.Load InvLoad.SphinxInv InvLoad.SrcPrims InvLoad.ReaderProofs InvLoad.LoadProofs InvLoad.TextProofs
  InvLoad.AgreeProofs InvLoad.RoundtripProofs InvLoad.BadLineProofs Gen.InventorySrc InvLoad.SrcProofs.
Import ListNotations.

Section SrcTop.

Variable dstate : Type.
Variable dinit : dstate.
Variable dstep : dstate -> bytes -> dstate * bytes.
Variable dflush : dstate -> bytes.
Variable derr : dstate -> bool.
Variable dz : bytes -> option bytes.
Variable decode : bytes -> option str.
Variable match_line : str -> option (str * str * str * str * str).
Hypothesis O_zlib_stream : zlib_stream_ok dstate dstep derr.

Notation load_src := (load_src dstate dinit dstep dflush derr decode match_line).

Theorem chunking_independent_src cs base :
  load_src cs base = load_src [live cs] base \/
  (load_src [live cs] base = IRaise ZlibErr /\
   exists e, load_src cs base = IRaise e /\ (e = ZlibErr \/ e = UnicodeDecodeErr)).
Proof. rewrite !load_src_eq. apply chunking_independent. exact O_zlib_stream. Qed.

Theorem load_terminates_src cs base : load_src cs base <> IRaise OutOfFuelErr.
Proof. rewrite load_src_eq. apply load_terminates. exact O_zlib_stream. Qed.

Theorem readline_terminates_src r : readline_src decode r <> IRaise OutOfFuelErr.
Proof. rewrite readline_src_eq. apply readline_terminates. Qed.

Hypothesis O_zlib_oneshot : zlib_oneshot_ok dstate dinit dstep dflush derr dz.
Hypothesis O_decode : decode_ok decode.

Theorem agrees_with_sphinx_src cs uri base sinv :
  Forall (fun l => decode l <> None) (firstn 4 (bsplit_nl 4 (live cs))) ->
  (forall text, sphinx_text dz decode (live cs) = Some text -> crlf_only text) ->
  sphinx_loads dz decode match_line (live cs) uri = IOk sinv ->
  exists inv, load_src cs base = IOk inv /\ agree uri (inv_objects inv) sinv /\
              (plain_header (live cs) -> same_project inv sinv).
Proof.
  intros. rewrite load_src_eq.
  apply (agrees_with_sphinx dstate dinit dstep dflush derr dz decode match_line); assumption.
Qed.

End SrcTop.

Theorem sphinx_roundtrip_src inv : wf_inv inv -> from_sphinx_src (to_sphinx_src inv) = inv.
Proof. intro W. rewrite to_sphinx_src_eq, from_sphinx_src_eq. apply sphinx_roundtrip. exact W. Qed.

(* the refinement itself, in one statement (what an edit of inventory.py has to keep true) *)
Theorem inventory_src_refines :
  (forall r, read_buffer_src r = read_buffer r) /\
  (forall decode r, readline_src decode r = readline decode r) /\
  (forall decode r, readlines_src decode r = readlines decode r) /\
  (forall dstate dinit dstep dflush derr r,
     read_compressed_chunks_src dstate dinit dstep dflush derr r =
     read_compressed_chunks dstate dinit dstep dflush derr r) /\
  (forall dstate dinit dstep dflush derr decode r,
     read_compressed_lines_src dstate dinit dstep dflush derr decode r =
     read_compressed_lines dstate dinit dstep dflush derr decode r) /\
  (forall decode r base, load_v1_src decode r base = load_v1 decode r base) /\
  (forall dstate dinit dstep dflush derr decode match_line r base,
     load_v2_src dstate dinit dstep dflush derr decode match_line r base =
     load_v2 dstate dinit dstep dflush derr decode match_line r base) /\
  (forall dstate dinit dstep dflush derr decode match_line cs base,
     InventorySrc.load_src dstate dinit dstep dflush derr decode match_line cs base =
     load dstate dinit dstep dflush derr decode match_line cs base) /\
  (forall s, from_sphinx_src s = from_sphinx s) /\
  (forall inv, to_sphinx_src inv = to_sphinx inv).
Proof.
  repeat split; intros.
  - apply read_buffer_src_eq.
  - apply readline_src_eq.
  - apply readlines_src_eq.
  - apply read_compressed_chunks_src_eq.
  - apply read_compressed_lines_src_eq.
  - apply load_v1_src_eq.
  - apply load_v2_src_eq.
  - apply load_src_eq.
  - apply from_sphinx_src_eq.
  - apply to_sphinx_src_eq.
Qed.
