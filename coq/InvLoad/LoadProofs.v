(* C18: load() is a function of the bytes of the stream, not of how they are split into
   reads (up to which exception is raised when the zlib stream itself is corrupt). *)
From Coq Require Import List NArith Bool Lia Arith.
From MV Require Import Base.PyStr Inv.WildModel Gen.Inventory InvLoad.Basics InvLoad.PyText
  InvLoad.Reader InvLoad.Load InvLoad.ReaderProofs.
Import ListNotations.
Open Scope N_scope.

Section LoadFacts.

Variable dstate : Type.
Variable dinit : dstate.
Variable dstep : dstate -> bytes -> dstate * bytes.
Variable dflush : dstate -> bytes.
Variable derr : dstate -> bool.
Variable decode : bytes -> option str.
Variable match_line : str -> option (str * str * str * str * str).
Hypothesis O_zlib_stream : zlib_stream_ok dstate dstep derr.

Notation dec := (dec decode).
Notation load := (load dstate dinit dstep dflush derr decode match_line).
Notation load_v1 := (load_v1 decode).
Notation load_v2 := (load_v2 dstate dinit dstep dflush derr decode match_line).
Notation a_rcl := (a_rcl dstate dinit dstep dflush derr decode).
Notation a_readlines := (a_readlines decode).
Notation v2_step := (v2_step match_line).

(* ---------------- the loaders as pure functions of the pending bytes ---------------- *)

Definition load_v1_spec (p : bytes) (base_url : option str) : ires inventory :=
  let '(a1, (p1, _)) := a_readline p in
  dob l1 <- dec a1;
  let '(a2, (p2, e2)) := a_readline p1 in
  dob l2 <- dec a2;
  let q := a_readlines p2 e2 in
  dob objs <- fold_lines v1_step [] (fst q) (snd q);
  IOk (mk_inv (skipn v1_name_off (rstrip l1)) (skipn v1_version_off (rstrip l2)) base_url objs).

Definition load_v2_spec (p : bytes) (base_url : option str) : ires inventory :=
  let '(a1, (p1, _)) := a_readline p in
  dob l1 <- dec a1;
  let '(a2, (p2, _)) := a_readline p1 in
  dob l2 <- dec a2;
  let '(a3, (p3, e3)) := a_readline p2 in
  dob l3 <- dec a3;
  if negb (contains zlib_marker l3) then IRaise ValueErr
  else
    let q := a_rcl p3 e3 in
    dob objs <- fold_lines (fun o l => IOk (v2_step o l)) [] (fst q) (snd q);
    IOk (mk_inv (skipn v2_name_off (rstrip l1)) (skipn v2_version_off (rstrip l2)) base_url objs).

Definition load_spec (p : bytes) (base_url : option str) : ires inventory :=
  let '(a0, (p0, _)) := a_readline p in
  dob l0 <- dec a0;
  let line := rstrip l0 in
  if str_eqb line hdr_v1 then load_v1_spec p0 base_url
  else if str_eqb line hdr_v2 then load_v2_spec p0 base_url
  else IRaise ValueErr.

(* ---------------- simulation ---------------- *)

Lemma load_v1_sim r base : rwf r -> load_v1 r base = load_v1_spec (pending r) base.
Proof.
  intro W. unfold Load.load_v1, load_v1_spec.
  destruct (readline_spec decode r W) as [r1 [H1 [W1 [A1 _]]]]. rewrite H1.
  destruct (a_readline (pending r)) as [a1 [p1 e1]]. cbn [fst snd] in *. inversion A1 as [[P1 E1]].
  destruct (dec a1) as [l1|x]; cbn [ibind]; [|reflexivity].
  destruct (readline_spec decode r1 W1) as [r2 [H2 [W2 [A2 _]]]]. rewrite H2.
  destruct (a_readline (pending r1)) as [a2 [p2 e2]]. cbn [fst snd] in *. inversion A2 as [[P2 E2]].
  destruct (dec a2) as [l2|x]; cbn [ibind]; [|reflexivity].
  rewrite (readlines_spec decode r2 W2). reflexivity.
Qed.

Lemma fold_lines_exc (f : objs_t -> str -> objs_t) objs ls x :
  fold_lines (fun o l => IOk (f o l)) objs ls (Some x) = IRaise x.
Proof.
  revert objs. induction ls as [|l ls IH]; intro objs; cbn [fold_lines ibind]; [reflexivity|].
  apply IH.
Qed.

Lemma load_v2_sim r base : rwf r ->
  load_v2 r base = load_v2_spec (pending r) base \/
  (load_v2_spec (pending r) base = IRaise ZlibErr /\
   exists e, load_v2 r base = IRaise e /\ (e = ZlibErr \/ e = UnicodeDecodeErr)).
Proof.
  intro W. unfold Load.load_v2, load_v2_spec.
  destruct (readline_spec decode r W) as [r1 [H1 [W1 [A1 _]]]]. rewrite H1.
  destruct (a_readline (pending r)) as [a1 [p1 e1]]. cbn [fst snd] in *. inversion A1 as [[P1 E1]].
  destruct (dec a1) as [l1|x]; cbn [ibind]; [|left; reflexivity].
  destruct (readline_spec decode r1 W1) as [r2 [H2 [W2 [A2 _]]]]. rewrite H2.
  destruct (a_readline (pending r1)) as [a2 [p2 e2]]. cbn [fst snd] in *. inversion A2 as [[P2 E2]].
  destruct (dec a2) as [l2|x]; cbn [ibind]; [|left; reflexivity].
  destruct (readline_spec decode r2 W2) as [r3 [H3 [W3 [A3 _]]]]. rewrite H3.
  destruct (a_readline (pending r2)) as [a3 [p3 e3]]. cbn [fst snd] in *. inversion A3 as [[P3 E3]].
  destruct (dec a3) as [l3|x]; cbn [ibind]; [|left; reflexivity].
  destruct (negb (contains zlib_marker l3)); [left; reflexivity|].
  destruct (rcl_spec dstate dinit dstep dflush derr decode O_zlib_stream r3 W3) as [S1 S2].
  destruct (zlib_fails dstate dinit dstep derr (pending r3) (eof r3)) eqn:Z.
  - right. destruct (S2 eq_refl) as [ls [x [Hx Hc]]]. rewrite Hx. cbn [fst snd].
    split.
    + unfold ReaderProofs.a_rcl. unfold zlib_fails in Z. destruct (eof r3); [discriminate|].
      destruct (dstep dinit (pending r3)) as [st out]. cbn [fst] in Z. rewrite Z. reflexivity.
    + rewrite (fold_lines_exc v2_step [] ls x). exists x. split; [reflexivity | exact Hc].
  - left. rewrite (S1 eq_refl). reflexivity.
Qed.

Lemma load_v2_sim_single r base : rwf r -> stream r = [] ->
  load_v2 r base = load_v2_spec (pending r) base.
Proof.
  intros W S0. unfold Load.load_v2, load_v2_spec.
  destruct (readline_spec decode r W) as [r1 [H1 [W1 [A1 [[k1 [K1 _]] _]]]]]. rewrite H1.
  destruct (a_readline (pending r)) as [a1 [p1 e1]]. cbn [fst snd] in *. inversion A1 as [[P1 E1]].
  destruct (dec a1) as [l1|x]; cbn [ibind]; [|reflexivity].
  destruct (readline_spec decode r1 W1) as [r2 [H2 [W2 [A2 [[k2 [K2 _]] _]]]]]. rewrite H2.
  destruct (a_readline (pending r1)) as [a2 [p2 e2]]. cbn [fst snd] in *. inversion A2 as [[P2 E2]].
  destruct (dec a2) as [l2|x]; cbn [ibind]; [|reflexivity].
  destruct (readline_spec decode r2 W2) as [r3 [H3 [W3 [A3 [[k3 [K3 _]] _]]]]]. rewrite H3.
  destruct (a_readline (pending r2)) as [a3 [p3 e3]]. cbn [fst snd] in *. inversion A3 as [[P3 E3]].
  destruct (dec a3) as [l3|x]; cbn [ibind]; [|reflexivity].
  destruct (negb (contains zlib_marker l3)); [reflexivity|].
  assert (S3 : stream r3 = []).
  { rewrite K3, K2, K1, S0. rewrite !skipn_nil. reflexivity. }
  rewrite (rcl_spec_single dstate dinit dstep dflush derr decode O_zlib_stream r3 W3 S3). reflexivity.
Qed.

Lemma new_reader_rwf cs : rwf (new_reader cs).
Proof. intro E. discriminate. Qed.

Lemma new_reader_pending cs : pending (new_reader cs) = live cs.
Proof. reflexivity. Qed.

(* any chunking *)
Theorem load_chunked cs base :
  load cs base = load_spec (live cs) base \/
  (load_spec (live cs) base = IRaise ZlibErr /\
   exists e, load cs base = IRaise e /\ (e = ZlibErr \/ e = UnicodeDecodeErr)).
Proof.
  unfold Load.load, load_spec.
  destruct (readline_spec decode (new_reader cs) (new_reader_rwf cs)) as [r0 [H0 [W0 [A0 _]]]].
  rewrite H0. rewrite new_reader_pending in *.
  destruct (a_readline (live cs)) as [a0 [p0 e0]]. cbn [fst snd] in *. inversion A0 as [[P0 E0]].
  destruct (dec a0) as [l0|x]; cbn [ibind]; [|left; reflexivity].
  destruct (str_eqb (rstrip l0) hdr_v1).
  - left. apply load_v1_sim. exact W0.
  - destruct (str_eqb (rstrip l0) hdr_v2); [|left; reflexivity].
    apply load_v2_sim. exact W0.
Qed.

(* the whole file in one read *)
Theorem load_single x base : load [x] base = load_spec x base.
Proof.
  unfold Load.load, load_spec.
  destruct (readline_spec decode (new_reader [x]) (new_reader_rwf [x]))
    as [r0 [H0 [W0 [A0 [[k [K0 K1]] _]]]]].
  rewrite H0. rewrite new_reader_pending in *. rewrite live_single in *.
  assert (S0 : stream r0 = []).
  { rewrite K0. cbn [new_reader stream buffer eof] in *.
    specialize (K1 eq_refl eq_refl). destruct k; [lia|]. cbn. apply skipn_nil. }
  destruct (a_readline x) as [a0 [p0 e0]]. cbn [fst snd] in *. inversion A0 as [[P0 E0]].
  destruct (dec a0) as [l0|e]; cbn [ibind]; [|reflexivity].
  destruct (str_eqb (rstrip l0) hdr_v1).
  - apply load_v1_sim. exact W0.
  - destruct (str_eqb (rstrip l0) hdr_v2); [|reflexivity].
    apply load_v2_sim_single; assumption.
Qed.

(* C18_chunking_independent *)
Theorem chunking_independent cs base :
  load cs base = load [live cs] base \/
  (load [live cs] base = IRaise ZlibErr /\
   exists e, load cs base = IRaise e /\ (e = ZlibErr \/ e = UnicodeDecodeErr)).
Proof. rewrite load_single. apply load_chunked. Qed.

Corollary any_two_chunkings cs1 cs2 base : live cs1 = live cs2 ->
  load cs1 base = load cs2 base \/
  ((exists e, load cs1 base = IRaise e) /\ (exists e, load cs2 base = IRaise e)).
Proof.
  intro L. destruct (chunking_independent cs1 base) as [H1|[Z1 H1]];
    destruct (chunking_independent cs2 base) as [H2|[Z2 H2]]; rewrite <- L in *.
  - left. congruence.
  - right. split; [rewrite H1; eauto | destruct H2 as [e [H2 _]]; eauto].
  - right. split; [destruct H1 as [e [H1 _]]; eauto | rewrite H2; eauto].
  - right. destruct H1 as [e1 [H1 _]]. destruct H2 as [e2 [H2 _]]. split; eauto.
Qed.

(* ---------------- no fuel exhaustion anywhere in load ---------------- *)

Lemma fold_lines_err step objs ls g e :
  fold_lines step objs ls g = IRaise e -> (exists o l, step o l = IRaise e) \/ g = Some e.
Proof.
  revert objs. induction ls as [|l ls IH]; intro objs; cbn [fold_lines].
  - destruct g; intro H; inversion H. right. reflexivity.
  - destruct (step objs l) as [o|x] eqn:S; cbn [ibind].
    + apply IH.
    + intro H. inversion H; subst. left. eauto.
Qed.

Lemma v1_step_err o l e : v1_step o l = IRaise e -> e = ValueErr.
Proof.
  unfold v1_step. destruct (split_ws 2 (rstrip l)) as [|a [|b [|c [|d t]]]]; try (intro H; inversion H; reflexivity).
  destruct (str_eqb b s_mod); discriminate.
Qed.

Lemma load_spec_err p base e : load_spec p base = IRaise e -> e <> OutOfFuelErr.
Proof.
  unfold load_spec. destruct (a_readline p) as [a0 [p0 e0]].
  destruct (dec a0) as [l0|x] eqn:D0; cbn [ibind].
  2:{ intro H. inversion H; subst. rewrite (dec_err decode _ _ D0). discriminate. }
  destruct (str_eqb (rstrip l0) hdr_v1).
  - unfold load_v1_spec. destruct (a_readline p0) as [a1 [p1 e1]].
    destruct (dec a1) as [l1|x] eqn:D1; cbn [ibind].
    2:{ intro H. inversion H; subst. rewrite (dec_err decode _ _ D1). discriminate. }
    destruct (a_readline p1) as [a2 [p2 e2]].
    destruct (dec a2) as [l2|x] eqn:D2; cbn [ibind].
    2:{ intro H. inversion H; subst. rewrite (dec_err decode _ _ D2). discriminate. }
    destruct (fold_lines v1_step [] (fst (a_readlines p2 e2)) (snd (a_readlines p2 e2))) as [o|x] eqn:F;
      cbn [ibind]; [discriminate|].
    intro H. inversion H; subst. apply fold_lines_err in F. destruct F as [[o [l F]]|F].
    + rewrite (v1_step_err _ _ _ F). discriminate.
    + unfold ReaderProofs.a_readlines in F. destruct e2; [discriminate|].
      rewrite (decode_lines_err decode _ _ _ F). discriminate.
  - destruct (str_eqb (rstrip l0) hdr_v2); [|intro H; inversion H; discriminate].
    unfold load_v2_spec. destruct (a_readline p0) as [a1 [p1 e1]].
    destruct (dec a1) as [l1|x] eqn:D1; cbn [ibind].
    2:{ intro H. inversion H; subst. rewrite (dec_err decode _ _ D1). discriminate. }
    destruct (a_readline p1) as [a2 [p2 e2]].
    destruct (dec a2) as [l2|x] eqn:D2; cbn [ibind].
    2:{ intro H. inversion H; subst. rewrite (dec_err decode _ _ D2). discriminate. }
    destruct (a_readline p2) as [a3 [p3 e3]].
    destruct (dec a3) as [l3|x] eqn:D3; cbn [ibind].
    2:{ intro H. inversion H; subst. rewrite (dec_err decode _ _ D3). discriminate. }
    destruct (negb (contains zlib_marker l3)); [intro H; inversion H; discriminate|].
    destruct (fold_lines (fun o l => IOk (v2_step o l)) [] (fst (a_rcl p3 e3)) (snd (a_rcl p3 e3))) as [o|x] eqn:F;
      cbn [ibind]; [discriminate|].
    intro H. inversion H; subst. apply fold_lines_err in F. destruct F as [[o [l F]]|F]; [discriminate|].
    unfold ReaderProofs.a_rcl in F. destruct e3.
    + rewrite (decode_lines_err decode _ _ _ F). discriminate.
    + destruct (dstep dinit p3) as [st out]. destruct (derr st).
      * cbn in F. inversion F. discriminate.
      * rewrite (decode_lines_err decode _ _ _ F). discriminate.
Qed.

(* the loops of the model (readline, readlines, read_compressed_chunks/lines) never run out of
   the fuel they are given: load terminates under every chunking *)
Theorem load_terminates cs base : load cs base <> IRaise OutOfFuelErr.
Proof.
  destruct (load_chunked cs base) as [H|[_ [e [H [E|E]]]]]; rewrite H.
  - destruct (load_spec (live cs) base) eqn:S; [discriminate|].
    intro C. inversion C; subst. exact (load_spec_err _ _ _ S eq_refl).
  - subst. discriminate.
  - subst. discriminate.
Qed.

End LoadFacts.
