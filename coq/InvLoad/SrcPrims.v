(* C18 round 3: the primitives that the source translator (gen/c18_src.py) maps Python
   operations to - the DOMAIN MAPPING, trusted and kept small.  Each is an executable definition
   with Python's semantics for the argument range the translator allows:
     b.find(c)                 -> zfind c b            (index as a Python int, -1 if absent)
     b[:z], b[z:]              -> zslice_to / zslice_from   (Python slice semantics, negative indices too)
     self.attr = v             -> set_stream / set_buffer / set_eof
     yield v; rest             -> gcons v rest         (generator = items yielded, then optional exception)
     x == y on str/bytes       -> str_eqb
     d.get(k, {}) / k in d / d.setdefault(k, {}) / d[k] = v / d[k1][k2] = v  -> Load.al_* operations
   Executable definitions only; the lemmas relating them to the model's operations are in SrcProofs.v. *)
From Coq Require Import List NArith ZArith Bool.
From MV Require Import Base.PyStr InvLoad.Basics InvLoad.Reader.
Import ListNotations.

Definition set_stream (r : reader) (s : list bytes) : reader :=
  {| stream := s; buffer := buffer r; eof := eof r |}.
Definition set_eof (r : reader) (e : bool) : reader :=
  {| stream := stream r; buffer := buffer r; eof := e |}.

(* b.find(bytes([c])) *)
Definition zfind (c : N) (b : list N) : Z :=
  match find_char c b with
  | Some n => Z.of_nat n
  | None => (-1)%Z
  end.

(* Python index normalisation for slices: negative counts from the end, clamped to [0, len] *)
Definition znorm (len : nat) (z : Z) : nat :=
  if (z <? 0)%Z then Z.to_nat (Z.max 0 (Z.of_nat len + z)) else Nat.min len (Z.to_nat z).

Definition zslice_to {A} (l : list A) (z : Z) : list A := firstn (znorm (length l) z) l.    (* l[:z] *)
Definition zslice_from {A} (l : list A) (z : Z) : list A := skipn (znorm (length l) z) l.   (* l[z:] *)

(* a generator: the items it yields, then possibly an exception *)
Definition gcons {A} (x : A) (q : list A * option iexn) : list A * option iexn := (x :: fst q, snd q).

Definition is_none {A} (o : option A) : bool := match o with None => true | Some _ => false end.
