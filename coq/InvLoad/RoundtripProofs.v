(* C18: from_sphinx (to_sphinx inv) = inv for well-formed inventories, and why each
   well-formedness condition is needed. *)
From Coq Require Import List NArith Bool Lia.
From MV Require Import Base.PyStr Inv.WildModel InvLoad.Basics InvLoad.PyText InvLoad.Load
  InvLoad.DictProofs InvLoad.TextProofs.
Import ListNotations.
Open Scope N_scope.

(* ---------------- well-formed native inventories ---------------- *)

Definition wf_entries (es : list (str * item)) : Prop :=
  es <> [] /\ NoDup (keys es) /\
  Forall (fun '(n, it) => it_text it <> Some [] /\ it_text it <> Some s_dash) es.

Definition wf_types (ts : list (str * list (str * item))) : Prop :=
  ts <> [] /\ NoDup (keys ts) /\ Forall (fun '(t, es) => wf_entries es) ts.

Definition wf_objs (objs : objs_t) : Prop :=
  NoDup (keys objs) /\ Forall (fun '(d, ts) => ~ In c_colon d /\ wf_types ts) objs.

(* base_url None; at least one entry; no empty domain / type table; dict keys unique (what a
   Python dict guarantees); no ':' in domain names; display text neither "" nor "-" *)
Definition wf_inv (inv : inventory) : Prop :=
  inv_base inv = None /\ inv_objects inv <> [] /\ wf_objs (inv_objects inv).

(* ---------------- to_sphinx flattens ---------------- *)

Definition conv (name ver : str) (it : item) : sitem :=
  (name, ver, it_loc it, text_or_dash (it_text it)).
Definition flat_entries (name ver : str) (es : list (str * item)) : list (str * sitem) :=
  map (fun '(n, it) => (n, conv name ver it)) es.
Definition flat_types (name ver d : str) (ts : list (str * list (str * item))) : sinv_t :=
  map (fun '(t, es) => (d ++ [c_colon] ++ t, flat_entries name ver es)) ts.
Definition flat (name ver : str) (objs : objs_t) : sinv_t :=
  flat_map (fun '(d, ts) => flat_types name ver d ts) objs.

Definition ins_entries (name ver k : str) (es : list (str * item)) (acc : sinv_t) : sinv_t :=
  fold_left (fun acc '(refname, it) =>
               sinv_insert k refname (name, ver, it_loc it, text_or_dash (it_text it)) acc) es acc.
Definition ins_types (name ver d : str) (ts : list (str * list (str * item))) (acc : sinv_t) : sinv_t :=
  fold_left (fun acc '(objtype, refs) => ins_entries name ver (d ++ [c_colon] ++ objtype) refs acc) ts acc.
Definition ins_domains (name ver : str) (objs : objs_t) (acc : sinv_t) : sinv_t :=
  fold_left (fun acc '(domain, types) => ins_types name ver domain types acc) objs acc.

Lemma to_sphinx_unfold inv :
  to_sphinx inv = ins_domains (inv_name inv) (inv_version inv) (inv_objects inv) [].
Proof. reflexivity. Qed.

Lemma ins_entries_cons name ver k n it es acc :
  ins_entries name ver k ((n, it) :: es) acc =
  ins_entries name ver k es (sinv_insert k n (name, ver, it_loc it, text_or_dash (it_text it)) acc).
Proof. reflexivity. Qed.

Lemma ins_types_cons name ver d t es ts acc :
  ins_types name ver d ((t, es) :: ts) acc =
  ins_types name ver d ts (ins_entries name ver (d ++ [c_colon] ++ t) es acc).
Proof. reflexivity. Qed.

Lemma ins_domains_cons name ver d ts objs acc :
  ins_domains name ver ((d, ts) :: objs) acc = ins_domains name ver objs (ins_types name ver d ts acc).
Proof. reflexivity. Qed.

Lemma keys_cons {V} k (v : V) l : keys ((k, v) :: l) = k :: keys l.
Proof. reflexivity. Qed.

Lemma sinv_insert_last k n v m acc : al_mem k acc = false -> al_mem n m = false ->
  sinv_insert k n v (acc ++ [(k, m)]) = acc ++ [(k, m ++ [(n, v)])].
Proof.
  intros FK FN. unfold sinv_insert. rewrite al_setdefault_present by apply al_mem_last.
  rewrite al_update_last by exact FK. rewrite al_set_fresh by exact FN. reflexivity.
Qed.

Lemma sinv_insert_fresh k n v acc : al_mem k acc = false ->
  sinv_insert k n v acc = acc ++ [(k, [(n, v)])].
Proof.
  intro FK. unfold sinv_insert. rewrite al_setdefault_fresh by exact FK.
  rewrite al_update_last by exact FK. reflexivity.
Qed.

Lemma ins_entries_last name ver k : forall es m acc,
  NoDup (keys es) -> (forall n, In n (keys es) -> al_mem n m = false) -> al_mem k acc = false ->
  ins_entries name ver k es (acc ++ [(k, m)]) = acc ++ [(k, m ++ flat_entries name ver es)].
Proof.
  induction es as [|[n it] es IH]; intros m acc ND FR FK.
  - cbn. rewrite app_nil_r. reflexivity.
  - rewrite ins_entries_cons.
    rewrite sinv_insert_last; [| exact FK | apply FR; left; reflexivity].
    rewrite keys_cons in ND. inversion ND as [|? ? NI ND']; subst.
    rewrite IH; [| exact ND' | | exact FK].
    + cbn [flat_entries map]. rewrite <- app_assoc. reflexivity.
    + intros n' Hn'. rewrite al_mem_app. rewrite (FR n') by (right; exact Hn').
      unfold al_mem. cbn [al_get]. destruct (str_eqb n' n) eqn:E; [|reflexivity].
      apply str_eqb_eq in E. subst. contradiction.
Qed.

Lemma ins_entries_fresh name ver k es acc : es <> [] -> NoDup (keys es) -> al_mem k acc = false ->
  ins_entries name ver k es acc = acc ++ [(k, flat_entries name ver es)].
Proof.
  intros NE ND FK. destruct es as [|[n it] es]; [contradiction|].
  rewrite ins_entries_cons.
  rewrite sinv_insert_fresh by exact FK.
  rewrite keys_cons in ND. inversion ND as [|? ? NI ND']; subst.
  rewrite ins_entries_last; [reflexivity | exact ND' | | exact FK].
  intros n' Hn'. unfold al_mem. cbn [al_get]. destruct (str_eqb n' n) eqn:E; [|reflexivity].
  apply str_eqb_eq in E. subst. contradiction.
Qed.

Lemma key_inj_t (d t t' : str) : d ++ [c_colon] ++ t = d ++ [c_colon] ++ t' -> t = t'.
Proof. intro H. apply app_inv_head in H. inversion H. reflexivity. Qed.

Lemma ins_types_fresh name ver d : forall ts acc,
  NoDup (keys ts) -> Forall (fun '(t, es) => wf_entries es) ts ->
  (forall t, In t (keys ts) -> al_mem (d ++ [c_colon] ++ t) acc = false) ->
  ins_types name ver d ts acc = acc ++ flat_types name ver d ts.
Proof.
  induction ts as [|[t es] ts IH]; intros acc ND WF FR.
  - cbn. rewrite app_nil_r. reflexivity.
  - rewrite ins_types_cons.
    inversion WF as [|? ? W1 WF']; subst. cbn beta iota in W1. destruct W1 as [NE [NDe _]].
    rewrite keys_cons in ND. inversion ND as [|? ? NI ND']; subst.
    rewrite ins_entries_fresh; [| exact NE | exact NDe | apply FR; left; reflexivity].
    rewrite IH; [| exact ND' | exact WF' |].
    + cbn [flat_types map]. rewrite <- app_assoc. reflexivity.
    + intros t' Ht'. rewrite al_mem_app. rewrite (FR t') by (right; exact Ht').
      unfold al_mem. cbn [al_get]. destruct (str_eqb (d ++ [c_colon] ++ t') (d ++ [c_colon] ++ t)) eqn:E; [|reflexivity].
      apply str_eqb_eq in E. apply key_inj_t in E. subst. contradiction.
Qed.

Lemma keys_flat_types name ver d ts :
  keys (flat_types name ver d ts) = map (fun t => d ++ [c_colon] ++ t) (keys ts).
Proof. unfold keys, flat_types. rewrite !map_map. apply map_ext. intros [t es]. reflexivity. Qed.

Lemma flat_types_mem name ver d ts d' t' : ~ In c_colon d -> ~ In c_colon d' -> d' <> d ->
  al_mem (d' ++ [c_colon] ++ t') (flat_types name ver d ts) = false.
Proof.
  intros H H' NE. apply al_mem_false. rewrite keys_flat_types. intro C.
  apply in_map_iff in C. destruct C as [t [E _]].
  destruct (split_key_inj c_colon d t d' t' H H' E) as [E1 _]. congruence.
Qed.

Lemma ins_domains_fresh name ver : forall objs acc, wf_objs objs ->
  (forall d ts t, In (d, ts) objs -> al_mem (d ++ [c_colon] ++ t) acc = false) ->
  ins_domains name ver objs acc = acc ++ flat name ver objs.
Proof.
  induction objs as [|[d ts] objs IH]; intros acc [ND WF] FR.
  - cbn. rewrite app_nil_r. reflexivity.
  - rewrite ins_domains_cons.
    inversion WF as [|? ? W1 WF']; subst. cbn beta iota in W1. destruct W1 as [HC [NEt [NDt WFt]]].
    rewrite keys_cons in ND. inversion ND as [|? ? NI ND']; subst.
    rewrite ins_types_fresh; [| exact NDt | exact WFt | intros t _; apply (FR d ts t); left; reflexivity].
    rewrite IH; [| split; assumption |].
    + cbn [flat flat_map]. rewrite <- app_assoc. reflexivity.
    + intros d' ts' t' Hin. rewrite al_mem_app.
      rewrite (FR d' ts' t') by (right; exact Hin). cbn [orb].
      apply flat_types_mem; [exact HC | | ].
      * rewrite Forall_forall in WF'. apply (WF' (d', ts') Hin).
      * intro E. subst. apply NI. unfold keys. apply in_map_iff. exists (d, ts'). auto.
Qed.

Lemma to_sphinx_flat inv : wf_objs (inv_objects inv) ->
  to_sphinx inv = flat (inv_name inv) (inv_version inv) (inv_objects inv).
Proof.
  intro W. rewrite to_sphinx_unfold. rewrite ins_domains_fresh; [reflexivity | exact W |].
  intros. reflexivity.
Qed.

(* ---------------- from_sphinx rebuilds ---------------- *)

Lemma split_at_app c d t : ~ In c d -> split_at c (d ++ c :: t) = (d, t).
Proof.
  induction d as [|x d IH]; intro H; cbn [app split_at].
  - rewrite N.eqb_refl. reflexivity.
  - destruct (x =? c) eqn:E.
    + apply N.eqb_eq in E. subst. exfalso. apply H. left. reflexivity.
    + rewrite IH; [reflexivity|]. intro C. apply H. right. exact C.
Qed.

Lemma norm_text_or_dash t : t <> Some [] -> t <> Some s_dash -> norm_text (text_or_dash t) = t.
Proof.
  intros H1 H2. destruct t as [x|]; [|reflexivity]. cbn [text_or_dash].
  destruct x as [|c x]; [contradiction|]. cbn [is_nil]. unfold norm_text. cbn [is_nil orb].
  destruct (str_eqb (c :: x) s_dash) eqn:E; [|reflexivity].
  apply str_eqb_eq in E. rewrite E in H2. contradiction.
Qed.

Definition put_entries (d t : str) (data : list (str * sitem)) (st : from_sphinx_state)
  : from_sphinx_state :=
  fold_left (fun '(p, v, objs) '(refname, (project, version, uri, text)) =>
               (project, version,
                al_update d
                  (fun dm => al_update t
                     (fun tm => al_set refname {| it_loc := uri; it_text := norm_text text |} tm) dm)
                  objs))
            data st.

Lemma put_entries_cons d t n pr ve u tx data p v objs :
  put_entries d t ((n, (pr, ve, u, tx)) :: data) (p, v, objs) =
  put_entries d t data
    (pr, ve, al_update d
               (fun dm => al_update t
                  (fun tm => al_set n {| it_loc := u; it_text := norm_text tx |} tm) dm) objs).
Proof. reflexivity. Qed.

Lemma from_key_unfold d t data p v objs : ~ In c_colon d ->
  from_sphinx_key (p, v, objs) (d ++ [c_colon] ++ t, data) =
  put_entries d t data
    (p, v, al_update d (fun dm => al_setdefault t [] dm) (al_setdefault d [] objs)).
Proof.
  intro H. unfold from_sphinx_key.
  assert (M : mem_N c_colon (d ++ [c_colon] ++ t) = true).
  { apply mem_N_In. apply in_or_app. right. left. reflexivity. }
  rewrite M. cbn [negb]. change (d ++ [c_colon] ++ t) with (d ++ c_colon :: t).
  rewrite (split_at_app c_colon d t H). reflexivity.
Qed.

Definition pv_after {A} (l : list A) (name ver : str) (pv : str * str) : str * str :=
  match l with [] => pv | _ => (name, ver) end.

Lemma put_entries_spec name ver d t : forall es m dm O p v,
  al_mem d O = false -> al_mem t dm = false -> NoDup (keys es) ->
  (forall n, In n (keys es) -> al_mem n m = false) ->
  Forall (fun '(n, it) => it_text it <> Some [] /\ it_text it <> Some s_dash) es ->
  put_entries d t (flat_entries name ver es) (p, v, O ++ [(d, dm ++ [(t, m)])]) =
  (fst (pv_after es name ver (p, v)), snd (pv_after es name ver (p, v)),
   O ++ [(d, dm ++ [(t, m ++ es)])]).
Proof.
  induction es as [|[n it] es IH]; intros m dm O p v FD FT ND FR TX.
  - cbn. rewrite app_nil_r. reflexivity.
  - cbn [flat_entries map]. fold (flat_entries name ver es). unfold conv at 1.
    rewrite put_entries_cons.
    rewrite al_update_last by exact FD. rewrite al_update_last by exact FT.
    rewrite al_set_fresh by (apply FR; left; reflexivity).
    inversion TX as [|? ? T1 TX']; subst. cbn beta iota in T1. destruct T1 as [T1 T2].
    rewrite (norm_text_or_dash _ T1 T2).
    rewrite keys_cons in ND. inversion ND as [|? ? NI ND']; subst.
    replace {| it_loc := it_loc it; it_text := it_text it |} with it by (destruct it; reflexivity).
    rewrite IH; [| exact FD | exact FT | exact ND' | | exact TX'].
    + cbn [pv_after fst snd]. rewrite <- app_assoc. cbn [app].
      destruct es; reflexivity.
    + intros n' Hn'. rewrite al_mem_app. rewrite (FR n') by (right; exact Hn').
      unfold al_mem. cbn [al_get]. destruct (str_eqb n' n) eqn:E; [|reflexivity].
      apply str_eqb_eq in E. subst. contradiction.
Qed.

Lemma from_types name ver d : ~ In c_colon d -> forall ts dm O p v,
  al_mem d O = false -> NoDup (keys ts) -> (forall t, In t (keys ts) -> al_mem t dm = false) ->
  Forall (fun '(t, es) => wf_entries es) ts ->
  fold_left from_sphinx_key (flat_types name ver d ts) (p, v, O ++ [(d, dm)]) =
  (fst (pv_after ts name ver (p, v)), snd (pv_after ts name ver (p, v)), O ++ [(d, dm ++ ts)]).
Proof.
  intros HC. induction ts as [|[t es] ts IH]; intros dm O p v FD ND FR WF.
  - cbn. rewrite app_nil_r. reflexivity.
  - cbn [flat_types map fold_left]. fold (flat_types name ver d ts).
    rewrite (from_key_unfold d t _ p v _ HC).
    rewrite al_setdefault_present by apply al_mem_last.
    rewrite al_update_last by exact FD.
    rewrite al_setdefault_fresh by (apply FR; left; reflexivity).
    inversion WF as [|? ? W1 WF']; subst. cbn beta iota in W1. destruct W1 as [NE [NDe TX]].
    rewrite keys_cons in ND. inversion ND as [|? ? NI ND']; subst.
    rewrite (put_entries_spec name ver d t es [] dm O p v FD); [| apply FR; left; reflexivity | exact NDe | reflexivity | exact TX].
    cbn [app]. destruct es as [|e es]; [contradiction|]. cbn [pv_after fst snd].
    rewrite IH; [| exact FD | exact ND' | | exact WF'].
    + rewrite <- app_assoc. cbn [app]. destruct ts; reflexivity.
    + intros t' Ht'. rewrite al_mem_app. rewrite (FR t') by (right; exact Ht').
      unfold al_mem. cbn [al_get]. destruct (str_eqb t' t) eqn:E; [|reflexivity].
      apply str_eqb_eq in E. subst. contradiction.
Qed.

Lemma from_key_new_domain d t data p v O : ~ In c_colon d -> al_mem d O = false ->
  from_sphinx_key (p, v, O) (d ++ [c_colon] ++ t, data) =
  from_sphinx_key (p, v, O ++ [(d, [])]) (d ++ [c_colon] ++ t, data).
Proof.
  intros HC FD. rewrite !from_key_unfold by exact HC.
  rewrite al_setdefault_fresh by exact FD.
  rewrite al_setdefault_present by apply al_mem_last. reflexivity.
Qed.

Lemma from_domains name ver : forall objs O p v, wf_objs objs ->
  (forall d, In d (keys objs) -> al_mem d O = false) ->
  fold_left from_sphinx_key (flat name ver objs) (p, v, O) =
  (fst (pv_after objs name ver (p, v)), snd (pv_after objs name ver (p, v)), O ++ objs).
Proof.
  induction objs as [|[d ts] objs IH]; intros O p v [ND WF] FR.
  - cbn. rewrite app_nil_r. reflexivity.
  - cbn [flat flat_map]. fold (flat name ver objs). rewrite fold_left_app.
    inversion WF as [|? ? W1 WF']; subst. cbn beta iota in W1. destruct W1 as [HC [NEt [NDt WFt]]].
    rewrite keys_cons in ND. inversion ND as [|? ? NI ND']; subst.
    assert (FD : al_mem d O = false) by (apply FR; left; reflexivity).
    assert (T : fold_left from_sphinx_key (flat_types name ver d ts) (p, v, O) =
                (name, ver, O ++ [(d, ts)])).
    { destruct ts as [|[t es] ts]; [contradiction|].
      transitivity (fold_left from_sphinx_key (flat_types name ver d ((t, es) :: ts)) (p, v, O ++ [(d, [])])).
      - cbn [flat_types map fold_left]. rewrite (from_key_new_domain d t _ p v O HC FD). reflexivity.
      - apply (from_types name ver d HC ((t, es) :: ts) [] O p v FD NDt); [reflexivity | exact WFt]. }
    rewrite T. rewrite IH; [| split; assumption |].
    + cbn [pv_after fst snd]. rewrite <- app_assoc. cbn [app]. destruct objs; reflexivity.
    + intros d' Hd'. rewrite al_mem_app. rewrite (FR d') by (right; exact Hd').
      unfold al_mem. cbn [al_get]. destruct (str_eqb d' d) eqn:E; [|reflexivity].
      apply str_eqb_eq in E. subst. contradiction.
Qed.

(* C18_sphinx_roundtrip *)
Theorem sphinx_roundtrip inv : wf_inv inv -> from_sphinx (to_sphinx inv) = inv.
Proof.
  intros [HB [NE W]]. rewrite (to_sphinx_flat inv W). unfold from_sphinx.
  assert (Q := from_domains (inv_name inv) (inv_version inv) (inv_objects inv) [] [] [] W
                 (fun d _ => eq_refl)).
  match goal with
  | |- context [fold_left from_sphinx_key ?l ?s] =>
      replace (fold_left from_sphinx_key l s)
        with (fst (pv_after (inv_objects inv) (inv_name inv) (inv_version inv) ([], [])),
              snd (pv_after (inv_objects inv) (inv_name inv) (inv_version inv) ([], [])),
              [] ++ inv_objects inv) by (symmetry; apply Q)
  end.
  destruct inv as [name ver base objs]. cbn in *. subst base.
  destruct objs; [contradiction|]. reflexivity.
Qed.

(* ---------------- each condition of wf_inv is needed ---------------- *)

Definition ex_item (t : option str) : item := {| it_loc := [108]; it_text := t |}.
Definition ex_inv (base : option str) (objs : objs_t) : inventory :=
  {| inv_name := [112]; inv_version := [49]; inv_base := base; inv_objects := objs |}.

Definition w_no_entries := ex_inv None [].
Definition w_empty_domain := ex_inv None [([112; 121], [([120], [([110], ex_item None)])]); ([100], [])].
Definition w_empty_type := ex_inv None [([112; 121], [([120], [([110], ex_item None)]); ([121], [])])].
Definition w_base_url := ex_inv (Some [104]) [([112; 121], [([120], [([110], ex_item None)])])].
Definition w_empty_text := ex_inv None [([112; 121], [([120], [([110], ex_item (Some []))])])].
Definition w_dash_text := ex_inv None [([112; 121], [([120], [([110], ex_item (Some s_dash))])])].
Definition w_colon_domain := ex_inv None [([97; 58; 98], [([120], [([110], ex_item None)])])].

Theorem roundtrip_conditions_needed :
  from_sphinx (to_sphinx w_no_entries) <> w_no_entries /\
  from_sphinx (to_sphinx w_empty_domain) <> w_empty_domain /\
  from_sphinx (to_sphinx w_empty_type) <> w_empty_type /\
  from_sphinx (to_sphinx w_base_url) <> w_base_url /\
  from_sphinx (to_sphinx w_empty_text) <> w_empty_text /\
  from_sphinx (to_sphinx w_dash_text) <> w_dash_text /\
  from_sphinx (to_sphinx w_colon_domain) <> w_colon_domain.
Proof. repeat split; intro H; vm_compute in H; discriminate. Qed.

Example roundtrip_example :
  wf_inv (ex_inv None [([112; 121], [([120], [([110], ex_item None); ([111], ex_item (Some [84]))])]);
                       ([115], [([97; 58; 98], [([110], ex_item None)])])]).
Proof.
  unfold wf_inv, wf_objs, wf_types, wf_entries. cbn.
  repeat (split || constructor || discriminate || (intros [H|H]; try discriminate; try contradiction)
          || (intro H; inversion H; fail)); try tauto.
  all: try (intros [H|[H|H]]; try discriminate; try contradiction).
  all: repeat match goal with H : In _ _ |- _ => destruct H as [H|H]; try discriminate end; try contradiction.
Qed.
