(* C18: an executable instance of the zlib oracle, used by the extracted model runner and
   as the non-vacuity witness of the O_zlib hypotheses.

   The harness measures the real zlib.decompressobj() on the compressed stream Z one byte at
   a time and passes the table  [(Z[k], Some (bytes emitted when byte k is fed) | None (zlib.error))].
   The table decompressor replays it: feeding a chunk emits the concatenation of the entries it
   covers; feeding a byte that is not the next byte of Z (the model would be asking about a
   stream the harness did not measure) is reported as an error as well.
   Executable definitions only. *)
From Coq Require Import List NArith Bool.
From MV Require Import Base.PyStr Inv.WildModel Gen.Inventory InvLoad.Regex InvLoad.Basics InvLoad.PyText
  InvLoad.Reader InvLoad.Load InvLoad.SphinxInv.
Import ListNotations.
Open Scope N_scope.

Definition ztable : Type := list (N * option bytes).

Record tstate : Type := { t_rest : ztable; t_bad : bool }.

Definition tinit (tab : ztable) : tstate := {| t_rest := tab; t_bad := false |}.

Definition tstep1 (st : tstate) (c : N) : tstate * bytes :=
  if t_bad st then (st, [])
  else match t_rest st with
       | [] => ({| t_rest := []; t_bad := true |}, [])
       | (c', o) :: rest =>
           if c =? c' then
             match o with
             | Some out => ({| t_rest := rest; t_bad := false |}, out)
             | None => ({| t_rest := rest; t_bad := true |}, [])
             end
           else ({| t_rest := rest; t_bad := true |}, [])
       end.

Fixpoint tstep (st : tstate) (a : bytes) : tstate * bytes :=
  match a with
  | [] => (st, [])
  | c :: a' => let (st1, o1) := tstep1 st c in
               let (st2, o2) := tstep st1 a' in (st2, o1 ++ o2)
  end.

Definition tflush (st : tstate) : bytes := [].
Definition terr (st : tstate) : bool := t_bad st.

(* re.match(<v2 line pattern>, s).groups() by the regex engine on the regenerated AST *)
Definition match_line_exec (s : str) : option (str * str * str * str * str) :=
  re_match5 re_tables v2_ast s.

Definition load_exec (tab : ztable) (chunks : list bytes) (base_url : option str) : ires inventory :=
  load tstate (tinit tab) tstep tflush terr utf8_decode match_line_exec chunks base_url.

(* zlib.decompress for Sphinx's loader: the harness passes the one stream it measured *)
Definition dz_exec (z : bytes) (result : option bytes) (x : bytes) : option bytes :=
  if bytes_eqb x z then result else None.

Definition sphinx_exec (z : bytes) (result : option bytes) (content : bytes) (uri : str) : ires sinv_t :=
  sphinx_loads (dz_exec z result) utf8_decode match_line_exec content uri.
