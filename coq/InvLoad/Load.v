(* C18: model of myst_parser/inventory.py load / _load_v1 / _load_v2 / from_sphinx /
   to_sphinx (as repaired: py:module duplicates keep the first entry).
   Python dicts are association lists in insertion order: assigning to an existing key keeps
   its position, a new key is appended.
   [match_line] is re.match(<the v2 line pattern>, s).groups() as an abstract function.
   Executable definitions only; proofs are in LoadProofs.v / AgreeProofs.v / RoundtripProofs.v. *)
From Coq Require Import List NArith Bool.
From MV Require Import Base.PyStr Inv.WildModel Gen.Inventory InvLoad.Basics InvLoad.PyText InvLoad.Reader.
Import ListNotations.
Open Scope N_scope.

(* ---------------- dict operations ---------------- *)

Fixpoint al_get {V} (k : str) (l : list (str * V)) : option V :=
  match l with
  | [] => None
  | (k', v) :: l' => if str_eqb k k' then Some v else al_get k l'
  end.

Definition al_mem {V} (k : str) (l : list (str * V)) : bool :=
  match al_get k l with Some _ => true | None => false end.

(* d[k] = v *)
Fixpoint al_set {V} (k : str) (v : V) (l : list (str * V)) : list (str * V) :=
  match l with
  | [] => [(k, v)]
  | (k', v') :: l' => if str_eqb k k' then (k', v) :: l' else (k', v') :: al_set k v l'
  end.

(* d.setdefault(k, v) (the dict afterwards) *)
Definition al_setdefault {V} (k : str) (v : V) (l : list (str * V)) : list (str * V) :=
  if al_mem k l then l else l ++ [(k, v)].

(* d[k] = f(d[k]) for a key that is present (absent: unchanged) *)
Fixpoint al_update {V} (k : str) (f : V -> V) (l : list (str * V)) : list (str * V) :=
  match l with
  | [] => []
  | (k', v') :: l' => if str_eqb k k' then (k', f v') :: l' else (k', v') :: al_update k f l'
  end.

(* d.get(k, {}) *)
Definition al_get_or_empty {V} (k : str) (l : list (str * list V)) : list V :=
  match al_get k l with Some v => v | None => [] end.

(* objects.setdefault(domain, {}).setdefault(objtype, {});  objects[domain][objtype][name] = it *)
Definition objs_insert (domain objtype name : str) (it : item) (objs : objs_t) : objs_t :=
  let objs1 := al_setdefault domain [] objs in
  al_update domain
    (fun dm => al_update objtype (fun tm => al_set name it tm) (al_setdefault objtype [] dm))
    objs1.

Definition objs_lookup (objs : objs_t) (domain objtype name : str) : option item :=
  match al_get domain objs with
  | None => None
  | Some dm => match al_get objtype dm with
               | None => None
               | Some tm => al_get name tm
               end
  end.

(* ---------------- string constants of the loaders ---------------- *)

Definition s_py : str := [112; 121].                                   (* "py" *)
Definition s_mod : str := [109; 111; 100].                             (* "mod" *)
Definition s_module : str := [109; 111; 100; 117; 108; 101].           (* "module" *)
Definition s_py_module : str := s_py ++ [58] ++ s_module.              (* "py:module" *)
Definition s_hash_module : str := [35; 109; 111; 100; 117; 108; 101; 45].   (* "#module-" *)
Definition s_hash : str := [35].                                       (* "#" *)
Definition s_dollar : str := [36].                                     (* "$" *)
Definition s_dash : str := [45].                                       (* "-" *)
Definition c_colon : N := 58.

Section Load.

Variable dstate : Type.
Variable dinit : dstate.
Variable dstep : dstate -> bytes -> dstate * bytes.
Variable dflush : dstate -> bytes.
Variable derr : dstate -> bool.
Variable decode : bytes -> option str.
Variable match_line : str -> option (str * str * str * str * str).

Notation readline := (readline decode).
Notation readlines := (readlines decode).
Notation read_compressed_lines := (read_compressed_lines dstate dinit dstep dflush derr decode).

(* ---------------- _load_v1 ---------------- *)

(* the body of the for loop: name, objtype, location = line.rstrip().split(None, 2) ... *)
Definition v1_step (objs : objs_t) (line : str) : ires objs_t :=
  match split_ws 2 (rstrip line) with
  | [name; objtype; location] =>
      if str_eqb objtype s_mod then
        IOk (objs_insert s_py s_module name
               {| it_loc := location ++ s_hash_module ++ name; it_text := None |} objs)
      else
        IOk (objs_insert s_py objtype name
               {| it_loc := location ++ s_hash ++ name; it_text := None |} objs)
  | _ => IRaise ValueErr
  end.

(* for line in <generator>: body.  An exception in the body or in the generator ends it. *)
Fixpoint fold_lines (step : objs_t -> str -> ires objs_t) (objs : objs_t)
         (lines : list str) (gen_exc : option iexn) : ires objs_t :=
  match lines with
  | [] => match gen_exc with Some e => IRaise e | None => IOk objs end
  | l :: ls => dob objs' <- step objs l; fold_lines step objs' ls gen_exc
  end.

Definition mk_inv (name version : str) (base : option str) (objs : objs_t) : inventory :=
  {| inv_name := name; inv_version := version; inv_base := base; inv_objects := objs |}.

Definition load_v1 (r : reader) (base_url : option str) : ires inventory :=
  dob (l1, r1) <- readline r;
  let projname := skipn v1_name_off (rstrip l1) in
  dob (l2, r2) <- readline r1;
  let version := skipn v1_version_off (rstrip l2) in
  let q := readlines r2 in
  dob objs <- fold_lines v1_step [] (fst q) (snd q);
  IOk (mk_inv projname version base_url objs).

(* ---------------- _load_v2 ---------------- *)

Definition v2_step (objs : objs_t) (line : str) : objs_t :=
  match match_line (rstrip line) with
  | None => objs
  | Some (name, type, _, location, text) =>
      if negb (mem_N c_colon type) then objs
      else if str_eqb type s_py_module
              && al_mem s_module (al_get_or_empty s_py objs)
              && al_mem name (al_get_or_empty s_module (al_get_or_empty s_py objs))
      then objs
      else
        let location := if endswith location s_dollar
                        then removelast location ++ name else location in
        let (domain, objtype) := split_at c_colon type in
        let text' := if is_nil text || str_eqb text s_dash then None else Some text in
        objs_insert domain objtype name {| it_loc := location; it_text := text' |} objs
  end.

Definition load_v2 (r : reader) (base_url : option str) : ires inventory :=
  dob (l1, r1) <- readline r;
  let projname := skipn v2_name_off (rstrip l1) in
  dob (l2, r2) <- readline r1;
  let version := skipn v2_version_off (rstrip l2) in
  dob (l3, r3) <- readline r2;
  if negb (contains zlib_marker l3) then IRaise ValueErr
  else
    let q := read_compressed_lines r3 in
    dob objs <- fold_lines (fun o l => IOk (v2_step o l)) [] (fst q) (snd q);
    IOk (mk_inv projname version base_url objs).

(* ---------------- load ---------------- *)

Definition load (chunks : list bytes) (base_url : option str) : ires inventory :=
  let r := new_reader chunks in
  dob (l0, r0) <- readline r;
  let line := rstrip l0 in
  if str_eqb line hdr_v1 then load_v1 r0 base_url
  else if str_eqb line hdr_v2 then load_v2 r0 base_url
  else IRaise ValueErr.

End Load.

(* ---------------- Sphinx in-memory format ---------------- *)

(* "domain:type" -> name -> (project, version, uri, display name) *)
Definition sitem : Type := (str * str * str * str)%type.
Definition sinv_t : Type := list (str * list (str * sitem)).

(* objs.setdefault(key, {})[name] = v *)
Definition sinv_insert (key name : str) (v : sitem) (s : sinv_t) : sinv_t :=
  al_update key (fun m => al_set name v m) (al_setdefault key [] s).

Definition sinv_lookup (s : sinv_t) (key name : str) : option sitem :=
  match al_get key s with
  | None => None
  | Some m => al_get name m
  end.

(* refdata["text"] or "-" *)
Definition text_or_dash (t : option str) : str :=
  match t with
  | None => s_dash
  | Some x => if is_nil x then s_dash else x
  end.

(* None if (not text or text == "-") else text *)
Definition norm_text (t : str) : option str :=
  if is_nil t || str_eqb t s_dash then None else Some t.

Definition to_sphinx (inv : inventory) : sinv_t :=
  fold_left (fun acc '(domain, types) =>
    fold_left (fun acc '(objtype, refs) =>
      fold_left (fun acc '(refname, it) =>
        sinv_insert (domain ++ [c_colon] ++ objtype) refname
          (inv_name inv, inv_version inv, it_loc it, text_or_dash (it_text it)) acc)
        refs acc)
      types acc)
    (inv_objects inv) [].

(* state of from_sphinx's loops: (project, version, objs) *)
Definition from_sphinx_state : Type := (str * str * objs_t)%type.

Definition from_sphinx_key (st : from_sphinx_state) (kd : str * list (str * sitem)) : from_sphinx_state :=
  let '(key, data) := kd in
  if negb (mem_N c_colon key) then st
  else
    let (domain, objtype) := split_at c_colon key in
    let '(p, v, objs) := st in
    (* objs.setdefault(domain, {}).setdefault(obj_type, {}) *)
    let objs1 := al_update domain (fun dm => al_setdefault objtype [] dm)
                   (al_setdefault domain [] objs) in
    fold_left (fun '(p, v, objs) '(refname, (project, version, uri, text)) =>
                 (project, version,
                  al_update domain
                    (fun dm => al_update objtype
                       (fun tm => al_set refname {| it_loc := uri; it_text := norm_text text |} tm) dm)
                    objs))
              data (p, v, objs1).

Definition from_sphinx (s : sinv_t) : inventory :=
  let '(p, v, objs) := fold_left from_sphinx_key s ([], [], []) in
  mk_inv p v None objs.
