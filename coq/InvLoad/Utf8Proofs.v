(* C18: the executable UTF-8 decoder of PyText.v has the properties that the theorems assume
   of bytes.decode() (decode_ok). *)
From Coq Require Import List NArith Bool Lia.
From MV Require Import Base.PyStr InvLoad.Basics InvLoad.PyText InvLoad.TextProofs.
Import ListNotations.
Open Scope N_scope.

Lemma cont_ascii c : c < 128 -> cont c = false.
Proof. intro H. unfold cont. apply andb_false_iff. left. apply N.leb_gt. exact H. Qed.

Lemma lo3_ascii b0 c : c < 128 -> ((if b0 =? 224 then 160 else 128) <=? c) = false.
Proof. intro H. apply N.leb_gt. destruct (b0 =? 224); lia. Qed.

Lemma lo4_ascii b0 c : c < 128 -> ((if b0 =? 240 then 144 else 128) <=? c) = false.
Proof. intro H. apply N.leb_gt. destruct (b0 =? 240); lia. Qed.

Lemma utf8_split_aux : forall n a c b, (length a <= n)%nat -> c < 128 ->
  utf8_decode (a ++ c :: b) =
  match utf8_decode a, utf8_decode b with
  | Some x, Some y => Some (x ++ c :: y)
  | _, _ => None
  end.
Proof.
  induction n as [|n IH]; intros a c b Hlen Hc.
  - destruct a; [|simpl in Hlen; lia]. cbn [app utf8_decode].
    apply N.ltb_lt in Hc. rewrite Hc. destruct (utf8_decode b); reflexivity.
  - destruct a as [|b0 r0].
    { cbn [app utf8_decode]. apply N.ltb_lt in Hc. rewrite Hc. destruct (utf8_decode b); reflexivity. }
    cbn [app utf8_decode]. simpl in Hlen.
    destruct (b0 <? 128) eqn:B1.
    { rewrite (IH r0 c b) by (assumption || lia).
      destruct (utf8_decode r0), (utf8_decode b); reflexivity. }
    destruct ((194 <=? b0) && (b0 <=? 223)) eqn:B2.
    { destruct r0 as [|b1 r1]; cbn [app].
      - rewrite (cont_ascii c Hc). reflexivity.
      - destruct (cont b1); [|reflexivity]. simpl in Hlen.
        rewrite (IH r1 c b) by (assumption || lia).
        destruct (utf8_decode r1), (utf8_decode b); reflexivity. }
    destruct ((224 <=? b0) && (b0 <=? 239)) eqn:B3.
    { destruct r0 as [|b1 [|b2 r2]]; cbn [app].
      - destruct b as [|x r]; [reflexivity|]. rewrite (lo3_ascii b0 c Hc). reflexivity.
      - rewrite (cont_ascii c Hc), andb_false_r. reflexivity.
      - destruct (((if b0 =? 224 then 160 else 128) <=? b1) &&
                  (b1 <=? (if b0 =? 237 then 159 else 191)) && cont b2); [|reflexivity].
        simpl in Hlen. rewrite (IH r2 c b) by (assumption || lia).
        destruct (utf8_decode r2), (utf8_decode b); reflexivity. }
    destruct ((240 <=? b0) && (b0 <=? 244)) eqn:B4.
    { destruct r0 as [|b1 [|b2 [|b3 r3]]]; cbn [app].
      - destruct b as [|x [|y r]]; try reflexivity. rewrite (lo4_ascii b0 c Hc). reflexivity.
      - destruct b as [|x r]; [reflexivity|].
        rewrite (cont_ascii c Hc), andb_false_r. reflexivity.
      - rewrite (cont_ascii c Hc), andb_false_r. reflexivity.
      - destruct (((if b0 =? 240 then 144 else 128) <=? b1) &&
                  (b1 <=? (if b0 =? 244 then 143 else 191)) && cont b2 && cont b3); [|reflexivity].
        simpl in Hlen. rewrite (IH r3 c b) by (assumption || lia).
        destruct (utf8_decode r3), (utf8_decode b); reflexivity. }
    reflexivity.
Qed.

Lemma utf8_ascii_in_aux : forall n a x c, (length a <= n)%nat ->
  utf8_decode a = Some x -> c < 128 -> In c x -> In c a.
Proof.
  induction n as [|n IH]; intros a x c Hlen D Hc Hin.
  - destruct a; [|simpl in Hlen; lia]. cbn in D. inversion D; subst. contradiction.
  - destruct a as [|b0 r0]; [cbn in D; inversion D; subst; contradiction|].
    cbn [utf8_decode] in D. simpl in Hlen.
    destruct (b0 <? 128) eqn:B1.
    { destruct (utf8_decode r0) as [y|] eqn:E; [|discriminate]. cbn in D. inversion D; subst.
      destruct Hin as [H|H]; [left; exact H|]. right. apply (IH r0 y c); (assumption || lia). }
    destruct ((194 <=? b0) && (b0 <=? 223)) eqn:B2.
    { destruct r0 as [|b1 r1]; [discriminate|]. destruct (cont b1) eqn:C1; [|discriminate].
      destruct (utf8_decode r1) as [y|] eqn:E; [|discriminate]. cbn in D. inversion D; subst.
      apply andb_true_iff in B2. destruct B2 as [L _]. apply N.leb_le in L.
      destruct Hin as [H|H]; [exfalso; lia|].
      right. right. simpl in Hlen. apply (IH r1 y c); (assumption || lia). }
    destruct ((224 <=? b0) && (b0 <=? 239)) eqn:B3.
    { destruct r0 as [|b1 [|b2 r2]]; try discriminate.
      destruct (((if b0 =? 224 then 160 else 128) <=? b1) &&
                (b1 <=? (if b0 =? 237 then 159 else 191)) && cont b2) eqn:C; [|discriminate].
      destruct (utf8_decode r2) as [y|] eqn:E; [|discriminate]. cbn in D. inversion D; subst.
      apply andb_true_iff in B3. destruct B3 as [L _]. apply N.leb_le in L.
      apply andb_true_iff in C. destruct C as [C _]. apply andb_true_iff in C. destruct C as [C _].
      apply N.leb_le in C.
      destruct Hin as [H|H].
      { exfalso. destruct (b0 =? 224) eqn:Q; [apply N.eqb_eq in Q | apply N.eqb_neq in Q]; lia. }
      right. right. right. simpl in Hlen. apply (IH r2 y c); (assumption || lia). }
    destruct ((240 <=? b0) && (b0 <=? 244)) eqn:B4.
    { destruct r0 as [|b1 [|b2 [|b3 r3]]]; try discriminate.
      destruct (((if b0 =? 240 then 144 else 128) <=? b1) &&
                (b1 <=? (if b0 =? 244 then 143 else 191)) && cont b2 && cont b3) eqn:C; [|discriminate].
      destruct (utf8_decode r3) as [y|] eqn:E; [|discriminate]. cbn in D. inversion D; subst.
      apply andb_true_iff in B4. destruct B4 as [L _]. apply N.leb_le in L.
      apply andb_true_iff in C. destruct C as [C _]. apply andb_true_iff in C. destruct C as [C _].
      apply andb_true_iff in C. destruct C as [C _]. apply N.leb_le in C.
      destruct Hin as [H|H].
      { exfalso. destruct (b0 =? 240) eqn:Q; [apply N.eqb_eq in Q | apply N.eqb_neq in Q]; lia. }
      right. right. right. right. simpl in Hlen. apply (IH r3 y c); (assumption || lia). }
    discriminate.
Qed.

Lemma utf8_nonempty a : utf8_decode a = Some [] -> a = [].
Proof.
  destruct a as [|b0 r0]; [reflexivity|]. cbn [utf8_decode]. intro D. exfalso.
  destruct (b0 <? 128).
  { destruct (utf8_decode r0); cbn in D; discriminate. }
  destruct ((194 <=? b0) && (b0 <=? 223)).
  { destruct r0 as [|b1 r1]; [discriminate|]. destruct (cont b1); [|discriminate].
    destruct (utf8_decode r1); cbn in D; discriminate. }
  destruct ((224 <=? b0) && (b0 <=? 239)).
  { destruct r0 as [|b1 [|b2 r2]]; try discriminate.
    destruct (((if b0 =? 224 then 160 else 128) <=? b1) &&
              (b1 <=? (if b0 =? 237 then 159 else 191)) && cont b2); [|discriminate].
    destruct (utf8_decode r2); cbn in D; discriminate. }
  destruct ((240 <=? b0) && (b0 <=? 244)).
  { destruct r0 as [|b1 [|b2 [|b3 r3]]]; try discriminate.
    destruct (((if b0 =? 240 then 144 else 128) <=? b1) &&
              (b1 <=? (if b0 =? 244 then 143 else 191)) && cont b2 && cont b3); [|discriminate].
    destruct (utf8_decode r3); cbn in D; discriminate. }
  discriminate.
Qed.

Theorem utf8_decode_ok : decode_ok utf8_decode.
Proof.
  repeat split.
  - intros a c b Hc. apply (utf8_split_aux (length a)); [lia | exact Hc].
  - intros a x c D Hc Hin. apply (utf8_ascii_in_aux (length a) a x c); (assumption || lia).
  - exact utf8_nonempty.
Qed.
