(* C18: model of myst_parser/inventory.py InventoryFileReader (as repaired: readline is a
   loop, read_compressed_lines yields an unterminated last line).

   The stream is the list of chunks returned by successive stream.read(_BUFSIZE) calls;
   once the list is exhausted read() returns b"" forever.  A b"" inside the list is what
   the reader takes as end of file, exactly as the code does.

   zlib.decompressobj() is a streaming transducer given by Section variables:
     dinit, dstep st chunk = (st', output), dflush st, derr st' (decompress raised zlib.error)
   bytes.decode() is the Section variable [decode] (None = UnicodeDecodeError).
   Executable definitions only; proofs are in ReaderProofs.v. *)
From Coq Require Import List NArith Bool.
From MV Require Import Base.PyStr InvLoad.Basics.
Import ListNotations.
Open Scope N_scope.

Section Reader.

Variable dstate : Type.
Variable dinit : dstate.
Variable dstep : dstate -> bytes -> dstate * bytes.
Variable dflush : dstate -> bytes.
Variable derr : dstate -> bool.
Variable decode : bytes -> option str.          (* None = UnicodeDecodeError *)

(* b.decode() *)
Definition dec (b : bytes) : ires str :=
  match decode b with Some s => IOk s | None => IRaise UnicodeDecodeErr end.

Record reader : Type := { stream : list bytes; buffer : bytes; eof : bool }.

(* InventoryFileReader.__init__ *)
Definition new_reader (s : list bytes) : reader :=
  {| stream := s; buffer := []; eof := false |}.

Definition set_buffer (r : reader) (b : bytes) : reader :=
  {| stream := stream r; buffer := b; eof := eof r |}.

(* stream.read(_BUFSIZE) *)
Definition stream_read (s : list bytes) : bytes * list bytes :=
  match s with
  | [] => ([], [])
  | c :: s' => (c, s')
  end.

(* read_buffer: chunk = read(); if chunk == b"": eof = True; buffer += chunk *)
Definition read_buffer (r : reader) : reader :=
  let (chunk, s') := stream_read (stream r) in
  {| stream := s';
     buffer := buffer r ++ chunk;
     eof := if is_nil chunk then true else eof r |}.

(* readline, the loop:  while pos == -1 and not eof: read_buffer(); pos = buffer.find("\n") *)
Fixpoint readline_loop (fuel : nat) (r : reader) : ires reader :=
  match find_nl (buffer r) with
  | Some _ => IOk r
  | None =>
      if eof r then IOk r
      else match fuel with
           | O => IRaise OutOfFuelErr
           | S f => readline_loop f (read_buffer r)
           end
  end.

(* every iteration consumes one element of the stream or sets eof *)
Definition readline_fuel (r : reader) : nat := S (length (stream r)).

Definition readline (r : reader) : ires (str * reader) :=
  dob r1 <- readline_loop (readline_fuel r) r;
  match find_nl (buffer r1) with
  | Some pos =>
      dob line <- dec (firstn pos (buffer r1));
      IOk (line, set_buffer r1 (skipn (S pos) (buffer r1)))
  | None =>
      dob line <- dec (buffer r1);
      IOk (line, set_buffer r1 [])
  end.

(* readlines (a generator): while not eof: line = readline(); if line: yield line *)
Fixpoint readlines_loop (fuel : nat) (r : reader) : lseq :=
  if eof r then ([], None)
  else match fuel with
       | O => ([], Some OutOfFuelErr)
       | S f =>
           match readline r with
           | IRaise e => ([], Some e)
           | IOk (line, r') =>
               let q := readlines_loop f r' in
               if is_nil line then q else lseq_cons line q
           end
       end.

(* every iteration removes at least one byte from buffer + stream, or sets eof *)
Definition pending_len (r : reader) : nat :=
  length (buffer r) + length (concat (stream r)).

Definition readlines (r : reader) : lseq := readlines_loop (S (pending_len r)) r.

(* read_compressed_chunks (a generator of byte strings, possibly ending in zlib.error):
     decompressor = zlib.decompressobj()
     while not eof: read_buffer(); yield decompressor.decompress(buffer); buffer = b""
     yield decompressor.flush() *)
Fixpoint rcc_loop (fuel : nat) (r : reader) (st : dstate) : list bytes * option iexn :=
  if eof r then ([dflush st], None)
  else match fuel with
       | O => ([], Some OutOfFuelErr)
       | S f =>
           let r1 := read_buffer r in
           let (st', out) := dstep st (buffer r1) in
           if derr st' then ([], Some ZlibErr)
           else let (cs, e) := rcc_loop f (set_buffer r1 []) st' in (out :: cs, e)
       end.

Definition read_compressed_chunks (r : reader) : list bytes * option iexn :=
  rcc_loop (readline_fuel r) r dinit.

(* the inner loop of read_compressed_lines:
     pos = buf.find("\n"); while pos != -1: yield buf[:pos].decode(); buf = buf[pos+1:]; pos = ...
   returns the lines yielded (or the decode error) and the remaining buf *)
Fixpoint rcl_inner (fuel : nat) (buf : bytes) : lseq * bytes :=
  match find_nl buf with
  | None => (([], None), buf)
  | Some pos =>
      match fuel with
      | O => (([], Some OutOfFuelErr), buf)
      | S f =>
          match dec (firstn pos buf) with
          | IRaise e => (([], Some e), buf)
          | IOk line =>
              let (q, rest) := rcl_inner f (skipn (S pos) buf) in (lseq_cons line q, rest)
          end
      end
  end.

(* read_compressed_lines over the chunk generator [chunks, ce]:
     buf = b""
     for chunk in chunks: buf += chunk; <inner loop>
     if buf: yield buf.decode() *)
Fixpoint rcl_loop (chunks : list bytes) (ce : option iexn) (buf : bytes) : lseq :=
  match chunks with
  | [] =>
      match ce with
      | Some e => ([], Some e)
      | None =>
          if is_nil buf then ([], None)
          else match dec buf with
               | IOk line => ([line], None)
               | IRaise e => ([], Some e)
               end
      end
  | c :: cs =>
      let buf1 := buf ++ c in
      let (q, buf2) := rcl_inner (length buf1) buf1 in
      match snd q with
      | Some e => q
      | None => let q' := rcl_loop cs ce buf2 in (fst q ++ fst q', snd q')
      end
  end.

Definition read_compressed_lines (r : reader) : lseq :=
  let (chunks, ce) := read_compressed_chunks r in rcl_loop chunks ce [].

End Reader.

