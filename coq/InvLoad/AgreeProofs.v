(* C18: MyST's load() and Sphinx's InventoryFile.loads() yield the same entries. *)
From Coq Require Import List NArith Bool Lia.
From MV Require Import Base.PyStr Inv.WildModel InvLoad.Regex Gen.Inventory InvLoad.Basics InvLoad.PyText
  InvLoad.Reader InvLoad.Load InvLoad.SphinxInv InvLoad.ReaderProofs InvLoad.LoadProofs
  InvLoad.DictProofs InvLoad.TextProofs.
Import ListNotations.
Open Scope N_scope.

(* both loaders use the same line pattern literal (regenerated from both sources) *)
Lemma regex_same_holds : regex_same = true.
Proof. vm_compute. reflexivity. Qed.

(* and the same header literals and slice offsets *)
Lemma headers_same :
  hdr_v1 = sphinx_hdr_v1 /\ hdr_v2 = sphinx_hdr_v2 /\ zlib_marker = sphinx_zlib_marker /\
  v1_name_off = sphinx_v1_name_off /\ v1_version_off = sphinx_v1_version_off /\
  v2_name_off = sphinx_v2_name_off /\ v2_version_off = sphinx_v2_version_off.
Proof. repeat split; reflexivity. Qed.

Lemma same_literals :
  regex_same = true /\
  hdr_v1 = sphinx_hdr_v1 /\ hdr_v2 = sphinx_hdr_v2 /\ zlib_marker = sphinx_zlib_marker /\
  v1_name_off = sphinx_v1_name_off /\ v1_version_off = sphinx_v1_version_off /\
  v2_name_off = sphinx_v2_name_off /\ v2_version_off = sphinx_v2_version_off /\
  0 < BUFSIZE.
Proof. repeat split; try reflexivity. Qed.

(* ---------------- the relation between the two results ---------------- *)

(* what a consumer sees of a MyST entry / of a Sphinx entry: (final location, display name) *)
Definition view (uri : str) (it : item) : str * option str := (pjoin uri (it_loc it), it_text it).
Definition sview (v : sitem) : str * option str := let '(_, _, u, d) := v in (u, norm_text d).

Definition agree (uri : str) (objs : objs_t) (s : sinv_t) : Prop :=
  (forall d t n, ~ In c_colon d ->
     option_map (view uri) (objs_lookup objs d t n) =
     option_map sview (sinv_lookup s (d ++ c_colon :: t) n)) /\
  (forall d, al_mem d objs = true -> ~ In c_colon d) /\
  (forall k, al_mem k s = true -> In c_colon k).

Lemma agree_nil uri : agree uri [] [].
Proof. repeat split; intros; try reflexivity; discriminate. Qed.

Lemma key_eqb d t d' t' : ~ In c_colon d -> ~ In c_colon d' ->
  str_eqb (d' ++ c_colon :: t') (d ++ c_colon :: t) = str_eqb d' d && str_eqb t' t.
Proof.
  intros H H'. destruct (str_eqb (d' ++ c_colon :: t') (d ++ c_colon :: t)) eqn:E.
  - apply str_eqb_eq in E. destruct (split_key_inj _ _ _ _ _ H' H E); subst.
    rewrite !str_eqb_refl. reflexivity.
  - symmetry. apply andb_false_iff.
    destruct (str_eqb d' d) eqn:E1; [|left; reflexivity].
    destruct (str_eqb t' t) eqn:E2; [|right; reflexivity].
    apply str_eqb_eq in E1, E2. subst. rewrite str_eqb_refl in E. discriminate.
Qed.

Definition is_some {A} (o : option A) : bool := match o with Some _ => true | None => false end.

Lemma myst_dup_test objs d t n :
  al_mem t (al_get_or_empty d objs) && al_mem n (al_get_or_empty t (al_get_or_empty d objs))
  = is_some (objs_lookup objs d t n).
Proof.
  unfold al_get_or_empty, objs_lookup, al_mem.
  destruct (al_get d objs) as [dm|]; cbn [al_get]; [|reflexivity].
  destruct (al_get t dm) as [tm|]; cbn [al_get andb]; [|reflexivity].
  destruct (al_get n tm); reflexivity.
Qed.

Lemma sphinx_dup_test s k n : sphinx_contains k n s = is_some (sinv_lookup s k n).
Proof.
  unfold sphinx_contains, sinv_lookup, al_mem. destruct (al_get k s) as [m|]; [|reflexivity].
  destruct (al_get n m); reflexivity.
Qed.

Lemma agree_is_some uri objs s d t n : agree uri objs s -> ~ In c_colon d ->
  is_some (objs_lookup objs d t n) = is_some (sinv_lookup s (d ++ c_colon :: t) n).
Proof.
  intros [A _] H. specialize (A d t n H).
  destruct (objs_lookup objs d t n), (sinv_lookup s (d ++ c_colon :: t) n); cbn in *; congruence.
Qed.

Lemma agree_insert uri objs s d t n it v : agree uri objs s -> ~ In c_colon d ->
  view uri it = sview v ->
  agree uri (objs_insert d t n it objs) (sinv_insert (d ++ c_colon :: t) n v s).
Proof.
  intros [A1 [A2 A3]] Hd Hv. repeat split.
  - intros d' t' n' Hd'. rewrite objs_lookup_insert, sinv_lookup_insert.
    rewrite (key_eqb d t d' t' Hd Hd').
    destruct (str_eqb d' d && str_eqb t' t && str_eqb n' n).
    + cbn [option_map]. f_equal. exact Hv.
    + apply A1. exact Hd'.
  - intros d' M. rewrite objs_insert_mem in M. apply orb_true_iff in M. destruct M as [M|M].
    + apply A2. exact M.
    + apply str_eqb_eq in M. subst. exact Hd.
  - intros k M. rewrite sinv_insert_mem in M. apply orb_true_iff in M. destruct M as [M|M].
    + apply A3. exact M.
    + apply str_eqb_eq in M. subst. apply in_or_app. right. left. reflexivity.
Qed.

Lemma py_no_colon : ~ In c_colon s_py.
Proof. cbn. intros [H|[H|[]]]; discriminate. Qed.

Section Agree.

Variable match_line : str -> option (str * str * str * str * str).
Notation v2_step := (v2_step match_line).
Notation sphinx_v2_step := (sphinx_v2_step match_line).

(* ---------------- one v2 line ---------------- *)

Lemma v2_step_agree uri proj ver objs s l : agree uri objs s ->
  agree uri (v2_step objs l) (sphinx_v2_step uri proj ver s l).
Proof.
  intro A. unfold Load.v2_step, SphinxInv.sphinx_v2_step.
  destruct (match_line (rstrip l)) as [[[[[name type] prio] loc] text]|]; [|exact A].
  destruct (mem_N c_colon type) eqn:C; cbn [negb]; [|exact A].
  apply mem_N_In in C. assert (S := split_at_spec c_colon type C).
  destruct (split_at c_colon type) as [d t]. destruct S as [S1 S2].
  assert (T : (str_eqb type s_py_module
               && al_mem s_module (al_get_or_empty s_py objs)
               && al_mem name (al_get_or_empty s_module (al_get_or_empty s_py objs)))
              = (str_eqb type s_py_module && sphinx_contains type name s)).
  { rewrite <- andb_assoc. destruct (str_eqb type s_py_module) eqn:E; [|reflexivity]. cbn [andb].
    apply str_eqb_eq in E. rewrite myst_dup_test, sphinx_dup_test.
    rewrite (agree_is_some uri objs s s_py s_module name A py_no_colon). rewrite E. reflexivity. }
  rewrite T. destruct (str_eqb type s_py_module && sphinx_contains type name s); [exact A|].
  rewrite S1. apply agree_insert; [exact A | exact S2 | reflexivity].
Qed.

Lemma v2_fold_agree uri proj ver ls : forall objs s, agree uri objs s ->
  agree uri (fold_left v2_step ls objs) (fold_left (sphinx_v2_step uri proj ver) ls s).
Proof.
  induction ls as [|l ls IH]; intros objs s A; [exact A|].
  cbn [fold_left]. apply IH. apply v2_step_agree. exact A.
Qed.

Lemma fold_lines_pure (f : objs_t -> str -> objs_t) ls objs :
  fold_lines (fun o l => IOk (f o l)) objs ls None = IOk (fold_left f ls objs).
Proof. revert objs. induction ls as [|l ls IH]; intro objs; cbn; [reflexivity | apply IH]. Qed.

(* ---------------- one v1 line ---------------- *)

Lemma v1_step_agree uri proj ver objs s l s' : agree uri objs s ->
  sphinx_v1_step uri proj ver s l = IOk s' ->
  exists objs', v1_step objs l = IOk objs' /\ agree uri objs' s'.
Proof.
  intros A H. unfold sphinx_v1_step in H. unfold v1_step.
  destruct (split_ws 2 (rstrip l)) as [|name [|typ [|loc [|x r]]]]; try discriminate.
  assert (J : forall anchor, startswith anchor [47] = false ->
              pjoin uri (loc ++ anchor) = pjoin uri loc ++ anchor).
  { intros anchor Ha. apply pjoin_app_r. intros _. exact Ha. }
  destruct (str_eqb typ s_mod).
  - inversion H; subst s'. eexists. split; [reflexivity|].
    apply (agree_insert uri objs s s_py s_module name); [exact A | exact py_no_colon|].
    unfold view, sview. cbn [it_loc it_text]. rewrite J by reflexivity. reflexivity.
  - inversion H; subst s'. eexists. split; [reflexivity|].
    apply (agree_insert uri objs s s_py typ name); [exact A | exact py_no_colon|].
    unfold view, sview. cbn [it_loc it_text]. rewrite J by reflexivity. reflexivity.
Qed.

Lemma v1_step_nonempty uri proj ver s l s' : sphinx_v1_step uri proj ver s l = IOk s' -> l <> [].
Proof. intros H E. subst. cbn in H. discriminate. Qed.

Lemma v1_fold_agree uri proj ver ls : forall objs s s', agree uri objs s ->
  sphinx_fold_v1 uri proj ver s ls = IOk s' ->
  Forall (fun l => l <> []) ls /\
  exists objs', fold_lines v1_step objs ls None = IOk objs' /\ agree uri objs' s'.
Proof.
  induction ls as [|l ls IH]; intros objs s s' A H; cbn [sphinx_fold_v1 fold_lines] in *.
  - inversion H; subst. split; [constructor|]. eauto.
  - destruct (sphinx_v1_step uri proj ver s l) as [s1|e] eqn:S; cbn [ibind] in H; [|discriminate].
    destruct (v1_step_agree uri proj ver objs s l s1 A S) as [o1 [V A1]]. rewrite V. cbn [ibind].
    destruct (IH o1 s1 s' A1 H) as [F R]. split; [|exact R].
    constructor; [|exact F]. eapply v1_step_nonempty. exact S.
Qed.

(* both loaders look at a line only through line.rstrip(): a trailing "\r" is invisible *)
Lemma sphinx_v2_step_strip uri proj ver s l :
  sphinx_v2_step uri proj ver s (strip_cr l) = sphinx_v2_step uri proj ver s l.
Proof. unfold SphinxInv.sphinx_v2_step. rewrite rstrip_strip_cr. reflexivity. Qed.

Lemma sphinx_v2_fold_strip uri proj ver ls : forall s,
  fold_left (sphinx_v2_step uri proj ver) (map strip_cr ls) s =
  fold_left (sphinx_v2_step uri proj ver) ls s.
Proof.
  induction ls as [|l ls IH]; intro s; [reflexivity|]. cbn [map fold_left].
  rewrite sphinx_v2_step_strip. apply IH.
Qed.

Lemma sphinx_v1_fold_strip uri proj ver ls : forall s,
  sphinx_fold_v1 uri proj ver s (map strip_cr ls) = sphinx_fold_v1 uri proj ver s ls.
Proof.
  induction ls as [|l ls IH]; intro s; [reflexivity|]. cbn [map sphinx_fold_v1].
  assert (E : sphinx_v1_step uri proj ver s (strip_cr l) = sphinx_v1_step uri proj ver s l).
  { unfold sphinx_v1_step. rewrite rstrip_strip_cr. reflexivity. }
  rewrite E. destruct (sphinx_v1_step uri proj ver s l); cbn [ibind]; [apply IH | reflexivity].
Qed.

(* every Sphinx item carries the project name and version of the header *)
Definition all_pv (proj ver : str) (s : sinv_t) : Prop :=
  forall k n p v u d, sinv_lookup s k n = Some (p, v, u, d) -> p = proj /\ v = ver.

Lemma all_pv_nil proj ver : all_pv proj ver [].
Proof. intros k n p v u d H. discriminate. Qed.

Lemma all_pv_insert proj ver s k n u d : all_pv proj ver s ->
  all_pv proj ver (sinv_insert k n (proj, ver, u, d) s).
Proof.
  intros A k' n' p' v' u' d' H. rewrite sinv_lookup_insert in H.
  destruct (str_eqb k' k && str_eqb n' n).
  - inversion H; subst. auto.
  - eapply A. exact H.
Qed.

Lemma sphinx_v2_step_pv uri proj ver s l : all_pv proj ver s ->
  all_pv proj ver (sphinx_v2_step uri proj ver s l).
Proof.
  intro A. unfold SphinxInv.sphinx_v2_step.
  destruct (match_line (rstrip l)) as [[[[[name type] prio] loc] text]|]; [|exact A].
  destruct (negb (mem_N c_colon type)); [exact A|].
  destruct (str_eqb type s_py_module && sphinx_contains type name s); [exact A|].
  apply all_pv_insert. exact A.
Qed.

Lemma sphinx_v2_fold_pv uri proj ver ls : forall s, all_pv proj ver s ->
  all_pv proj ver (fold_left (sphinx_v2_step uri proj ver) ls s).
Proof.
  induction ls as [|l ls IH]; intros s A; [exact A|]. cbn [fold_left]. apply IH.
  apply sphinx_v2_step_pv. exact A.
Qed.

Lemma sphinx_v1_fold_pv uri proj ver ls : forall s s', all_pv proj ver s ->
  sphinx_fold_v1 uri proj ver s ls = IOk s' -> all_pv proj ver s'.
Proof.
  induction ls as [|l ls IH]; intros s s' A H; cbn [sphinx_fold_v1] in H.
  - inversion H; subst. exact A.
  - destruct (sphinx_v1_step uri proj ver s l) as [s1|e] eqn:S; cbn [ibind] in H; [|discriminate].
    apply (IH s1 s'); [|exact H]. unfold sphinx_v1_step in S.
    destruct (split_ws 2 (rstrip l)) as [|name [|typ [|loc [|x r]]]]; try discriminate.
    destruct (str_eqb typ s_mod); inversion S; subst; apply all_pv_insert; exact A.
Qed.

(* ---------------- the separator disagreement, characterised ---------------- *)

(* Sphinx's entries for a body text T are MyST's entries for T with every line separator
   (and every CR LF pair) replaced by "\n": the two loaders differ on T exactly as MyST
   differs between T and its normalisation *)
Theorem separator_characterisation uri proj ver T :
  agree uri (fold_left v2_step (trim_last (split_nl (norm_seps T))) [])
            (fold_left (sphinx_v2_step uri proj ver) (splitlines T) []).
Proof. rewrite splitlines_norm. apply v2_fold_agree. apply agree_nil. Qed.

Corollary separator_agreement_criterion uri proj ver T :
  fold_left v2_step (trim_last (split_nl T)) [] =
  fold_left v2_step (trim_last (split_nl (norm_seps T))) [] ->
  agree uri (fold_left v2_step (trim_last (split_nl T)) [])
            (fold_left (sphinx_v2_step uri proj ver) (splitlines T) []).
Proof. intro H. rewrite H. apply separator_characterisation. Qed.

End Agree.

(* ---------------- whole files ---------------- *)

(* zlib.decompress(z) = out implies that the streaming decompressor yields out without error *)
Definition zlib_oneshot_ok (dstate : Type) (dinit : dstate)
           (dstep : dstate -> bytes -> dstate * bytes) (dflush : dstate -> bytes)
           (derr : dstate -> bool) (dz : bytes -> option bytes) : Prop :=
  forall z out, dz z = Some out ->
    let (st, o) := dstep dinit z in derr st = false /\ o ++ dflush st = out.

Lemma hdr_facts :
  Forall (fun c => c < 128) hdr_v1 /\ Forall (fun c => c < 128) hdr_v2 /\
  rstrip hdr_v1 = hdr_v1 /\ rstrip hdr_v2 = hdr_v2 /\
  str_eqb hdr_v2 hdr_v1 = false /\
  Forall (fun c => c < 128) zlib_marker /\ zlib_marker <> [].
Proof.
  repeat split; try (vm_compute; reflexivity); try discriminate;
    repeat (constructor; [reflexivity|]); constructor.
Qed.

Lemma bsplit3 rest l1 l2 l3 z : bsplit_nl 3 rest = [l1; l2; l3; z] ->
  exists r1 r2,
    a_readline rest = (l1, (r1, false)) /\ a_readline r1 = (l2, (r2, false)) /\
    a_readline r2 = (l3, (z, false)).
Proof.
  unfold a_readline. cbn [bsplit_nl].
  destruct (find_nl rest) as [p1|] eqn:F1; [|discriminate].
  destruct (find_nl (skipn (S p1) rest)) as [p2|] eqn:F2; [|discriminate].
  destruct (find_nl (skipn (S p2) (skipn (S p1) rest))) as [p3|] eqn:F3; [|discriminate].
  intro H. injection H as E1 E2 E3 E4.
  exists (skipn (S p1) rest), (skipn (S p2) (skipn (S p1) rest)).
  rewrite F2, F3. subst. auto.
Qed.

Lemma bsplit_S k b pos : find_nl b = Some pos ->
  bsplit_nl (S k) b = firstn pos b :: bsplit_nl k (skipn (S pos) b).
Proof. intro H. cbn [bsplit_nl]. rewrite H. reflexivity. Qed.

(* the project name and version agree too *)
Definition same_project (inv : inventory) (s : sinv_t) : Prop :=
  all_pv (inv_name inv) (inv_version inv) s.

(* header bytes on which bytes.rstrip and str.rstrip coincide: ASCII except FS GS RS US *)
Definition plain_byte (c : N) : bool := (c <? 28) || ((31 <? c) && (c <? 128)).
Definition plain_header (content : bytes) : Prop :=
  Forall (fun l => forallb plain_byte l = true) (firstn 4 (bsplit_nl 4 content)).

Lemma plain_byte_facts :
  forallb (fun c => negb (plain_byte c) || Bool.eqb (is_space c) (is_bspace c))
          (map N.of_nat (seq 0 128)) = true.
Proof. vm_compute. reflexivity. Qed.

Lemma plain_byte_space c : plain_byte c = true -> c < 128 /\ is_space c = is_bspace c.
Proof.
  intro P. assert (L : c < 128).
  { unfold plain_byte in P. apply orb_true_iff in P. destruct P as [P|P].
    - apply N.ltb_lt in P. lia.
    - apply andb_true_iff in P. destruct P as [_ P]. apply N.ltb_lt in P. exact P. }
  split; [exact L|]. assert (F := plain_byte_facts). rewrite forallb_forall in F.
  specialize (F c). rewrite P in F. cbn [negb orb] in F. apply eqb_prop. apply F.
  apply in_map_iff. exists (N.to_nat c). split; [apply N2Nat.id|]. apply in_seq. lia.
Qed.

Lemma rstrip_by_ext p q s : Forall (fun c => p c = q c) s -> rstrip_by p s = rstrip_by q s.
Proof.
  induction 1 as [|c s Hc _ IH]; cbn [rstrip_by]; [reflexivity|]. rewrite IH, Hc. reflexivity.
Qed.

Lemma Forall_skipn {A} (P : A -> Prop) k l : Forall P l -> Forall P (skipn k l).
Proof.
  intro F. rewrite <- (firstn_skipn k l) in F. apply Forall_app in F. apply F.
Qed.

Section AgreeTop.

Variable dstate : Type.
Variable dinit : dstate.
Variable dstep : dstate -> bytes -> dstate * bytes.
Variable dflush : dstate -> bytes.
Variable derr : dstate -> bool.
Variable dz : bytes -> option bytes.
Variable decode : bytes -> option str.
Variable match_line : str -> option (str * str * str * str * str).
Hypothesis O_zlib_stream : zlib_stream_ok dstate dstep derr.
Hypothesis O_zlib_oneshot : zlib_oneshot_ok dstate dinit dstep dflush derr dz.
Hypothesis O_decode : decode_ok decode.

Notation dec := (dec decode).
Notation load := (load dstate dinit dstep dflush derr decode match_line).
Notation load_spec := (load_spec dstate dinit dstep dflush derr decode match_line).
Notation sphinx_loads := (sphinx_loads dz decode match_line).
Notation sphinx_text := (sphinx_text dz decode).

Lemma dec_some b s : decode b = Some s -> dec b = IOk s.
Proof. intro H. unfold Reader.dec. rewrite H. reflexivity. Qed.

Lemma dec_ok_inv b s : dec b = IOk s -> decode b = Some s.
Proof. unfold Reader.dec. destruct (decode b); intro H; inversion H; reflexivity. Qed.

Lemma plain_line_agree l k s p : forallb plain_byte l = true -> decode l = Some s ->
  dec (skipn k (brstrip l)) = IOk p -> skipn k (rstrip s) = p.
Proof.
  intros PL D H. rewrite forallb_forall in PL.
  assert (FA : Forall (fun c => c < 128) l).
  { apply Forall_forall. intros c Hc. apply plain_byte_space. apply PL. exact Hc. }
  rewrite (decode_ascii decode O_decode l FA) in D. inversion D; subst s.
  assert (E : rstrip l = brstrip l).
  { apply rstrip_by_ext. apply Forall_forall. intros c Hc. apply plain_byte_space. apply PL. exact Hc. }
  rewrite E. apply dec_ok_inv in H.
  rewrite (decode_ascii decode O_decode) in H.
  - inversion H. reflexivity.
  - apply Forall_skipn. destruct (rstrip_by_spec is_bspace l) as [w [Ew _]].
    fold (brstrip l) in Ew. rewrite Ew in FA. apply Forall_app in FA. apply FA.
Qed.

(* the format line: Sphinx strips bytes, MyST strips the decoded string *)
Lemma format_line_agree fl H : Forall (fun c => c < 128) H -> rstrip H = H ->
  brstrip fl = H -> exists l0, decode fl = Some l0 /\ rstrip l0 = H.
Proof.
  intros HA HR HB. destruct (rstrip_by_spec is_bspace fl) as [w [E F]].
  fold (brstrip fl) in E. rewrite HB in E.
  assert (FA : Forall (fun c => c < 128) w).
  { eapply Forall_impl; [|exact F]. intros c Hc. apply is_bspace_space. exact Hc. }
  assert (FS : Forall (fun c => is_space c = true) w).
  { eapply Forall_impl; [|exact F]. intros c Hc. apply is_bspace_space. exact Hc. }
  exists (H ++ w). split.
  - rewrite E. rewrite (decode_app_ascii decode O_decode H w FA).
    rewrite (decode_ascii decode O_decode H HA). reflexivity.
  - unfold rstrip. rewrite (rstrip_by_app_ws is_space H w FS). exact HR.
Qed.

(* lines of a decoded body *)
Lemma decode_lines_all ps ts : map decode ps = map Some ts ->
  decode_lines decode false ps = (ts, None).
Proof.
  revert ts. induction ps as [|p ps IH]; intros [|t ts] H; try discriminate; [reflexivity|].
  cbn [map] in H. inversion H as [[H1 H2]]. cbn [decode_lines andb].
  rewrite (dec_some _ _ H1). rewrite (IH ts H2). reflexivity.
Qed.

Lemma trim_last_map ps ts : map decode ps = map Some ts ->
  map decode (trim_last ps) = map Some (trim_last ts).
Proof.
  destruct O_decode as [_ [D2 [_ D4]]].
  revert ts. induction ps as [|p ps IH]; intros [|t ts] H; try discriminate; [reflexivity|].
  cbn [map] in H. inversion H as [[H1 H2]].
  destruct ps as [|p2 ps]; destruct ts as [|t2 ts]; try discriminate.
  - cbn [trim_last]. destruct p as [|b p].
    + rewrite D2 in H1. inversion H1; subst. reflexivity.
    + destruct t as [|c t]; [apply D4 in H1; discriminate|]. cbn [is_nil map]. rewrite H1. reflexivity.
  - change (trim_last (p :: p2 :: ps)) with (p :: trim_last (p2 :: ps)).
    change (trim_last (t :: t2 :: ts)) with (t :: trim_last (t2 :: ts)).
    cbn [map]. rewrite H1. f_equal. apply IH. exact H2.
Qed.

Lemma lines_of_decoded body text : decode body = Some text ->
  lines_of decode body = (trim_last (split_nl text), None).
Proof.
  intro D. unfold lines_of. apply decode_lines_all. apply trim_last_map.
  apply (decode_split decode O_decode (length body)); [lia | exact D].
Qed.

(* ---------------- format v2 ---------------- *)

Theorem agrees_v2 content uri base sinv :
  (let (fl, rest) := partition_nl content in brstrip fl = sphinx_hdr_v2) ->
  Forall (fun l => decode l <> None) (firstn 4 (bsplit_nl 4 content)) ->
  (forall text, sphinx_text content = Some text -> crlf_only text) ->
  sphinx_loads content uri = IOk sinv ->
  exists inv, load [content] base = IOk inv /\ agree uri (inv_objects inv) sinv /\
              (plain_header content -> same_project inv sinv).
Proof.
  destruct hdr_facts as [HA1 [HA2 [HR1 [HR2 [HN [ZA ZN]]]]]].
  intros HV HD NS HS. rewrite load_single by exact O_zlib_stream.
  unfold SphinxInv.sphinx_loads, SphinxInv.sphinx_text, partition_nl in *.
  unfold LoadProofs.load_spec, a_readline.
  destruct (find_nl content) as [p0|] eqn:F0.
  2:{ (* no newline at all: Sphinx cannot split the header *)
      rewrite HV in HS. unfold bytes_eqb in HS. rewrite str_eqb_refl in HS. cbn in HS. discriminate. }
  rewrite (bsplit_S 3 content p0 F0) in HD.
  set (fl := firstn p0 content) in *. set (rest := skipn (S p0) content) in *.
  rewrite HV in *. unfold bytes_eqb in *. rewrite str_eqb_refl in *.
  destruct (format_line_agree fl sphinx_hdr_v2 HA2 HR2 HV) as [l0 [D0 R0]].
  rewrite (dec_some _ _ D0). cbn [ibind]. rewrite R0.
  change sphinx_hdr_v2 with hdr_v2. rewrite HN, str_eqb_refl.
  unfold sphinx_loads_v2 in HS.
  destruct (bsplit_nl 3 rest) as [|l1 [|l2 [|l3 [|z [|x r]]]]] eqn:B; try discriminate.
  destruct (bsplit3 _ _ _ _ _ B) as [r1 [r2 [A1 [A2 A3]]]].
  unfold LoadProofs.load_v2_spec. rewrite A1.
  cbn [firstn] in HD.
  inversion HD as [|? ? _ HD1]; subst. inversion HD1 as [|? ? D1 HD2]; subst.
  inversion HD2 as [|? ? D2 HD3]; subst. inversion HD3 as [|? ? D3 _]; subst.
  destruct (decode l1) as [s1|] eqn:E1; [|contradiction].
  destruct (decode l2) as [s2|] eqn:E2; [|contradiction].
  destruct (decode l3) as [s3|] eqn:E3; [|contradiction].
  rewrite (dec_some _ _ E1). cbn [ibind]. rewrite A2. rewrite (dec_some _ _ E2). cbn [ibind].
  rewrite A3. rewrite (dec_some _ _ E3). cbn [ibind].
  destruct (dec (skipn sphinx_v2_name_off (brstrip l1))) as [proj|] eqn:P; cbn [ibind] in HS; [|discriminate].
  destruct (dec (skipn sphinx_v2_version_off (brstrip l2))) as [ver|] eqn:V; cbn [ibind] in HS; [|discriminate].
  destruct (contains sphinx_zlib_marker l3) eqn:C; cbn [negb] in HS.
  2:{ destruct (dec l3); cbn [ibind] in HS; discriminate. }
  rewrite (decode_contains decode O_decode zlib_marker l3 s3 ZA ZN C E3). cbn [negb].
  destruct (dz z) as [body|] eqn:Z; [|discriminate].
  destruct (dec body) as [text|] eqn:T; cbn [ibind] in HS; [|discriminate].
  apply dec_ok_inv in T. specialize (NS text T).
  inversion HS; subst sinv. clear HS.
  unfold ReaderProofs.a_rcl.
  assert (O := O_zlib_oneshot z body Z). destruct (dstep dinit z) as [st o]. destruct O as [O1 O2].
  rewrite O1, O2.
  fold (lines_of decode body). rewrite (lines_of_decoded body text T). cbn [fst snd].
  rewrite fold_lines_pure. cbn [ibind]. eexists. split; [reflexivity|].
  cbn [inv_objects mk_inv]. rewrite (splitlines_crlf text NS), sphinx_v2_fold_strip. split.
  - apply v2_fold_agree. apply agree_nil.
  - intro PH. unfold plain_header in PH. rewrite (bsplit_S 3 content p0 F0) in PH.
    fold rest in PH. rewrite B in PH. cbn [firstn] in PH.
    inversion PH as [|? ? _ PH1]; subst. inversion PH1 as [|? ? P1 PH2]; subst.
    inversion PH2 as [|? ? P2 _]; subst.
    unfold same_project. cbn [inv_name inv_version mk_inv].
    rewrite (plain_line_agree l1 v2_name_off s1 proj P1 E1 P).
    rewrite (plain_line_agree l2 v2_version_off s2 ver P2 E2 V).
    apply sphinx_v2_fold_pv. apply all_pv_nil.
Qed.

(* ---------------- format v1 ---------------- *)

Definition nonnil (t : str) : bool := negb (is_nil t).

Lemma decode_lines_skip ps ts : map decode ps = map Some ts ->
  decode_lines decode true ps = (filter nonnil ts, None).
Proof.
  revert ts. induction ps as [|p ps IH]; intros [|t ts] H; try discriminate; [reflexivity|].
  cbn [map] in H. inversion H as [[H1 H2]]. cbn [decode_lines andb filter].
  rewrite (dec_some _ _ H1). rewrite (IH ts H2). unfold nonnil.
  destruct (is_nil t); reflexivity.
Qed.

Lemma filter_trim (X : list str) : Forall (fun l => l <> []) (trim_last X) ->
  filter nonnil X = trim_last X.
Proof.
  induction X as [|x X IH]; intro F; [reflexivity|].
  destruct X as [|x2 X].
  - cbn [trim_last filter] in *. unfold nonnil. destruct (is_nil x); reflexivity.
  - change (trim_last (x :: x2 :: X)) with (x :: trim_last (x2 :: X)) in *.
    inversion F; subst. cbn [filter]. unfold nonnil at 1.
    destruct x; [contradiction|]. cbn [is_nil negb]. f_equal. apply IH. assumption.
Qed.

Lemma map_decode_cons b ps X : map decode (b :: ps) = map Some X ->
  exists t X', X = t :: X' /\ decode b = Some t /\ map decode ps = map Some X'.
Proof.
  destruct X as [|t X']; cbn [map]; intro H; [discriminate|]. inversion H. eauto.
Qed.

Lemma map_nonempty {A B} (f : A -> B) (g : str -> B) l (X : list str) :
  map f l = map g X -> l <> [] -> X <> [].
Proof. destruct l, X; cbn; intros; congruence. Qed.

Ltac rw_trim H t X N :=
  let Q := fresh in
  pose proof (trim_last_cons t X N) as Q; unfold bytes in Q; unfold str in H; rewrite Q in H; clear Q.

Theorem agrees_v1 content uri base sinv :
  (let (fl, rest) := partition_nl content in brstrip fl = sphinx_hdr_v1) ->
  (forall text, sphinx_text content = Some text -> crlf_only text) ->
  sphinx_loads content uri = IOk sinv ->
  exists inv, load [content] base = IOk inv /\ agree uri (inv_objects inv) sinv /\
              same_project inv sinv.
Proof.
  destruct hdr_facts as [HA1 [HA2 [HR1 [HR2 [HN [ZA ZN]]]]]].
  destruct O_decode as [_ [D2 _]].
  intros HV NS HS. rewrite load_single by exact O_zlib_stream.
  unfold SphinxInv.sphinx_loads, SphinxInv.sphinx_text, partition_nl in *.
  unfold LoadProofs.load_spec, a_readline.
  assert (NE : bytes_eqb sphinx_hdr_v1 sphinx_hdr_v2 = false) by (vm_compute; reflexivity).
  destruct (find_nl content) as [p0|] eqn:F0.
  2:{ rewrite HV, NE in HS. unfold bytes_eqb in HS. rewrite str_eqb_refl in HS.
      unfold Reader.dec in HS. rewrite D2 in HS. cbn in HS. discriminate. }
  set (fl := firstn p0 content) in *. set (rest := skipn (S p0) content) in *.
  rewrite HV, NE in *. unfold bytes_eqb in *. rewrite str_eqb_refl in *.
  destruct (format_line_agree fl sphinx_hdr_v1 HA1 HR1 HV) as [l0 [D0 R0]].
  rewrite (dec_some _ _ D0). cbn [ibind]. rewrite R0.
  change sphinx_hdr_v1 with hdr_v1. rewrite str_eqb_refl.
  destruct (dec rest) as [text|] eqn:T; cbn [ibind] in HS; [|discriminate].
  apply dec_ok_inv in T. specialize (NS text T).
  rewrite (splitlines_crlf text NS) in HS.
  assert (P := decode_split decode O_decode (length rest) rest text (le_n _) T).
  unfold sphinx_loads_v1 in HS. unfold LoadProofs.load_v1_spec, a_readline.
  destruct (find_nl rest) as [p1|] eqn:F1.
  2:{ (* a single piece: fewer than two lines *)
      rewrite (split_nl_none _ F1) in P. destruct (split_nl text) as [|t [|t2 X]]; try discriminate.
      cbn [trim_last] in HS. destruct (is_nil t); discriminate. }
  rewrite (split_nl_some _ _ F1) in P.
  destruct (map_decode_cons _ _ _ P) as [t1 [X1 [EX [E1 P1]]]]. rewrite EX in HS.
  assert (N1 : X1 <> []) by (eapply map_nonempty; [exact P1 | apply split_nl_nonempty]).
  rw_trim HS t1 X1 N1.
  rewrite (dec_some _ _ E1). cbn [ibind].
  set (rest1 := skipn (S p1) rest) in *.
  destruct (find_nl rest1) as [p2|] eqn:F2.
  - rewrite (split_nl_some _ _ F2) in P1.
    destruct (map_decode_cons _ _ _ P1) as [t2 [X2 [EX2 [E2 P2]]]]. rewrite EX2 in HS.
    assert (N2 : X2 <> []) by (eapply map_nonempty; [exact P2 | apply split_nl_nonempty]).
    rw_trim HS t2 X2 N2. cbn [map] in HS.
    rewrite !rstrip_strip_cr, sphinx_v1_fold_strip in HS.
    rewrite (dec_some _ _ E2). cbn [ibind].
    unfold ReaderProofs.a_readlines. rewrite (decode_lines_skip _ _ P2). cbn [fst snd].
    destruct (v1_fold_agree uri _ _ (trim_last X2) [] [] sinv (agree_nil uri) HS) as [FN [objs' [FO A]]].
    rewrite (filter_trim X2 FN). rewrite FO. cbn [ibind].
    eexists. split; [reflexivity |]. split; [exact A|].
    unfold same_project. cbn [inv_name inv_version mk_inv].
    apply (sphinx_v1_fold_pv uri _ _ (trim_last X2) [] sinv); [apply all_pv_nil | exact HS].
  - rewrite (split_nl_none _ F2) in P1.
    destruct (map_decode_cons _ _ _ P1) as [t2 [X2 [EX2 [E2 P2]]]]. rewrite EX2 in HS.
    destruct X2; [|discriminate]. cbn [trim_last] in HS.
    rewrite (dec_some _ _ E2). cbn [ibind].
    destruct (is_nil t2); [discriminate|]. cbn [map sphinx_fold_v1] in HS. inversion HS; subst sinv.
    cbn. eexists. split; [reflexivity |]. split; [apply agree_nil | apply all_pv_nil].
Qed.

(* ---------------- either format, any chunking ---------------- *)

Theorem agrees_with_sphinx cs uri base sinv :
  Forall (fun l => decode l <> None) (firstn 4 (bsplit_nl 4 (live cs))) ->
  (forall text, sphinx_text (live cs) = Some text -> crlf_only text) ->
  sphinx_loads (live cs) uri = IOk sinv ->
  exists inv, load cs base = IOk inv /\ agree uri (inv_objects inv) sinv /\
              (plain_header (live cs) -> same_project inv sinv).
Proof.
  intros HD NS HS.
  assert (R : exists inv, load [live cs] base = IOk inv /\ agree uri (inv_objects inv) sinv /\
                          (plain_header (live cs) -> same_project inv sinv)).
  { assert (HS' := HS). unfold SphinxInv.sphinx_loads in HS'.
    destruct (partition_nl (live cs)) as [fl rest] eqn:PN.
    destruct (bytes_eqb (brstrip fl) sphinx_hdr_v2) eqn:E2.
    - apply agrees_v2; try assumption. rewrite PN. apply str_eqb_eq. exact E2.
    - destruct (bytes_eqb (brstrip fl) sphinx_hdr_v1) eqn:E1.
      + destruct (agrees_v1 (live cs) uri base sinv) as [inv [H1 [H2 H3]]]; try assumption.
        * rewrite PN. apply str_eqb_eq. exact E1.
        * exists inv. auto.
      + destruct (startswith (brstrip fl) s_version_prefix).
        * destruct (Reader.dec decode (skipn 27 (brstrip fl))); cbn [ibind] in HS'; discriminate.
        * destruct (Reader.dec decode (brstrip fl)); cbn [ibind] in HS'; discriminate. }
  destruct R as [inv [H1 H2]]. exists inv. split; [|exact H2].
  destruct (chunking_independent dstate dinit dstep dflush derr decode match_line O_zlib_stream cs base)
    as [C|[C _]]; congruence.
Qed.

End AgreeTop.
