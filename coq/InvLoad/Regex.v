(* A small backtracking regular-expression matcher with capture groups (the subset of
   Python's re that the inventory line pattern uses).  The pattern itself is not written
   here: gen/c18_inventory.py parses the literal found in the source with re._parser and
   emits it as a term of type [re] (Gen/Inventory.v).  Executable definitions only. *)
From Coq Require Import List NArith Bool.
From MV Require Import Base.PyStr.
Import ListNotations.
Open Scope N_scope.

Inductive cls : Type :=
| CAny                 (* "."  : anything but "\n" (no DOTALL) *)
| CLit (c : N)
| CSpace | CNotSpace   (* \s \S *)
| CDigit | CNotDigit.  (* \d \D *)

Inductive re : Type :=
| REmpty
| RChar (c : cls)
| RSeq (a b : re)
| RStar (greedy : bool) (a : re)    (* a* / a*?  ("+" is emitted as a a* ) *)
| ROpt (greedy : bool) (a : re)     (* a? / a?? *)
| RGroup (n : nat) (a : re).        (* capturing group number n *)

(* character tables are supplied by the caller (Gen/Inventory.v: ws_table, digit_ranges) *)
Record tables := { t_ws : list N; t_digits : list (N * N) }.

Definition in_ranges (c : N) (rs : list (N * N)) : bool :=
  existsb (fun '(a, b) => (a <=? c) && (c <=? b)) rs.

Definition cls_match (T : tables) (k : cls) (c : N) : bool :=
  match k with
  | CAny => negb (c =? 10)
  | CLit x => c =? x
  | CSpace => mem_N c (t_ws T)
  | CNotSpace => negb (mem_N c (t_ws T))
  | CDigit => in_ranges c (t_digits T)
  | CNotDigit => negb (in_ranges c (t_digits T))
  end.

Definition caps := list (nat * str).

(* backtracking matcher in continuation-passing style: [k] is the rest of the pattern.
   Alternatives are tried in Python's order (greedy: one more iteration first; lazy: the
   continuation first).  A star iteration must consume at least one character. *)
Fixpoint rmatch (T : tables) (r : re) (s : str) (cp : caps)
         (k : str -> caps -> option caps) {struct r} : option caps :=
  match r with
  | REmpty => k s cp
  | RChar c => match s with
               | x :: s' => if cls_match T c x then k s' cp else None
               | [] => None
               end
  | RSeq a b => rmatch T a s cp (fun s' cp' => rmatch T b s' cp' k)
  | ROpt g a =>
      if g then match rmatch T a s cp k with Some x => Some x | None => k s cp end
      else match k s cp with Some x => Some x | None => rmatch T a s cp k end
  | RGroup n a =>
      rmatch T a s cp (fun s' cp' => k s' ((n, firstn (length s - length s') s) :: cp'))
  | RStar g a =>
      (fix loop (fuel : nat) (s : str) (cp : caps) {struct fuel} : option caps :=
         match fuel with
         | O => k s cp
         | S f =>
             if g then
               match rmatch T a s cp (fun s' cp' =>
                       if Nat.ltb (length s') (length s) then loop f s' cp' else None) with
               | Some x => Some x
               | None => k s cp
               end
             else
               match k s cp with
               | Some x => Some x
               | None => rmatch T a s cp (fun s' cp' =>
                           if Nat.ltb (length s') (length s) then loop f s' cp' else None)
               end
         end) (S (length s)) s cp
  end.

Fixpoint cap_get (n : nat) (cp : caps) : option str :=
  match cp with
  | [] => None
  | (m, v) :: cp' => if Nat.eqb n m then Some v else cap_get n cp'
  end.

(* re.match(pattern, s): anchored at the start only; returns the five groups *)
Definition re_match5 (T : tables) (r : re) (s : str) : option (str * str * str * str * str) :=
  match rmatch T r s [] (fun _ cp => Some cp) with
  | None => None
  | Some cp =>
      match cap_get 1 cp, cap_get 2 cp, cap_get 3 cp, cap_get 4 cp, cap_get 5 cp with
      | Some a, Some b, Some c, Some d, Some e => Some (a, b, c, d, e)
      | _, _, _, _, _ => None
      end
  end.
