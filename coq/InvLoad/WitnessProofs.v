(* C18: concrete witnesses, computed inside Coq with the executable instances
   (identity codec, Gallina UTF-8 decoder, regex engine on the regenerated pattern). *)
From Coq Require Import List NArith Bool Lia.
From MV Require Import Base.PyStr Inv.WildModel InvLoad.Regex Gen.Inventory InvLoad.Basics InvLoad.PyText
  InvLoad.Reader InvLoad.Load InvLoad.SphinxInv InvLoad.TableCodec InvLoad.ReaderProofs
  InvLoad.LoadProofs InvLoad.TextProofs InvLoad.AgreeProofs InvLoad.CodecProofs InvLoad.Utf8Proofs InvLoad.BadLineProofs.
Import ListNotations.
Open Scope N_scope.

Definition id_load := load unit tt idstep idflush iderr utf8_decode match_line_exec.
Definition id_sphinx := sphinx_loads (fun z => Some z) utf8_decode match_line_exec.

(* "a py:function 1 a.html -<FF>b py:function 1 b.html -\n": a form feed inside a line *)
Definition body_ff : bytes := [97; 32; 112; 121; 58; 102; 117; 110; 99; 116; 105; 111; 110; 32; 49; 32; 97; 46; 104; 116; 109; 108; 32; 45; 12; 98; 32; 112; 121; 58; 102; 117; 110; 99; 116; 105; 111; 110; 32; 49; 32; 98; 46; 104; 116; 109; 108; 32; 45; 10].
(* duplicates of py:module, a name with spaces, a malformed line, no final newline *)
Definition body_good : bytes := [109; 32; 112; 121; 58; 109; 111; 100; 117; 108; 101; 32; 48; 32; 97; 46; 104; 116; 109; 108; 35; 36; 32; 45; 10; 109; 32; 112; 121; 58; 109; 111; 100; 117; 108; 101; 32; 48; 32; 98; 46; 104; 116; 109; 108; 35; 36; 32; 45; 10; 110; 97; 109; 101; 32; 119; 105; 116; 104; 32; 115; 112; 97; 99; 101; 115; 32; 115; 116; 100; 58; 108; 97; 98; 101; 108; 32; 45; 49; 32; 120; 46; 104; 116; 109; 108; 35; 36; 32; 83; 111; 109; 101; 32; 84; 105; 116; 108; 101; 10; 103; 97; 114; 98; 97; 103; 101; 32; 108; 105; 110; 101; 10; 102; 32; 112; 121; 58; 102; 117; 110; 99; 116; 105; 111; 110; 32; 49; 32; 99; 46; 104; 116; 109; 108; 32; 45].
Definition uri_x : str := [104; 116; 116; 112; 115; 58; 47; 47; 120; 46; 111; 114; 103; 47; 100].
Definition k_py_function : str := [112; 121; 58; 102; 117; 110; 99; 116; 105; 111; 110].
Definition k_py_module : str := [112; 121; 58; 109; 111; 100; 117; 108; 101].

(* without the premise on line separators the two loaders differ: Sphinx (str.splitlines)
   sees the entry "b", MyST (split at "\n") does not *)
Theorem nosep_needed :
  exists sinv inv,
    id_sphinx (v2_header ++ body_ff) uri_x = IOk sinv /\
    id_load [v2_header ++ body_ff] None = IOk inv /\
    Forall (fun l => utf8_decode l <> None) (firstn 4 (bsplit_nl 4 (v2_header ++ body_ff))) /\
    ~ agree uri_x (inv_objects inv) sinv.
Proof.
  destruct (id_sphinx (v2_header ++ body_ff) uri_x) as [sinv|] eqn:S; [|vm_compute in S; discriminate].
  destruct (id_load [v2_header ++ body_ff] None) as [inv|] eqn:M; [|vm_compute in M; discriminate].
  exists sinv, inv. repeat split.
  - vm_compute. repeat constructor; discriminate.
  - intros [A _]. specialize (A [112; 121] [102; 117; 110; 99; 116; 105; 111; 110] [98]).
    vm_compute in S. inversion S; subst sinv. vm_compute in M. inversion M; subst inv.
    assert (C : ~ In c_colon [112; 121]) by (cbn; intros [H|[H|[]]]; discriminate).
    specialize (A C). vm_compute in A. discriminate.
Qed.

(* non-vacuity: a file with py:module duplicates, a name with spaces, "$", "-", a priority
   "-1", a malformed line and no final newline, read in three chunks: same entries *)
Example agree_example :
  match id_sphinx (v2_header ++ body_good) uri_x,
        id_load [firstn 40 (v2_header ++ body_good); firstn 7 (skipn 40 (v2_header ++ body_good));
                 skipn 47 (v2_header ++ body_good)] None with
  | IOk sinv, IOk inv =>
      option_map sview (sinv_lookup sinv k_py_module [109]) =
        option_map (view uri_x) (objs_lookup (inv_objects inv) [112; 121] [109; 111; 100; 117; 108; 101] [109])
      /\ option_map sview (sinv_lookup sinv k_py_module [109]) = Some ([104; 116; 116; 112; 115; 58; 47; 47; 120; 46; 111; 114; 103; 47; 100; 47; 97; 46; 104; 116; 109; 108; 35; 109], None)
      /\ length (flat_map snd sinv) = 3%nat
  | _, _ => False
  end.
Proof. vm_compute. repeat split; reflexivity. Qed.

(* the separator disagreement for every separator other than "\n" (text level, code points):
   "a py:function 1 a.html -" c "b py:function 1 b.html -\n": Sphinx has the entry b, MyST not *)
Definition sep_text (c : N) : str :=
  [97; 32; 112; 121; 58; 102; 117; 110; 99; 116; 105; 111; 110; 32; 49; 32; 97; 46; 104; 116; 109; 108; 32; 45] ++ [c] ++ [98; 32; 112; 121; 58; 102; 117; 110; 99; 116; 105; 111; 110; 32; 49; 32; 98; 46; 104; 116; 109; 108; 32; 45] ++ [10].

Theorem separator_family : forall c, In c linesep_table -> c <> 10 ->
  objs_lookup (fold_left (v2_step match_line_exec) (trim_last (split_nl (sep_text c))) [])
              [112; 121] [102; 117; 110; 99; 116; 105; 111; 110] [98] = None /\
  sinv_lookup (fold_left (sphinx_v2_step match_line_exec uri_x [] []) (splitlines (sep_text c)) [])
              k_py_function [98] <> None.
Proof.
  intros c H NE. unfold linesep_table in H. cbn [In] in H.
  repeat (destruct H as [H|H];
          [subst c; first [ exfalso; apply NE; reflexivity
                          | split; [vm_compute; reflexivity | vm_compute; discriminate] ] |]).
  contradiction.
Qed.

(* the oracle hypotheses of the theorems are satisfiable *)
Theorem oracles_satisfiable :
  zlib_stream_ok tstate tstep terr /\
  zlib_stream_ok unit idstep iderr /\
  zlib_oneshot_ok unit tt idstep idflush iderr (fun z => Some z) /\
  decode_ok utf8_decode.
Proof.
  split; [exact table_codec_ok|]. split; [exact id_codec_ok|]. split; [|exact utf8_decode_ok].
  intros z out H. inversion H; subst. cbn. split; [reflexivity | apply app_nil_r].
Qed.

(* ---------------- non-vacuity of the premises (round 4 audit) ---------------- *)

Ltac crlf_tac :=
  repeat (split; [let H := fresh "H" in intro H; vm_compute in H; first [discriminate H | left; reflexivity] |]); exact I.

(* all premises of C18_agrees_with_sphinx hold together for a concrete file (identity codec, the
   Gallina UTF-8 decoder, the regex engine on the regenerated pattern) *)
Theorem agrees_premises_satisfiable :
  let content := v2_header ++ body_good in
  Forall (fun l => utf8_decode l <> None) (firstn 4 (bsplit_nl 4 content)) /\
  (forall text, sphinx_text (fun z => Some z) utf8_decode content = Some text -> crlf_only text) /\
  (exists sinv, id_sphinx content uri_x = IOk sinv) /\
  plain_header content.
Proof.
  cbv zeta. repeat split.
  - vm_compute. repeat constructor; discriminate.
  - intros text H. vm_compute in H. inversion H; subst text. cbn [crlf_only]. crlf_tac.
  - destruct (id_sphinx (v2_header ++ body_good) uri_x) as [s|e] eqn:E; [eauto | vm_compute in E; discriminate].
  - vm_compute. repeat constructor.
Qed.

(* the premises of C18_bad_line_isolated: header lines, two streams, a malformed line in the middle *)
Theorem bad_line_premises_satisfiable :
  exists l0 l1 l2 l3 z z' A bad B s,
    find_nl l0 = None /\ find_nl l1 = None /\ find_nl l2 = None /\ find_nl l3 = None /\
    (exists s0, utf8_decode l0 = Some s0 /\ rstrip s0 = hdr_v2) /\
    BadLineProofs.inflates unit tt idstep idflush iderr z (A ++ bad ++ 10 :: B) /\
    BadLineProofs.inflates unit tt idstep idflush iderr z' (A ++ B) /\
    BadLineProofs.aligned A /\ find_nl bad = None /\ utf8_decode bad = Some s /\
    BadLineProofs.v2_malformed match_line_exec s.
Proof.
  exists hdr_v2, [35], [35], zlib_marker,
         ([97; 32; 98; 58; 99; 32; 49; 32; 120; 32; 45; 10] ++ [103; 97; 114; 98; 97; 103; 101] ++ 10 :: [100; 32; 98; 58; 99; 32; 49; 32; 121; 32; 45; 10]),
         ([97; 32; 98; 58; 99; 32; 49; 32; 120; 32; 45; 10] ++ [100; 32; 98; 58; 99; 32; 49; 32; 121; 32; 45; 10]),
         [97; 32; 98; 58; 99; 32; 49; 32; 120; 32; 45; 10], [103; 97; 114; 98; 97; 103; 101],
         [100; 32; 98; 58; 99; 32; 49; 32; 121; 32; 45; 10], [103; 97; 114; 98; 97; 103; 101].
  repeat split.
  all: try (vm_compute; reflexivity).
  all: try (exists hdr_v2; split; vm_compute; reflexivity).
  all: try (right; exists [97; 32; 98; 58; 99; 32; 49; 32; 120; 32; 45]; reflexivity).
  all: try (vm_compute; exact I).
Qed.
