(* C18 round 3: the definitions regenerated from inventory.py (Gen/InventorySrc.v) equal the
   hand-written models (Reader.v, Load.v).  These refinement lemmas are the proof obligations that
   an edit of the source breaks. *)
From Coq Require Import List NArith ZArith Bool Lia.
From MV Require Import Base.PyStr Inv.WildModel Gen.Inventory InvLoad.Basics InvLoad.PyText InvLoad.Reader
  InvLoad.Load InvLoad.SrcPrims InvLoad.ReaderProofs InvLoad.DictProofs Gen.InventorySrc.
Import ListNotations.

(* ---------------- the primitives of the domain mapping ---------------- *)

Lemma str_eqb_nil (s : str) : str_eqb s [] = is_nil s.
Proof. destruct s; reflexivity. Qed.

Lemma zfind_none c b : find_char c b = None -> zfind c b = (-1)%Z.
Proof. intro H. unfold zfind. rewrite H. reflexivity. Qed.

Lemma zfind_some c b n : find_char c b = Some n -> zfind c b = Z.of_nat n.
Proof. intro H. unfold zfind. rewrite H. reflexivity. Qed.

Lemma zfind_test c b : Z.eqb (zfind c b) (-1) = match find_char c b with Some _ => false | None => true end.
Proof. unfold zfind. destruct (find_char c b); [|reflexivity]. apply Z.eqb_neq. lia. Qed.

Lemma znorm_nat len n : (n <= len)%nat -> znorm len (Z.of_nat n) = n.
Proof.
  intro H. unfold znorm. assert (E : (Z.of_nat n <? 0)%Z = false) by (apply Z.ltb_ge; lia).
  rewrite E, Nat2Z.id. lia.
Qed.

Lemma zslice_to_nat {A} (l : list A) n : (n <= length l)%nat -> zslice_to l (Z.of_nat n) = firstn n l.
Proof. intro H. unfold zslice_to. rewrite znorm_nat by exact H. reflexivity. Qed.

Lemma zslice_from_succ {A} (l : list A) n : (n < length l)%nat ->
  zslice_from l (Z.of_nat n + 1) = skipn (S n) l.
Proof.
  intro H. unfold zslice_from. replace (Z.of_nat n + 1)%Z with (Z.of_nat (S n)) by lia.
  rewrite znorm_nat by lia. reflexivity.
Qed.

Lemma al_update_fuse {V} k (f g : V -> V) (l : list (str * V)) :
  al_update k g (al_update k f l) = al_update k (fun x => g (f x)) l.
Proof.
  induction l as [|[k0 v0] l IH]; cbn [al_update]; [reflexivity|].
  destruct (str_eqb k k0) eqn:E; cbn [al_update]; rewrite E; [reflexivity|]. rewrite IH. reflexivity.
Qed.

(* setdefault, setdefault, then the assignment = objs_insert *)
Lemma insert_two_steps d t n it objs :
  al_update d (fun dm => al_update t (fun tm => al_set n it tm) dm)
    (al_update d (fun dm => al_setdefault t [] dm) (al_setdefault d [] objs)) =
  objs_insert d t n it objs.
Proof. unfold objs_insert. rewrite al_update_fuse. reflexivity. Qed.

(* ---------------- InventoryFileReader ---------------- *)

Theorem read_buffer_src_eq r : read_buffer_src r = read_buffer r.
Proof.
  unfold read_buffer_src, read_buffer. destruct (stream_read (stream r)) as [chunk s'].
  rewrite str_eqb_nil. destruct (is_nil chunk); reflexivity.
Qed.

Section ReaderSrc.

Variable dstate : Type.
Variable dinit : dstate.
Variable dstep : dstate -> bytes -> dstate * bytes.
Variable dflush : dstate -> bytes.
Variable derr : dstate -> bool.
Variable decode : bytes -> option str.

Notation dec := (dec decode).

Lemma readline_while_eq : forall fuel (K : reader -> Z -> ires (str * reader)) r,
  readline_src_while1 K fuel r (zfind 10 (buffer r)) =
  match readline_loop fuel r with
  | IOk r1 => K r1 (zfind 10 (buffer r1))
  | IRaise e => IRaise e
  end.
Proof.
  induction fuel as [|f IH]; intros K r; cbn [readline_src_while1 readline_loop];
    rewrite zfind_test; unfold find_nl; destruct (find_char 10 (buffer r)); cbn [andb]; try reflexivity;
    destruct (eof r); cbn [negb]; try reflexivity.
  rewrite read_buffer_src_eq. apply IH.
Qed.

Theorem readline_src_eq r : readline_src decode r = readline decode r.
Proof.
  unfold readline_src, readline. rewrite readline_while_eq.
  destruct (readline_loop (readline_fuel r) r) as [r1|e]; cbn [ibind]; [|reflexivity].
  rewrite zfind_test. unfold find_nl. destruct (find_char 10 (buffer r1)) as [pos|] eqn:F; cbn [negb].
  - destruct (find_char_Some _ _ _ F) as [Hpos _].
    rewrite (zfind_some _ _ _ F). rewrite zslice_to_nat by lia. rewrite zslice_from_succ by lia.
    destruct (dec (firstn pos (buffer r1))); reflexivity.
  - destruct (dec (buffer r1)); reflexivity.
Qed.

Lemma readlines_while_eq : forall fuel r,
  readlines_src_while1 decode (fun _ => (nil, None)) fuel r = readlines_loop decode fuel r.
Proof.
  induction fuel as [|f IH]; intro r; cbn [readlines_src_while1 readlines_loop];
    destruct (eof r); cbn [negb]; try reflexivity.
  rewrite readline_src_eq. destruct (readline decode r) as [[line r']|e]; [|reflexivity].
  rewrite IH. destruct (is_nil line); reflexivity.
Qed.

Theorem readlines_src_eq r : readlines_src decode r = readlines decode r.
Proof. unfold readlines_src, readlines. apply readlines_while_eq. Qed.

Lemma rcc_while_eq : forall fuel r st,
  read_compressed_chunks_src_while1 dstate dstep derr
    (fun _ d => gcons (dflush d) (nil, None)) fuel r st =
  rcc_loop dstate dstep dflush derr fuel r st.
Proof.
  induction fuel as [|f IH]; intros r st; cbn [read_compressed_chunks_src_while1 rcc_loop];
    destruct (eof r); cbn [negb]; try reflexivity.
  rewrite read_buffer_src_eq. destruct (dstep st (buffer (read_buffer r))) as [st' out].
  destruct (derr st'); [reflexivity|]. rewrite IH.
  destruct (rcc_loop dstate dstep dflush derr f (set_buffer (read_buffer r) []) st'). reflexivity.
Qed.

Theorem read_compressed_chunks_src_eq r :
  read_compressed_chunks_src dstate dinit dstep dflush derr r =
  read_compressed_chunks dstate dinit dstep dflush derr r.
Proof. unfold read_compressed_chunks_src, read_compressed_chunks. apply rcc_while_eq. Qed.

(* the inner while loop in tail form = rcl_inner followed by the continuation *)
Lemma rcl_while_eq : forall fuel (K : bytes -> bytes -> Z -> lseq) buf chunk,
  read_compressed_lines_src_while1 decode K fuel buf chunk (zfind 10 buf) =
  let (q, buf2) := rcl_inner decode fuel buf in
  match snd q with
  | Some _ => q
  | None => let q' := K buf2 chunk (zfind 10 buf2) in (fst q ++ fst q', snd q')
  end.
Proof.
  induction fuel as [|f IH]; intros K buf chunk; cbn [read_compressed_lines_src_while1 rcl_inner];
    rewrite zfind_test; unfold find_nl; destruct (find_char 10 buf) as [pos|] eqn:F; cbn [negb fst snd app];
    try reflexivity; try (destruct (K buf chunk (zfind 10 buf)); reflexivity).
  destruct (find_char_Some _ _ _ F) as [Hpos _].
  rewrite (zfind_some _ _ _ F). rewrite zslice_to_nat by lia. rewrite zslice_from_succ by lia.
  destruct (dec (firstn pos buf)) as [line|e]; [|reflexivity].
  rewrite IH. destruct (rcl_inner decode f (skipn (S pos) buf)) as [q buf2].
  destruct q as [ls [e|]]; cbn [fst snd lseq_cons gcons app]; reflexivity.
Qed.

Lemma rcl_for_eq ce : forall chunks buf,
  read_compressed_lines_src_for1 decode
    (fun buf => match ce with
                | Some e => (nil, Some e)
                | None => if negb (is_nil buf)
                          then match dec buf with
                               | IRaise e => (nil, Some e)
                               | IOk c => gcons c (nil, None)
                               end
                          else (nil, None)
                end) chunks buf =
  rcl_loop decode chunks ce buf.
Proof.
  induction chunks as [|c cs IH]; intro buf; cbn [read_compressed_lines_src_for1 rcl_loop].
  - destruct ce; [reflexivity|]. destruct (is_nil buf); cbn [negb]; [reflexivity|].
    destruct (dec buf); reflexivity.
  - rewrite rcl_while_eq. destruct (rcl_inner decode (length (buf ++ c)) (buf ++ c)) as [q buf2].
    destruct (snd q); [reflexivity|]. rewrite IH. reflexivity.
Qed.

Theorem read_compressed_lines_src_eq r :
  read_compressed_lines_src dstate dinit dstep dflush derr decode r =
  read_compressed_lines dstate dinit dstep dflush derr decode r.
Proof.
  unfold read_compressed_lines_src, read_compressed_lines. rewrite read_compressed_chunks_src_eq.
  destruct (read_compressed_chunks dstate dinit dstep dflush derr r) as [chunks ce].
  apply rcl_for_eq.
Qed.

End ReaderSrc.

(* ---------------- load, _load_v1, _load_v2 ---------------- *)

Section LoadSrc.

Variable dstate : Type.
Variable dinit : dstate.
Variable dstep : dstate -> bytes -> dstate * bytes.
Variable dflush : dstate -> bytes.
Variable derr : dstate -> bool.
Variable decode : bytes -> option str.
Variable match_line : str -> option (str * str * str * str * str).

Lemma fold_lines_split step objs ls g :
  fold_lines step objs ls g =
  match fold_lines step objs ls None with
  | IOk o => match g with Some e => IRaise e | None => IOk o end
  | IRaise e => IRaise e
  end.
Proof.
  revert objs. induction ls as [|l ls IH]; intro objs; cbn [fold_lines].
  - destruct g; reflexivity.
  - destruct (step objs l); cbn [ibind]; [apply IH | reflexivity].
Qed.

(* the body of _load_v1's loop is v1_step *)
Lemma load_v1_for_eq (K : option str -> str -> str -> str -> str -> option str -> objs_t -> ires inventory) :
  forall lines b pn ver n v bu objs,
  load_v1_src_for1 K lines b pn ver n v bu objs =
  match fold_lines v1_step objs lines None with
  | IOk o => K b pn ver n v bu o
  | IRaise e => IRaise e
  end.
Proof.
  induction lines as [|l lines IH]; intros; cbn [load_v1_src_for1 fold_lines]; [reflexivity|].
  unfold v1_step at 1.
  destruct (split_ws 2 (rstrip l)) as [|name [|objtype [|location [|x r]]]]; try reflexivity.
  change [109; 111; 100]%N with s_mod.
  destruct (str_eqb objtype s_mod); cbn [ibind negb]; rewrite insert_two_steps; rewrite IH; reflexivity.
Qed.

Theorem load_v1_src_eq r base : load_v1_src decode r base = load_v1 decode r base.
Proof.
  unfold load_v1_src, load_v1. rewrite readline_src_eq.
  destruct (readline decode r) as [[l1 r1]|e]; cbn [ibind]; [|reflexivity].
  rewrite readline_src_eq. destruct (readline decode r1) as [[l2 r2]|e]; cbn [ibind]; [|reflexivity].
  rewrite readlines_src_eq. destruct (readlines decode r2) as [lines g]. cbn [fst snd].
  rewrite load_v1_for_eq. rewrite (fold_lines_split v1_step [] lines g).
  destruct (fold_lines v1_step [] lines None); cbn [ibind]; [|reflexivity].
  destruct g; reflexivity.
Qed.

(* the body of _load_v2's loop is v2_step *)
Lemma load_v2_for_eq (K : option str -> str -> str -> str -> str -> option str -> objs_t -> ires inventory) :
  forall lines b pn ver n v bu objs,
  load_v2_src_for1 match_line K lines b pn ver n v bu objs =
  K b pn ver n v bu (fold_left (v2_step match_line) lines objs).
Proof.
  induction lines as [|l lines IH]; intros; cbn [load_v2_src_for1 fold_left]; [reflexivity|].
  unfold v2_step at 2.
  destruct (match_line (rstrip l)) as [[[[[name type] prio] location] text]|]; [|apply IH].
  unfold c_colon. destruct (negb (mem_N 58 type)); [apply IH|].
  change [112; 121; 58; 109; 111; 100; 117; 108; 101]%N with s_py_module.
  change [109; 111; 100; 117; 108; 101]%N with s_module. change [112; 121]%N with s_py.
  destruct (str_eqb type s_py_module && al_mem s_module (al_get_or_empty s_py objs)
            && al_mem name (al_get_or_empty s_module (al_get_or_empty s_py objs))); [apply IH|].
  change [36]%N with s_dollar. change [45]%N with s_dash. rewrite negb_involutive.
  destruct (endswith location s_dollar); destruct (split_at 58 type) as [domain objtype];
    destruct (is_nil text || str_eqb text s_dash); rewrite insert_two_steps; apply IH.
Qed.

Lemma fold_lines_pure' (f : objs_t -> str -> objs_t) ls objs g :
  fold_lines (fun o l => IOk (f o l)) objs ls g =
  match g with Some e => IRaise e | None => IOk (fold_left f ls objs) end.
Proof.
  revert objs. induction ls as [|l ls IH]; intro objs; cbn [fold_lines fold_left ibind]; [reflexivity | apply IH].
Qed.

Theorem load_v2_src_eq r base :
  load_v2_src dstate dinit dstep dflush derr decode match_line r base =
  load_v2 dstate dinit dstep dflush derr decode match_line r base.
Proof.
  unfold load_v2_src, load_v2. rewrite readline_src_eq.
  destruct (readline decode r) as [[l1 r1]|e]; cbn [ibind]; [|reflexivity].
  rewrite readline_src_eq. destruct (readline decode r1) as [[l2 r2]|e]; cbn [ibind]; [|reflexivity].
  rewrite readline_src_eq. destruct (readline decode r2) as [[l3 r3]|e]; cbn [ibind]; [|reflexivity].
  change [122; 108; 105; 98]%N with zlib_marker.
  destruct (negb (contains zlib_marker l3)); [reflexivity|].
  rewrite read_compressed_lines_src_eq.
  destruct (read_compressed_lines dstate dinit dstep dflush derr decode r3) as [lines g]. cbn [fst snd].
  rewrite load_v2_for_eq. rewrite fold_lines_pure'. destruct g; reflexivity.
Qed.

Theorem load_src_eq cs base :
  load_src dstate dinit dstep dflush derr decode match_line cs base =
  load dstate dinit dstep dflush derr decode match_line cs base.
Proof.
  unfold load_src, load. rewrite readline_src_eq.
  destruct (readline decode (new_reader cs)) as [[l0 r0]|e]; cbn [ibind]; [|reflexivity].
  change [35; 32; 83; 112; 104; 105; 110; 120; 32; 105; 110; 118; 101; 110; 116; 111; 114; 121; 32; 118; 101;
          114; 115; 105; 111; 110; 32; 49]%N with hdr_v1.
  change [35; 32; 83; 112; 104; 105; 110; 120; 32; 105; 110; 118; 101; 110; 116; 111; 114; 121; 32; 118; 101;
          114; 115; 105; 111; 110; 32; 50]%N with hdr_v2.
  destruct (str_eqb (rstrip l0) hdr_v1).
  - rewrite load_v1_src_eq. destruct (load_v1 decode r0 base); reflexivity.
  - destruct (str_eqb (rstrip l0) hdr_v2); [|reflexivity].
    rewrite load_v2_src_eq. destruct (load_v2 dstate dinit dstep dflush derr decode match_line r0 base); reflexivity.
Qed.

End LoadSrc.

(* ---------------- from_sphinx, to_sphinx ---------------- *)

Lemma from_sphinx_for2_eq (K : sinv_t -> str -> str -> objs_t -> str -> list (str * sitem) -> str -> str -> inventory) :
  forall items inv p v objs k data d t,
  from_sphinx_src_for2 K items inv p v objs k data d t =
  let '(p', v', objs') :=
    fold_left (fun '(p, v, objs) '(refname, (project, version, uri, text)) =>
                 (project, version,
                  al_update d (fun dm => al_update t
                     (fun tm => al_set refname {| it_loc := uri; it_text := norm_text text |} tm) dm) objs))
              items (p, v, objs) in
  K inv p' v' objs' k data d t.
Proof.
  induction items as [|[refname [[[project version] uri] text]] items IH]; intros;
    cbn [from_sphinx_src_for2 fold_left]; [reflexivity|].
  rewrite IH. unfold norm_text. change [45]%N with s_dash. rewrite negb_involutive. reflexivity.
Qed.

Lemma from_sphinx_for1_eq (K : sinv_t -> str -> str -> objs_t -> inventory) :
  forall items inv p v objs,
  from_sphinx_src_for1 K items inv p v objs =
  let '(p', v', objs') := fold_left from_sphinx_key items (p, v, objs) in K inv p' v' objs'.
Proof.
  induction items as [|[key data] items IH]; intros; cbn [from_sphinx_src_for1 fold_left]; [reflexivity|].
  unfold from_sphinx_key at 2. unfold c_colon.
  destruct (negb (mem_N 58 key)); [apply IH|].
  destruct (split_at 58 key) as [d t]. rewrite from_sphinx_for2_eq.
  assert (E : forall X : str * str * objs_t,
             (let '(p', v', o') := X in from_sphinx_src_for1 K items inv p' v' o') =
             (let '(p', v', o') := fold_left from_sphinx_key items X in K inv p' v' o'))
    by (intros [[a b] c]; apply IH).
  apply E.
Qed.

Theorem from_sphinx_src_eq s : from_sphinx_src s = from_sphinx s.
Proof.
  unfold from_sphinx_src, from_sphinx. rewrite from_sphinx_for1_eq. reflexivity.
Qed.

Lemma to_sphinx_for3_eq (K : inventory -> sinv_t -> str -> list (str * list (str * item)) -> str -> list (str * item) -> sinv_t) :
  forall items inv objs d ts t refs,
  to_sphinx_src_for3 K items inv objs d ts t refs =
  K inv (fold_left (fun acc '(refname, it) =>
           sinv_insert (d ++ [c_colon] ++ t) refname
             (inv_name inv, inv_version inv, it_loc it, text_or_dash (it_text it)) acc) items objs) d ts t refs.
Proof.
  induction items as [|[refname it] items IH]; intros; cbn [to_sphinx_src_for3 fold_left]; [reflexivity|].
  rewrite IH. reflexivity.
Qed.

Lemma to_sphinx_for2_eq (K : inventory -> sinv_t -> str -> list (str * list (str * item)) -> sinv_t) :
  forall items inv objs d ts,
  to_sphinx_src_for2 K items inv objs d ts =
  K inv (fold_left (fun acc '(objtype, refs) =>
           fold_left (fun acc '(refname, it) =>
             sinv_insert (d ++ [c_colon] ++ objtype) refname
               (inv_name inv, inv_version inv, it_loc it, text_or_dash (it_text it)) acc) refs acc) items objs) d ts.
Proof.
  induction items as [|[t refs] items IH]; intros; cbn [to_sphinx_src_for2 fold_left]; [reflexivity|].
  rewrite to_sphinx_for3_eq. apply IH.
Qed.

Lemma to_sphinx_for1_eq (K : inventory -> sinv_t -> sinv_t) :
  forall items inv objs,
  to_sphinx_src_for1 K items inv objs =
  K inv (fold_left (fun acc '(domain, types) =>
           fold_left (fun acc '(objtype, refs) =>
             fold_left (fun acc '(refname, it) =>
               sinv_insert (domain ++ [c_colon] ++ objtype) refname
                 (inv_name inv, inv_version inv, it_loc it, text_or_dash (it_text it)) acc) refs acc) types acc)
         items objs).
Proof.
  induction items as [|[d ts] items IH]; intros; cbn [to_sphinx_src_for1 fold_left]; [reflexivity|].
  rewrite to_sphinx_for2_eq. apply IH.
Qed.

Theorem to_sphinx_src_eq inv : to_sphinx_src inv = to_sphinx inv.
Proof. unfold to_sphinx_src, to_sphinx. apply to_sphinx_for1_eq. Qed.
