(* C18: sphinx.util.inventory.InventoryFile.loads / _loads_v1 / _loads_v2 of the installed
   Sphinx (8.2.3), transcribed (modelled external, not verified; compared with the real
   functions by the correspondence run, command "sphinx").
   The result is _Inventory.data: type -> name -> (project, version, uri, display name).
   zlib.decompress is the Section variable [dz] (None = zlib.error); the logging of
   ambiguous std:label / std:term definitions has no effect on the result and is left out. *)
From Coq Require Import List NArith Bool.
From MV Require Import Base.PyStr Gen.Inventory InvLoad.Basics InvLoad.PyText InvLoad.Reader InvLoad.Load.
Import ListNotations.
Open Scope N_scope.

Definition s_version_prefix : bytes :=      (* b'# Sphinx inventory version ' *)
  [35; 32; 83; 112; 104; 105; 110; 120; 32; 105; 110; 118; 101; 110; 116; 111; 114; 121; 32;
   118; 101; 114; 115; 105; 111; 110; 32].

Definition bytes_eqb (a b : bytes) : bool := str_eqb a b.

Section Sphinx.

Variable dz : bytes -> option bytes.
Variable decode : bytes -> option str.          (* None = UnicodeDecodeError *)
Variable match_line : str -> option (str * str * str * str * str).

Notation dec := (dec decode).

(* content.partition(b"\n") -> (before, after) *)
Definition partition_nl (b : bytes) : bytes * bytes :=
  match find_nl b with
  | None => (b, [])
  | Some pos => (firstn pos b, skipn (S pos) b)
  end.

(* inv[type, name] = item *)
Definition sphinx_set (typ name : str) (v : sitem) (inv : sinv_t) : sinv_t :=
  sinv_insert typ name v inv.

(* (type, name) in inv *)
Definition sphinx_contains (typ name : str) (inv : sinv_t) : bool :=
  match al_get typ inv with
  | None => false
  | Some m => al_mem name m
  end.

(* ---------------- _loads_v1 ---------------- *)

Definition sphinx_v1_step (uri projname version : str) (inv : sinv_t) (line : str) : ires sinv_t :=
  match split_ws 2 (rstrip line) with
  | [name; item_type; location] =>
      let location := pjoin uri location in
      if str_eqb item_type s_mod then
        IOk (sphinx_set s_py_module name
               (projname, version, location ++ s_hash_module ++ name, s_dash) inv)
      else
        IOk (sphinx_set (s_py ++ [c_colon] ++ item_type) name
               (projname, version, location ++ s_hash ++ name, s_dash) inv)
  | _ => IRaise ValueErr
  end.

Fixpoint sphinx_fold_v1 (uri projname version : str) (inv : sinv_t) (lines : list str) : ires sinv_t :=
  match lines with
  | [] => IOk inv
  | l :: ls => dob inv' <- sphinx_v1_step uri projname version inv l;
               sphinx_fold_v1 uri projname version inv' ls
  end.

Definition sphinx_loads_v1 (lines : list str) (uri : str) : ires sinv_t :=
  match lines with
  | l0 :: l1 :: rest =>
      let projname := skipn sphinx_v1_name_off (rstrip l0) in
      let version := skipn sphinx_v1_version_off (rstrip l1) in
      sphinx_fold_v1 uri projname version [] rest
  | _ => IRaise ValueErr          (* len(lines) < 2 *)
  end.

(* ---------------- _loads_v2 ---------------- *)

Definition sphinx_v2_step (uri projname version : str) (inv : sinv_t) (line : str) : sinv_t :=
  match match_line (rstrip line) with
  | None => inv
  | Some (name, type, _, location, dispname) =>
      if negb (mem_N c_colon type) then inv
      else if str_eqb type s_py_module && sphinx_contains type name inv then inv
      else
        let location := if endswith location s_dollar
                        then removelast location ++ name else location in
        let location := pjoin uri location in
        sphinx_set type name (projname, version, location, dispname) inv
  end.

Definition sphinx_loads_v2 (inv_data : bytes) (uri : str) : ires sinv_t :=
  match bsplit_nl 3 inv_data with
  | [line_1; line_2; check_line; compressed] =>
      dob projname <- dec (skipn sphinx_v2_name_off (brstrip line_1));
      dob version <- dec (skipn sphinx_v2_version_off (brstrip line_2));
      if negb (contains sphinx_zlib_marker check_line) then
        (* the message formats check_line.decode() *)
        dob _ <- dec check_line; IRaise ValueErr
      else
        match dz compressed with
        | None => IRaise ZlibErr
        | Some content =>
            dob text <- dec content;
            IOk (fold_left (sphinx_v2_step uri projname version) (splitlines text) [])
        end
  | _ => IRaise ValueErr          (* fewer than four parts *)
  end.

(* ---------------- loads ---------------- *)

Definition sphinx_loads (content : bytes) (uri : str) : ires sinv_t :=
  let (format_line, rest) := partition_nl content in
  let format_line := brstrip format_line in
  if bytes_eqb format_line sphinx_hdr_v2 then sphinx_loads_v2 rest uri
  else if bytes_eqb format_line sphinx_hdr_v1 then
    dob text <- dec rest;
    sphinx_loads_v1 (splitlines text) uri
  else if startswith format_line s_version_prefix then
    dob _ <- dec (skipn 27 format_line); IRaise ValueErr
  else
    dob _ <- dec format_line; IRaise ValueErr.

(* the text whose lines Sphinx's loader iterates over (None when it does not get that far) *)
Definition sphinx_text (content : bytes) : option str :=
  let (format_line, rest) := partition_nl content in
  if bytes_eqb (brstrip format_line) sphinx_hdr_v2 then
    match bsplit_nl 3 rest with
    | [_; _; _; compressed] =>
        match dz compressed with
        | Some body => decode body
        | None => None
        end
    | _ => None
    end
  else if bytes_eqb (brstrip format_line) sphinx_hdr_v1 then decode rest
  else None.

End Sphinx.
