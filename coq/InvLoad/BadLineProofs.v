(* C18: a malformed line is skipped (format v2, blank line in v1) or makes the load fail with
   ValueError (v1 line with fewer than three fields); the other entries are those of the file
   without the line. *)
From Coq Require Import List NArith Bool Lia.
From MV Require Import Base.PyStr Inv.WildModel Gen.Inventory InvLoad.Basics InvLoad.PyText
  InvLoad.Reader InvLoad.Load InvLoad.ReaderProofs InvLoad.LoadProofs.
Import ListNotations.
Open Scope N_scope.

(* A ends at a line boundary *)
Definition aligned (A : bytes) : Prop := A = [] \/ exists A', A = A' ++ [10].

Lemma split_nl_app_nl A X : split_nl (A ++ 10 :: X) = split_nl A ++ split_nl X.
Proof.
  induction A as [|c A IH]; cbn [app split_nl]; [reflexivity|].
  destruct (c =? 10); [rewrite IH; reflexivity|].
  rewrite IH. assert (NE := split_nl_nonempty A). destruct (split_nl A); [contradiction|reflexivity].
Qed.

Lemma split_insert A bad B : aligned A -> find_nl bad = None ->
  exists P, split_nl (A ++ bad ++ 10 :: B) = P ++ bad :: split_nl B /\
            split_nl (A ++ B) = P ++ split_nl B.
Proof.
  intros [E|[A' E]] F; subst A.
  - exists []. cbn [app]. rewrite split_nl_app_nl, (split_nl_none _ F). auto.
  - exists (split_nl A'). rewrite <- !app_assoc. cbn [app].
    rewrite !split_nl_app_nl, (split_nl_none _ F). auto.
Qed.

Lemma trim_last_app P S : S <> [] -> trim_last (P ++ S) = P ++ trim_last S.
Proof.
  intro NE. induction P as [|p P IH]; [reflexivity|]. cbn [app].
  rewrite trim_last_cons; [rewrite IH; reflexivity|]. destruct P; cbn; [exact NE | discriminate].
Qed.

(* rewrite modulo the synonyms bytes = str = list N *)
Ltac rw_bytes lem :=
  let Q := fresh in
  pose proof lem as Q; unfold bytes, str in Q; unfold bytes, str; rewrite Q; clear Q.

Section BadLine.

Variable dstate : Type.
Variable dinit : dstate.
Variable dstep : dstate -> bytes -> dstate * bytes.
Variable dflush : dstate -> bytes.
Variable derr : dstate -> bool.
Variable decode : bytes -> option str.
Variable match_line : str -> option (str * str * str * str * str).
Hypothesis O_zlib_stream : zlib_stream_ok dstate dstep derr.

Notation dec := (dec decode).
Notation load := (load dstate dinit dstep dflush derr decode match_line).
Notation v2_step := (v2_step match_line).

(* the line does not match the pattern, or its type field has no colon *)
Definition v2_malformed (s : str) : Prop :=
  match match_line (rstrip s) with
  | None => True
  | Some (_, type, _, _, _) => mem_N c_colon type = false
  end.

Lemma v2_step_malformed objs s : v2_malformed s -> v2_step objs s = objs.
Proof.
  unfold v2_malformed, Load.v2_step.
  destruct (match_line (rstrip s)) as [[[[[name type] prio] loc] text]|]; [|reflexivity].
  intro H. rewrite H. reflexivity.
Qed.

(* the for-loop over a lazily decoded line sequence *)
Definition run_lines (step : objs_t -> str -> ires objs_t) (skip : bool) (ps : list bytes) (objs : objs_t)
  : ires objs_t :=
  let q := decode_lines decode skip ps in fold_lines step objs (fst q) (snd q).

Lemma run_lines_cons step skip p ps objs :
  run_lines step skip (p :: ps) objs =
  match dec p with
  | IRaise e => IRaise e
  | IOk l => if skip && is_nil l then run_lines step skip ps objs
             else dob o <- step objs l; run_lines step skip ps o
  end.
Proof.
  unfold run_lines. cbn [decode_lines]. destruct (dec p) as [l|e]; [|reflexivity].
  destruct (skip && is_nil l); reflexivity.
Qed.

Lemma run_lines_insert step skip bad s : decode bad = Some s ->
  ((skip && is_nil s = true) \/ forall o, step o s = IOk o) ->
  forall P T objs, run_lines step skip (P ++ bad :: T) objs = run_lines step skip (P ++ T) objs.
Proof.
  intros D H. induction P as [|p P IH]; intros T objs; cbn [app].
  - rewrite run_lines_cons. unfold Reader.dec. rewrite D.
    destruct H as [H|H]; [rewrite H; reflexivity|].
    destruct (skip && is_nil s); [reflexivity|]. rewrite H. reflexivity.
  - rewrite !run_lines_cons. destruct (dec p) as [l|e]; [|reflexivity].
    destruct (skip && is_nil l); [apply IH|].
    destruct (step objs l); cbn [ibind]; [apply IH | reflexivity].
Qed.

(* ---------------- format v2 ---------------- *)

(* zlib turns z into out without error *)
Definition inflates (z out : bytes) : Prop :=
  let (st, o) := dstep dinit z in derr st = false /\ o ++ dflush st = out.

Lemma a_readline_line l rest : find_nl l = None ->
  a_readline (l ++ 10 :: rest) = (l, (rest, false)).
Proof.
  intro F. unfold a_readline. unfold find_nl in *. rewrite (find_char_hit 10 l rest F).
  rewrite firstn_app_l by lia. rewrite firstn_all.
  rewrite skipn_app. rewrite skipn_all2 by lia.
  replace (S (length l) - length l)%nat with 1%nat by lia. reflexivity.
Qed.

Theorem bad_line_isolated_v2 l0 l1 l2 l3 z z' A bad B s base :
  find_nl l0 = None -> find_nl l1 = None -> find_nl l2 = None -> find_nl l3 = None ->
  (exists s0, decode l0 = Some s0 /\ rstrip s0 = hdr_v2) ->
  inflates z (A ++ bad ++ 10 :: B) -> inflates z' (A ++ B) ->
  aligned A -> find_nl bad = None -> decode bad = Some s -> v2_malformed s ->
  load [l0 ++ 10 :: l1 ++ 10 :: l2 ++ 10 :: l3 ++ 10 :: z] base =
  load [l0 ++ 10 :: l1 ++ 10 :: l2 ++ 10 :: l3 ++ 10 :: z'] base.
Proof.
  intros F0 F1 F2 F3 [s0 [D0 R0]] I I' AL FB D M.
  rewrite !load_single by exact O_zlib_stream. unfold load_spec.
  rewrite !(a_readline_line l0) by exact F0.
  assert (E0 : dec l0 = IOk s0) by (unfold Reader.dec; rewrite D0; reflexivity).
  rewrite !E0. cbn [ibind]. rewrite R0.
  assert (HN : str_eqb hdr_v2 hdr_v1 = false) by (vm_compute; reflexivity).
  rewrite HN, str_eqb_refl.
  unfold load_v2_spec.
  rewrite !(a_readline_line l1) by exact F1. destruct (dec l1) as [s1|e]; cbn [ibind]; [|reflexivity].
  rewrite !(a_readline_line l2) by exact F2. destruct (dec l2) as [s2|e]; cbn [ibind]; [|reflexivity].
  rewrite !(a_readline_line l3) by exact F3. destruct (dec l3) as [s3|e]; cbn [ibind]; [|reflexivity].
  destruct (negb (contains zlib_marker s3)); [reflexivity|].
  unfold a_rcl, inflates in *.
  destruct (dstep dinit z) as [st o]. destruct I as [I1 I2].
  destruct (dstep dinit z') as [st' o']. destruct I' as [I1' I2'].
  rewrite I1, I2, I1', I2'.
  destruct (split_insert A bad B AL FB) as [P [S1 S2]].
  unfold lines_of. rewrite S1, S2.
  change (P ++ bad :: split_nl B) with (P ++ [bad] ++ split_nl B). rewrite app_assoc.
  rw_bytes (trim_last_app (P ++ [bad]) (split_nl B) (split_nl_nonempty B)).
  rw_bytes (trim_last_app P (split_nl B) (split_nl_nonempty B)).
  rewrite <- app_assoc. cbn [app].
  assert (R := run_lines_insert (fun o l => IOk (v2_step o l)) false bad s D
                 (or_intror (fun o => f_equal IOk (v2_step_malformed o s M)))
                 P (trim_last (split_nl B)) []).
  unfold run_lines in R. unfold bytes, str in *. rewrite R. reflexivity.
Qed.

(* a v2 file whose zlib stream inflates without error never makes load raise zlib.error *)
Lemma v2_file_not_zlib_err l0 l1 l2 l3 z body base :
  find_nl l0 = None -> find_nl l1 = None -> find_nl l2 = None -> find_nl l3 = None ->
  inflates z body ->
  load [l0 ++ 10 :: l1 ++ 10 :: l2 ++ 10 :: l3 ++ 10 :: z] base <> IRaise ZlibErr.
Proof.
  intros F0 F1 F2 F3 I. rewrite load_single by exact O_zlib_stream. unfold load_spec.
  rewrite (a_readline_line l0) by exact F0.
  destruct (dec l0) as [s0|e] eqn:D0; cbn [ibind].
  2:{ intro H. inversion H; subst. apply dec_err in D0. discriminate. }
  destruct (str_eqb (rstrip s0) hdr_v1).
  - unfold load_v1_spec. rewrite (a_readline_line l1) by exact F1.
    destruct (dec l1) as [s1|e] eqn:D1; cbn [ibind].
    2:{ intro H. inversion H; subst. apply dec_err in D1. discriminate. }
    rewrite (a_readline_line l2) by exact F2.
    destruct (dec l2) as [s2|e] eqn:D2; cbn [ibind].
    2:{ intro H. inversion H; subst. apply dec_err in D2. discriminate. }
    match goal with |- (dob objs <- ?X; _) <> _ => destruct X as [o|e] eqn:F end; cbn [ibind]; [discriminate|].
    intro H. inversion H; subst. apply fold_lines_err in F. destruct F as [[o [l F]]|F].
    + apply v1_step_err in F. discriminate.
    + unfold a_readlines in F. apply decode_lines_err in F. discriminate.
  - destruct (str_eqb (rstrip s0) hdr_v2); [|discriminate].
    unfold load_v2_spec.
    rewrite (a_readline_line l1) by exact F1.
    destruct (dec l1) as [s1|e] eqn:D1; cbn [ibind].
    2:{ intro H. inversion H; subst. apply dec_err in D1. discriminate. }
    rewrite (a_readline_line l2) by exact F2.
    destruct (dec l2) as [s2|e] eqn:D2; cbn [ibind].
    2:{ intro H. inversion H; subst. apply dec_err in D2. discriminate. }
    rewrite (a_readline_line l3) by exact F3.
    destruct (dec l3) as [s3|e] eqn:D3; cbn [ibind].
    2:{ intro H. inversion H; subst. apply dec_err in D3. discriminate. }
    destruct (negb (contains zlib_marker s3)); [discriminate|].
    unfold a_rcl, inflates in *. destruct (dstep dinit z) as [st o]. destruct I as [I1 I2]. rewrite I1.
    match goal with |- (dob objs <- ?X; _) <> _ => destruct X as [ob|e] eqn:F end; cbn [ibind]; [discriminate|].
    intro H. inversion H; subst. apply fold_lines_err in F. destruct F as [[ob [l F]]|F]; [discriminate|].
    apply decode_lines_err in F. discriminate.
Qed.

(* C18_bad_line_isolated for every chunking of the two files *)
Theorem bad_line_isolated_v2_chunked l0 l1 l2 l3 z z' A bad B s base cs cs' :
  find_nl l0 = None -> find_nl l1 = None -> find_nl l2 = None -> find_nl l3 = None ->
  (exists s0, decode l0 = Some s0 /\ rstrip s0 = hdr_v2) ->
  inflates z (A ++ bad ++ 10 :: B) -> inflates z' (A ++ B) ->
  aligned A -> find_nl bad = None -> decode bad = Some s -> v2_malformed s ->
  live cs = l0 ++ 10 :: l1 ++ 10 :: l2 ++ 10 :: l3 ++ 10 :: z ->
  live cs' = l0 ++ 10 :: l1 ++ 10 :: l2 ++ 10 :: l3 ++ 10 :: z' ->
  load cs base = load cs' base.
Proof.
  intros F0 F1 F2 F3 H0 I I' AL FB D M L L'.
  assert (E := bad_line_isolated_v2 l0 l1 l2 l3 z z' A bad B s base F0 F1 F2 F3 H0 I I' AL FB D M).
  assert (N := v2_file_not_zlib_err l0 l1 l2 l3 z _ base F0 F1 F2 F3 I).
  assert (N' := v2_file_not_zlib_err l0 l1 l2 l3 z' _ base F0 F1 F2 F3 I').
  destruct (chunking_independent dstate dinit dstep dflush derr decode match_line O_zlib_stream cs base)
    as [C|[C _]]; rewrite L in C; [|contradiction].
  destruct (chunking_independent dstate dinit dstep dflush derr decode match_line O_zlib_stream cs' base)
    as [C'|[C' _]]; rewrite L' in C'; [|contradiction].
  rewrite C, C'. exact E.
Qed.

(* ---------------- format v1 ---------------- *)

Lemma v1_hdr_ne : str_eqb hdr_v1 hdr_v1 = true.
Proof. apply str_eqb_refl. Qed.

(* a blank line is skipped *)
Theorem blank_line_skipped_v1 l0 l1 l2 A B base :
  find_nl l0 = None -> find_nl l1 = None -> find_nl l2 = None ->
  (exists s0, decode l0 = Some s0 /\ rstrip s0 = hdr_v1) ->
  decode [] = Some [] -> aligned A ->
  load [l0 ++ 10 :: l1 ++ 10 :: l2 ++ 10 :: A ++ 10 :: B] base =
  load [l0 ++ 10 :: l1 ++ 10 :: l2 ++ 10 :: A ++ B] base.
Proof.
  intros F0 F1 F2 [s0 [D0 R0]] DN AL.
  rewrite !load_single by exact O_zlib_stream. unfold load_spec.
  rewrite !(a_readline_line l0) by exact F0.
  assert (E0 : dec l0 = IOk s0) by (unfold Reader.dec; rewrite D0; reflexivity).
  rewrite !E0. cbn [ibind]. rewrite R0, str_eqb_refl.
  unfold load_v1_spec.
  rewrite !(a_readline_line l1) by exact F1. destruct (dec l1) as [s1|e]; cbn [ibind]; [|reflexivity].
  rewrite !(a_readline_line l2) by exact F2. destruct (dec l2) as [s2|e]; cbn [ibind]; [|reflexivity].
  unfold a_readlines.
  destruct (split_insert A [] B AL eq_refl) as [P [S1 S2]]. cbn [app] in S1.
  rewrite S1, S2.
  assert (R := run_lines_insert v1_step true [] [] DN (or_introl eq_refl) P (split_nl B) []).
  unfold run_lines in R. unfold bytes, str in *. rewrite R. reflexivity.
Qed.

Lemma v1_step_ok_len o l o' : v1_step o l = IOk o' -> length (split_ws 2 (rstrip l)) = 3%nat.
Proof.
  unfold v1_step. destruct (split_ws 2 (rstrip l)) as [|a [|b [|c [|d t]]]]; try discriminate.
  reflexivity.
Qed.

Lemma run_lines_bad_v1 bad s : decode bad = Some s -> s <> [] ->
  length (split_ws 2 (rstrip s)) <> 3%nat ->
  forall P T objs, exists e, run_lines v1_step true (P ++ bad :: T) objs = IRaise e /\
                             (e = ValueErr \/ e = UnicodeDecodeErr).
Proof.
  intros D NE L. induction P as [|p P IH]; intros T objs; cbn [app]; rewrite run_lines_cons.
  - unfold Reader.dec. rewrite D. destruct s as [|c s]; [contradiction|]. cbn [is_nil andb].
    destruct (v1_step objs (c :: s)) as [o|e] eqn:V; cbn [ibind].
    + apply v1_step_ok_len in V. contradiction.
    + exists e. split; [reflexivity|]. left. eapply v1_step_err. exact V.
  - destruct (dec p) as [l|e] eqn:Dp.
    + destruct (true && is_nil l); [apply IH|].
      destruct (v1_step objs l) as [o|e] eqn:V; cbn [ibind]; [apply IH|].
      exists e. split; [reflexivity|]. left. eapply v1_step_err. exact V.
    + exists e. split; [reflexivity|]. right. eapply dec_err. exact Dp.
Qed.

(* a line with fewer than three fields makes the load fail *)
Theorem short_line_fails_v1 l0 l1 l2 A bad B s base :
  find_nl l0 = None -> find_nl l1 = None -> find_nl l2 = None ->
  (exists s0, decode l0 = Some s0 /\ rstrip s0 = hdr_v1) ->
  aligned A -> find_nl bad = None -> decode bad = Some s -> s <> [] ->
  length (split_ws 2 (rstrip s)) <> 3%nat ->
  exists e, load [l0 ++ 10 :: l1 ++ 10 :: l2 ++ 10 :: A ++ bad ++ 10 :: B] base = IRaise e /\
            (e = ValueErr \/ e = UnicodeDecodeErr).
Proof.
  intros F0 F1 F2 [s0 [D0 R0]] AL FB D NE L.
  rewrite load_single by exact O_zlib_stream. unfold load_spec.
  rewrite (a_readline_line l0) by exact F0.
  assert (E0 : dec l0 = IOk s0) by (unfold Reader.dec; rewrite D0; reflexivity).
  rewrite E0. cbn [ibind]. rewrite R0, str_eqb_refl.
  unfold load_v1_spec.
  rewrite (a_readline_line l1) by exact F1.
  destruct (dec l1) as [s1|e] eqn:D1; cbn [ibind].
  2:{ exists e. split; [reflexivity|]. right. eapply dec_err. exact D1. }
  rewrite (a_readline_line l2) by exact F2.
  destruct (dec l2) as [s2|e] eqn:D2; cbn [ibind].
  2:{ exists e. split; [reflexivity|]. right. eapply dec_err. exact D2. }
  unfold a_readlines.
  destruct (split_insert A bad B AL FB) as [P [S1 _]]. rewrite S1.
  destruct (run_lines_bad_v1 bad s D NE L P (split_nl B) []) as [e [R C]].
  unfold run_lines in R. unfold bytes, str in *. rewrite R. cbn [ibind]. eauto.
Qed.

End BadLine.
