(* C18: the glue around load(): fetch_inventory (http(s) prefix -> urlopen, else open) and
   inventory_cli (acquisition with the "/objects.inv" fallback, the filtering loop over
   filter_inventories with the extra location filter).  urlopen / open + load are Section
   variables (what loading from that URL / path returns).  Executable definitions only. *)
From Coq Require Import List NArith Bool.
From MV Require Import Base.PyStr Inv.WildModel InvLoad.Basics InvLoad.PyText InvLoad.Load.
Import ListNotations.
Open Scope N_scope.

Definition s_http : str := [104; 116; 116; 112; 58; 47; 47].            (* "http://" *)
Definition s_https : str := [104; 116; 116; 112; 115; 58; 47; 47].      (* "https://" *)
Definition s_objects_inv : str := [47; 111; 98; 106; 101; 99; 116; 115; 46; 105; 110; 118].  (* "/objects.inv" *)
Definition c_slash : N := 47.

(* uri.startswith(("http://", "https://")) *)
Definition is_http (uri : str) : bool := startswith uri s_http || startswith uri s_https.

(* uri.rsplit("/", 1)[0] *)
Definition rsplit_slash (uri : str) : str :=
  if mem_N c_slash uri then rev (snd (split_at c_slash (rev uri))) else uri.

Section Fetch.

(* with urlopen(uri) as stream: load(stream, base_url)   /   with open(uri, "rb") ... *)
Variable url_load : str -> option str -> ires inventory.
Variable file_load : str -> option str -> ires inventory.

Definition fetch_inventory (uri : str) (base_url : option str) : ires inventory :=
  if is_http uri then url_load uri base_url else file_load uri base_url.

(* inventory_cli: (invdata, base_url) *)
Definition cli_fetch (uri : str) : ires (inventory * option str) :=
  if is_http uri then
    match url_load uri None with
    | IOk inv => IOk (inv, Some (rsplit_slash uri))
    | IRaise _ =>                      (* except Exception: retry with "/objects.inv" appended *)
        dob inv <- url_load (uri ++ s_objects_inv) None; IOk (inv, Some uri)
    end
  else dob inv <- file_load uri None; IOk (inv, None).

End Fetch.

(* the body of the for loop over filter_inventories(...) *)
Definition cli_step (loc : option str) (objs : objs_t) (m : invmatch) : objs_t :=
  if (match loc with
      | Some l => negb (is_nil l) && negb (match_with_wildcard (m_loc m) (Some l))   (* args.loc and not match *)
      | None => false
      end)
  then objs
  else objs_insert (m_domain m) (m_otype m) (m_name m)
         {| it_loc := m_loc m; it_text := m_text m |} objs.

Definition cli_filter (inv : inventory) (base_url : option str)
           (domain otype name : str) (loc : option str) : inventory :=
  mk_inv (inv_name inv) (inv_version inv) base_url
    (fold_left (cli_step loc)
       (filter_inventories [([], inv)] None (Some domain) (Some otype) (Some name)) []).
