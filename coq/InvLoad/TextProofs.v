(* C18: lemmas about the text helpers of PyText.v and about the decode oracle. *)
From Coq Require Import List NArith Bool Lia.
From MV Require Import Base.PyStr InvLoad.Regex Gen.Inventory InvLoad.Basics InvLoad.PyText
  InvLoad.ReaderProofs.
Import ListNotations.
Open Scope N_scope.

(* ---------------- rstrip ---------------- *)

Lemma rstrip_by_spec p s :
  exists w, s = rstrip_by p s ++ w /\ Forall (fun c => p c = true) w.
Proof.
  induction s as [|c s [w [E F]]]; cbn [rstrip_by].
  - exists []. split; [reflexivity | constructor].
  - destruct (rstrip_by p s) as [|x r] eqn:R.
    + destruct (p c) eqn:P.
      * exists (c :: w). split; [cbn; f_equal; exact E | constructor; assumption].
      * exists w. split; [cbn; f_equal; exact E | assumption].
    + exists w. split; [cbn; f_equal; exact E | assumption].
Qed.

Lemma rstrip_by_all p w : Forall (fun c => p c = true) w -> rstrip_by p w = [].
Proof.
  induction 1 as [|c w P _ IH]; cbn [rstrip_by]; [reflexivity|]. rewrite IH, P. reflexivity.
Qed.

Lemma rstrip_by_app_ws p a w : Forall (fun c => p c = true) w ->
  rstrip_by p (a ++ w) = rstrip_by p a.
Proof.
  intro F. induction a as [|c a IH]; cbn [app rstrip_by].
  - apply rstrip_by_all. exact F.
  - rewrite IH. reflexivity.
Qed.

Lemma rstrip_by_nil_inv p s : rstrip_by p s = [] -> Forall (fun c => p c = true) s.
Proof.
  induction s as [|c s IH]; cbn [rstrip_by]; intro H; [constructor|].
  destruct (rstrip_by p s) eqn:R; [|discriminate].
  destruct (p c) eqn:P; [|discriminate]. constructor; auto.
Qed.

(* bytes whitespace is ASCII and is also str whitespace *)
Lemma bspace_facts : forallb (fun c => is_space c && (c <? 128)) bytes_ws_table = true.
Proof. vm_compute. reflexivity. Qed.

Lemma is_bspace_space c : is_bspace c = true -> is_space c = true /\ c < 128.
Proof.
  intro H. unfold is_bspace in H. apply mem_N_In in H.
  assert (F := bspace_facts). rewrite forallb_forall in F. specialize (F c H).
  apply andb_true_iff in F. destruct F as [F1 F2]. apply N.ltb_lt in F2. auto.
Qed.

(* ---------------- startswith / contains ---------------- *)

Lemma startswith_nil s : startswith s [] = true.
Proof. destruct s; reflexivity. Qed.

Lemma startswith_split : forall p s, startswith s p = true -> exists v, s = p ++ v.
Proof.
  induction p as [|c p IH]; intros s H; cbn [startswith] in H.
  - exists s. reflexivity.
  - destruct s as [|x s]; [discriminate|]. apply andb_true_iff in H. destruct H as [H1 H2].
    apply N.eqb_eq in H1. subst. destruct (IH s H2) as [v E]. exists v. cbn. f_equal. exact E.
Qed.

Lemma startswith_app p v : startswith (p ++ v) p = true.
Proof. induction p as [|c p IH]; cbn; [destruct v; reflexivity|]. rewrite N.eqb_refl. exact IH. Qed.

Lemma contains_split m : forall s, contains m s = true -> exists u v, s = u ++ m ++ v.
Proof.
  induction s as [|x s IH]; cbn [contains]; intro H.
  - rewrite orb_false_r in H. destruct (startswith_split _ _ H) as [v E]. exists [], v. exact E.
  - apply orb_true_iff in H. destruct H as [H|H].
    + destruct (startswith_split _ _ H) as [v E]. exists [], v. exact E.
    + destruct (IH H) as [u [v E]]. exists (x :: u), v. cbn. f_equal. exact E.
Qed.

Lemma contains_app m u v : contains m (u ++ m ++ v) = true.
Proof.
  induction u as [|x u IH]; cbn [app].
  - destruct (m ++ v) eqn:E; cbn [contains]; rewrite <- E, startswith_app; reflexivity.
  - cbn [contains]. rewrite IH. apply orb_true_r.
Qed.

(* ---------------- split_at ---------------- *)

Lemma split_at_spec c s : In c s ->
  let (a, b) := split_at c s in s = a ++ c :: b /\ ~ In c a.
Proof.
  induction s as [|x s IH]; intro H; [contradiction|]. cbn [split_at].
  destruct (x =? c) eqn:E.
  - apply N.eqb_eq in E. subst. split; [reflexivity | intros []].
  - apply N.eqb_neq in E. destruct H as [H|H]; [congruence|].
    specialize (IH H). destruct (split_at c s) as [a b]. destruct IH as [I1 I2].
    split; [cbn; f_equal; exact I1|]. intros [C|C]; [congruence | contradiction].
Qed.

Lemma split_key_inj (c : N) (a b a' b' : list N) : ~ In c a -> ~ In c a' -> a ++ c :: b = a' ++ c :: b' -> a = a' /\ b = b'.
Proof.
  revert a'. induction a as [|x a IH]; intros a' Ha Ha' E; destruct a' as [|x' a']; cbn in E.
  - inversion E. auto.
  - inversion E; subst. exfalso. apply Ha'. left. reflexivity.
  - inversion E; subst. exfalso. apply Ha. left. reflexivity.
  - inversion E; subst. destruct (IH a') as [E1 E2]; auto.
    + intro C. apply Ha. right. exact C.
    + intro C. apply Ha'. right. exact C.
    + subst. auto.
Qed.

(* ---------------- splitlines when "\n" is the only separator present ---------------- *)

Definition nosep (s : str) : Prop := forall c, In c s -> is_linesep c = true -> c = 10.

Lemma splitlines_nosep s : nosep s -> splitlines s = trim_last (split_nl s).
Proof.
  induction s as [|c s IH]; intro NS; [reflexivity|].
  assert (NS' : nosep s) by (intros x Hx; apply NS; right; exact Hx).
  specialize (IH NS'). cbn [splitlines split_nl].
  destruct (c =? 10) eqn:E.
  - apply N.eqb_eq in E. subst c. change (is_linesep 10) with true. cbn [N.eqb Pos.eqb].
    rewrite trim_last_cons by apply split_nl_nonempty. rewrite IH. reflexivity.
  - destruct (is_linesep c) eqn:L.
    + apply N.eqb_neq in E. exfalso. apply E. apply NS; [left; reflexivity | exact L].
    + rewrite IH. assert (NE := split_nl_nonempty s).
      destruct (split_nl s) as [|l [|l2 ls]]; [contradiction| |].
      * cbn [trim_last]. destruct l; reflexivity.
      * reflexivity.
Qed.

(* ---------------- posixpath.join ---------------- *)

Lemma pjoin_app_r a b c : (b = [] -> startswith c [47] = false) ->
  pjoin a (b ++ c) = pjoin a b ++ c.
Proof.
  intro H. unfold pjoin.
  assert (S : startswith (b ++ c) [47] = startswith b [47]).
  { destruct b as [|x b]; cbn [app]; [rewrite (H eq_refl); reflexivity|].
    cbn [startswith]. rewrite !startswith_nil. reflexivity. }
  rewrite S. destruct (startswith b [47]); [reflexivity|].
  destruct (is_nil a || endswith a [47]); rewrite <- ?app_assoc; reflexivity.
Qed.

(* ---------------- CR LF line ends; all separators normalised ---------------- *)

(* "\n" is the only separator, except that "\r" may stand immediately before a "\n" *)
Fixpoint crlf_only (s : str) : Prop :=
  match s with
  | [] => True
  | c :: s' => (is_linesep c = true -> c = 10 \/ (c = 13 /\ exists s'', s' = 10 :: s'')) /\ crlf_only s'
  end.

Lemma nosep_crlf_only s : nosep s -> crlf_only s.
Proof.
  induction s as [|c s IH]; intro NS; [exact I|]. split.
  - intro L. left. apply NS; [left; reflexivity | exact L].
  - apply IH. intros x Hx. apply NS. right. exact Hx.
Qed.

(* line.rstrip() removes the "\r" that a split at "\n" leaves at the end of a CR LF line;
   str.splitlines removes it itself *)
Fixpoint strip_cr (l : str) : str :=
  match l with
  | [] => []
  | c :: l' => match l' with
               | [] => if c =? 13 then [] else [c]
               | _ => c :: strip_cr l'
               end
  end.

Lemma rstrip_strip_cr l : rstrip (strip_cr l) = rstrip l.
Proof.
  unfold rstrip. induction l as [|c l IH]; [reflexivity|]. destruct l as [|x l].
  - cbn [strip_cr]. destruct (c =? 13) eqn:E; [|reflexivity].
    apply N.eqb_eq in E. subst. reflexivity.
  - change (strip_cr (c :: x :: l)) with (c :: strip_cr (x :: l)).
    cbn [rstrip_by]. cbn [rstrip_by] in IH. rewrite IH. reflexivity.
Qed.

Lemma strip_cr_cons c l : c <> 13 -> strip_cr (c :: l) = c :: strip_cr l.
Proof.
  intro H. destruct l; [|reflexivity]. cbn. apply N.eqb_neq in H. rewrite H. reflexivity.
Qed.

Lemma strip_cr_nonnil l : strip_cr l <> [] -> l <> [].
Proof. destruct l; [intro H; exact H | discriminate]. Qed.

Lemma splitlines_crlf s : crlf_only s -> splitlines s = map strip_cr (trim_last (split_nl s)).
Proof.
  induction s as [|c s IH]; intro CO; [reflexivity|]. destruct CO as [C1 CO].
  specialize (IH CO). cbn [splitlines split_nl].
  destruct (c =? 10) eqn:E.
  - apply N.eqb_eq in E. subst c. change (is_linesep 10) with true. cbn [N.eqb Pos.eqb].
    rewrite trim_last_cons by apply split_nl_nonempty. cbn [map strip_cr]. rewrite IH. reflexivity.
  - destruct (is_linesep c) eqn:L.
    + destruct (C1 eq_refl) as [C|[C [s'' Es]]]; [apply N.eqb_neq in E; contradiction|].
      subst c s. cbn [N.eqb Pos.eqb].
      cbn [splitlines split_nl N.eqb Pos.eqb] in IH. change (is_linesep 10) with true in IH.
      cbn [N.eqb Pos.eqb] in IH.
      rewrite trim_last_cons in IH by apply split_nl_nonempty. cbn [map strip_cr] in IH.
      injection IH as IH. cbn [split_nl N.eqb Pos.eqb].
      assert (NE := split_nl_nonempty s''). 
      rewrite trim_last_cons by exact NE. cbn [map strip_cr N.eqb Pos.eqb]. rewrite IH. reflexivity.
    + assert (C13 : c <> 13).
      { intro C. subst c. vm_compute in L. discriminate. }
      rewrite IH. assert (NE := split_nl_nonempty s).
      destruct (split_nl s) as [|l0 [|l1 ls]]; [contradiction| |].
      * cbn [trim_last]. destruct l0 as [|x l0].
        -- cbn [is_nil map]. cbn [trim_last is_nil map]. rewrite (strip_cr_cons c [] C13). reflexivity.
        -- cbn [is_nil map trim_last]. rewrite (strip_cr_cons c (x :: l0) C13). reflexivity.
      * change (trim_last (l0 :: l1 :: ls)) with (l0 :: trim_last (l1 :: ls)).
        change (trim_last ((c :: l0) :: l1 :: ls)) with ((c :: l0) :: trim_last (l1 :: ls)).
        cbn [map]. rewrite (strip_cr_cons c l0 C13). reflexivity.
Qed.

(* every line separator (and every CR LF pair) replaced by "\n" *)
Fixpoint norm_seps (s : str) : str :=
  match s with
  | [] => []
  | c :: s' =>
      if is_linesep c then
        10 :: (if c =? 13 then
                 match s' with
                 | x :: s'' => if x =? 10 then norm_seps s'' else norm_seps s'
                 | [] => []
                 end
               else norm_seps s')
      else c :: norm_seps s'
  end.

(* str.splitlines = split at "\n" after normalising the separators: this is all that
   distinguishes Sphinx's line splitting from MyST's *)
Lemma splitlines_norm_aux : forall n s, (length s <= n)%nat ->
  splitlines s = trim_last (split_nl (norm_seps s)).
Proof.
  induction n as [|n IH]; intros s Hlen.
  - destruct s; [reflexivity | simpl in Hlen; lia].
  - destruct s as [|c s]; [reflexivity|]. simpl in Hlen. cbn [splitlines norm_seps].
    destruct (is_linesep c) eqn:L.
    + cbn [split_nl N.eqb Pos.eqb]. rewrite trim_last_cons by apply split_nl_nonempty. f_equal.
      destruct (c =? 13).
      * destruct s as [|x s'']; [reflexivity|]. simpl in Hlen.
        destruct (x =? 10); apply IH; simpl; lia.
      * apply IH. lia.
    + assert (C10 : (c =? 10) = false).
      { destruct (c =? 10) eqn:E; [|reflexivity]. apply N.eqb_eq in E. subst. vm_compute in L. discriminate. }
      cbn [split_nl]. rewrite C10. rewrite (IH s) by lia.
      assert (NE := split_nl_nonempty (norm_seps s)).
      destruct (split_nl (norm_seps s)) as [|l0 [|l1 ls]]; [contradiction| |].
      * cbn [trim_last]. destruct l0; reflexivity.
      * reflexivity.
Qed.

Lemma splitlines_norm s : splitlines s = trim_last (split_nl (norm_seps s)).
Proof. apply (splitlines_norm_aux (length s)). lia. Qed.

Lemma norm_seps_nosep s : nosep s -> norm_seps s = s.
Proof.
  induction s as [|c s IH]; intro NS; [reflexivity|]. cbn [norm_seps].
  assert (NS' : nosep s) by (intros x Hx; apply NS; right; exact Hx).
  destruct (is_linesep c) eqn:L.
  - assert (c = 10) by (apply NS; [left; reflexivity | exact L]). subst c.
    cbn [N.eqb Pos.eqb]. rewrite IH by exact NS'. reflexivity.
  - rewrite IH by exact NS'. reflexivity.
Qed.

(* ---------------- posixpath.join(a, b), case by case ---------------- *)

(* an absolute second component replaces the first; a first component that is empty or ends
   in "/" is concatenated; otherwise a "/" is inserted - also when the second one is empty *)
Lemma pjoin_spec a b :
  (startswith b [47] = true -> pjoin a b = b) /\
  (startswith b [47] = false -> a = [] -> pjoin a b = b) /\
  (startswith b [47] = false -> endswith a [47] = true -> pjoin a b = a ++ b) /\
  (startswith b [47] = false -> a <> [] -> endswith a [47] = false -> pjoin a b = a ++ [47] ++ b).
Proof.
  unfold pjoin. repeat split; intros.
  - rewrite H. reflexivity.
  - rewrite H. subst a. reflexivity.
  - rewrite H, H0, orb_true_r. reflexivity.
  - rewrite H, H1. destruct a; [contradiction|]. reflexivity.
Qed.

Lemma pjoin_absolute a b : pjoin a (47 :: b) = 47 :: b.
Proof. unfold pjoin. cbn [startswith]. rewrite N.eqb_refl, startswith_nil. reflexivity. Qed.

Lemma pjoin_nil_l b : pjoin [] b = b.
Proof. unfold pjoin. destruct (startswith b [47]); reflexivity. Qed.

Lemma pjoin_nil_r a : a <> [] -> endswith a [47] = false -> pjoin a [] = a ++ [47].
Proof. intros H E. unfold pjoin. cbn [startswith]. rewrite E. destruct a; [contradiction|]. reflexivity. Qed.

Lemma pjoin_slash a b : startswith b [47] = false -> endswith a [47] = true -> pjoin a b = a ++ b.
Proof. intros. apply pjoin_spec; assumption. Qed.

Lemma pjoin_plain a b : startswith b [47] = false -> a <> [] -> endswith a [47] = false ->
  pjoin a b = a ++ [47] ++ b.
Proof. intros. apply pjoin_spec; assumption. Qed.

(* ---------------- the decode oracle ---------------- *)

(* bytes.decode() (strict UTF-8): an ASCII byte is never part of a multi-byte sequence *)
Definition decode_ok (decode : bytes -> option str) : Prop :=
  (forall a c b, c < 128 ->
     decode (a ++ c :: b) = match decode a, decode b with
                            | Some x, Some y => Some (x ++ c :: y)
                            | _, _ => None
                            end) /\
  decode [] = Some [] /\
  (forall a x c, decode a = Some x -> c < 128 -> In c x -> In c a) /\
  (forall a, decode a = Some [] -> a = []).

Section DecodeFacts.

Variable decode : bytes -> option str.
Hypothesis O_decode : decode_ok decode.

Lemma decode_ascii w : Forall (fun c => c < 128) w -> decode w = Some w.
Proof.
  destruct O_decode as [D1 [D2 _]].
  induction 1 as [|c w Hc _ IH]; [exact D2|].
  change (c :: w) with ([] ++ c :: w). rewrite (D1 [] c w Hc), D2, IH. reflexivity.
Qed.

Lemma decode_app_ascii a w : Forall (fun c => c < 128) w ->
  decode (a ++ w) = option_map (fun x => x ++ w) (decode a).
Proof.
  destruct O_decode as [D1 _]. intro F. destruct w as [|c w].
  - rewrite app_nil_r. destruct (decode a); cbn; [rewrite app_nil_r|]; reflexivity.
  - inversion F; subst. rewrite (D1 a c w) by assumption. rewrite (decode_ascii w) by assumption.
    destruct (decode a); reflexivity.
Qed.

Lemma decode_prefix_ascii m : Forall (fun c => c < 128) m -> forall v y,
  decode (m ++ v) = Some y -> exists y', y = m ++ y' /\ decode v = Some y'.
Proof.
  destruct O_decode as [D1 [D2 _]].
  induction 1 as [|c m Hc _ IH]; intros v y H.
  - exists y. auto.
  - change ((c :: m) ++ v) with ([] ++ c :: (m ++ v)) in H. rewrite (D1 [] c (m ++ v) Hc), D2 in H.
    destruct (decode (m ++ v)) as [y1|] eqn:E; [|discriminate]. inversion H; subst.
    destruct (IH v y1 E) as [y' [E1 E2]]. exists y'. subst. auto.
Qed.

Lemma decode_contains m b s : Forall (fun c => c < 128) m -> m <> [] ->
  contains m b = true -> decode b = Some s -> contains m s = true.
Proof.
  destruct O_decode as [D1 _]. intros F NE C D.
  destruct (contains_split _ _ C) as [u [v E]]. subst b.
  destruct m as [|c m]; [contradiction|]. inversion F; subst.
  change (u ++ (c :: m) ++ v) with (u ++ c :: (m ++ v)) in D.
  rewrite (D1 u c (m ++ v)) in D by assumption.
  destruct (decode u) as [x|]; [|discriminate].
  destruct (decode (m ++ v)) as [y|] eqn:E; [|discriminate]. inversion D; subst.
  destruct (decode_prefix_ascii m H2 v y E) as [y' [E1 _]]. subst.
  change (x ++ c :: m ++ y') with (x ++ (c :: m) ++ y'). apply contains_app.
Qed.

Lemma decode_nl_free a x : decode a = Some x -> find_nl a = None -> find_nl x = None.
Proof.
  destruct O_decode as [_ [_ [D3 _]]]. intros D F. apply find_char_None.
  apply find_char_None in F. intro C. apply F. apply (D3 a x 10 D); [reflexivity | exact C].
Qed.

(* decoding commutes with splitting at newlines *)
Lemma decode_split : forall n body text, (length body <= n)%nat -> decode body = Some text ->
  map decode (split_nl body) = map Some (split_nl text).
Proof.
  destruct O_decode as [D1 _].
  induction n as [|n IH]; intros body text Hlen D.
  - destruct body; [|simpl in Hlen; lia].
    assert (T : find_nl text = None) by (apply (decode_nl_free [] text D); reflexivity).
    rewrite (split_nl_none _ T). cbn. rewrite D. reflexivity.
  - destruct (find_nl body) as [pos|] eqn:F.
    + destruct (find_char_Some _ _ _ F) as [Hpos [Hsplit Hpre]].
      rewrite (split_nl_some _ _ F). rewrite Hsplit in D.
      rewrite (D1 (firstn pos body) 10 (skipn (S pos) body)) in D by reflexivity.
      destruct (decode (firstn pos body)) as [x|] eqn:Dx; [|discriminate].
      destruct (decode (skipn (S pos) body)) as [y|] eqn:Dy; [|discriminate].
      inversion D; subst text.
      assert (Fx : find_nl x = None) by (apply (decode_nl_free _ _ Dx); exact Hpre).
      assert (Ft : find_nl (x ++ 10 :: y) = Some (length x)) by (apply find_char_hit; exact Fx).
      rewrite (split_nl_some _ _ Ft).
      rewrite firstn_app_l by lia. rewrite firstn_all.
      replace (skipn (S (length x)) (x ++ 10 :: y)) with y.
      2:{ rewrite skipn_app. rewrite skipn_all2 by lia.
          replace (S (length x) - length x)%nat with 1%nat by lia. reflexivity. }
      cbn [map]. rewrite Dx. f_equal. apply (IH (skipn (S pos) body) y); [rewrite skipn_length; lia | exact Dy].
    + assert (T : find_nl text = None) by (apply (decode_nl_free _ _ D); exact F).
      rewrite (split_nl_none _ F), (split_nl_none _ T). cbn. rewrite D. reflexivity.
Qed.

End DecodeFacts.
