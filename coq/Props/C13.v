(* C13 - Config is validated and normalised; overrides behave the same at every level.
   Statements only; proofs are in Cfg/CfgProofs.v.  [fields] and [known_extensions] are regenerated
   from myst_parser/config/main.py on every run (Gen/Config.v); the model of the validators, of the
   dataclass and of merge_file_level is Cfg/Cfg.v; the documented types are Cfg/CfgSpec.v.
   Typing convention (JSON/YAML): a bool is not an int, a float is not an int. *)
From Coq Require Import List NArith ZArith Bool.
From MV Require Import Base.PyStr Base.Res Cfg.StrOps Cfg.Cfg Cfg.CfgSpec Cfg.CfgProofs Gen.Config.
From MV Require Import Cfg.CfgSrcPrelude Gen.ConfigSrc Cfg.CfgSrcProofs.
Import ListNotations.
Open Scope N_scope.

(* the environment of the real table: the extension names of check_extensions, any importlib *)
Definition E_of (imp : str -> import_result) : env :=
  {| e_known_ext := known_extensions; e_import := imp |}.

(* for every documented type, the validator tree built from the combinators (and the custom
   validators) accepts exactly the values of that type *)
Theorem C13_combinators_sound_complete : forall E t v,
  accepts E (vexpr_of t) v = true <-> has_type E v t.
Proof. exact combinators_sound_complete. Qed.
Print Assumptions C13_combinators_sound_complete.

(* every row of the regenerated field table (bound: the [length fields] fields present): the
   validator in the metadata accepts a value iff it has the type documented for the field *)
Theorem C13_fields_match_types : forall imp f, In f fields ->
  exists t, doc_ty f = Some t /\
            forall v, accepts (E_of imp) (f_val f) v = true <-> has_type (E_of imp) v t.
Proof.
  intros imp f Hin. apply field_ok_sound.
  assert (E : forallb field_ok fields = true) by (vm_compute; reflexivity).
  rewrite forallb_forall in E. apply E. exact Hin.
Qed.
Print Assumptions C13_fields_match_types.

(* accepted values are stored in a canonical form: validating the stored value again yields the
   same value (for every field of the table) *)
Theorem C13_normal_form : forall imp f v co, In f fields ->
  validate (E_of imp) (f_val f) v = Ok co -> stable (E_of imp) (f_val f) (coerced co v).
Proof.
  intros imp f v co Hin H. apply validated_is_stable; [|exact H].
  assert (E : table_ok fields = true) by (vm_compute; reflexivity).
  unfold table_ok in E. rewrite forallb_forall in E. specialize (E f Hin).
  apply andb_true_iff in E as [E _]. exact E.
Qed.
Print Assumptions C13_normal_form.

(* ... regardless of the spelling: list, tuple or set, any order, any repetition give the same
   result (same stored set or same error) for the two set-valued options *)
Theorem C13_normal_form_set_spellings : forall E v1 v2 l1 l2,
  seq3 v1 l1 -> seq3 v2 l2 -> (forall x, In x l1 <-> In x l2) ->
  validate E (VCustom n_check_extensions) v1 = validate E (VCustom n_check_extensions) v2 /\
  validate E (VCustom n_check_fence_as_directive) v1 = validate E (VCustom n_check_fence_as_directive) v2.
Proof.
  intros E v1 v2 l1 l2 S1 S2 H. split.
  - exact (check_extensions_spelling E v1 v2 l1 l2 S1 S2 H).
  - exact (check_fence_spelling v1 v2 l1 l2 S1 S2 H).
Qed.
Print Assumptions C13_normal_form_set_spellings.

(* url_schemes: a list (or tuple) of names is the dict {name: None}; a str value is {"url": value} *)
Theorem C13_normal_form_url_spellings : forall E l k u, NoDup l ->
  validate E (VCustom n_check_url_schemes) (JList (map JStr l))
    = validate E (VCustom n_check_url_schemes) (JDict (map (fun s => (JStr s, JNull)) l)) /\
  validate E (VCustom n_check_url_schemes) (JTuple (map JStr l))
    = validate E (VCustom n_check_url_schemes) (JDict (map (fun s => (JStr s, JNull)) l)) /\
  validate E (VCustom n_check_url_schemes) (JDict [(JStr k, JStr u)])
    = validate E (VCustom n_check_url_schemes) (JDict [(JStr k, JDict [(JStr s_url, JStr u)])]).
Proof.
  intros E l k u ND. destruct (url_list_is_dict l ND) as [A B].
  split; [exact A|]. split; [exact B|]. exact (url_str_is_dict k u).
Qed.
Print Assumptions C13_normal_form_url_spellings.

(* the constructor (and hence copy / the docutils and Sphinx entry points) returns a stable instance,
   so the premise [stable_cfg] below is met by every configuration the program can hold *)
Theorem C13_constructor_gives_stable : forall imp kw c,
  mk_config (E_of imp) fields kw = Ok c -> stable_cfg (E_of imp) fields c.
Proof.
  intros imp kw c. apply mk_config_stable. vm_compute. reflexivity.
Qed.
Print Assumptions C13_constructor_gives_stable.

(* front matter = global, for every field of the table (in particular every field that is not
   global_only) and every value:  myst: {f: v}  on a validated global config c
   - v valid:   no warning; the new config is exactly  c.copy(f=v)  - for merge_topmatter fields
                c.copy(f={**c.f, **v}) ;
   - v invalid: the new config equals c, exactly one topmatter warning, and c.copy(f=v) is rejected too.
   In both cases the global config is returned unchanged (st_global). *)
Theorem C13_frontmatter_equals_global : forall imp c f v,
  stable_cfg (E_of imp) fields c -> In f fields ->
  match validate (E_of imp) (f_val f) v with
  | Raise _ =>
      merge_file_level (E_of imp) fields c (top_of (f_name f) v)
        = Ok {| st_global := c; st_new := c; st_warn := [WInvalid (f_name f)] |}
      /\ is_ok (copy (E_of imp) fields c [(f_name f, v)]) = false
  | Ok _ =>
      exists new,
        merge_file_level (E_of imp) fields c (top_of (f_name f) v)
          = Ok {| st_global := c; st_new := new; st_warn := [] |} /\
        if f_merge f
        then exists old merged, cfg_get (f_name f) c = Some old /\ dict_merge old v = Ok merged /\
                                copy (E_of imp) fields c [(f_name f, merged)] = Ok new
        else copy (E_of imp) fields c [(f_name f, v)] = Ok new
  end.
Proof.
  intros imp c f v S Hin. apply frontmatter_equals_global; try assumption; vm_compute; reflexivity.
Qed.
Print Assumptions C13_frontmatter_equals_global.

(* an invalid or unknown front-matter entry is ignored with exactly one warning: for any front
   matter, the number of topmatter warnings of the merge loop is the number of such entries *)
Theorem C13_invalid_ignored_once : forall E fs st st' ups,
  merge_loop E false fs st ups = Ok st' ->
  length (st_warn st') =
  (length (st_warn st) + length (filter (bad_update E fs (st_global st)) ups))%nat.
Proof. intros E fs st st' ups. apply merge_loop_warnings. Qed.
Print Assumptions C13_invalid_ignored_once.

(* the global configuration is never modified by merging a document's front matter
   (any table, any front matter, before and after the repair) *)
Theorem C13_global_untouched : forall E kr fs c top st,
  merge_file_level_gen E kr fs c top = Ok st -> st_global st = c.
Proof. exact global_untouched. Qed.
Print Assumptions C13_global_untouched.

(* docutils settings strings: --myst-<f>=<s> gives exactly the configuration of the constructor
   called with the decoded value (same acceptance, same normal form); [y] is yaml.safe_load(s);
   [optparse_rules] is the if-chain of _attr_to_optparse_option REGENERATED from parsers/docutils_.py *)
Theorem C13_docutils_strings_equal : forall imp f s y, In f fields -> f_omit_docutils f = false ->
  docutils_config (E_of imp) optparse_rules fields [(f_name f, s, y)] =
  (do k <- optparse_kind optparse_rules f; do v <- decode k s y;
   mk_config (E_of imp) fields [(f_name f, v)]).
Proof.
  intros imp f s y Hin Om. apply docutils_one; try assumption. vm_compute. reflexivity.
Qed.
Print Assumptions C13_docutils_strings_equal.

(* the decimal spelling of an int decodes to that int, and every spelling of docutils' boolean table
   to its bool (case and surrounding white space do not matter) *)
Theorem C13_docutils_int_roundtrip : forall n y,
  decode KInt (show n) y = Ok (JInt (Z.of_N n)) /\
  decode KInt (45 :: show n) y = Ok (JInt (- Z.of_N n)).
Proof.
  intros n y. destruct (int_roundtrip n) as [A B]. unfold decode. rewrite A, B. split; reflexivity.
Qed.
Print Assumptions C13_docutils_int_roundtrip.

Theorem C13_docutils_bool_spellings : forall y,
  (forall s b, In (s, b) bool_table -> decode KBool s y = Ok (JBool b)) /\
  (forall s1 s2, lower_ascii (py_strip s1) = lower_ascii (py_strip s2) -> decode KBool s1 y = decode KBool s2 y).
Proof.
  intro y. split.
  - intros s b Hin. pose proof (bool_spellings y) as H. rewrite forallb_forall in H.
    specialize (H (s, b) Hin). cbn [fst snd] in H.
    destruct (decode KBool s y) as [[]|]; try discriminate H. apply Bool.eqb_prop in H. subst. reflexivity.
  - intros s1 s2. apply bool_decode_insensitive.
Qed.
Print Assumptions C13_docutils_bool_spellings.

(* which validator code the regenerated table reaches (bound: the fields and rules present):
   every combinator of dc_validators.py that the model transcribes and every check_* function is the
   validator (or part of it) of some field; every docutils-visible field is decided by a rule of the
   option-string if-chain; the rules that decide no field are those of [known_unused_conds]
   (Literal choices, tuple[str,str], int | None, Iterable[str] | None) - code the correspondence cannot
   exercise through any option.  dc_validators.is_callable is not used by any field (the translator
   stops if it ever is); listed in the evidence under gen.unused_validator_code. *)
Theorem C13_validator_code_reached :
  (forall k, In k all_ckinds -> combinator_used fields k = true) /\
  every_field_decided optparse_rules fields = true /\
  rules_reached optparse_rules fields = true.
Proof.
  split; [|split]; [|vm_compute; reflexivity|vm_compute; reflexivity].
  apply forallb_forall. vm_compute. reflexivity.
Qed.
Print Assumptions C13_validator_code_reached.

(* and the comma separated spelling of a list of clean items (non-empty, no comma, no blank at either
   end) decodes to that list / set *)
Theorem C13_docutils_comma_list : forall items y,
  Forall (fun p => clean_item p = true) items ->
  decode KCommaList (join [c_comma] items) y = Ok (JList (map JStr items)) /\
  decode KCommaSet (join [c_comma] items) y = Ok (mk_str_set (map JStr items)).
Proof.
  intros items y F. unfold decode. rewrite (comma_list_join items F). split; reflexivity.
Qed.
Print Assumptions C13_docutils_comma_list.

(* Sphinx conf.py values: create_myst_config passes every registered option explicitly (the conf value,
   or the registered default = the field of MdParserConfig()); the result is the configuration of the
   constructor called with the conf values alone *)
Theorem C13_sphinx_conf_equal : forall imp conf, conf_ok fields conf ->
  sphinx_config (E_of imp) fields conf = mk_config (E_of imp) fields conf.
Proof.
  intros imp conf CO.
  destruct (mk_config (E_of imp) fields []) as [d|e] eqn:D; [|vm_compute in D; discriminate].
  apply (sphinx_conf_equal (E_of imp) fields conf d); try assumption; vm_compute; reflexivity.
Qed.
Print Assumptions C13_sphinx_conf_equal.

(* ---- source-translation tie (round 3): statements about the definitions REGENERATED on every run from
   dc_validators.py and config/main.py (Gen/ConfigSrc.v: the closures of instance_of / optional / in_ /
   deep_iterable / deep_mapping, check_extensions / check_url_schemes / check_sub_delimiters /
   check_inventories / check_fence_as_directive / check_positive_int, and merge_file_level, statement by
   statement).  Refinement lemmas: Cfg/CfgSrcProofs.v; domain mapping of the atoms: gen/c13_src.py +
   Cfg/CfgSrcPrelude.v.  [validate_src] interprets a validator tree with the regenerated closures
   (check_heading_slug_func, which calls importlib, stays the hand model). ---- *)

Theorem C13_source_refines_model :
  (forall E e v, validate_src E e v = validate E e v) /\
  (forall E fs c top,
     merge_file_level_src E fs c top =
     match merge_file_level E fs c (JDict top) with
     | Ok st => Ok (st_new st, st_warn st)
     | Raise e => Raise e
     end).
Proof. split; [exact validate_src_eq | exact merge_file_level_src_eq]. Qed.
Print Assumptions C13_source_refines_model.

(* every field's validator, run with the regenerated validator code, accepts exactly the documented type *)
Theorem C13_fields_match_types_src : forall imp f, In f fields ->
  exists t, doc_ty f = Some t /\
            forall v, is_ok (validate_src (E_of imp) (f_val f) v) = true <-> has_type (E_of imp) v t.
Proof.
  intros imp f Hin. destruct (C13_fields_match_types imp f Hin) as [t [D H]].
  exists t. split; [exact D|]. intro v. rewrite validate_src_eq. apply H.
Qed.
Print Assumptions C13_fields_match_types_src.

(* front matter = global, for the regenerated merge_file_level and validators *)
Theorem C13_frontmatter_equals_global_src : forall imp c f v,
  stable_cfg (E_of imp) fields c -> In f fields ->
  match validate_src (E_of imp) (f_val f) v with
  | Raise _ =>
      merge_file_level_src (E_of imp) fields c (top_list (f_name f) v) = Ok (c, [WInvalid (f_name f)])
      /\ is_ok (copy (E_of imp) fields c [(f_name f, v)]) = false
  | Ok _ =>
      exists new,
        merge_file_level_src (E_of imp) fields c (top_list (f_name f) v) = Ok (new, []) /\
        if f_merge f
        then exists old merged, cfg_get (f_name f) c = Some old /\ dict_merge old v = Ok merged /\
                                copy (E_of imp) fields c [(f_name f, merged)] = Ok new
        else copy (E_of imp) fields c [(f_name f, v)] = Ok new
  end.
Proof.
  intros imp c f v S Hin. apply frontmatter_equals_global_src; try assumption; vm_compute; reflexivity.
Qed.
Print Assumptions C13_frontmatter_equals_global_src.

(* the code before the repair (raw value assigned after validation) did not have the property:
   front matter  myst: {url_schemes: [http]}  left a list where the global setting gives a dict *)
Theorem C13_frontmatter_raw_assignment_refuted :
  exists c f v new,
    let E := E_of (fun _ => ImpImportError) in
    mk_config E fields [] = Ok c /\ In f fields /\ f_global_only f = false /\
    merge_file_level_gen E true fields c (top_of (f_name f) v)
      = Ok {| st_global := c; st_new := new; st_warn := [] |} /\
    copy E fields c [(f_name f, v)] <> Ok new.
Proof.
  pose (E := E_of (fun _ => ImpImportError)).
  destruct (mk_config E fields []) as [c|] eqn:C; [|vm_compute in C; discriminate].
  destruct (find_field s_url_schemes fields) as [f|] eqn:F; [|vm_compute in F; discriminate].
  exists c, f, (JList [JStr [104;116;116;112]]).
  destruct (merge_file_level_gen E true fields c (top_of (f_name f) (JList [JStr [104;116;116;112]])))
    as [st|] eqn:M.
  2:{ vm_compute in C. inv C. vm_compute in F. inv F. vm_compute in M. discriminate. }
  vm_compute in C. inv C. vm_compute in F. inv F. vm_compute in M. inv M.
  eexists. repeat split.
  - vm_compute. tauto.
  - vm_compute. discriminate.
Qed.
Print Assumptions C13_frontmatter_raw_assignment_refuted.

(* non-vacuity *)
Example C13_example_heading_anchors :
  let E := E_of (fun _ => ImpImportError) in
  map (fun v => accepts E (VIn [0;1;2;3;4;5;6;7]%Z) v)
      [JInt 2; JInt 8; JBool true; JFloat 2 false; JNull; JStr [50]]
  = [true; false; false; false; false; false].
Proof. vm_compute. reflexivity. Qed.

Example C13_example_url_schemes :
  validate (E_of (fun _ => ImpImportError)) (VCustom n_check_url_schemes)
           (JDict [(JStr [97], JDict [(JStr s_classes, JStr [97;98;99])])]) = Raise TypeError.
Proof. vm_compute. reflexivity. Qed.
