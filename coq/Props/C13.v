(* C13 - Config is validated and normalised; overrides behave the same at every level.
   Statements only; proofs are in Cfg/CfgProofs.v.  [fields] and [known_extensions] are regenerated
   from myst_parser/config/main.py on every run (Gen/Config.v); the model of the validators, of the
   dataclass and of merge_file_level is Cfg/Cfg.v; the documented types are Cfg/CfgSpec.v.
   Typing convention (JSON/YAML): a bool is not an int, a float is not an int. *)
From Coq Require Import List NArith ZArith Bool String.
From MV Require Import Base.PyStr Base.Res Cfg.StrOps Cfg.Cfg Cfg.CfgSpec Cfg.CfgProofs Gen.Config.
From MV Require Import Cfg.CfgSrcPrelude Gen.ConfigSrc Cfg.CfgSrcProofs.
Import ListNotations.
Open Scope N_scope.
Open Scope string_scope.
Open Scope list_scope.

From MV Require Import Cfg.CfgTableProofs.
From MV Require Import Cfg.StrLit Cfg.MdParserPrelude Gen.MdParserSrc Cfg.MdParserProofs.
(* the environment of the real table: the extension names of check_extensions, any importlib *)

(* for every documented type, the validator tree built from the combinators (and the custom
   validators) accepts exactly the values of that type *)
Theorem C13_combinators_sound_complete : forall E t v,
  accepts E (vexpr_of t) v = true <-> has_type E v t.
Proof. exact combinators_sound_complete. Qed.
Print Assumptions C13_combinators_sound_complete.

(* every row of the regenerated field table (bound: the [length fields] fields present): the
   validator in the metadata accepts a value iff it has the type documented for the field *)
Theorem C13_fields_match_types : forall imp f, In f fields ->
  exists t, doc_ty f = Some t /\
            forall v, accepts (E_of imp) (f_val f) v = true <-> has_type (E_of imp) v t.
Proof. exact C13_fields_match_types_proof. Qed.
Print Assumptions C13_fields_match_types.

(* accepted values are stored in a canonical form: validating the stored value again yields the
   same value (for every field of the table) *)
Theorem C13_normal_form : forall imp f v co, In f fields ->
  validate (E_of imp) (f_val f) v = Ok co -> stable (E_of imp) (f_val f) (coerced co v).
Proof. exact C13_normal_form_proof. Qed.
Print Assumptions C13_normal_form.

(* ... regardless of the spelling: list, tuple or set, any order, any repetition give the same
   result (same stored set or same error) for the two set-valued options *)
Theorem C13_normal_form_set_spellings : forall E v1 v2 l1 l2,
  seq3 v1 l1 -> seq3 v2 l2 -> (forall x, In x l1 <-> In x l2) ->
  validate E (VCustom n_check_extensions) v1 = validate E (VCustom n_check_extensions) v2 /\
  validate E (VCustom n_check_fence_as_directive) v1 = validate E (VCustom n_check_fence_as_directive) v2.
Proof. exact C13_normal_form_set_spellings_proof. Qed.
Print Assumptions C13_normal_form_set_spellings.

(* url_schemes: a list (or tuple) of names is the dict {name: None}; a str value is {"url": value} *)
Theorem C13_normal_form_url_spellings : forall E l k u, NoDup l ->
  validate E (VCustom n_check_url_schemes) (JList (map JStr l))
    = validate E (VCustom n_check_url_schemes) (JDict (map (fun s => (JStr s, JNull)) l)) /\
  validate E (VCustom n_check_url_schemes) (JTuple (map JStr l))
    = validate E (VCustom n_check_url_schemes) (JDict (map (fun s => (JStr s, JNull)) l)) /\
  validate E (VCustom n_check_url_schemes) (JDict [(JStr k, JStr u)])
    = validate E (VCustom n_check_url_schemes) (JDict [(JStr k, JDict [(JStr s_url, JStr u)])]).
Proof. exact C13_normal_form_url_spellings_proof. Qed.
Print Assumptions C13_normal_form_url_spellings.

(* the constructor (and hence copy / the docutils and Sphinx entry points) returns a stable instance,
   so the premise [stable_cfg] below is met by every configuration the program can hold *)
Theorem C13_constructor_gives_stable : forall imp kw c,
  mk_config (E_of imp) fields kw = Ok c -> stable_cfg (E_of imp) fields c.
Proof. exact C13_constructor_gives_stable_proof. Qed.
Print Assumptions C13_constructor_gives_stable.

(* front matter = global, for every field of the table (in particular every field that is not
   global_only) and every value:  myst: {f: v}  on a validated global config c
   - v valid:   no warning; the new config is exactly  c.copy(f=v)  - for merge_topmatter fields
                c.copy(f={**c.f, **v}) ;
   - v invalid: the new config equals c, exactly one topmatter warning, and c.copy(f=v) is rejected too.
   In both cases the global config is returned unchanged (st_global). *)
Theorem C13_frontmatter_equals_global : forall imp c f v,
  stable_cfg (E_of imp) fields c -> In f fields ->
  match validate (E_of imp) (f_val f) v with
  | Raise _ =>
      merge_file_level (E_of imp) fields c (top_of (f_name f) v)
        = Ok {| st_global := c; st_new := c; st_warn := [WInvalid (f_name f)] |}
      /\ is_ok (copy (E_of imp) fields c [(f_name f, v)]) = false
  | Ok _ =>
      exists new,
        merge_file_level (E_of imp) fields c (top_of (f_name f) v)
          = Ok {| st_global := c; st_new := new; st_warn := [] |} /\
        if f_merge f
        then exists old merged, cfg_get (f_name f) c = Some old /\ dict_merge old v = Ok merged /\
                                copy (E_of imp) fields c [(f_name f, merged)] = Ok new
        else copy (E_of imp) fields c [(f_name f, v)] = Ok new
  end.
Proof. exact C13_frontmatter_equals_global_proof. Qed.
Print Assumptions C13_frontmatter_equals_global.

(* an invalid or unknown front-matter entry is ignored with exactly one warning: for any front
   matter, the number of topmatter warnings of the merge loop is the number of such entries *)
Theorem C13_invalid_ignored_once : forall E fs st st' ups,
  merge_loop E false fs st ups = Ok st' ->
  List.length (st_warn st') =
  (List.length (st_warn st) + List.length (filter (bad_update E fs (st_global st)) ups))%nat.
Proof. exact C13_invalid_ignored_once_proof. Qed.
Print Assumptions C13_invalid_ignored_once.

(* the global configuration is never modified by merging a document's front matter
   (any table, any front matter, before and after the repair) *)
Theorem C13_global_untouched : forall E kr fs c top st,
  merge_file_level_gen E kr fs c top = Ok st -> st_global st = c.
Proof. exact global_untouched. Qed.
Print Assumptions C13_global_untouched.

(* docutils settings strings: --myst-<f>=<s> gives exactly the configuration of the constructor
   called with the decoded value (same acceptance, same normal form); [y] is yaml.safe_load(s);
   [optparse_rules] is the if-chain of _attr_to_optparse_option REGENERATED from parsers/docutils_.py *)
Theorem C13_docutils_strings_equal : forall imp f s y, In f fields -> f_omit_docutils f = false ->
  docutils_config (E_of imp) optparse_rules fields [(f_name f, s, y)] =
  (do k <- optparse_kind optparse_rules f; do v <- decode k s y;
   mk_config (E_of imp) fields [(f_name f, v)]).
Proof. exact C13_docutils_strings_equal_proof. Qed.
Print Assumptions C13_docutils_strings_equal.

(* the decimal spelling of an int decodes to that int, and every spelling of docutils' boolean table
   to its bool (case and surrounding white space do not matter) *)
Theorem C13_docutils_int_roundtrip : forall n y,
  decode KInt (show n) y = Ok (JInt (Z.of_N n)) /\
  decode KInt (45 :: show n) y = Ok (JInt (- Z.of_N n)).
Proof. exact C13_docutils_int_roundtrip_proof. Qed.
Print Assumptions C13_docutils_int_roundtrip.

Theorem C13_docutils_bool_spellings : forall y,
  (forall s b, In (s, b) bool_table -> decode KBool s y = Ok (JBool b)) /\
  (forall s1 s2, lower_ascii (py_strip s1) = lower_ascii (py_strip s2) -> decode KBool s1 y = decode KBool s2 y).
Proof. exact C13_docutils_bool_spellings_proof. Qed.
Print Assumptions C13_docutils_bool_spellings.

(* which validator code the regenerated table reaches (bound: the fields and rules present):
   every combinator of dc_validators.py that the model transcribes and every check_* function is the
   validator (or part of it) of some field; every docutils-visible field is decided by a rule of the
   option-string if-chain; the rules that decide no field are those of [known_unused_conds]
   (Literal choices, tuple[str,str], int | None, Iterable[str] | None) - code the correspondence cannot
   exercise through any option.  dc_validators.is_callable is not used by any field (the translator
   stops if it ever is); listed in the evidence under gen.unused_validator_code. *)
Theorem C13_validator_code_reached :
  (forall k, In k all_ckinds -> combinator_used fields k = true) /\
  every_field_decided optparse_rules fields = true /\
  rules_reached optparse_rules fields = true.
Proof. exact C13_validator_code_reached_proof. Qed.
Print Assumptions C13_validator_code_reached.

(* and the comma separated spelling of a list of clean items (non-empty, no comma, no blank at either
   end) decodes to that list / set *)
Theorem C13_docutils_comma_list : forall items y,
  Forall (fun p => clean_item p = true) items ->
  decode KCommaList (join [c_comma] items) y = Ok (JList (map JStr items)) /\
  decode KCommaSet (join [c_comma] items) y = Ok (mk_str_set (map JStr items)).
Proof. exact C13_docutils_comma_list_proof. Qed.
Print Assumptions C13_docutils_comma_list.

(* Sphinx conf.py values: create_myst_config passes every registered option explicitly (the conf value,
   or the registered default = the field of MdParserConfig()); the result is the configuration of the
   constructor called with the conf values alone *)
Theorem C13_sphinx_conf_equal : forall imp conf, conf_ok fields conf ->
  sphinx_config (E_of imp) fields conf = mk_config (E_of imp) fields conf.
Proof. exact C13_sphinx_conf_equal_proof. Qed.
Print Assumptions C13_sphinx_conf_equal.

(* ---- source-translation tie (round 3): statements about the definitions REGENERATED on every run from
   dc_validators.py and config/main.py (Gen/ConfigSrc.v: the closures of instance_of / optional / in_ /
   deep_iterable / deep_mapping, check_extensions / check_url_schemes / check_sub_delimiters /
   check_inventories / check_fence_as_directive / check_positive_int, and merge_file_level, statement by
   statement).  Refinement lemmas: Cfg/CfgSrcProofs.v; domain mapping of the atoms: gen/c13_src.py +
   Cfg/CfgSrcPrelude.v.  [validate_src] interprets a validator tree with the regenerated closures
   (all seven check_* functions; importlib in check_heading_slug_func is the oracle e_import). ---- *)

Theorem C13_source_refines_model :
  (forall E e v, validate_src E e v = validate E e v) /\
  (forall E fs c top,
     merge_file_level_src E fs c top =
     match merge_file_level E fs c (JDict top) with
     | Ok st => Ok (st_new st, st_warn st)
     | Raise e => Raise e
     end).
Proof. exact C13_source_refines_model_proof. Qed.
Print Assumptions C13_source_refines_model.

(* every field's validator, run with the regenerated validator code, accepts exactly the documented type *)
Theorem C13_fields_match_types_src : forall imp f, In f fields ->
  exists t, doc_ty f = Some t /\
            forall v, is_ok (validate_src (E_of imp) (f_val f) v) = true <-> has_type (E_of imp) v t.
Proof. exact C13_fields_match_types_src_proof. Qed.
Print Assumptions C13_fields_match_types_src.

(* front matter = global, for the regenerated merge_file_level and validators *)
Theorem C13_frontmatter_equals_global_src : forall imp c f v,
  stable_cfg (E_of imp) fields c -> In f fields ->
  match validate_src (E_of imp) (f_val f) v with
  | Raise _ =>
      merge_file_level_src (E_of imp) fields c (top_list (f_name f) v) = Ok (c, [WInvalid (f_name f)])
      /\ is_ok (copy (E_of imp) fields c [(f_name f, v)]) = false
  | Ok _ =>
      exists new,
        merge_file_level_src (E_of imp) fields c (top_list (f_name f) v) = Ok (new, []) /\
        if f_merge f
        then exists old merged, cfg_get (f_name f) c = Some old /\ dict_merge old v = Ok merged /\
                                copy (E_of imp) fields c [(f_name f, merged)] = Ok new
        else copy (E_of imp) fields c [(f_name f, v)] = Ok new
  end.
Proof. exact C13_frontmatter_equals_global_src_proof. Qed.
Print Assumptions C13_frontmatter_equals_global_src.

(* ---- sharing of container objects (round 4).  [copy_o] is [copy] with every stored object tagged by
   its origin: the copied config's own object (OGlobal - dc.replace passes it on), a new object (OFresh - a
   validator called setattr), or the caller's object (OArg). ---- *)

(* copy_o is copy *)
Theorem C13_copy_o_is_copy : forall E fs c changes r,
  copy_o E fs c changes = Ok r -> copy E fs c changes = Ok (erase_o r).
Proof. exact copy_o_is_copy. Qed.
Print Assumptions C13_copy_o_is_copy.

(* PARTIAL: a field whose validator always coerces (enable_extensions, fence_as_directive, url_schemes)
   never shares its container with the config it was copied from - this is what keeps an in-place
   write to the per-document config away from the global one *)
Theorem C13_copy_shares_nothing_partial : forall imp c changes r f,
  In f fields -> coercing (f_val f) = true ->
  copy_o (E_of imp) fields c changes = Ok r -> shares_field (f_name f) r = false.
Proof. exact C13_copy_shares_nothing_partial_proof. Qed.
Print Assumptions C13_copy_shares_nothing_partial.

(* the unrestricted statement "a copy shares no mutable container with the original" is false for the
   faithful model: html_meta (and every other non-coercing list/dict option) is the same object in the
   global and in the per-document config.  No code of the package writes to those containers in place
   (next theorem), so the global config is not modified; recorded as an observation, not a finding. *)
Theorem C13_copy_shares_refuted :
  exists c r f,
    let E := E_of (fun _ => ImpImportError) in
    In f fields /\ copy_o E fields c [] = Ok r /\ shares_field (f_name f) r = true.
Proof. exact C13_copy_shares_refuted_proof. Qed.
Print Assumptions C13_copy_shares_refuted.

(* every field whose container some code of the package mutates in place at run time (REGENERATED list
   [inplace_written_fields]: today enable_extensions, by the figure-md directive) has a coercing validator,
   hence a fresh container in every copy / per-document config (bound: the fields listed) *)
Theorem C13_inplace_written_fields_fresh : forall n, In n inplace_written_fields ->
  exists f, find_field n fields = Some f /\ coercing (f_val f) = true /\
            forall imp c changes r, copy_o (E_of imp) fields c changes = Ok r -> shares_field n r = false.
Proof. exact C13_inplace_written_fields_fresh_proof. Qed.
Print Assumptions C13_inplace_written_fields_fresh.

(* ---- parser construction (round 5): create_md_parser (parsers/mdit.py) REGENERATED into
   Gen/MdParserSrc.v as a function config -> abstract parser description (preset, ordered enable / disable /
   use steps with their options, options.update).  [has_linkify] = "linkify-it-py is installed"
   (md.linkify is not None), the only input besides the config. ---- *)

(* consistency of two source sites: every extension name tested in create_md_parser or used elsewhere in the
   package is accepted by check_extensions (no dead branch); every accepted name is tested in create_md_parser
   or used elsewhere (html_image / html_admonition / dollarmath / amsmath / attrs_image are also read by the
   renderer and the Sphinx extension) - no accepted-but-ignored name; and every name tested in
   create_md_parser changes the parser description of the default configuration (bound: the names present) *)
Theorem C13_extensions_all_handled :
  (forall n, In n (mdit_tested_extensions ++ other_tested_extensions) -> In n known_extensions) /\
  (forall n, In n known_extensions -> In n mdit_tested_extensions \/ In n other_tested_extensions) /\
  (forall n hl, In n mdit_tested_extensions ->
     create_md_parser_src hl (with_extensions [n] default_cfg)
     <> create_md_parser_src hl (with_extensions [] default_cfg)).
Proof. exact extensions_all_handled. Qed.
Print Assumptions C13_extensions_all_handled.

(* the description is a function of the validated config (and has_linkify) alone; two spellings of the same
   set of extensions (list / tuple / set, any order, repetitions) give the same config and the same parser *)
Theorem C13_parser_same_for_spellings : forall imp hl v1 v2 l1 l2 c1 c2,
  seq3 v1 l1 -> seq3 v2 l2 -> (forall x, In x l1 <-> In x l2) ->
  mk_config (E_of imp) fields [(s_enable_extensions, v1)] = Ok c1 ->
  mk_config (E_of imp) fields [(s_enable_extensions, v2)] = Ok c2 ->
  c1 = c2 /\ create_md_parser_src hl c1 = create_md_parser_src hl c2.
Proof. exact parser_same_for_spellings. Qed.
Print Assumptions C13_parser_same_for_spellings.

(* what commonmark_only / gfm_only do, exactly as coded: a fixed parser that reads only words_per_minute
   (and enable_checkboxes for gfm_only); enable_extensions (and disable_syntax, and every other option) is
   ignored.  docs/configuration.md says "Use strict CommonMark parser" / "Use strict Github Flavoured Markdown
   parser" and promises nothing else - observation, not a finding. *)
Theorem C13_only_modes_as_coded : forall hl c,
  (cfg_flag (lit "commonmark_only") c = true ->
   create_md_parser_src hl c =
   {| pd_preset := lit "commonmark";
      pd_steps := [PUse (lit "wordcount_plugin") [(lit "per_minute", cfg_val (lit "words_per_minute") c)]];
      pd_options := [(lit "myst_config", JOpaque (lit "config"))] |}) /\
  (cfg_flag (lit "commonmark_only") c = false -> cfg_flag (lit "gfm_only") c = true ->
   create_md_parser_src hl c =
   {| pd_preset := lit "commonmark";
      pd_steps := [PEnable (lit "strikethrough"); PEnable (lit "table");
                   PUse (lit "tasklists_plugin") [(lit "enabled", cfg_val (lit "enable_checkboxes") c)];
                   PEnable (lit "linkify");
                   PUse (lit "wordcount_plugin") [(lit "per_minute", cfg_val (lit "words_per_minute") c)]];
      pd_options := [(lit "linkify", JBool true); (lit "myst_config", JOpaque (lit "config"))] |}) /\
  (forall names, cfg_flag (lit "commonmark_only") c = true \/ cfg_flag (lit "gfm_only") c = true ->
   create_md_parser_src hl (with_extensions names c) = create_md_parser_src hl c).
Proof.
  exact (fun hl c => conj (commonmark_only_parser hl c)
                          (conj (gfm_only_parser hl c) (fun names => only_modes_ignore_extensions hl c names))).
Qed.
Print Assumptions C13_only_modes_as_coded.

(* the code before the repair (raw value assigned after validation) did not have the property:
   front matter  myst: {url_schemes: [http]}  left a list where the global setting gives a dict *)
Theorem C13_frontmatter_raw_assignment_refuted :
  exists c f v new,
    let E := E_of (fun _ => ImpImportError) in
    mk_config E fields [] = Ok c /\ In f fields /\ f_global_only f = false /\
    merge_file_level_gen E true fields c (top_of (f_name f) v)
      = Ok {| st_global := c; st_new := new; st_warn := [] |} /\
    copy E fields c [(f_name f, v)] <> Ok new.
Proof. exact C13_frontmatter_raw_assignment_refuted_proof. Qed.
Print Assumptions C13_frontmatter_raw_assignment_refuted.

(* non-vacuity *)
Example C13_example_heading_anchors :
  let E := E_of (fun _ => ImpImportError) in
  map (fun v => accepts E (VIn [0;1;2;3;4;5;6;7]%Z) v)
      [JInt 2; JInt 8; JBool true; JFloat 2 false; JNull; JStr [50]]
  = [true; false; false; false; false; false].
Proof. vm_compute. reflexivity. Qed.

Example C13_example_url_schemes :
  validate (E_of (fun _ => ImpImportError)) (VCustom n_check_url_schemes)
           (JDict [(JStr [97], JDict [(JStr s_classes, JStr [97;98;99])])]) = Raise TypeError.
Proof. vm_compute. reflexivity. Qed.
