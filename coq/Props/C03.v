(* C03 - Every produced document is a well-formed docutils tree.
   Statements only; proofs in Doc/PostProofs.v, TopProofs.v, DecoProofs.v, Api.v, IdsProofs.v, RefsCompose.v, Final.v.
   Model: identity-labelled trees (Doc/Node.v: every node carries the allocation number of its Python
   object), renderer Doc/Render.v, docutils registries Doc/Registry.v, predicates Doc/WF.v. *)
From Coq Require Import List NArith Bool.
From MV Require Import Base.PyStr.
From MV Require Import Base.Res.
From MV Require Import Doc.Str.
From MV Require Import Doc.Tok.
From MV Require Import Doc.Node.
From MV Require Import Doc.Registry.
From MV Require Import Doc.Prog.
From MV Require Import Doc.Render.
From MV Require Import Doc.Transforms.
From MV Require Import Doc.WF.
From MV Require Import Doc.Post.
From MV Require Import Doc.TopProofs.
From MV Require Import Doc.Api.
From MV Require Import Doc.IdsProofs.
From MV Require Import Doc.Final.
From MV Require Import Doc.LabelFirst.
From MV Require Import Gen.RenderSrc.
From MV Require Import Doc.RenderSrcProofs.
From MV Require Import Refs.RUtil.
From MV Require Refs.Foot.
From MV Require Refs.FootProofs.
From MV Require Refs.Anchors.
From MV Require Refs.AnchorsProofs.
From MV Require Doc.RefsCompose.
Import ListNotations.

(* "each node has exactly one parent and occurs once": no allocation number (= Python object) is reachable
   twice - in the document the renderer produces, and still after the modelled transforms that create, move
   or replace nodes (SortFootnotes, docutils Footnotes: labels / reference texts; CollectFootnotes: remove +
   append; ResolveAnchorIds: appended inline / warning, Sphinx: pending_xref around the moved children).  For
   both back ends, every configuration, oracle behaviour and token forest of the static grammar. *)
Theorem C03_single_occurrence : forall B C OR ts,
  static_forest B C OR ts = true ->
  (forall doc ws, render_doc B C OR ts = Good (doc, ws) -> NoDup (oids doc)) /\
  (forall doc ws, render_xform B C OR ts = Good (doc, ws) -> NoDup (oids doc)).
Proof. exact single_occurrence. Qed.
Print Assumptions C03_single_occurrence.

(* the same for the renderer assembled from the methods regenerated from base.py on every run
   (Gen/RenderSrc.v, gen/c02_pysrc.py; Doc/RenderSrcProofs.v: regenerated = hand-written) *)
Theorem C03_single_occurrence_src : forall B C OR ts,
  static_forest B C OR ts = true ->
  (forall doc ws, render_doc_src B C OR ts = Good (doc, ws) -> NoDup (oids doc)) /\
  (forall doc ws, render_xform_src B C OR ts = Good (doc, ws) -> NoDup (oids doc)).
Proof. exact single_occurrence_src. Qed.
Print Assumptions C03_single_occurrence_src.

(* sections occur only directly under the document or another section, and start with a title *)
Theorem C03_sections_ok : forall B C OR ts doc ws,
  static_forest B C OR ts = true -> render_doc B C OR ts = Good (doc, ws) -> sections_ok [] doc = true.
Proof. exact sections_ok_render. Qed.
Print Assumptions C03_sections_ok.

(* transitions occur only directly under the document or a section: REFUTED on the faithful model.
   render_hr appends the transition to whatever the current node is; witness: a thematic break
   inside a block quote ("> ---").  (open finding transition:inside-container) *)
Theorem C03_transitions_ok_refuted :
  exists (ts : list tok) doc ws,
    render_doc Docutils default_cfg dummy_oracles ts = Good (doc, ws) /\
    transitions_ok [] doc = false.
Proof. exact transitions_ok_refuted. Qed.
Print Assumptions C03_transitions_ok_refuted.

(* ... guarded version: when thematic breaks occur at the top level only (hr_top: a token is a thematic
   break itself or contains none), every transition is directly under the document or a section *)
Theorem C03_transitions_ok_partial : forall B C OR ts doc ws,
  static_forest B C OR ts = true -> forallb hr_top ts = true ->
  render_doc B C OR ts = Good (doc, ws) -> transitions_ok [] doc = true.
Proof. exact transitions_ok_guarded. Qed.
Print Assumptions C03_transitions_ok_partial.

(* every table row has exactly as many cells as the table declares columns, under O_table_shape
   (tshape: in every table token each body row has as many cells as the header row - what markdown-it
   delivers; tested on every token tree of the correspondence) *)
Theorem C03_rows_match_cols : forall B C OR ts doc ws,
  static_forest B C OR ts = true -> forallb tshape ts = true ->
  render_doc B C OR ts = Good (doc, ws) -> rows_ok doc = true.
Proof. exact rows_match_cols. Qed.
Print Assumptions C03_rows_match_cols.

(* IDENTIFIERS, globally.  The renderer uses the docutils registry through a fixed interface (Doc/Api.v: api -
   allocation, set_id via note_explicit_target / note_implicit_target / note_*footnote*, names, warnings, the
   splice of oracle nodes; build_api: every render program is a program over it).  The registry invariant
   IdsProofs.ids_inv - an id an object carries is registered for that object in document.ids, and is carried once -
   is preserved by every operation of the interface except the creation of a node with a preset id.  Hence, for
   both back ends, every configuration, oracle behaviour and forest of the static grammar (dynamic syntax
   included: the accepted oracle nodes carry no ids, i.e. the oracle returns fresh nodes) that contains no such
   node (preset_free: no equation label / numbered amsmath environment under Sphinx): the ids of the rendered
   document are pairwise distinct. *)
Theorem C03_ids_unique : forall B C OR ts doc ws,
  static_forest B C OR ts = true -> forallb (preset_free B) ts = true ->
  render_doc B C OR ts = Good (doc, ws) -> ids_unique doc = true.
Proof. exact ids_unique_global. Qed.
Print Assumptions C03_ids_unique.

(* the named registry fact it rests on (set_id fresh; the same fact for the slug/id allocation of the C05/C10
   model is Sect/SlugProofs.v): an id that set_id generates for a node was registered for no node before, and is
   registered for this node afterwards *)
Theorem C03_ids_unique_partial : forall (make_id : str -> str) (aip : str) o tg f i msgs f',
  nr_ids (get_rec o tg f) = [] ->
  set_id make_id aip o tg f = Good ((i, msgs), f') ->
  has_key i (ids f) = false /\ assoc i (ids f') = Some o.
Proof. exact set_id_fresh. Qed.
Print Assumptions C03_ids_unique_partial.

(* ... and the full statement is REFUTED for the Sphinx renderer: ids that are preset (add_math_target)
   are registered as they are; two equations with the same label carry the same id.
   (open finding ids:duplicate:target+target) *)
Theorem C03_ids_unique_refuted :
  exists (ts : list tok) doc ws,
    static_forest Sphinx sphinx_cfg dummy_oracles ts = true /\
    render_doc Sphinx sphinx_cfg dummy_oracles ts = Good (doc, ws) /\ ids_unique doc = false.
Proof. exact ids_unique_refuted. Qed.
Print Assumptions C03_ids_unique_refuted.

(* REFID VALUES RESOLVE, for the reference kinds the renderer creates.  The two transforms that write refid
   attributes are modelled by the C11 builder (Refs/Foot.v: SortFootnotes + docutils Footnotes) and the C09 builder
   (Refs/Anchors.v: ResolveAnchorIds); the statements below are corollaries of their theorems (Doc/RefsCompose.v),
   nothing is re-modelled.  (Doc/Transforms.v models the same transforms on the identity-labelled tree; there the
   clause is evaluated on every transformed document of the correspondence: measured:xform:refids_resolve.)
   Footnote references: a reference carries a refid only if a kept footnote definition has that id, and that
   definition lists the reference among its backrefs. *)
Theorem C03_refids_resolve_footnotes :
  forall (isdigit : str -> bool) (int_of : str -> option N) (fx : Foot.fstate -> res Foot.fstate),
  (forall s, fx s = Foot.docutils_footnotes s) ->
  forall fs ft d r, Foot.run isdigit int_of fx fs ft d = Ok r ->
  forall o l, In o (Foot.x_refs r) -> Foot.ro_refid o = Some l ->
  exists f, In f (Foot.x_foots r) /\ FootProofs.lbl f = l /\ In (Foot.ro_idx o) (Foot.fo_backrefs f).
Proof. exact RefsCompose.footnote_refid_resolves. Qed.
Print Assumptions C03_refids_resolve_footnotes.

(* '#anchor' links resolved against the explicit targets: the refid is an id registered in document.ids - or, for
   an indirect target (a target node that itself has a refid), the first NAME of the node that target points to:
   that is what the code writes (copied from Sphinx' std domain) and it need not be an id. *)
Theorem C03_refids_resolve_anchors :
  forall nl sphinx suppressed slug_hash lr rg ex slugs r lid title,
  NoDup (map fst (Anchors.nametypes rg)) ->
  Anchors.build_explicit lr rg = Ok ex ->
  dget ex (Anchors.r_frag r) = Some (lid, title) ->
  Anchors.o_refid (Anchors.resolve_one nl sphinx suppressed slug_hash ex slugs r) = Some lid /\
  Anchors.o_warn (Anchors.resolve_one nl sphinx suppressed slug_hash ex slugs r) = [] /\
  ((exists node, dget (Anchors.ids rg) lid = Some node) \/
   (exists labelid t rid node rest,
      dget (Anchors.nameids rg) (Anchors.r_frag r) = Some (Some labelid) /\ dget (Anchors.ids rg) labelid = Some t /\
      Anchors.n_kind t = Anchors.KTarget /\ Anchors.n_refid t = Some rid /\
      dget (Anchors.ids rg) rid = Some node /\ Anchors.n_names node = lid :: rest)).
Proof. exact RefsCompose.anchor_refid_resolves. Qed.
Print Assumptions C03_refids_resolve_anchors.

(* the only link whose refid may dangle is one that neither table resolves, and it is reported: under Sphinx it
   becomes a pending_xref without refid, under docutils it carries the system message of exactly one warning *)
Theorem C03_refids_dangle_only_reported :
  forall nl sphinx suppressed slug_hash ex slugs r,
  dget ex (Anchors.r_frag r) = None -> dget slugs (Anchors.r_frag r) = None ->
  let o := Anchors.resolve_one nl sphinx suppressed slug_hash ex slugs r in
  (sphinx = true -> Anchors.o_refid o = None /\ Anchors.o_pending o = true) /\
  (sphinx = false -> suppressed = false -> Anchors.o_msg o = true /\ length (Anchors.o_warn o) = 1%nat).
Proof. exact RefsCompose.anchor_refid_dangles_only_reported. Qed.
Print Assumptions C03_refids_dangle_only_reported.

(* A FOOTNOTE STARTS WITH ITS LABEL - PARTIAL: the clause at the point where render_footnote_reference creates the
   node, for every token, state and oracle behaviour.  The definition is dropped with a warning (duplicate label), or
   exactly one footnote node is appended and: a manually numbered one ([^1]) has its label as FIRST child - the
   messages of its registration and the content follow it (the order seeded change C03-5 breaks); an auto-numbered
   one ([^a]) carries auto=1 and is created only after it has been registered in document.autofootnotes, the list
   docutils' Footnotes transform iterates to insert the label in front (Transforms.number_footnotes: insert_first).
   NOT proved: the clause for the whole document after the transforms (it needs the relation "every auto footnote of
   the tree is in the list" through every render method, and an invariant through number_footnotes); measured on
   every transformed model document (measured:xform:label_first) and checked by the search on the implementation. *)
Theorem C03_footnote_label_first_partial : forall C OR (t : tok) (ks : list rt) ctag f ns f',
  run_f (render_footnote_reference C OR t ks) ctag f = Some (Good (ns, f')) ->
  (exists w, ns = [w] /\ tag_of w = k_system_message) \/
  exists o a cs, ns = [Elem o n_footnote a cs] /\
    ((exists lbl rest, cs = lbl :: rest /\ tag_of lbl = n_label /\ assoc a_auto a = None) \/
     (assoc a_auto a = Some [v_one] /\
      exists f2 cs', In o (autofootnotes f2) /\ run_f (render_children ks) n_footnote f2 = Some (Good (cs', f')))).
Proof. exact footnote_created_label_first. Qed.
Print Assumptions C03_footnote_label_first_partial.

(* non-vacuity: two headings (the second opens a sibling section), a table and a thematic break *)
Example C03_example :
  let cell := Tok k_th [] [] [] [] [] [] (Some (1, 2)) [tok_inline [tok_text [97]]] in
  let row := Tok k_tr [] [] [] [] [] [] (Some (1, 2)) [cell] in
  let ts := [tok_heading 1 [tok_text [97]]; tok_heading 1 [tok_text [98]];
             Tok k_table [] [] [] [] [] [] (Some (3, 5)) [Tok k_thead [] [] [] [] [] [] (Some (3, 4)) [row]];
             mk_tok k_hr []] in
  static_forest Docutils default_cfg dummy_oracles ts = true /\ forallb hr_top ts = true /\ forallb tshape ts = true /\
  match render_doc Docutils default_cfg dummy_oracles ts with
  | Good (doc, _) => sections_ok [] doc = true /\ transitions_ok [] doc = true /\ rows_ok doc = true
  | Bad _ => False
  end.
Proof. vm_compute. repeat split; reflexivity. Qed.
