(* C03 - Every produced document is a well-formed docutils tree.
   Statements only; proofs are in Doc/*.v. *)
From Coq Require Import List NArith Bool.
From MV Require Import Base.PyStr.
From MV Require Import Base.Res.
From MV Require Import Doc.Str.
From MV Require Import Doc.Tok.
From MV Require Import Doc.Node.
From MV Require Import Doc.Registry.
From MV Require Import Doc.Prog.
From MV Require Import Doc.Render.
From MV Require Import Doc.WF.
Import ListNotations.

(* transitions occur only directly under the document or a section: REFUTED on the faithful model.
   render_hr appends the transition to whatever the current node is; witness: a thematic break
   inside a block quote ("> ---").  (open finding transition:inside-container) *)
Theorem C03_transitions_ok_refuted :
  exists (ts : list tok) doc ws,
    render_doc Docutils default_cfg dummy_oracles ts = Good (doc, ws) /\
    transitions_ok [] doc = false.
Proof.
  exists [mk_tok k_blockquote [mk_tok k_hr []]].
  eexists. eexists. split; [vm_compute; reflexivity | vm_compute; reflexivity].
Qed.
Print Assumptions C03_transitions_ok_refuted.
