(* C03 - Every produced document is a well-formed docutils tree.
   Statements only; proofs in Doc/PostProofs.v, TopProofs.v, DecoProofs.v, Final.v.
   Model: identity-labelled trees (Doc/Node.v: every node carries the allocation number of its Python
   object), renderer Doc/Render.v, docutils registries Doc/Registry.v, predicates Doc/WF.v. *)
From Coq Require Import List NArith Bool.
From MV Require Import Base.PyStr.
From MV Require Import Base.Res.
From MV Require Import Doc.Str.
From MV Require Import Doc.Tok.
From MV Require Import Doc.Node.
From MV Require Import Doc.Registry.
From MV Require Import Doc.Prog.
From MV Require Import Doc.Render.
From MV Require Import Doc.Transforms.
From MV Require Import Doc.WF.
From MV Require Import Doc.Post.
From MV Require Import Doc.TopProofs.
From MV Require Import Doc.Final.
Import ListNotations.

(* "each node has exactly one parent and occurs once": no allocation number (= Python object) is reachable
   twice - in the document the renderer produces, and still after the modelled transforms that create, move
   or replace nodes (SortFootnotes, docutils Footnotes: labels / reference texts; CollectFootnotes: remove +
   append; ResolveAnchorIds: appended inline / warning, Sphinx: pending_xref around the moved children).  For
   both back ends, every configuration, oracle behaviour and token forest of the static grammar. *)
Theorem C03_single_occurrence : forall B C OR ts,
  static_forest B C OR ts = true ->
  (forall doc ws, render_doc B C OR ts = Good (doc, ws) -> NoDup (oids doc)) /\
  (forall doc ws, render_xform B C OR ts = Good (doc, ws) -> NoDup (oids doc)).
Proof. exact single_occurrence. Qed.
Print Assumptions C03_single_occurrence.

(* sections occur only directly under the document or another section, and start with a title *)
Theorem C03_sections_ok : forall B C OR ts doc ws,
  static_forest B C OR ts = true -> render_doc B C OR ts = Good (doc, ws) -> sections_ok [] doc = true.
Proof. exact sections_ok_render. Qed.
Print Assumptions C03_sections_ok.

(* transitions occur only directly under the document or a section: REFUTED on the faithful model.
   render_hr appends the transition to whatever the current node is; witness: a thematic break
   inside a block quote ("> ---").  (open finding transition:inside-container) *)
Theorem C03_transitions_ok_refuted :
  exists (ts : list tok) doc ws,
    render_doc Docutils default_cfg dummy_oracles ts = Good (doc, ws) /\
    transitions_ok [] doc = false.
Proof. exact transitions_ok_refuted. Qed.
Print Assumptions C03_transitions_ok_refuted.

(* ... guarded version: when thematic breaks occur at the top level only (hr_top: a token is a thematic
   break itself or contains none), every transition is directly under the document or a section *)
Theorem C03_transitions_ok_partial : forall B C OR ts doc ws,
  static_forest B C OR ts = true -> forallb hr_top ts = true ->
  render_doc B C OR ts = Good (doc, ws) -> transitions_ok [] doc = true.
Proof. exact transitions_ok_guarded. Qed.
Print Assumptions C03_transitions_ok_partial.

(* every table row has exactly as many cells as the table declares columns, under O_table_shape
   (tshape: in every table token each body row has as many cells as the header row - what markdown-it
   delivers; tested on every token tree of the correspondence) *)
Theorem C03_rows_match_cols : forall B C OR ts doc ws,
  static_forest B C OR ts = true -> forallb tshape ts = true ->
  render_doc B C OR ts = Good (doc, ws) -> rows_ok doc = true.
Proof. exact rows_match_cols. Qed.
Print Assumptions C03_rows_match_cols.

(* identifiers.  Modelled: docutils' set_id / set_name_id_map / set_duplicate_name_id (Registry.v).
   PARTIAL: an id that set_id generates for a node was registered for no node before, and is registered
   for this node afterwards (uniqueness by construction of every generated id); the global statement
   "NoDup of all ids in the tree" and the resolution of refids are checked by correspondence + search. *)
Theorem C03_ids_unique_partial : forall (make_id : str -> str) (aip : str) o tg f i msgs f',
  nr_ids (get_rec o tg f) = [] ->
  set_id make_id aip o tg f = Good ((i, msgs), f') ->
  has_key i (ids f) = false /\ assoc i (ids f') = Some o.
Proof. exact set_id_fresh. Qed.
Print Assumptions C03_ids_unique_partial.

(* ... and the full statement is REFUTED for the Sphinx renderer: ids that are preset (add_math_target)
   are registered as they are; two equations with the same label carry the same id.
   (open finding ids:duplicate:target+target) *)
Theorem C03_ids_unique_refuted :
  exists (ts : list tok) doc ws,
    static_forest Sphinx sphinx_cfg dummy_oracles ts = true /\
    render_doc Sphinx sphinx_cfg dummy_oracles ts = Good (doc, ws) /\ ids_unique doc = false.
Proof. exact ids_unique_refuted. Qed.
Print Assumptions C03_ids_unique_refuted.

(* non-vacuity: two headings (the second opens a sibling section), a table and a thematic break *)
Example C03_example :
  let cell := Tok k_th [] [] [] [] [] [] (Some (1, 2)) [tok_inline [tok_text [97]]] in
  let row := Tok k_tr [] [] [] [] [] [] (Some (1, 2)) [cell] in
  let ts := [tok_heading 1 [tok_text [97]]; tok_heading 1 [tok_text [98]];
             Tok k_table [] [] [] [] [] [] (Some (3, 5)) [Tok k_thead [] [] [] [] [] [] (Some (3, 4)) [row]];
             mk_tok k_hr []] in
  static_forest Docutils default_cfg dummy_oracles ts = true /\ forallb hr_top ts = true /\ forallb tshape ts = true /\
  match render_doc Docutils default_cfg dummy_oracles ts with
  | Good (doc, _) => sections_ok [] doc = true /\ transitions_ok [] doc = true /\ rows_ok doc = true
  | Bad _ => False
  end.
Proof. vm_compute. repeat split; reflexivity. Qed.
