(* C15 - Output depends only on document and config: no leakage across parses / workers.
   Statements only; proofs are in Hist/HistProofs.v.  Gen/GlobalWrites.v is regenerated from the
   package source on every run (every write to state that can outlive one parse, the sources of
   non-determinism, the renderer's attribute tables); Hist/Hist.v holds the hand classification
   of the writes and the abstract process model. *)
From Coq Require Import List String Bool Arith Permutation.
From MV Require Import Hist.HistDefs Gen.GlobalWrites Hist.Hist Hist.HistProofs.
Import ListNotations.

(* Bound: the n_writes writes to shared state present in the source when the table was
   regenerated.  Each has a classification (with its justification in Hist.classification);
   a new global write makes this fail until it has been looked at. *)
Theorem C15_writes_classified :
  List.length writes = n_writes /\ forallb classified writes = true /\ forallb entry_live classification = true.
Proof. exact (conj (proj1 writes_all_classified) (conj (proj2 writes_all_classified) classification_live)). Qed.
Print Assumptions C15_writes_classified.

(* Abstract process model: the state is a map from cells to contents; a parse performs the
   writes [ws] (each behaving according to the class [kl] of its cell) and produces an output
   that is a function of its input and of what reads of cells observe.  If no written cell is a
   Leak, then for EVERY history h of earlier parses and every input i the output of parsing i
   after h equals the output of parsing i in the fresh state: constant cells and per-document
   cells are rewritten before they are read, memo tables only ever hold what a miss would
   compute, restored cells are unchanged.  (Induction over histories; no bound.) *)
Theorem C15_history_independent :
  forall (I O value key : Type) (key_eqb : key -> key -> bool),
    (forall a b, key_eqb a b = true -> a = b) ->
  forall (kl : string -> klass) (ws : list string) K W F keyof T L init (out_fn : I -> (string -> value) -> O),
    (forall c, In c ws -> kl c <> Leak) ->
    (forall i f f', (forall c, f c = f' c) -> out_fn i f = out_fn i f') ->
  forall (h : list I) (i : I),
    out_after I O value key key_eqb kl ws K W F keyof T L init out_fn h i =
    out_fresh I O value key key_eqb kl ws K W F keyof T L init out_fn i.
Proof. exact history_independent. Qed.
Print Assumptions C15_history_independent.

(* reading a memo table: in every state reachable by any history, a cache hit returns exactly
   what a miss would compute (the PureCache cells are handled by what reads of them return,
   not only by their classification) *)
Theorem C15_cache_hit_equals_miss :
  forall (I O value key : Type) (key_eqb : key -> key -> bool),
    (forall a b, key_eqb a b = true -> a = b) ->
  forall (kl : string -> klass) (ws : list string) K W F keyof T L init (out_fn : I -> (string -> value) -> O),
    (forall c, In c ws -> kl c <> Leak) ->
  forall (h : list I) c es k v,
    kl c = PureCache ->
    run I O value key key_eqb kl ws K W F keyof T L out_fn (g0 value key kl init) h c = Cache value key es ->
    cache_get value key key_eqb es k = Some v -> v = F c k.
Proof. exact cache_hit_equals_miss_reachable. Qed.
Print Assumptions C15_cache_hit_equals_miss.

(* the instance given by the regenerated table meets the premise: no cell written by the package is classified
   Leak (bound: the n_writes writes of the table) *)
Theorem C15_table_has_no_leak : forall c, In c ws_table -> kl_table c <> Leak.
Proof. exact table_no_leak_full. Qed.
Print Assumptions C15_table_has_no_leak.

(* cells listed as open leaks (none today; until 0676245 the two document.settings.myst_footnote_* writes) are
   written cells classified Leak: the list cannot be used to hide a cell that is not a leak *)
Theorem C15_open_leaks_are_leaks :
  forallb (fun c => mem_s c ws_table && klass_eqb (kl_table c) Leak) open_leaks = true.
Proof. exact open_leaks_are_leaks. Qed.
Print Assumptions C15_open_leaks_are_leaks.

(* the premise is needed: with one Leak cell (the content written depends on the old content,
   as Include.option_spec did before the repair) there are a history and an input whose output
   differs from the fresh output *)
Theorem C15_history_independent_with_leak_refuted :
  exists (h : list unit) (i : unit),
    out_after unit bool bool unit (fun _ _ => true) leak_kl ["Include.option_spec"%string]
      (fun _ => false) (fun _ _ => false) (fun _ _ => false) (fun _ _ => tt) (fun _ v => v) (fun _ _ v => negb v)
      (fun _ => false) (fun _ f => f "Include.option_spec"%string) h i
    <>
    out_fresh unit bool bool unit (fun _ _ => true) leak_kl ["Include.option_spec"%string]
      (fun _ => false) (fun _ _ => false) (fun _ _ => false) (fun _ _ => tt) (fun _ v => v) (fun _ _ v => negb v)
      (fun _ => false) (fun _ f => f "Include.option_spec"%string) i.
Proof. exact leak_refutes. Qed.
Print Assumptions C15_history_independent_with_leak_refuted.

(* every self.<attr> read by DocutilsRenderer / SphinxRenderer is a method, a property, a
   constant class attribute, or is assigned by __init__ / setup_render, i.e. re-initialised
   for every render (bound: the attribute names of the regenerated tables) *)
Theorem C15_render_state_reset : render_state_reset = true.
Proof. exact render_state_reset_ok. Qed.
Print Assumptions C15_render_state_reset.

(* Source-translation tie (round 3).  Gen/GlobalWrites.v carries, regenerated from the source on every run:
   reads_before_write = every (method, attribute) of DocutilsRenderer / SphinxRenderer where self.<attribute> is read
   before any assignment to it in the same method; init_src / setup_render_src = the attribute assignments of
   __init__ and of setup_render (base class, then the Sphinx override) as code.  A parser object made by
   create_md_parser may render several documents, so setup_render ALONE must do the reset: for EVERY state st that
   earlier renders (and __init__) may have left in the instance, each such attribute is Fresh after setup_render_src st,
   unless it is one of the three constructor-scoped attributes (ctor_scoped, each with its justification), which
   __init__ assigns.  (A new per-render attribute that setup_render
   forgets, or one moved to a class attribute, makes the computation get stuck on [st "attr"].) *)
Theorem C15_render_state_reset_src :
  forall st : rstate,
    forallb (fun a => is_ctor_scoped a || is_fresh (setup_render_src st a)) (map snd reads_before_write) = true /\
    forallb (fun e => is_fresh (init_src st (fst e))) ctor_scoped = true.
Proof. exact reset_ok_all. Qed.
Print Assumptions C15_render_state_reset_src.

(* merge_file_level translated to steps on named objects (bindings, writes, returns in source order): the object
   passed as [config] is never written and never returned; the object returned is the copy *)
Theorem C15_merge_copies_src : merge_copies_ok = true.
Proof. exact merge_copies. Qed.
Print Assumptions C15_merge_copies_src.

(* Bound: the uses of the Sphinx build environment in the code that runs while documents are read (renderers,
   MystParser.parse, mocks, directives, transforms, create_warning), regenerated from the source.  Each is classified,
   and none reads a table that is filled incrementally by the reading process (all_docs, titles, tocs, domain data ...):
   with parallel reading every worker has its own partial copy of those, so a read-time decision based on them would
   depend on the assignment of documents to workers.  Read-time code only uses what is complete before reading starts,
   the state of the current document, its own slot, or Sphinx note_* APIs whose data are merged from the workers. *)
Theorem C15_read_phase_env_complete : env_reads_ok = true.
Proof. exact env_reads_all_ok. Qed.
Print Assumptions C15_read_phase_env_complete.

(* per-document data live under env.metadata[docname]; when the documents are partitioned among
   the read workers (no docname belongs to two workers) merging the workers' environments into
   the main one in any order yields the same map *)
Theorem C15_merge_commutes :
  forall (data : Type) (wks wks' : list (worker data)),
    Permutation wks wks' -> NoDup (flat_map fst wks) ->
    forall main k, elookup data k (merge_all data main wks) = elookup data k (merge_all data main wks').
Proof. exact merge_commutes. Qed.
Print Assumptions C15_merge_commutes.

(* the package calls no source of non-determinism (uuid4, random, time, ...): bound = the calls
   of the regenerated table *)
Theorem C15_no_nondeterminism_source : nondet_calls = [].
Proof. exact eq_refl. Qed.
Print Assumptions C15_no_nondeterminism_source.

(* non-vacuity: a two-worker merge in both orders *)
Example C15_example_merge :
  elookup nat "b" (merge_all nat [] [(["a"%string], [("a"%string, 1)]); (["b"%string], [("b"%string, 2)])]) =
  elookup nat "b" (merge_all nat [] [(["b"%string], [("b"%string, 2)]); (["a"%string], [("a"%string, 1)])]).
Proof. vm_compute. reflexivity. Qed.
Example C15_example_classified :
  existsb (fun w => String.eqb (w_target w) "HTMLTranslator.visit_rubric" && classified w) writes = true.
Proof. vm_compute. reflexivity. Qed.
