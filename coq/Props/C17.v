(* C17 - HTML blocks: verbatim pass-through, img/admonition = directives, GFM tag filter.
   Statements only; proofs are in Html/HtmlToNodesProofs.v and Html/OptReadProofs.v. *)
From Coq Require Import List NArith Bool Arith.
From MV Require Import Base.PyStr Base.Res Html.HtmlTypes Gen.Html Gen.HtmlNodes Html.HtmlModel
  Html.HtmlStore Html.HtmlInv Html.HtmlRound Html.HtmlOps
  Html.HtmlToNodes Html.HtmlToNodesProofs Html.OptRead Html.OptReadProofs Html.HtmlIso Html.HtmlToNodesTotal
  Html.HtmlAdmonition Html.OptExtract Html.SrcPrims Gen.HtmlSrc Html.NodesPrims Gen.HtmlNodesSrc Html.HtmlNodesSrcProofs.
Import ListNotations.

(* Pass-through.  For every html.parser behaviour [parse], every text and every combination of
   gfm_only / html_image / html_admonition, with t' the text after the GFM filter when gfm_only:
   (1) neither extension on: exactly one raw node holding t';
   (2) the "HTML could not be parsed" branch is dead (the parser model is total, C16);
   (3) every outcome other than the single raw node holding t' requires an enabled extension and
       a non-empty stripped tree all of whose top-level elements are img / div.admonition. *)
Theorem C17_passthrough : forall (parse : str -> list event) (gfm img adm : bool) (text : str),
  let t' := filtered gfm text in
  let o := html_to_nodes parse gfm img adm text in
  (img = false -> adm = false -> o = ORaw t')
  /\ (forall x, o <> OWarnRaw x)
  /\ (o = ORaw t'
      \/ exists t st croot,
           tokenize parse t' [] = Ok t
           /\ strip_inplace (S (length (t_cells t))) (t_cells t) (t_outmost t) false = Ok st
           /\ get st (t_outmost t) = Ok croot
           /\ c_children croot <> []
           /\ all_convertible img adm st (c_children croot) = Ok true
           /\ (img || adm) = true).
Proof. exact passthrough. Qed.
Print Assumptions C17_passthrough.

(* GFM tag filter.  For every text: in the filtered text no position holds a '<' followed by an
   optional '/', a tag name of the GFM disallowed-raw-HTML list in any ASCII case and one of
   tab, newline, form feed, carriage return, space, '/', '>' (the list and the delimiters are
   written out in the specification, independent of RE_FLOW); and the filtered text is the text
   with some '<' that RE_FLOW matches rewritten to "&lt;" - nothing else changes. *)
Theorem C17_gfm_filter_neutralises : forall (text : str),
  (forall i, match skipn i (gfm_filter text) with
             | c :: r => N.eqb c 60 && opens_tag r
             | [] => false
             end = false)
  /\ Neutral text (gfm_filter text).
Proof. exact gfm_filter_neutralises. Qed.
Print Assumptions C17_gfm_filter_neutralises.

(* Which characters the case-insensitive match of RE_FLOW covers (computed from `re` by the
   translator, pinned here): every tag letter matches its two ASCII cases; in addition 'i' matches
   U+0130 / U+0131 and 's' matches U+017F.  So the filter also rewrites e.g. "<ſcript>", which is
   not a tag opener for an HTML parser (tag names are matched ASCII case-insensitively): such
   extra replacements only turn a literal '<' into "&lt;" (Neutral above), and the no-opener
   statement above is about the HTML notion (ASCII case-insensitive). *)
Theorem C17_gfm_casefold : Forall (fun l => flow_ci l = spec_ci l) (concat flow_tags).
Proof. exact casefold_classes. Qed.
Print Assumptions C17_gfm_casefold.

(* Un-filtering: rewriting every "&lt;" that is followed by what RE_FLOW matches after '<' back to
   '<' undoes the filter; on a text that holds no such escaped opener of its own it gives back the
   text exactly. *)
Theorem C17_gfm_unfilter : forall (text : str),
  unfilter (gfm_filter text) = unfilter text
  /\ (no_esc text = true -> unfilter (gfm_filter text) = text).
Proof. exact gfm_unfilter. Qed.
Print Assumptions C17_gfm_unfilter.

(* No exception leaves html_to_nodes after its try block: the conversion of img /
   div.admonition elements (strip copy, title and body rendering) is total. *)
Theorem C17_no_escape : forall (parse : str -> list event) (gfm img adm : bool) (text : str) (e : exn),
  html_to_nodes parse gfm img adm text <> OEscapes e.
Proof. exact no_escape. Qed.
Print Assumptions C17_no_escape.

(* <div class="admonition ..."> = {admonition} directive.  For any element of a consistent store
   that represents the syntax tree <n a>ch</n>, run_directive receives spec_admonition a ch:
   name "admonition"; first line = the inner HTML of the first non-blank child when it is a div / p
   with class title or admonition-title, else "Note"; content = the option lines (class, name)
   right-stripped, a blank line, and the left-stripped body in which every <p> is replaced by its
   inner HTML followed by a blank line and everything else is carried over as its own source text -
   i.e. exactly the text of the Markdown spelling  ```{admonition} title / :class: .. / blank / body. *)
Theorem C17_admonition_directive : forall (st : store) (el : nat) (nm : str) (a : attrs) (ch : list html),
  good st -> cells_ok st -> Repr st el (HElem nm a ch) ->
  admonition_directive st el = Ok (spec_admonition a ch).
Proof. exact admonition_spec. Qed.
Print Assumptions C17_admonition_directive.

(* End to end, under the html.parser oracle: a well-formed block whose non-blank top-level nodes
   are all <div class="... admonition ..."> elements yields, with html_admonition enabled, exactly
   the list of these directives. *)
Theorem C17_admonition_equiv : forall (parse : str -> list event),
  (forall hs, wf_doc hs = true -> parse (print_doc hs) = events_doc hs) ->
  forall (hs : list html), wf_doc hs = true ->
  let kept := filter (fun h => negb (ws_html h)) hs in
  kept <> [] -> forallb is_admonition_html kept = true ->
  html_to_nodes parse false false true (print_doc hs)
  = ODirectives (map (fun h => spec_admonition (h_attrs h) (h_children h)) kept).
Proof. exact admonition_equiv. Qed.
Print Assumptions C17_admonition_equiv.

(* The strip-':' step of _parse_directive_options on what html_to_nodes writes: for option lines
   ":y1" .. ":yn" without line breaks, followed by nothing or by a blank line and any body, the
   extracted option block is y1 .. yn joined by newlines; for an <img> this is yaml_block, which
   C17_option_values_carried reads back as the attribute values. *)
Theorem C17_option_block_extracted : forall (kvs : attrs),
  kvs <> [] -> Forall (fun kv => wf_key (fst kv) = true) kvs ->
  (exists rest, extract_options (join [10%N] (map (fun kv => [58%N] ++ yaml_line kv) kvs)) = Some (yaml_block kvs, rest))
  /\ forall body, exists rest,
       extract_options (block_text (map yaml_line kvs) ++ 10%N :: 10%N :: body) = Some (yaml_block kvs, rest).
Proof. exact option_block_extracted. Qed.
Print Assumptions C17_option_block_extracted.

(* The option part of an admonition: content = rstrip(option lines) + blank line + body.  The
   rstrip() removes the space after the colon when the last recognised attribute has an empty
   value (":name: " -> ":name:"); the strip-':' step then yields yaml_block_r (last line "name:"),
   and the option reader still returns every attribute value (round 2 left this to correspondence). *)
Theorem C17_admonition_options_carried : forall (a : attrs) (body : str),
  let opts := filter (fun kv => mem_str (fst kv) option_keys_admonition) (sorted_items a) in
  opts <> [] ->
  exists rest,
    extract_options (rstrip (option_block option_keys_admonition a) ++ 10%N :: 10%N :: body) = Some (yaml_block_r opts, rest)
    /\ options_to_items (yaml_block_r opts) = RdOk (map (fun kv => (fst kv, value_or_empty (snd kv))) opts).
Proof. exact admonition_options_carried. Qed.
Print Assumptions C17_admonition_options_carried.

(* <img> = {image} directive, for every attribute dictionary with a src value, without any
   restriction on the attribute values (after the repair: values that are not plain-safe are
   written as double-quoted scalars): run_directive receives ("image", src, content) where
   content has one line ":key: value" per recognised attribute in key order - the text of the
   Markdown spelling  ```{image} src  + these option lines - and the option block (the lines
   without their leading ':') is read back by the option reader as exactly the attribute
   values ("" for an attribute without value). *)
Theorem C17_img_equiv : forall (c : cell) (src : str),
  dict_get (c_attrs c) s_src = Some (Some src) ->
  let opts := filter (fun kv => mem_str (fst kv) option_keys_image) (sorted_items (c_attrs c)) in
  exists d, img_directive c = Some d
            /\ d_name d = s_image /\ d_first d = src
            /\ d_content d = join [10%N] (map (fun kv => [58%N] ++ yaml_line kv) opts)
            /\ options_to_items (yaml_block opts)
               = RdOk (map (fun kv => (fst kv, value_or_empty (snd kv))) opts).
Proof. exact img_equiv. Qed.
Print Assumptions C17_img_equiv.

(* exactly the attributes that are options of the directives are turned into option lines *)
Theorem C17_option_keys :
  option_keys_image = spec_image_keys /\ option_keys_admonition = spec_admonition_keys.
Proof. exact keys_spec. Qed.
Print Assumptions C17_option_keys.

(* the same for any list of simple keys (covers the class / name options of an admonition) *)
Theorem C17_option_values_carried : forall (kvs : attrs),
  Forall (fun kv => wf_key (fst kv) = true) kvs ->
  options_to_items (yaml_block kvs) = RdOk (map (fun kv => (fst kv, value_or_empty (snd kv))) kvs).
Proof. exact values_carried. Qed.
Print Assumptions C17_option_values_carried.

(* pasting the raw value (the code before the repair) does not carry it over: alt="a #b" *)
Theorem C17_unquoted_value_refuted :
  exists v, options_to_items ([97; 108; 116; 58; 32]%N ++ v) <> RdOk [([97; 108; 116]%N, v)].
Proof. exact unquoted_value_refuted. Qed.
Print Assumptions C17_unquoted_value_refuted.

(* ---- round 3: the same statements for the code REGENERATED from html_to_nodes.py ----
   Gen/HtmlNodesSrc.v is written on every run by gen/c17_src.py: option_line, default_html and
   html_to_nodes statement by statement (the body of `for child in root:` as child_step_src), using
   the regenerated Tree / Element code of Gen/HtmlSrc.v (tokenize, strip, deepcopy). *)

Theorem C17_option_line_src : forall (k : str) (v : option str), option_line_src k v = option_line k v.
Proof. exact option_line_src_eq. Qed.
Print Assumptions C17_option_line_src.

Theorem C17_passthrough_src : forall (parse : str -> list event) (gfm img adm : bool) (text : str),
  let t' := filtered gfm text in
  let o := html_to_nodes_src parse gfm img adm text in
  (img = false -> adm = false -> o = ORaw t')
  /\ (forall x, o <> OWarnRaw x)
  /\ (o = ORaw t'
      \/ exists t st croot,
           tokenize parse t' [] = Ok t
           /\ strip_inplace (S (length (t_cells t))) (t_cells t) (t_outmost t) false = Ok st
           /\ get st (t_outmost t) = Ok croot
           /\ c_children croot <> []
           /\ all_convertible img adm st (c_children croot) = Ok true
           /\ (img || adm) = true).
Proof. exact passthrough_src. Qed.
Print Assumptions C17_passthrough_src.

(* one iteration of `for child in root:` on an <img> with a src value *)
Theorem C17_img_equiv_src : forall (st : store) (child : nat) (c : cell) (src : str) (nl : list directive),
  get st child = Ok c -> c_name c = s_img -> dict_get (c_attrs c) s_src = Some (Some src) ->
  let opts := filter (fun kv => mem_str (fst kv) option_keys_image) (sorted_items (c_attrs c)) in
  exists d, child_step_src child st nl = Ok (false, (st, nl ++ [d], None))
            /\ d_name d = s_image /\ d_first d = src
            /\ d_content d = join [10%N] (map (fun kv => [58%N] ++ yaml_line kv) opts)
            /\ options_to_items (yaml_block opts)
               = RdOk (map (fun kv => (fst kv, value_or_empty (snd kv))) opts).
Proof. exact img_equiv_src. Qed.
Print Assumptions C17_img_equiv_src.

(* one iteration on an element that is not an <img> (the div.admonition branch): the directive
   appended is spec_admonition, on the regenerated strip / deepcopy / title / flattening code
   (including the Data("\n\n") objects it allocates) *)
Theorem C17_admonition_directive_src :
  forall (st : store) (child : nat) (nm : str) (a : attrs) (ch : list html) (nl : list directive),
  good st -> cells_ok st -> Repr st child (HElem nm a ch) -> str_eqb nm s_img = false ->
  exists st', child_step_src child st nl = Ok (false, (st', nl ++ [spec_admonition a ch], None)).
Proof. exact admonition_step_src. Qed.
Print Assumptions C17_admonition_directive_src.

(* ---- non-vacuity ---- *)
Local Open Scope N_scope.

(* alt="a #b" is written as a quoted scalar and read back *)
Example C17_example_value :
  option_line [97;108;116] (Some [97;32;35;98]) = [58;97;108;116;58;32;34;97;32;35;98;34]
  /\ options_to_items (yaml_block [([97;108;116], Some [97;32;35;98]); ([110;97;109;101], None)])
     = RdOk [([97;108;116], [97;32;35;98]); ([110;97;109;101], [])].
Proof. split; vm_compute; reflexivity. Qed.

(* <SCRIPT> is neutralised in GFM mode; with both extensions off the output is the raw text *)
Example C17_example_gfm :
  html_to_nodes (fun _ => []) true false false [60;83;67;82;73;80;84;62]
  = ORaw [38;108;116;59;83;67;82;73;80;84;62].
Proof. vm_compute. reflexivity. Qed.
