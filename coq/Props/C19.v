(* C19 - Inventory filtering implements exactly the documented wildcard semantics.
   Statements only; proofs are in Inv/WildProofs.v. *)
From Coq Require Import List NArith Bool.
From MV Require Import Base.PyStr Inv.WildModel Inv.WildProofs Inv.SphinxModel Inv.SphinxProofs.
From MV Require Import Inv.LinkModel.
From MV Require Import Inv.LinkProofs.
From MV Require Import Gen.WildSrc.
From MV Require Import Inv.WildSrcProofs.
From MV Require Import Gen.FilterSrc.
From MV Require Import Inv.FilterSrcProofs.
From MV Require Import Inv.FilterSrcGlue.
From MV Require Import Inv.InvLinkPrims.
From MV Require Import Gen.InvLinkSrc.
From MV Require Import Inv.InvLinkSrcProofs.
From MV Require Import Inv.InvLinkGlue.
Import ListNotations.

(* '*' any run of characters, '\*' a literal star, every other character only itself:
   for every name and every pattern, with no premise on either. *)
Theorem C19_wildcard_correct : forall (n p : str),
  match_with_wildcard n (Some p) = true <-> Matches p n.
Proof. exact wildcard_correct. Qed.
Print Assumptions C19_wildcard_correct.

(* the same statement for [match_with_wildcard_src], the definition that gen/c19_wild.py regenerates from
   inventory.py's _create_regex / match_with_wildcard on every run (Gen/WildSrc.v): an edit of the source
   changes that definition, and this theorem is re-checked against it. *)
Theorem C19_wildcard_correct_src : forall (n p : str),
  match_with_wildcard_src n (Some p) = true <-> Matches p n.
Proof. exact wildcard_correct_src. Qed.
Print Assumptions C19_wildcard_correct_src.

(* an omitted pattern matches everything *)
Theorem C19_none_matches_all : forall n, match_with_wildcard n None = true.
Proof. exact none_matches_all. Qed.
Print Assumptions C19_none_matches_all.

(* exactly the entries whose four coordinates each match, in inventory order *)
Theorem C19_filter_exact : forall invs qi qd qo qt,
  filter_inventories invs qi qd qo qt = filter (match4 qi qd qo qt) (flatten invs).
Proof. exact filter_exact. Qed.
Print Assumptions C19_filter_exact.

(* identical for the native and the Sphinx in-memory representation of the same data (the native
   base_url is not part of the Sphinx format): for every list of well-formed inventories (unique keys
   at each level, no ':' in domain names, display text neither "" nor "-") and every filter. *)
Theorem C19_native_equals_sphinx : forall invs qi qd qo qt,
  forallb (fun '(k, i) => wf_inv i) invs = true ->
  filter_sphinx_inventories (map (fun '(k, i) => (k, to_sphinx i)) invs) qi qd qo qt =
  map erase_base (filter_inventories invs qi qd qo qt).
Proof. exact native_equals_sphinx. Qed.
Print Assumptions C19_native_equals_sphinx.

(* the premise on display texts is necessary: "" becomes "-" becomes None *)
Theorem C19_sphinx_text_refuted :
  exists invs, filter_sphinx_inventories (map (fun '(k, i) => (k, to_sphinx i)) invs) None None None None
               <> map erase_base (filter_inventories invs None None None None).
Proof. exact sphinx_text_refuted. Qed.
Print Assumptions C19_sphinx_text_refuted.

(* inv: link: none -> missing warning, one -> that entry, several -> ambiguous warning + first *)
Theorem C19_inv_link : forall ms,
  match ms with
  | [] => inv_link ms = IL_missing
  | [m] => inv_link ms = IL_one m
  | m :: _ :: _ => inv_link ms = IL_ambiguous m
  end.
Proof. exact inv_link_spec. Qed.
Print Assumptions C19_inv_link.

(* the same two statements for the filter loops as regenerated from inventory.py on every run
   (Gen/FilterSrc.v, translator gen/c19_filters.py; refinement proofs Inv/FilterSrcProofs.v) *)
Theorem C19_filter_exact_src : forall invs qi qd qo qt,
  filter_inventories_src invs qi qd qo qt = filter (match4 qi qd qo qt) (flatten invs).
Proof. exact filter_exact_src. Qed.
Print Assumptions C19_filter_exact_src.

Theorem C19_native_equals_sphinx_src : forall invs qi qd qo qt,
  forallb (fun '(k, i) => wf_inv i) invs = true ->
  filter_sphinx_inventories_src (map (fun '(k, i) => (k, to_sphinx i)) invs) qi qd qo qt =
  map erase_base (filter_inventories_src invs qi qd qo qt).
Proof. exact native_equals_sphinx_src. Qed.
Print Assumptions C19_native_equals_sphinx_src.

(* filter_string (used in warnings and inv_match): components joined by the delimiter, None as "*",
   a component containing the delimiter in double quotes *)
Theorem C19_filter_string_src : forall invs domains otype target delimiter,
  filter_string_src invs domains otype target delimiter =
  join delimiter (map (filter_item delimiter) [invs; domains; otype; target]).
Proof. exact filter_string_src_spec. Qed.
Print Assumptions C19_filter_string_src.

(* the reference an inv: link renders: nothing but one iref_missing warning when no entry matches; otherwise
   the FIRST matching entry, with one iref_ambiguous warning iff there are several; its refuri is the entry's
   location joined to the inventory's base URL ([joined]: an absolute location stands alone, a base ending in "/"
   is concatenated, otherwise "/" is inserted; no or empty base: the location itself); its text is the link's own
   text if explicit, else the entry's display text, else the entry's name as a literal.
   (posixpath.join is the model InvLoad.PyText.pjoin, characterised by C18_posixpath_join.) *)
Theorem C19_inv_link_render : forall explicit ms,
  match ms with
  | [] => render_link_inventory explicit ms = LR_missing
  | m :: rest =>
      exists r, render_link_inventory explicit ms = LR_ref (match rest with [] => false | _ => true end) r /\
                r_refuri r = joined (m_base m) (m_loc m) /\
                r_text r = (if explicit then RT_children
                            else if truthy (m_text m)
                                 then RT_text (match m_text m with Some t => t | None => [] end)
                                 else RT_literal (m_name m))
  end.
Proof. exact inv_link_render. Qed.
Print Assumptions C19_inv_link_render.

(* the same for render_link_inventory as regenerated from base.py on every run (Gen/InvLinkSrc.v, translator
   gen/c19_link.py, refinement proof Inv/InvLinkSrcProofs.v), for every behaviour of the two oracles
   (markdown-it's normalizeLinkText, urllib's urlparse reduced to path and fragment) and every match function:
   which warning kinds are emitted and the refuri of the reference *)
Theorem C19_inv_link_render_src : forall normalize_link_text urlparse get_matches token up,
  urlparse (link_href normalize_link_text token) = Some up ->
  let '(invs, domains, otypes) := path_filters (up_path up) in
  let ms := get_matches invs domains otypes (Some (up_fragment up)) in
  let res := render_link_inventory_src normalize_link_text urlparse get_matches token in
  match ms with
  | [] => map fst (fst res) = [W_iref_missing] /\ snd res = None
  | m :: rest =>
      map fst (fst res) = (match rest with [] => [] | _ => [W_iref_ambiguous] end) /\
      exists n, snd res = Some n /\ n_refuri n = Some (joined (m_base m) (m_loc m))
  end.
Proof. exact inv_link_render_src. Qed.
Print Assumptions C19_inv_link_render_src.

(* the lazily loaded inventories are loaded once per document: a second lookup filters the same set *)
Theorem C19_inventories_loaded_once : forall fetch cache cfg ws qi qd qo qt ms invs ws',
  gim_model fetch cache cfg ws qi qd qo qt = (ms, invs, ws') ->
  forall ws2 qi2 qd2 qo2 qt2,
    gim_model fetch (Some invs) cfg ws2 qi2 qd2 qo2 qt2 = (filter_inventories invs qi2 qd2 qo2 qt2, invs, ws2).
Proof. exact gim_cached. Qed.
Print Assumptions C19_inventories_loaded_once.

(* the matcher as it was before the re.DOTALL repair does not meet the documented semantics *)
Theorem C19_without_dotall_refuted :
  exists p n, Matches p n /\ pmatch false (create_regex p) n = false.
Proof. exact nodotall_refuted. Qed.
Print Assumptions C19_without_dotall_refuted.

(* non-vacuity: a concrete pattern with all three constructs *)
Example C19_example :
  match_with_wildcard [97; 42; 98; 99]%N (Some [97; 92; 42; 42; 99]%N) = true.
Proof. vm_compute. reflexivity. Qed.
