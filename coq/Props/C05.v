(* C05 - Heading levels determine section nesting; nested headings never make sections.
   Statements only; model in Sect/Sections.v, specification in Sect/SectionsSpec.v,
   proofs in Sect/SectionsProofs.v. *)
From Coq Require Import List Arith Bool.
From MV Require Import Base.Res Sect.Sections Sect.SectionsSpec Sect.SectionsProofs Sect.SectionsDoc
                       Gen.SectSrc Sect.SectSrcProofs.
Import ListNotations.

(* For every token tree whose heading tags are >= 1 (h1..h6; any nesting of containers, directives
   with or without match_titles, includes with any heading offset) rendering never raises - in
   particular max() in update_section_level_state is never applied to an empty set - and the level
   map keeps level 0 (the document) first and its keys strictly increasing. *)
Theorem C05_level_map_inv : forall ts, forallb tags_ok ts = true ->
  exists s, render_document ts = Ok s /\
    sorted_keys (lvl s) /\ exists m', lvl s = (0, Doc) :: m'.
Proof. exact level_map_inv. Qed.
Print Assumptions C05_level_map_inv.

(* the invariant is needed: at level 0 the code's max() raises ValueError *)
Theorem C05_level_zero_raises : run_levels [0] = Raise ValueError.
Proof. reflexivity. Qed.
Print Assumptions C05_level_zero_raises.

(* Every sequence of heading levels (any length, any levels >= 1, skipped ones included): the doctree
   consists, apart from warnings, of exactly one edge per heading, in source order, from the parent
   given by the specification - the closest preceding still-open heading of lower level, else the
   document. *)
Theorem C05_sections_refine_spec : forall ls, Forall (fun l => 1 <= l) ls ->
  exists s, run_levels ls = Ok s /\
    filter non_warn (log s) = map (exp_edge ls) (seq 0 (length ls)) /\
    (forall i, i < length ls -> ParentSpec ls i (parent_spec ls i)).
Proof. exact sections_refine_spec. Qed.
Print Assumptions C05_sections_refine_spec.

(* the declarative parent is unique, so parent_spec is *the* parent *)
Theorem C05_parent_spec_unique : forall ls i p q, ParentSpec ls i p -> ParentSpec ls i q -> p = q.
Proof. exact ParentSpec_unique. Qed.
Print Assumptions C05_parent_spec_unique.

(* reading without "still open": the greatest preceding heading of lower level is still open *)
Theorem C05_greatest_lower_is_open : forall ls i j,
  j < i -> lower ls j i -> (forall j', j < j' < i -> ~ lower ls j' i) -> still_open ls j i.
Proof. exact greatest_lower_is_open. Qed.
Print Assumptions C05_greatest_lower_is_open.

(* The [myst.header] warnings are exactly: one for each heading whose level exceeds the level of its
   parent (0 for the document) by more than one, in source order; and apart from them the doctree is
   the one of C05_sections_refine_spec. *)
Theorem C05_skip_warnings : forall ls, Forall (fun l => 1 <= l) ls ->
  exists s, run_levels ls = Ok s /\
    warns (log s) = flat_map (exp_warn ls) (seq 0 (length ls)) /\
    filter non_warn (log s) = map (exp_edge ls) (seq 0 (length ls)).
Proof. exact skip_warnings. Qed.
Print Assumptions C05_skip_warnings.

(* Whole documents: headings at document level interleaved with arbitrary other blocks, containers with
   headings at any depth, directive bodies, and {include}s with any heading-offset (nested includes too).
   With hl = the document-level headings (heading number, effective level = tag + the sum of the offsets of
   the enclosing includes) in source order: the sections are exactly one per such heading, in source order, each under
   the section of the heading that the specification names for the level sequence (or the document); the
   warnings are exactly one per upward skip of more than one level.  Headings below containers do not
   appear here at all (they are rubrics, C05_nested_headings_are_rubrics_partial). *)
Theorem C05_document_sections : forall ts, forallb tags_ok ts = true -> forallb no_titles ts = true ->
  exists s, render_document ts = Ok s /\
    secs (log s) = flat_map (exp_sec (doc_headings_list 0 0 ts)) (seq 0 (length (doc_headings_list 0 0 ts))) /\
    warns (log s) = flat_map (exp_warn_ids (doc_headings_list 0 0 ts)) (seq 0 (length (doc_headings_list 0 0 ts))).
Proof. exact document_sections. Qed.
Print Assumptions C05_document_sections.

(* A container (block quote, list item, ...) rendered in any state: whatever it contains (headings at
   any depth, includes, directives that do not ask for titles), no section and no header warning is
   created, the level map, current node, heading offset and temp root are as before, and every heading
   inside became a rubric that records its level.
   PARTIAL: guarded by [no_titles] - a directive that nested-parses its body with match_titles=True
   (Sphinx's `only`) does open sections, see C05_nested_headings_are_rubrics_refuted. *)
Theorem C05_nested_headings_are_rubrics_partial : forall ts s, troot_fresh s -> forallb no_titles ts = true ->
  exists s', render (TContainer ts) s = Ok s' /\
    lvl s' = lvl s /\ cur s' = cur s /\ hoff s' = hoff s /\ troot s' = troot s /\
    secs (log s') = secs (log s) /\ warns (log s') = warns (log s) /\
    rubs (log s') = rubs (log s) ++ number (nh s) (flat_map (heading_levels (hoff s)) ts) /\
    nh s' = nh s + length (flat_map (heading_levels (hoff s)) ts).
Proof. exact nested_headings_are_rubrics. Qed.
Print Assumptions C05_nested_headings_are_rubrics_partial.

(* "# h0", then a block quote holding a match_titles directive with "## h1" in its body: h1 becomes a
   section, and it is attached to the section of h0 - outside the directive and the quote *)
Theorem C05_nested_headings_are_rubrics_refuted : exists ts s s',
  troot_fresh s /\ render (TContainer ts) s = Ok s' /\ secs (log s') <> secs (log s).
Proof.
  exists [TDirective true [THeading 2]].
  destruct (render (THeading 1) init) as [s|] eqn:E; [|discriminate].
  exists s. vm_compute in E. inversion E; subst. eexists. split; [intros r Hr; discriminate|].
  split; [vm_compute; reflexivity|]. vm_compute. discriminate.
Qed.
Print Assumptions C05_nested_headings_are_rubrics_refuted.

(* The open finding characterised: a match_titles directive ([TDirective true]) in any state - e.g. below a
   block quote - with the level map left by the document-level headings hl: the heading in its body opens a
   section attached to the node the specification names for a document-level heading of that level at that
   point (closest still-open heading of lower level among hl, else the document), not to the directive's
   node; level map, current node, offset and temp root are restored. *)
Theorem C05_titled_directive_attaches : forall hl s tag,
  InvG hl (lvl s) -> Forall (fun x => 1 <= snd x) hl -> 1 <= tag ->
  exists s' p, render (TDirective true [THeading tag]) s = Ok s' /\
    ParentSpec (levels hl ++ [tag + hoff s]) (length hl) p /\
    secs (log s') = secs (log s) ++ [(pref_ids (hl ++ [(nh s, tag + hoff s)]) p, nh s)] /\
    lvl s' = lvl s /\ cur s' = cur s /\ hoff s' = hoff s /\ troot s' = troot s.
Proof. exact titled_directive_attaches. Qed.
Print Assumptions C05_titled_directive_attaches.

(* the same for the body of a directive such as an admonition (nested_parse without match_titles) *)
Theorem C05_directive_headings_are_rubrics : forall ts s, troot_fresh s -> forallb no_titles ts = true ->
  exists s', render (TDirective false ts) s = Ok s' /\
    lvl s' = lvl s /\ cur s' = cur s /\ hoff s' = hoff s /\ troot s' = troot s /\
    secs (log s') = secs (log s) /\ warns (log s') = warns (log s) /\
    rubs (log s') = rubs (log s) ++ number (nh s) (flat_map (heading_levels (hoff s)) ts) /\
    nh s' = nh s + length (flat_map (heading_levels (hoff s)) ts).
Proof. exact directive_headings_are_rubrics. Qed.
Print Assumptions C05_directive_headings_are_rubrics.

(* nested_render_text with a temporary root restores the level map (and offset and root) *)
Theorem C05_restore_after_nested : forall rend r off s s',
  nested_render_text rend (Some r) off s = Ok s' ->
  lvl s' = lvl s /\ hoff s' = hoff s /\ troot s' = troot s.
Proof. exact nested_render_text_restores. Qed.
Print Assumptions C05_restore_after_nested.

Theorem C05_restore_after_titled_directive : forall ts s s',
  render (TDirective true ts) s = Ok s' ->
  lvl s' = lvl s /\ hoff s' = hoff s /\ troot s' = troot s /\ cur s' = cur s.
Proof. exact directive_with_titles_restores. Qed.
Print Assumptions C05_restore_after_titled_directive.

(* ---- round 3: the CODE regenerated from base.py on this run (Gen/SectSrc.v) ---- *)

(* update_section_level_state, render_heading (section-or-rubric test, rubric level, the call and the
   current_node assignment) and nested_render_text's _restore, as translated, equal the model *)
Theorem C05_source_refines_model :
  (forall s section level, update_section_level_state_src s section level = update_section_level_state s section level) /\
  (forall tag s, render_heading_src tag s = render_heading tag s) /\
  (forall rend tr off s, nested_render_text_src rend tr off s = nested_render_text rend tr off s).
Proof.
  split; [exact update_section_level_state_src_eq|]. split; [exact render_heading_src_eq | exact nested_render_text_src_eq].
Qed.
Print Assumptions C05_source_refines_model.

(* the refinement theorem stated on the regenerated step: every sequence of levels >= 1 rendered with
   render_heading_src never raises, ends with a well-formed level map, and yields exactly the edges and
   warnings of the specification *)
Theorem C05_sections_refine_spec_src : forall ls, Forall (fun l => 1 <= l) ls ->
  exists s, run_levels_src ls = Ok s /\
    filter non_warn (log s) = map (exp_edge ls) (seq 0 (length ls)) /\
    warns (log s) = flat_map (exp_warn ls) (seq 0 (length ls)) /\
    (sorted_keys (lvl s) /\ exists m', lvl s = (0, Doc) :: m').
Proof. exact sections_refine_spec_src. Qed.
Print Assumptions C05_sections_refine_spec_src.

(* non-vacuity: levels 3 1 3 2 - heading 0 and 1 under the document, 2 and 3 under heading 1;
   warnings for heading 0 (document -> H3) and heading 2 (H1 -> H3) *)
Example C05_example :
  match run_levels [3; 1; 3; 2] with
  | Ok s => secs (log s) = [(Doc, 0); (Doc, 1); (Sec 1, 2); (Sec 1, 3)] /\
            warns (log s) = [(0, 0, 3); (2, 1, 3)] /\
            map fst (lvl s) = [0; 1; 2]
  | Raise _ => False
  end.
Proof. vm_compute. repeat split. Qed.

Example C05_example_spec :
  map (parent_spec [3; 1; 3; 2]) [0; 1; 2; 3] = [None; None; Some 1; Some 1].
Proof. vm_compute. reflexivity. Qed.

Example C05_example_nested :
  match render_document [THeading 1; TContainer [THeading 1; TInclude 2 [THeading 2]]; TDirective false [THeading 3]; THeading 2] with
  | Ok s => secs (log s) = [(Doc, 0); (Sec 0, 4)] /\ rubs (log s) = [(1, 1); (2, 4); (3, 3)]
  | Raise _ => False
  end.
Proof. vm_compute. repeat split. Qed.

Example C05_example_document :
  let ts := [THeading 1; TContainer [THeading 1]; TInclude 2 [THeading 1; TPara; THeading 2; TInclude 1 [THeading 1]]; THeading 2] in
  doc_headings_list 0 0 ts = [(0, 1); (2, 3); (3, 4); (4, 4); (5, 2)] /\
  match render_document ts with
  | Ok s => secs (log s) = [(Doc, 0); (Sec 0, 2); (Sec 2, 3); (Sec 2, 4); (Sec 0, 5)] /\ warns (log s) = [(2, 1, 3)]
  | Raise _ => False
  end.
Proof. vm_compute. repeat split. Qed.
