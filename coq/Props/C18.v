(* C18 - Inventory loading agrees with Sphinx and is independent of stream chunking.
   Statements only; proofs are in coq/InvLoad/*Proofs.v.

   Oracles (premises of the theorems, exercised on the real libraries by props/C18.py):
     zlib_stream_ok   zlib.decompressobj is a streaming transducer: feeding a++b = feeding a then b,
                      an error stays an error                                    (ReaderProofs.v)
     zlib_oneshot_ok  zlib.decompress z = out implies the streamed output is out (AgreeProofs.v)
     decode_ok        bytes.decode(): ASCII bytes never belong to a multi-byte sequence (TextProofs.v)
     match_line       re.match of the v2 line pattern: any function, the same on both sides *)
From Coq Require Import List NArith Bool.
From MV Require Import Base.PyStr Inv.WildModel InvLoad.Regex Gen.Inventory InvLoad.Basics InvLoad.PyText
  InvLoad.Reader InvLoad.Load InvLoad.SphinxInv InvLoad.TableCodec
  InvLoad.ReaderProofs InvLoad.LoadProofs InvLoad.TextProofs InvLoad.AgreeProofs
  InvLoad.BadLineProofs InvLoad.RoundtripProofs InvLoad.CodecProofs InvLoad.WitnessProofs
  InvLoad.Utf8Proofs InvLoad.Cli InvLoad.CliProofs InvLoad.SrcPrims Gen.InventorySrc InvLoad.SrcProofs InvLoad.SrcTop.
Import ListNotations.
Open Scope N_scope.

(* ------------------------------------------------------------------------------------------
   Both loaders are driven by the same literals (regenerated from inventory.py and from the
   installed sphinx/util/inventory.py on every run). *)
Theorem C18_same_literals :
  regex_same = true /\
  hdr_v1 = sphinx_hdr_v1 /\ hdr_v2 = sphinx_hdr_v2 /\ zlib_marker = sphinx_zlib_marker /\
  v1_name_off = sphinx_v1_name_off /\ v1_version_off = sphinx_v1_version_off /\
  v2_name_off = sphinx_v2_name_off /\ v2_version_off = sphinx_v2_version_off /\
  0 < BUFSIZE.
Proof. exact same_literals. Qed.
Print Assumptions C18_same_literals.

(* ------------------------------------------------------------------------------------------
   Chunking.  [cs] is the list of byte strings returned by the successive read(_BUFSIZE) calls
   (b"" for ever after the list); [live cs] are the bytes delivered before the first b"".
   For every such list, load gives what it gives when the same bytes arrive in one read; the one
   exception: when zlib itself rejects the stream, every chunking still fails, with zlib.error or,
   if an undecodable line was met first, UnicodeDecodeError. *)
Theorem C18_chunking_independent :
  forall (dstate : Type) (dinit : dstate) (dstep : dstate -> bytes -> dstate * bytes)
         (dflush : dstate -> bytes) (derr : dstate -> bool)
         (decode : bytes -> option str) (match_line : str -> option (str * str * str * str * str)),
  zlib_stream_ok dstate dstep derr ->
  forall (cs : list bytes) (base_url : option str),
    load dstate dinit dstep dflush derr decode match_line cs base_url =
    load dstate dinit dstep dflush derr decode match_line [live cs] base_url
    \/
    (load dstate dinit dstep dflush derr decode match_line [live cs] base_url = IRaise ZlibErr /\
     exists e, load dstate dinit dstep dflush derr decode match_line cs base_url = IRaise e /\
               (e = ZlibErr \/ e = UnicodeDecodeErr)).
Proof. exact chunking_independent. Qed.
Print Assumptions C18_chunking_independent.

(* a partition into non-empty chunks delivers exactly its concatenation *)
Theorem C18_live_is_concat :
  forall cs : list bytes, Forall (fun c => c <> []) cs -> live cs = concat cs.
Proof. exact live_nonempty. Qed.
Print Assumptions C18_live_is_concat.

(* hence any two chunkings of the same bytes give the same inventory, or both fail *)
Theorem C18_any_two_chunkings :
  forall (dstate : Type) (dinit : dstate) (dstep : dstate -> bytes -> dstate * bytes)
         (dflush : dstate -> bytes) (derr : dstate -> bool)
         (decode : bytes -> option str) (match_line : str -> option (str * str * str * str * str)),
  zlib_stream_ok dstate dstep derr ->
  forall (cs1 cs2 : list bytes) (base_url : option str), live cs1 = live cs2 ->
    load dstate dinit dstep dflush derr decode match_line cs1 base_url =
    load dstate dinit dstep dflush derr decode match_line cs2 base_url
    \/
    ((exists e, load dstate dinit dstep dflush derr decode match_line cs1 base_url = IRaise e) /\
     (exists e, load dstate dinit dstep dflush derr decode match_line cs2 base_url = IRaise e)).
Proof. exact any_two_chunkings. Qed.
Print Assumptions C18_any_two_chunkings.

(* plain equality of the results (exception class included) does not hold for corrupt streams:
   with the table decompressor [(1 -> b"\xff\n"); (2 -> b""); (3 -> zlib.error)] one read raises
   zlib.error, three reads raise UnicodeDecodeError *)
Theorem C18_chunking_exception_class_refuted :
  exists (tab : ztable) (cs : list bytes),
    load_exec tab cs None <> load_exec tab [live cs] None.
Proof. exact exception_class_refuted. Qed.
Print Assumptions C18_chunking_exception_class_refuted.

(* ------------------------------------------------------------------------------------------
   Termination: readline returns after at most len(remaining chunks)+1 reads for every reader
   state; no loop of load runs out of the fuel the model gives it. *)
Theorem C18_readline_terminates :
  forall (decode : bytes -> option str) (r : reader), readline decode r <> IRaise OutOfFuelErr.
Proof. exact readline_terminates. Qed.
Print Assumptions C18_readline_terminates.

Theorem C18_load_terminates :
  forall (dstate : Type) (dinit : dstate) (dstep : dstate -> bytes -> dstate * bytes)
         (dflush : dstate -> bytes) (derr : dstate -> bool)
         (decode : bytes -> option str) (match_line : str -> option (str * str * str * str * str)),
  zlib_stream_ok dstate dstep derr ->
  forall (cs : list bytes) (base_url : option str),
    load dstate dinit dstep dflush derr decode match_line cs base_url <> IRaise OutOfFuelErr.
Proof. exact load_terminates. Qed.
Print Assumptions C18_load_terminates.

(* ------------------------------------------------------------------------------------------
   Agreement with Sphinx.  Whenever Sphinx's loads() accepts the bytes, MyST's load() accepts
   them under every chunking and yields the same entries:
     for every domain (without ':'), object type and name, the MyST entry (location joined to
     the base with posixpath.join, display text with ""/"-" read as None) is the Sphinx entry
     stored under "domain:type"; MyST has no domain with a ':' and Sphinx no key without one;
   and, when the header lines are plain ASCII, the same project name and version.
   Premises: the header lines are valid UTF-8 (MyST decodes them, Sphinx only slices them) and
   in the decoded body "\n" is the only line separator, except that a "\r" may stand immediately
   before a "\n" (CR LF files: MyST splits at "\n" and line.rstrip() drops the "\r", Sphinx's
   str.splitlines takes "\r\n" as one separator).  Without that premise: C18_nosep_needed, and
   C18_separator_characterisation says exactly what Sphinx computes instead. *)
Theorem C18_agrees_with_sphinx :
  forall (dstate : Type) (dinit : dstate) (dstep : dstate -> bytes -> dstate * bytes)
         (dflush : dstate -> bytes) (derr : dstate -> bool) (dz : bytes -> option bytes)
         (decode : bytes -> option str) (match_line : str -> option (str * str * str * str * str)),
  zlib_stream_ok dstate dstep derr ->
  zlib_oneshot_ok dstate dinit dstep dflush derr dz ->
  decode_ok decode ->
  forall (cs : list bytes) (uri : str) (base_url : option str) (sinv : sinv_t),
    Forall (fun l => decode l <> None) (firstn 4 (bsplit_nl 4 (live cs))) ->
    (forall text, sphinx_text dz decode (live cs) = Some text -> crlf_only text) ->
    sphinx_loads dz decode match_line (live cs) uri = IOk sinv ->
    exists inv : inventory,
      load dstate dinit dstep dflush derr decode match_line cs base_url = IOk inv /\
      agree uri (inv_objects inv) sinv /\
      (plain_header (live cs) -> same_project inv sinv).
Proof. exact agrees_with_sphinx. Qed.
Print Assumptions C18_agrees_with_sphinx.

(* the separator premise cannot be dropped (open finding sphinx:splitlines-separator):
   a form feed inside a line is a line break for Sphinx 8.2 (str.splitlines) and ordinary
   whitespace for MyST *)
Theorem C18_nosep_needed :
  exists sinv inv,
    id_sphinx (v2_header ++ body_ff) uri_x = IOk sinv /\
    id_load [v2_header ++ body_ff] None = IOk inv /\
    Forall (fun l => utf8_decode l <> None) (firstn 4 (bsplit_nl 4 (v2_header ++ body_ff))) /\
    ~ agree uri_x (inv_objects inv) sinv.
Proof. exact nosep_needed. Qed.
Print Assumptions C18_nosep_needed.

(* a body without any extra separator is a special case of the premise *)
Theorem C18_nosep_is_crlf_only : forall s : str, nosep s -> crlf_only s.
Proof. exact nosep_crlf_only. Qed.
Print Assumptions C18_nosep_is_crlf_only.

(* The disagreement characterised.  str.splitlines of any text = splitting at "\n" the text in
   which every line separator (\r \v \f FS GS RS NEL LS PS, and "\r\n" as one) is replaced by "\n"; *)
Theorem C18_sphinx_lines_normalised :
  forall s : str, splitlines s = trim_last (split_nl (norm_seps s)).
Proof. exact splitlines_norm. Qed.
Print Assumptions C18_sphinx_lines_normalised.

(* hence for EVERY body text T, Sphinx's entries for T are MyST's entries for norm_seps T: the two
   loaders differ on T exactly where MyST's result changes under that normalisation *)
Theorem C18_separator_characterisation :
  forall (match_line : str -> option (str * str * str * str * str)) (uri proj ver T : str),
    agree uri (fold_left (v2_step match_line) (trim_last (split_nl (norm_seps T))) [])
              (fold_left (sphinx_v2_step match_line uri proj ver) (splitlines T) []).
Proof. exact separator_characterisation. Qed.
Print Assumptions C18_separator_characterisation.

Theorem C18_separator_agreement_criterion :
  forall (match_line : str -> option (str * str * str * str * str)) (uri proj ver T : str),
    fold_left (v2_step match_line) (trim_last (split_nl T)) [] =
    fold_left (v2_step match_line) (trim_last (split_nl (norm_seps T))) [] ->
    agree uri (fold_left (v2_step match_line) (trim_last (split_nl T)) [])
              (fold_left (sphinx_v2_step match_line uri proj ver) (splitlines T) []).
Proof. exact separator_agreement_criterion. Qed.
Print Assumptions C18_separator_agreement_criterion.

(* and every separator other than "\n" does produce a disagreement: in
   "a py:function 1 a.html -" c "b py:function 1 b.html -\n" Sphinx finds the entry b, MyST does not *)
Theorem C18_separator_family_refuted :
  forall c, In c linesep_table -> c <> 10 ->
    objs_lookup (fold_left (v2_step match_line_exec) (trim_last (split_nl (sep_text c))) [])
                [112; 121] [102; 117; 110; 99; 116; 105; 111; 110] [98] = None /\
    sinv_lookup (fold_left (sphinx_v2_step match_line_exec uri_x [] []) (splitlines (sep_text c)) [])
                k_py_function [98] <> None.
Proof. exact separator_family. Qed.
Print Assumptions C18_separator_family_refuted.

(* ------------------------------------------------------------------------------------------
   A malformed line does not disturb the other entries. *)

(* v2: a line that does not match the pattern, or whose type has no ':', is skipped: the file
   (four header lines, then a zlib stream inflating to A ++ bad ++ "\n" ++ B, A ending at a line
   boundary) loads exactly as the file whose body is A ++ B *)
Theorem C18_bad_line_isolated :
  forall (dstate : Type) (dinit : dstate) (dstep : dstate -> bytes -> dstate * bytes)
         (dflush : dstate -> bytes) (derr : dstate -> bool)
         (decode : bytes -> option str) (match_line : str -> option (str * str * str * str * str)),
  zlib_stream_ok dstate dstep derr ->
  forall (l0 l1 l2 l3 z z' A bad B : bytes) (s : str) (base_url : option str),
    find_nl l0 = None -> find_nl l1 = None -> find_nl l2 = None -> find_nl l3 = None ->
    (exists s0, decode l0 = Some s0 /\ rstrip s0 = hdr_v2) ->
    inflates dstate dinit dstep dflush derr z (A ++ bad ++ 10 :: B) ->
    inflates dstate dinit dstep dflush derr z' (A ++ B) ->
    aligned A -> find_nl bad = None -> decode bad = Some s -> v2_malformed match_line s ->
    load dstate dinit dstep dflush derr decode match_line
         [l0 ++ 10 :: l1 ++ 10 :: l2 ++ 10 :: l3 ++ 10 :: z] base_url =
    load dstate dinit dstep dflush derr decode match_line
         [l0 ++ 10 :: l1 ++ 10 :: l2 ++ 10 :: l3 ++ 10 :: z'] base_url.
Proof. exact bad_line_isolated_v2. Qed.
Print Assumptions C18_bad_line_isolated.

(* the same for every chunking of the two files (composition with C18_chunking_independent) *)
Theorem C18_bad_line_isolated_any_chunking :
  forall (dstate : Type) (dinit : dstate) (dstep : dstate -> bytes -> dstate * bytes)
         (dflush : dstate -> bytes) (derr : dstate -> bool)
         (decode : bytes -> option str) (match_line : str -> option (str * str * str * str * str)),
  zlib_stream_ok dstate dstep derr ->
  forall (l0 l1 l2 l3 z z' A bad B : bytes) (s : str) (base_url : option str) (cs cs' : list bytes),
    find_nl l0 = None -> find_nl l1 = None -> find_nl l2 = None -> find_nl l3 = None ->
    (exists s0, decode l0 = Some s0 /\ rstrip s0 = hdr_v2) ->
    inflates dstate dinit dstep dflush derr z (A ++ bad ++ 10 :: B) ->
    inflates dstate dinit dstep dflush derr z' (A ++ B) ->
    aligned A -> find_nl bad = None -> decode bad = Some s -> v2_malformed match_line s ->
    live cs = l0 ++ 10 :: l1 ++ 10 :: l2 ++ 10 :: l3 ++ 10 :: z ->
    live cs' = l0 ++ 10 :: l1 ++ 10 :: l2 ++ 10 :: l3 ++ 10 :: z' ->
    load dstate dinit dstep dflush derr decode match_line cs base_url =
    load dstate dinit dstep dflush derr decode match_line cs' base_url.
Proof. exact bad_line_isolated_v2_chunked. Qed.
Print Assumptions C18_bad_line_isolated_any_chunking.

(* v1: a blank line is skipped *)
Theorem C18_blank_line_skipped_v1 :
  forall (dstate : Type) (dinit : dstate) (dstep : dstate -> bytes -> dstate * bytes)
         (dflush : dstate -> bytes) (derr : dstate -> bool)
         (decode : bytes -> option str) (match_line : str -> option (str * str * str * str * str)),
  zlib_stream_ok dstate dstep derr ->
  forall (l0 l1 l2 A B : bytes) (base_url : option str),
    find_nl l0 = None -> find_nl l1 = None -> find_nl l2 = None ->
    (exists s0, decode l0 = Some s0 /\ rstrip s0 = hdr_v1) ->
    decode [] = Some [] -> aligned A ->
    load dstate dinit dstep dflush derr decode match_line
         [l0 ++ 10 :: l1 ++ 10 :: l2 ++ 10 :: A ++ 10 :: B] base_url =
    load dstate dinit dstep dflush derr decode match_line
         [l0 ++ 10 :: l1 ++ 10 :: l2 ++ 10 :: A ++ B] base_url.
Proof. exact blank_line_skipped_v1. Qed.
Print Assumptions C18_blank_line_skipped_v1.

(* v1: a non-blank line with fewer than three fields makes the load fail with an error *)
Theorem C18_short_line_fails_v1 :
  forall (dstate : Type) (dinit : dstate) (dstep : dstate -> bytes -> dstate * bytes)
         (dflush : dstate -> bytes) (derr : dstate -> bool)
         (decode : bytes -> option str) (match_line : str -> option (str * str * str * str * str)),
  zlib_stream_ok dstate dstep derr ->
  forall (l0 l1 l2 A bad B : bytes) (s : str) (base_url : option str),
    find_nl l0 = None -> find_nl l1 = None -> find_nl l2 = None ->
    (exists s0, decode l0 = Some s0 /\ rstrip s0 = hdr_v1) ->
    aligned A -> find_nl bad = None -> decode bad = Some s -> s <> [] ->
    length (split_ws 2 (rstrip s)) <> 3%nat ->
    exists e,
      load dstate dinit dstep dflush derr decode match_line
           [l0 ++ 10 :: l1 ++ 10 :: l2 ++ 10 :: A ++ bad ++ 10 :: B] base_url = IRaise e /\
      (e = ValueErr \/ e = UnicodeDecodeErr).
Proof. exact short_line_fails_v1. Qed.
Print Assumptions C18_short_line_fails_v1.

(* ------------------------------------------------------------------------------------------
   Conversion to Sphinx's in-memory format and back is lossless for well-formed inventories
   (base_url None; at least one entry; no empty domain or type table; unique keys; no ':' in
   domain names; display text neither "" nor "-") - and each condition is needed. *)
Theorem C18_sphinx_roundtrip :
  forall inv : inventory, wf_inv inv -> from_sphinx (to_sphinx inv) = inv.
Proof. exact sphinx_roundtrip. Qed.
Print Assumptions C18_sphinx_roundtrip.

Theorem C18_roundtrip_conditions_needed :
  from_sphinx (to_sphinx w_no_entries) <> w_no_entries /\
  from_sphinx (to_sphinx w_empty_domain) <> w_empty_domain /\
  from_sphinx (to_sphinx w_empty_type) <> w_empty_type /\
  from_sphinx (to_sphinx w_base_url) <> w_base_url /\
  from_sphinx (to_sphinx w_empty_text) <> w_empty_text /\
  from_sphinx (to_sphinx w_dash_text) <> w_dash_text /\
  from_sphinx (to_sphinx w_colon_domain) <> w_colon_domain.
Proof. exact roundtrip_conditions_needed. Qed.
Print Assumptions C18_roundtrip_conditions_needed.

(* ------------------------------------------------------------------------------------------
   posixpath.join(a, b) as modelled (compared with CPython by the correspondence run); cited by
   C19 for the inv-link refuri `posixpath.join(base_url, loc) if base_url else loc`. *)
Theorem C18_posixpath_join :
  forall a b : str,
    (startswith b [47] = true -> pjoin a b = b) /\
    (startswith b [47] = false -> a = [] -> pjoin a b = b) /\
    (startswith b [47] = false -> endswith a [47] = true -> pjoin a b = a ++ b) /\
    (startswith b [47] = false -> a <> [] -> endswith a [47] = false -> pjoin a b = a ++ [47] ++ b).
Proof. exact pjoin_spec. Qed.
Print Assumptions C18_posixpath_join.

(* ------------------------------------------------------------------------------------------
   Glue.  fetch_inventory / inventory_cli: a path that does not start with http:// or https:// is
   opened as a file; a URL is tried as it is (base = the part before the last "/") and, only if
   that raises, with "/objects.inv" appended (base = the URL). *)
Theorem C18_fetch_dispatch :
  forall (url_load file_load : str -> option str -> ires inventory) (uri : str),
    (is_http uri = false ->
       cli_fetch url_load file_load uri = (dob inv <- file_load uri None; IOk (inv, None)) /\
       forall base, fetch_inventory url_load file_load uri base = file_load uri base) /\
    (is_http uri = true ->
       (forall inv, url_load uri None = IOk inv ->
          cli_fetch url_load file_load uri = IOk (inv, Some (rsplit_slash uri))) /\
       (forall e, url_load uri None = IRaise e ->
          cli_fetch url_load file_load uri =
          (dob inv <- url_load (uri ++ s_objects_inv) None; IOk (inv, Some uri))) /\
       forall base, fetch_inventory url_load file_load uri base = url_load uri base).
Proof. exact fetch_dispatch. Qed.
Print Assumptions C18_fetch_dispatch.

(* every inventory load returns has unique keys at the three levels ... *)
Theorem C18_load_unique_keys :
  forall (dstate : Type) (dinit : dstate) (dstep : dstate -> bytes -> dstate * bytes)
         (dflush : dstate -> bytes) (derr : dstate -> bool)
         (decode : bytes -> option str) (match_line : str -> option (str * str * str * str * str))
         (cs : list bytes) (base_url : option str) (inv : inventory),
    load dstate dinit dstep dflush derr decode match_line cs base_url = IOk inv ->
    wf_keys (inv_objects inv).
Proof. exact load_wf_keys. Qed.
Print Assumptions C18_load_unique_keys.

(* ... and for such an inventory the CLI's loop keeps exactly the entries whose domain, object
   type and name match the -d/-o/-n patterns and whose location matches -l (no -l or -l "": all) *)
Theorem C18_cli_filter_exact :
  forall (qd qo qt : str) (loc : option str) (d t n : str) (inv : inventory) (base_url : option str),
    wf_keys (inv_objects inv) ->
    objs_lookup (inv_objects (cli_filter inv base_url qd qo qt loc)) d t n =
    match objs_lookup (inv_objects inv) d t n with
    | Some it => if W d qd && W t qo && W n qt && loc_ok loc (it_loc it) then Some it else None
    | None => None
    end.
Proof. exact cli_filter_lookup. Qed.
Print Assumptions C18_cli_filter_exact.

(* ------------------------------------------------------------------------------------------
   Source-translation tie (round 3).  Gen/InventorySrc.v is regenerated on every run from
   inventory.py by gen/c18_src.py: InventoryFileReader.read_buffer / readline / readlines /
   read_compressed_chunks / read_compressed_lines, load / _load_v1 / _load_v2, from_sphinx /
   to_sphinx, statement by statement.  Each generated definition equals the hand-written model: *)
Theorem C18_inventory_src_refines :
  (forall r, read_buffer_src r = read_buffer r) /\
  (forall decode r, readline_src decode r = readline decode r) /\
  (forall decode r, readlines_src decode r = readlines decode r) /\
  (forall dstate dinit dstep dflush derr r,
     read_compressed_chunks_src dstate dinit dstep dflush derr r =
     read_compressed_chunks dstate dinit dstep dflush derr r) /\
  (forall dstate dinit dstep dflush derr decode r,
     read_compressed_lines_src dstate dinit dstep dflush derr decode r =
     read_compressed_lines dstate dinit dstep dflush derr decode r) /\
  (forall decode r base, load_v1_src decode r base = load_v1 decode r base) /\
  (forall dstate dinit dstep dflush derr decode match_line r base,
     load_v2_src dstate dinit dstep dflush derr decode match_line r base =
     load_v2 dstate dinit dstep dflush derr decode match_line r base) /\
  (forall dstate dinit dstep dflush derr decode match_line cs base,
     load_src dstate dinit dstep dflush derr decode match_line cs base =
     load dstate dinit dstep dflush derr decode match_line cs base) /\
  (forall s, from_sphinx_src s = from_sphinx s) /\
  (forall inv, to_sphinx_src inv = to_sphinx inv).
Proof. exact inventory_src_refines. Qed.
Print Assumptions C18_inventory_src_refines.

(* ... so the property theorems hold for what the code says now *)
Theorem C18_chunking_independent_src :
  forall (dstate : Type) (dinit : dstate) (dstep : dstate -> bytes -> dstate * bytes)
         (dflush : dstate -> bytes) (derr : dstate -> bool)
         (decode : bytes -> option str) (match_line : str -> option (str * str * str * str * str)),
  zlib_stream_ok dstate dstep derr ->
  forall (cs : list bytes) (base_url : option str),
    load_src dstate dinit dstep dflush derr decode match_line cs base_url =
    load_src dstate dinit dstep dflush derr decode match_line [live cs] base_url
    \/
    (load_src dstate dinit dstep dflush derr decode match_line [live cs] base_url = IRaise ZlibErr /\
     exists e, load_src dstate dinit dstep dflush derr decode match_line cs base_url = IRaise e /\
               (e = ZlibErr \/ e = UnicodeDecodeErr)).
Proof. exact chunking_independent_src. Qed.
Print Assumptions C18_chunking_independent_src.

Theorem C18_load_terminates_src :
  forall (dstate : Type) (dinit : dstate) (dstep : dstate -> bytes -> dstate * bytes)
         (dflush : dstate -> bytes) (derr : dstate -> bool)
         (decode : bytes -> option str) (match_line : str -> option (str * str * str * str * str)),
  zlib_stream_ok dstate dstep derr ->
  forall (cs : list bytes) (base_url : option str),
    load_src dstate dinit dstep dflush derr decode match_line cs base_url <> IRaise OutOfFuelErr.
Proof. exact load_terminates_src. Qed.
Print Assumptions C18_load_terminates_src.

Theorem C18_agrees_with_sphinx_src :
  forall (dstate : Type) (dinit : dstate) (dstep : dstate -> bytes -> dstate * bytes)
         (dflush : dstate -> bytes) (derr : dstate -> bool) (dz : bytes -> option bytes)
         (decode : bytes -> option str) (match_line : str -> option (str * str * str * str * str)),
  zlib_stream_ok dstate dstep derr ->
  zlib_oneshot_ok dstate dinit dstep dflush derr dz ->
  decode_ok decode ->
  forall (cs : list bytes) (uri : str) (base_url : option str) (sinv : sinv_t),
    Forall (fun l => decode l <> None) (firstn 4 (bsplit_nl 4 (live cs))) ->
    (forall text, sphinx_text dz decode (live cs) = Some text -> crlf_only text) ->
    sphinx_loads dz decode match_line (live cs) uri = IOk sinv ->
    exists inv : inventory,
      load_src dstate dinit dstep dflush derr decode match_line cs base_url = IOk inv /\
      agree uri (inv_objects inv) sinv /\
      (plain_header (live cs) -> same_project inv sinv).
Proof. exact agrees_with_sphinx_src. Qed.
Print Assumptions C18_agrees_with_sphinx_src.

Theorem C18_sphinx_roundtrip_src :
  forall inv : inventory, wf_inv inv -> from_sphinx_src (to_sphinx_src inv) = inv.
Proof. exact sphinx_roundtrip_src. Qed.
Print Assumptions C18_sphinx_roundtrip_src.

(* ------------------------------------------------------------------------------------------
   The oracle hypotheses are satisfiable: the table decompressor of the model runner and the
   identity codec are streaming transducers; the Gallina UTF-8 decoder (compared with
   bytes.decode by the correspondence run) has the decode properties. *)
Theorem C18_oracles_satisfiable :
  zlib_stream_ok tstate tstep terr /\
  zlib_stream_ok unit idstep iderr /\
  zlib_oneshot_ok unit tt idstep idflush iderr (fun z => Some z) /\
  decode_ok utf8_decode.
Proof. exact oracles_satisfiable. Qed.
Print Assumptions C18_oracles_satisfiable.

(* the premises of C18_agrees_with_sphinx, of C18_bad_line_isolated and of C18_sphinx_roundtrip hold for concrete
   inputs (identity codec, Gallina UTF-8 decoder, regex engine): the theorems are not vacuous *)
Theorem C18_agrees_premises_satisfiable :
  let content := v2_header ++ body_good in
  Forall (fun l => utf8_decode l <> None) (firstn 4 (bsplit_nl 4 content)) /\
  (forall text, sphinx_text (fun z => Some z) utf8_decode content = Some text -> crlf_only text) /\
  (exists sinv, id_sphinx content uri_x = IOk sinv) /\
  plain_header content.
Proof. exact agrees_premises_satisfiable. Qed.
Print Assumptions C18_agrees_premises_satisfiable.

Theorem C18_bad_line_premises_satisfiable :
  exists l0 l1 l2 l3 z z' A bad B s,
    find_nl l0 = None /\ find_nl l1 = None /\ find_nl l2 = None /\ find_nl l3 = None /\
    (exists s0, utf8_decode l0 = Some s0 /\ rstrip s0 = hdr_v2) /\
    inflates unit tt idstep idflush iderr z (A ++ bad ++ 10 :: B) /\
    inflates unit tt idstep idflush iderr z' (A ++ B) /\
    aligned A /\ find_nl bad = None /\ utf8_decode bad = Some s /\
    v2_malformed match_line_exec s.
Proof. exact bad_line_premises_satisfiable. Qed.
Print Assumptions C18_bad_line_premises_satisfiable.

Example C18_wf_inv_example :
  wf_inv (ex_inv None [([112; 121], [([120], [([110], ex_item None); ([111], ex_item (Some [84]))])]);
                       ([115], [([97; 58; 98], [([110], ex_item None)])])]).
Proof. exact roundtrip_example. Qed.

(* non-vacuity: a v2 file with py:module duplicates, a name with spaces, "$", "-", priority
   "-1", a malformed line and no final newline, read in three chunks *)
Example C18_example :
  match id_sphinx (v2_header ++ body_good) uri_x,
        id_load [firstn 40 (v2_header ++ body_good); firstn 7 (skipn 40 (v2_header ++ body_good));
                 skipn 47 (v2_header ++ body_good)] None with
  | IOk sinv, IOk inv => length (flat_map snd sinv) = 3%nat /\ length (inv_objects inv) = 2%nat
  | _, _ => False
  end.
Proof. vm_compute. split; reflexivity. Qed.
