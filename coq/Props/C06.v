(* C06 - Nested parsing is transparent: directive bodies, fences, include, substitution.
   Statements only; the model is Nest/Nest.v (+ Split.v for the directive text splitter),
   the proofs are in Nest/SimProofs.v, WrapProofs.v, MoreProofs.v, SplitProofs.v, RefutedProofs.v.

   Reading guide.  [orc] bundles the oracles: the Markdown parser o_P/o_PI (markdown-it-py),
   docutils' directive registry and admonition classes, option validation, Jinja, the file
   system.  [render_tok]/[render_doc] is the renderer as written (object graph, current-node
   pointer, _level_to_section, _heading_offset, temp root, registries); [den_tok] is the pure
   denotation of a token forest (no current node, no tree; headings are rubrics; its third
   result is "a heading was met where a section would be created").  [den_text_at f top ho h text k]
   = the nodes [text] denotes from registries h with every line number shifted by k.
   adm_spec = O_adm, fence_oracle = O_fence_content. *)
From Coq Require Import List NArith Bool.
From MV Require Import Base.PyStr Base.Res Nest.Lines Nest.Split Nest.Nest Nest.TreeProofs
  Nest.SimProofs Nest.WrapSpec Nest.WrapProofs Nest.MoreProofs Nest.SplitProofs Nest.Fence Nest.Toy
  Nest.RefutedProofs Nest.FenceProofs Nest.ShiftProofs Gen.NestSrc Nest.NestSrcProofs.
Import ListNotations.
Open Scope N_scope.
From MV Require Import Nest.C06Lemmas Nest.InclProofs.

(* For every token (headings too when the current node is not a document/section; otherwise
   wherever no heading is rendered at section level), at any fuel, from any state whose current
   node exists: what the renderer does is to append den_tok's nodes to the current node and to
   replace the registries - nothing else of the state changes, and the nodes depend on the state
   only through the registries [shr s] (and the heading offset). *)
Theorem C06_render_context_free :
  forall (env : Type) (orc : oracles env), adm_spec env orc ->
  forall (f : nat) (top : bool) (s : st env) (t : tok) ns h,
    good env top s ->
    den_tok env orc f top (hoff s) (shr s) t = Ok (ns, h, false) ->
    render_tok env orc f s t = ext env s ns h.
Proof. intros env orc Hadm f. exact (sim_tok env orc Hadm f). Qed.
Print Assumptions C06_render_context_free.

(* Admonition-type wrappers, any nesting depth, any fence kind and length, with or without
   options: the document  print_lines w X  renders to one admonition node per layer whose
   innermost children are exactly the nodes X denotes ([expected] with the body's denotation
   at a constant line shift), with the registries X leaves; and X as a document of its own
   renders to that same denotation at shift 0 when it makes no section. *)
Theorem C06_directive_transparent :
  forall (env : Type) (orc : oracles env), adm_spec env orc -> fence_oracle env orc ->
  forall (w : wrapper) (X : list str) (F : nat) (e0 : env), wfW env orc w X ->
    (forall r,
        expected env orc F w X (fun h k => den_text_at env orc F false 0 h (unlines X) k) (sh0 e0) 1 = Ok r ->
        render_doc env orc (depth w + F) e0 (unlines (print_lines w X)) = Ok (fst (fst r), snd (fst r)))
    /\
    (forall toks e' ns h,
        o_P orc e0 (unlines X) = (toks, e') -> drop_front_matter toks = toks ->
        den_tokens env orc F true (sh0 e') toks = Ok (ns, h, false) ->
        render_doc env orc F e0 (unlines X) = Ok (ns, h)
        /\ den_text_at env orc F false 0 (sh0 e0) (unlines X) 0 = Ok (ns, h, false)).
Proof. exact C06_directive_transparent_l. Qed.
Print Assumptions C06_directive_transparent.

Theorem C06_backtick_colon_same :
  forall (env : Type) (orc : oracles env), adm_spec env orc -> fence_oracle env orc ->
  forall titled name first o len1 len2 X F e0 r,
    wfW env orc (Adm titled name first o Backtick len1) X ->
    wfW env orc (Adm titled name first o Colon len2) X ->
    startswith (unlines (opt_lines o ++ X)) colons3 = false ->
    expected env orc F (Adm titled name first o Backtick len1) X
      (fun h k => den_text_at env orc F false 0 h (unlines X) k) (sh0 e0) 1 = Ok r ->
    render_doc env orc (1 + F) e0 (unlines (print_lines (Adm titled name first o Backtick len1) X))
      = Ok (fst (fst r), snd (fst r))
    /\ render_doc env orc (1 + F) e0 (unlines (print_lines (Adm titled name first o Colon len2) X))
      = Ok (fst (fst r), snd (fst r)).
Proof. intros env orc Hadm Hfence. exact (backtick_colon_same env orc Hadm Hfence). Qed.
Print Assumptions C06_backtick_colon_same.

(* include (O_fs = o_fs_read): the document that only includes a file renders to what the
   file's text denotes as a document body (line numbers of the file, the include's
   heading-offset), registries included. O_norm enters as: the text handed to the parser is
   join "\n" (split_lines file) + "\n". *)
Theorem C06_include_transparent :
  forall (env : Type) (orc : oracles env), adm_spec env orc -> fence_oracle env orc ->
  forall f e0 path cls p a args' file iho attrs warns ns h,
    fence_safe Backtick 3 (info_of include_name path) [] = true ->
    parse_info (info_of include_name path) = ([c_lbrace] ++ include_name ++ [c_rbrace], path) ->
    o_dir_lookup orc include_name = Some (KInclude, cls) ->
    parse_directive_text cls path [] = Ok p -> p_args p = a :: args' ->
    o_fs_read orc a = Some file ->
    o_include_opts orc (p_optblock p) = (false, iho) ->
    o_opt_validate orc include_name (p_optblock p) = (attrs, warns) ->
    str_eqb a (o_source orc) = false ->
    den_text_at env orc f true iho (set_incl [a] (sh0 e0)) (join nl (split_lines file) ++ nl) 1
      = Ok (ns, h, false) ->
    render_doc env orc (S f) e0 (unlines (print_lines (Include path) []))
    = Ok (directive_warnings p warns 1 ++ ns, set_incl (removelast (s_incl h)) h).
Proof. intros env orc Hadm Hfence. exact (include_transparent env orc Hadm Hfence). Qed.
Print Assumptions C06_include_transparent.

(* ... and in the renderer as written, for every token forest the file may hold (headings and
   sections included): rendering the include token *is* nested_render_text on the file's text
   in the state it finds, i.e. parse with the shared md_env, shift, render into the current
   node, restore the heading offset. *)
Theorem C06_include_in_place :
  forall (env : Type) (orc : oracles env) rr (s : st env) path mp position cls p a args' file iho attrs warns,
    parse_info (info_of include_name path) = ([c_lbrace] ++ include_name ++ [c_rbrace], path) ->
    token_line mp = Ok position ->
    o_dir_lookup orc include_name = Some (KInclude, cls) ->
    parse_directive_text cls path [] = Ok p -> p_args p = a :: args' ->
    o_fs_read orc a = Some file ->
    o_include_opts orc (p_optblock p) = (false, iho) ->
    o_opt_validate orc include_name (p_optblock p) = (attrs, warns) ->
    mem_str a (o_source orc :: s_incl (shr s)) = false ->     (* not a circular inclusion *)
    render_step env orc rr s (TFence false (info_of include_name path) [] mp)
    = (do s1 <- extend_cur s (directive_warnings p warns position);
       do s2 <- nested_render_text env orc rr
                  (set_shr (set_incl (s_incl (shr s1) ++ [a]) (shr s1)) s1)
                  (join nl (split_lines file)) 1 false None iho;
       extend_cur (set_shr (set_incl (removelast (s_incl (shr s2))) (shr s2)) s2) []).
Proof. intros env orc. exact (include_unfolds env orc). Qed.
Print Assumptions C06_include_in_place.

(* what nested_render_text saves and restores, whatever the rendering in between does:
   the heading offset always; the level map and the temp root when a temp root was given. *)
Theorem C06_nested_restores :
  forall (env : Type) (orc : oracles env) rr (s s' : st env) text lineno inline tr ho,
    nested_render_text env orc rr s text lineno inline tr ho = Ok s' ->
    hoff s' = hoff s /\ (tr <> None -> lmap s' = lmap s /\ troot s' = troot s).
Proof. intros env orc. exact (nested_restores env orc). Qed.
Print Assumptions C06_nested_restores.

(* substitution (O_jinja = o_jinja): a block substitution renders to what its value denotes;
   the registries are those the value leaves, minus the cycle-detection bookkeeping. *)
Theorem C06_subst_transparent :
  forall (env : Type) (orc : oracles env), adm_spec env orc ->
  forall f e0 text key rendered ns h2,
    o_P orc e0 text = ([TSubst false key (Some (0, 1))], e0) ->
    o_jinja orc key = Some rendered ->
    den_text_at env orc f true 0
      (set_subrefs (add_all (o_sub_names orc key) []) (sh0 e0)) (rendered ++ nl) 1
      = Ok (ns, h2, false) ->
    render_doc env orc (S f) e0 text
    = Ok (ns, set_subrefs (remove_all (o_sub_names orc key) (s_subrefs h2)) h2).
Proof. intros env orc Hadm. exact (subst_transparent env orc Hadm). Qed.
Print Assumptions C06_subst_transparent.

(* Footnotes and targets defined inside stay usable outside: they are entries of the shared
   registries.  Whatever surrounds the wrapper token (mid1) or the body's own tokens (mid2),
   if both leave the same registries then the tokens after them produce the same nodes and
   the same final registries. *)
Theorem C06_registries_shared :
  forall (env : Type) (g : shared env -> tok -> res (dres env)) h before mid1 mid2 after
         nb hb n1 n2 hm,
    den_fold g h before = Ok (nb, hb, false) ->
    den_fold g hb mid1 = Ok (n1, hm, false) ->
    den_fold g hb mid2 = Ok (n2, hm, false) ->
    forall na ha fa, den_fold g hm after = Ok (na, ha, fa) ->
      den_fold g h (before ++ mid1 ++ after) = Ok (nb ++ n1 ++ na, ha, fa)
      /\ den_fold g h (before ++ mid2 ++ after) = Ok (nb ++ n2 ++ na, ha, fa).
Proof. intros env. exact (registries_shared env). Qed.
Print Assumptions C06_registries_shared.

(* The body/offset hypothesis inside wfW holds for every body X in the usual layouts. *)
Theorem C06_body_offset_none : forall (X : list str) x X',
  X = x :: X' -> all_sepfree X = true -> is_blank x = false ->
  startswith (unlines X) dashes3 = false ->
  startswith (lstrip (unlines X)) [c_colon] = false ->
  parse_directive_text adm_class [] (unlines X)
  = Ok {| p_args := []; p_optblock := None; p_body := X; p_off := 0;
          p_warn_split := false; p_warn_content := false |}.
Proof. exact split_none. Qed.
Print Assumptions C06_body_offset_none.

Theorem C06_body_offset_blank : forall (X : list str),
  X <> [] -> all_sepfree X = true ->
  startswith (lstrip (unlines X)) [c_colon] = false ->
  parse_directive_text adm_class [] (unlines ([] :: X))
  = Ok {| p_args := []; p_optblock := None; p_body := X; p_off := 1;
          p_warn_split := false; p_warn_content := false |}.
Proof. exact split_blank. Qed.
Print Assumptions C06_body_offset_blank.

Theorem C06_body_offset_colon : forall (os X : list str) o os',
  os = o :: os' -> X <> [] ->
  all_sepfree (map (cons c_colon) os) = true -> all_sepfree X = true ->
  parse_directive_text adm_class [] (unlines (map (cons c_colon) os ++ [] :: X))
  = Ok {| p_args := []; p_optblock := Some (join nl os); p_body := X;
          p_off := S (length os);
          p_warn_split := false; p_warn_content := false |}.
Proof. exact split_colon. Qed.
Print Assumptions C06_body_offset_colon.

Theorem C06_body_offset_dash : forall (os X : list str),
  X <> [] -> all_sepfree os = true -> all_sepfree X = true ->
  forallb (fun o => negb (startswith o dashes3)) os = true ->
  parse_directive_text adm_class [] (unlines (opt_lines (ODash os true) ++ X))
  = Ok {| p_args := []; p_optblock := Some (unlines os); p_body := X;
          p_off := (length os + 3)%nat;
          p_warn_split := false; p_warn_content := false |}.
Proof. exact split_dash. Qed.
Print Assumptions C06_body_offset_dash.

(* The line relation, exactly.  For documents without include directives (an included file keeps
   its own line numbers), whose tokens carry a map wherever a default line would be used, and
   with line-equivariant opaque directives / eval-rst (shift_oracles): rendering a token whose
   line numbers are all k higher gives the same nodes with every line k higher and the same
   registries; hence a text rendered at the constant shift k is the text rendered at shift 0
   with every line + k. *)
Theorem C06_line_shift_equivariant :
  forall (env : Type) (orc : oracles env), adm_spec env orc -> shift_oracles env orc ->
  (forall f top ho h t k, mapped t = true ->
     den_tok env orc f top ho h (shift_tok k t)
     = map_res (shift_dres env k) (den_tok env orc f top ho h t))
  /\ (forall f top ho h text k,
        den_text_at env orc f top ho h text k
        = map_res (shift_dres env k) (den_text_at env orc f top ho h text 0)).
Proof. exact C06_line_shift_equivariant_l. Qed.
Print Assumptions C06_line_shift_equivariant.

(* ... so for one admonition layer (any fence, any option layout accepted by the splitter): the
   wrapped document is the option warnings followed by the admonition node at line 1 whose
   children are the body's own nodes [ns] with every line number raised by
   1 + body_offset - prepended_lines, and the body's registries. *)
Theorem C06_directive_transparent_lines :
  forall (env : Type) (orc : oracles env), adm_spec env orc -> shift_oracles env orc ->
  fence_oracle env orc ->
  forall name first o k len X F e0 p attrs warns ns h b,
    wfW env orc (Adm false name first o k len) X ->
    parse_directive_text adm_class first (directive_content k (opt_lines o ++ X)) = Ok p ->
    o_opt_validate orc name (p_optblock p) = (attrs, warns) ->
    den_text_at env orc F false 0 (sh0 e0) (unlines X) 0 = Ok (ns, h, b) ->
    render_doc env orc (1 + F) e0 (unlines (print_lines (Adm false name first o k len) X))
    = Ok (directive_warnings p warns 1
          ++ [Node NAdm (name ++ attrs) (Some 1)
                (map (shift_node
                        (1 + N.of_nat (p_off p - prepended_lines (is_colon k) (unlines (opt_lines o ++ X)))))
                     ns)], h).
Proof. intros env orc Hadm Hs Hf. exact (adm_transparent_exact env orc Hadm Hs Hf). Qed.
Print Assumptions C06_directive_transparent_lines.

(* O_adm and O_fence_content are jointly satisfiable: the toy instance (Toy.v), whose parser
   detects fences by the line model of Fence.v (validated against markdown-it by the
   correspondence), satisfies both. *)
Theorem C06_oracles_satisfiable : adm_spec bool toy /\ fence_oracle bool toy.
Proof. exact C06_oracles_satisfiable_l. Qed.
Print Assumptions C06_oracles_satisfiable.

(* ---- the same, for the code regenerated from the source on this run (Gen/NestSrc.v) ----
   nested_render_text, MockState.nested_parse, render_fence / render_colon_fence,
   render_directive / run_directive and render_substitution are translated statement by statement
   (gen/c06_src.py); render_tok_src / render_doc_src is the renderer with these methods. *)
Theorem C06_src_is_model :
  forall (env : Type) (orc : oracles env), adm_spec env orc ->
  (forall rec s text lineno inline tr ho,
      nested_render_text_src env orc rec s text lineno inline tr ho
      = nested_render_text env orc rec s text lineno inline tr ho)
  /\ (forall rec lineno block off n s,
        nested_parse_src env orc rec lineno block off n false s
        = cb_nested_parse (mock_state env orc rec lineno) block off n s)
  /\ (forall rec s info content mp,
        render_fence_src env orc rec false false [] s info content mp
        = render_fence env orc rec s false info content mp)
  /\ (forall rec s info content mp,
        render_colon_fence_src env orc rec s info content mp = render_fence env orc rec s true info content mp)
  /\ (forall rec s name first content position pre,
        run_directive_src env orc rec s name first content position pre
        = run_directive env orc rec s name first content position pre)
  /\ (forall rec s inline key mp,
        render_substitution_src env orc rec s inline key mp = render_substitution env orc rec s inline key mp)
  /\ (forall f s t, render_tok_src env orc f s t = render_tok env orc f s t)
  /\ (forall f e text, render_doc_src env orc f e text = render_doc env orc f e text).
Proof. exact C06_src_is_model_l. Qed.
Print Assumptions C06_src_is_model.

Theorem C06_nested_restores_src :
  forall (env : Type) (orc : oracles env) rr (s s' : st env) text lineno inline tr ho,
    nested_render_text_src env orc rr s text lineno inline tr ho = Ok s' ->
    hoff s' = hoff s /\ (tr <> None -> lmap s' = lmap s /\ troot s' = troot s).
Proof. exact C06_nested_restores_src_l. Qed.
Print Assumptions C06_nested_restores_src.

(* the renderer with the translated methods threads one registry state through a wrapper token
   (mid1) exactly as through the body's own tokens (mid2): what follows gets the same nodes and
   the same final registries *)
Theorem C06_registries_shared_src :
  forall (env : Type) (orc : oracles env), adm_spec env orc ->
  forall f top (s : st env) before mid1 mid2 after nb hb n1 n2 hm na ha,
    good env top s ->
    den_fold (den_tok env orc f top (hoff s)) (shr s) before = Ok (nb, hb, false) ->
    den_fold (den_tok env orc f top (hoff s)) hb mid1 = Ok (n1, hm, false) ->
    den_fold (den_tok env orc f top (hoff s)) hb mid2 = Ok (n2, hm, false) ->
    den_fold (den_tok env orc f top (hoff s)) hm after = Ok (na, ha, false) ->
    fold_res (render_tok_src env orc f) s (before ++ mid1 ++ after) = ext env s (nb ++ n1 ++ na) ha
    /\ fold_res (render_tok_src env orc f) s (before ++ mid2 ++ after) = ext env s (nb ++ n2 ++ na) ha.
Proof. exact C06_registries_shared_src_l. Qed.
Print Assumptions C06_registries_shared_src.

Theorem C06_subst_transparent_src :
  forall (env : Type) (orc : oracles env), adm_spec env orc ->
  forall f e0 text key rendered ns h2,
    o_P orc e0 text = ([TSubst false key (Some (0, 1))], e0) ->
    o_jinja orc key = Some rendered ->
    den_text_at env orc f true 0
      (set_subrefs (add_all (o_sub_names orc key) []) (sh0 e0)) (rendered ++ nl) 1
      = Ok (ns, h2, false) ->
    render_doc_src env orc (S f) e0 text
    = Ok (ns, set_subrefs (remove_all (o_sub_names orc key) (s_subrefs h2)) h2).
Proof. exact C06_subst_transparent_src_l. Qed.
Print Assumptions C06_subst_transparent_src.

(* Include histories.  The chain md_env["include_log"] that the include directive uses for its
   circular-inclusion test is bookkeeping that every include restores (log_oracles: the opaque
   directives and eval-rst do not touch it): after any token has been rendered the chain is what
   it was before - so a file may be included any number of times in one document; in particular
   after MockIncludeDirective.run returns; and for the try/finally of run() as regenerated from
   the source (Gen/NestSrc.v include_tail_src: include_log.append ... finally include_log.pop()). *)
Theorem C06_include_chain_restored :
  forall (env : Type) (orc : oracles env), adm_spec env orc -> log_oracles env orc ->
  forall f (s : st env) t s', render_tok env orc f s t = Ok s' -> s_incl (shr s') = s_incl (shr s).
Proof. intros env orc Hadm Hlog f. exact (render_tok_keeps env orc Hadm Hlog f). Qed.
Print Assumptions C06_include_chain_restored.

Theorem C06_include_log_restored :
  forall (env : Type) (orc : oracles env), adm_spec env orc -> log_oracles env orc ->
  forall f (s : st env) p r,
    include_run env orc (render_tok env orc f) s p = Ok r -> s_incl (shr (snd r)) = s_incl (shr s).
Proof.
  intros env orc Hadm Hlog f. exact (include_run_keeps env orc _ (render_tok_keeps env orc Hadm Hlog f)).
Qed.
Print Assumptions C06_include_log_restored.

Theorem C06_include_log_restored_src :
  forall (env : Type) (orc : oracles env), adm_spec env orc -> log_oracles env orc ->
  forall f (s : st env) a file ho s',
    include_tail_src env orc (render_tok env orc f) s a file 0 ho = Ok s' ->
    s_incl (shr s') = s_incl (shr s).
Proof. intros env orc Hadm Hlog. exact (include_tail_src_restores env orc Hadm Hlog). Qed.
Print Assumptions C06_include_log_restored_src.

(* "... with reference definitions ... inside it remaining usable from the rest of the
   document" does not hold: there are oracles (a parser that, like markdown-it, resolves
   references while it tokenises), a file and a document such that writing the file's lines in
   place and including the file give different nodes - the reference used before the include
   stays literal text, although the definition does reach md_env (the final registries agree). *)
Theorem C06_refdefs_visible_refuted :
  exists (env : Type) (orc : oracles env) (e0 : env) (path : str) (pre file : list str) n1 n2 h,
    adm_spec env orc /\
    o_fs_read orc path = Some (unlines file) /\
    render_doc env orc 6 e0 (unlines (pre ++ file)) = Ok (n1, h) /\
    render_doc env orc 6 e0 (unlines (pre ++ print_lines (Include path) [])) = Ok (n2, h) /\
    n1 <> n2.
Proof. exact refdefs_visible_refuted. Qed.
Print Assumptions C06_refdefs_visible_refuted.

(* non-vacuity *)
Example C06_example_wf : wfW bool toy (Adm false s_note [] ONone Backtick 3) [[120]].
Proof. exact toy_wf. Qed.

Example C06_example_transparent :
  render_doc bool toy 6 false (unlines (print_lines (Adm false s_note [] ONone Backtick 3) [[120]]))
  = Ok ([Node NAdm s_note (Some 1) [para k_text [120] 2]], sh0 false)
  /\ render_doc bool toy 6 false (unlines [[120]]) = Ok ([para k_text [120] 1], sh0 false)
  /\ expected bool toy 5 (Adm false s_note [] ONone Backtick 3) [[120]]
       (fun h k => den_text_at bool toy 5 false 0 h (unlines [[120]]) k) (sh0 false) 1
     = Ok ([Node NAdm s_note (Some 1) [para k_text [120] 2]], sh0 false, false).
Proof. exact toy_note_transparent. Qed.

Example C06_example_refdef_in_directive :
  render_doc bool toy 6 false doc_directive_in_place
  = Ok ([para k_link l_U 1; para k_text [120] 3], sh0 true) /\
  render_doc bool toy 6 false doc_directive
  = Ok ([para k_text l_U 1; Node NAdm s_note (Some 2) [para k_text [120] 4]], sh0 true).
Proof. exact refdefs_refuted_directive. Qed.
