(* C11 - Footnotes are numbered, linked and collected consistently.
   Statements only.  Model: Refs/Foot.v (render_footnote_ref / render_footnote_reference,
   SortFootnotes, docutils Footnotes, UnreferencedFootnotesDetector, CollectFootnotes, run in the
   priority order regenerated into Gen/Transforms.v); proofs: Refs/FootProofs.v.

   [isdigit], [int_of] are Python's str.isdigit and int(); [fx] is docutils' Footnotes transform,
   external code, assumed to behave as its transcription (premise O_footnotes_xform, exercised by
   every correspondence case).  A document is any arrangement of references and definitions
   (Foot.doc); [run isdigit int_of fx footnote_sort footnote_transition d] is the whole pipeline. *)
From Coq Require Import List NArith ZArith Bool Permutation Sorted.
From MV Require Import Base.PyStr Base.Res Refs.RUtil Gen.Transforms Refs.Foot Refs.FootOps Refs.FootProofs Gen.FootSrc Refs.FootSrcProofs.
From MV Require Import Refs.DocutilsOps Gen.DocutilsFootSrc Refs.DocutilsSrcProofs Refs.FootAllSrc.
Import ListNotations.
Open Scope N_scope.

Definition O_footnotes (fx : fstate -> res fstate) : Prop := forall s, fx s = docutils_footnotes s.

(* the pipeline never fails (in particular the numbering loop never runs out of fuel) *)
Theorem C11_total : forall isdigit int_of fx, O_footnotes fx ->
  forall fs ft d, exists r, run isdigit int_of fx fs ft d = Ok r.
Proof. exact run_total. Qed.
Print Assumptions C11_total.

(* every reference is kept in document order; a definition lists as back-references exactly the
   references carrying its label; a reference whose label has a definition points at it and
   shows the same number; one without definition points nowhere.  Both settings. *)
Theorem C11_refs_point_to_defs : forall isdigit int_of fx, O_footnotes fx ->
  forall fs ft d r, run isdigit int_of fx fs ft d = Ok r ->
    map ro_idx (x_refs r) = seq 0 (length (x_refs r)) /\
    (forall f, In f (x_foots r) ->
       fo_backrefs f = map ro_idx (filter (fun o => str_eqb (ro_label o) (lbl f)) (x_refs r))) /\
    (forall o f, In o (x_refs r) -> In f (x_foots r) -> lbl f = ro_label o ->
       ro_refid o = Some (lbl f) /\ ro_text o = Some (fo_display f) /\ In (ro_idx o) (fo_backrefs f)) /\
    (forall o, In o (x_refs r) -> (forall f, In f (x_foots r) -> lbl f <> ro_label o) -> ro_refid o = None).
Proof. exact refs_point_to_defs. Qed.
Print Assumptions C11_refs_point_to_defs.

(* displayed labels are pairwise distinct *)
Theorem C11_labels_distinct : forall isdigit int_of fx, O_footnotes fx ->
  forall fs ft d r, run isdigit int_of fx fs ft d = Ok r -> NoDup (map fo_display (x_foots r)).
Proof. exact labels_distinct. Qed.
Print Assumptions C11_labels_distinct.

(* PARTIAL (footnote_sort = True only): auto-numbered footnotes are numbered in the order in which
   their labels are first referenced.  [auto_ref_labels r] = the labels of the auto-numbered
   references in document order; index_of = position of the first occurrence.
   What is missing for the full statement is the setting footnote_sort = False, see below. *)
Theorem C11_auto_order_partial : forall isdigit int_of fx, O_footnotes fx ->
  forall ft d r, run isdigit int_of fx true ft d = Ok r ->
  forall fa fb ka kb i j,
    In fa (x_foots r) -> In fb (x_foots r) ->
    fo_num fa = Some ka -> fo_num fb = Some kb ->
    index_of (lbl fa) (auto_ref_labels isdigit r) = Some i ->
    index_of (lbl fb) (auto_ref_labels isdigit r) = Some j ->
    (i < j)%nat -> ka < kb.
Proof. exact auto_order_sorted. Qed.
Print Assumptions C11_auto_order_partial.

(* PARTIAL only in that it needs footnote_sort = True: a referenced definition is numbered before
   any unreferenced one, for any number of references (code after the fix: commit, default sort
   key len(ref_order)); with the theorem above: the k-th label referenced gets the k-th free number *)
Theorem C11_referenced_first_partial : forall isdigit int_of fx, O_footnotes fx ->
  forall ft d r, run isdigit int_of fx true ft d = Ok r ->
  forall fa fb ka kb i,
    In fa (x_foots r) -> In fb (x_foots r) ->
    fo_num fa = Some ka -> fo_num fb = Some kb ->
    index_of (lbl fa) (auto_ref_labels isdigit r) = Some i ->
    index_of (lbl fb) (auto_ref_labels isdigit r) = None ->
    ka < kb.
Proof. exact referenced_first. Qed.
Print Assumptions C11_referenced_first_partial.

(* the code before that fix used the constant 999: with 1000 references to z before the first
   reference to a, the unreferenced u is numbered before a (witness built with [repeat]) *)
Theorem C11_referenced_first_before_fix_refuted :
  exists isdigit int_of ft d r fa fb ka kb i,
    run_legacy isdigit int_of docutils_footnotes true ft d = Ok r /\
    In fa (x_foots r) /\ In fb (x_foots r) /\
    fo_num fa = Some ka /\ fo_num fb = Some kb /\
    index_of (lbl fa) (auto_ref_labels isdigit r) = Some i /\
    index_of (lbl fb) (auto_ref_labels isdigit r) = None /\
    kb < ka.
Proof. exact referenced_first_legacy_refuted. Qed.
Print Assumptions C11_referenced_first_before_fix_refuted.

(* REFUTED for footnote_sort = False: x[^b] y[^a] with definitions a, b numbers a = 1, b = 2
   although b is referenced first (SortFootnotes returns early under the same switch) *)
Theorem C11_auto_order_refuted :
  exists isdigit int_of ft d r fa fb ka kb i j,
    run isdigit int_of docutils_footnotes false ft d = Ok r /\
    In fa (x_foots r) /\ In fb (x_foots r) /\
    fo_num fa = Some ka /\ fo_num fb = Some kb /\
    index_of (lbl fa) (auto_ref_labels isdigit r) = Some i /\
    index_of (lbl fb) (auto_ref_labels isdigit r) = Some j /\
    (i < j)%nat /\ kb < ka.
Proof. exact auto_order_refuted. Qed.
Print Assumptions C11_auto_order_refuted.

(* numeric labels keep their number: a footnote without an automatic number shows its label *)
Theorem C11_manual_keeps_number : forall isdigit int_of fx, O_footnotes fx ->
  forall fs ft d r, run isdigit int_of fx fs ft d = Ok r ->
  forall f, In f (x_foots r) -> fo_num f = None -> fo_display f = lbl f /\ isdigit (lbl f) = true.
Proof. exact manual_keeps_number. Qed.
Print Assumptions C11_manual_keeps_number.

(* footnote_sort = True: the children of the document are the written blocks with every footnote
   taken out at whatever depth it was nested (strip_top recurses through the containers), then one transition when configured (unless there is no footnote or the document
   consists of footnotes only), then all footnotes ... *)
Theorem C11_collect_layout : forall isdigit int_of fx, O_footnotes fx ->
  forall ft d r, run isdigit int_of fx true ft d = Ok r ->
    x_layout r = flat_map strip_top (snd (render_doc isdigit regs0 d))
                 ++ transition_for ft (snd (render_doc isdigit regs0 d)) (x_foots r)
                 ++ map (fun f => LFoot (f_label (fo_fn f)))
                        (isort (collect_key int_of) ckey_leb (x_foots r)).
Proof. exact collect_layout. Qed.
Print Assumptions C11_collect_layout.

(* ... where no footnote is left among the first part, and the collected ones are all of them, in
   ascending label order (integers by value, then other labels by text) *)
Theorem C11_collect_sorted : forall isdigit int_of fx ft d r,
  run isdigit int_of fx true ft d = Ok r ->
    let sorted := isort (collect_key int_of) ckey_leb (x_foots r) in
    layout_foots (flat_map strip_top (snd (render_doc isdigit regs0 d))) = [] /\
    Permutation sorted (x_foots r) /\
    StronglySorted (fun a b => ckey_leb (collect_key int_of a) (collect_key int_of b) = true) sorted.
Proof. exact collect_sorted. Qed.
Print Assumptions C11_collect_sorted.

(* footnote_sort = False: nothing moves; the footnotes sit where the first definition of each
   label was written *)
Theorem C11_stay_put : forall isdigit int_of fx, O_footnotes fx ->
  forall ft d r, run isdigit int_of fx false ft d = Ok r ->
    x_layout r = snd (render_doc isdigit regs0 d) /\
    layout_foots (x_layout r) = map fst (firsts [] (all_defs d)).
Proof. exact stay_put. Qed.
Print Assumptions C11_stay_put.

(* warnings: one per duplicate definition (in order), at most one docutils error about references
   without definition, one per definition that nobody references - and nothing else *)
Theorem C11_dup_and_unreferenced : forall isdigit int_of fx, O_footnotes fx ->
  forall fs ft d r, run isdigit int_of fx fs ft d = Ok r ->
    exists tm, x_warn r = map WDup (dupls [] (all_defs d)) ++ tm ++ flat_map unref_warn (x_foots r)
               /\ (tm = [] \/ tm = [WTooMany]).
Proof. exact warnings_exact. Qed.
Print Assumptions C11_dup_and_unreferenced.

(* a duplicate definition (an earlier footnote carries the label) changes nothing in the registries but the warning list: the other
   footnotes are processed as if it were not there *)
Theorem C11_duplicate_is_inert : forall isdigit g l b,
  existsb (fun f => str_eqb l (f_label f)) (g_footnotes g ++ g_autofootnotes g) = true ->
  render_footnote_reference isdigit g l b =
  ({| g_nameids := g_nameids g; g_autofootnotes := g_autofootnotes g; g_footnotes := g_footnotes g;
      g_autofootnote_refs := g_autofootnote_refs g; g_footnote_refs := g_footnote_refs g;
      g_allrefs := g_allrefs g; g_nrefs := g_nrefs g; g_warn := g_warn g ++ [WDup l] |}, false).
Proof. exact dup_def_only_warns. Qed.
Print Assumptions C11_duplicate_is_inert.

(* no text lost: the (label, body) pairs of the footnotes are exactly the first definitions of
   the document, and each of them is in the final document once (both settings) *)
Theorem C11_no_text_lost : forall isdigit int_of fx, O_footnotes fx ->
  forall fs ft d r, run isdigit int_of fx fs ft d = Ok r ->
    Permutation (map (fun f => (lbl f, f_body (fo_fn f))) (x_foots r)) (firsts [] (all_defs d)) /\
    Permutation (layout_foots (x_layout r)) (map fst (firsts [] (all_defs d))).
Proof. exact no_text_lost. Qed.
Print Assumptions C11_no_text_lost.

(* ---- the same statements for the code as it is in the source now ----------------------------------
   [run_src] is the pipeline in which SortFootnotes.apply, UnreferencedFootnotesDetector.apply and
   CollectFootnotes.apply are the Gallina definitions that gen/c11_src.py REGENERATES from transforms.py on
   every run (Gen/FootSrc.v, statement by statement; domain mapping = Refs/FootOps.v); Refs/FootSrcProofs.v
   proves them equal to the model (sort_footnotes_src_eq, unreferenced_src_eq, collect_footnotes_src_eq:
   the loop "footnote.parent.remove(footnote); document += footnote" leaves no footnote at any depth), hence
   run_src = run.  An edit of one of the three methods changes Gen/FootSrc.v and these are re-checked. *)
Theorem C11_run_src_is_run : forall isdigit int_of fx, O_footnotes fx ->
  forall fs ft d, run_src isdigit int_of fx fs ft d = run isdigit int_of fx fs ft d.
Proof. exact run_src_eq. Qed.
Print Assumptions C11_run_src_is_run.

(* the two renderer methods of base.py that fill the registries, regenerated from the source as well *)
Theorem C11_render_src_is_model : forall isdigit g target body,
  render_footnote_ref_src isdigit g target = render_footnote_ref isdigit g target /\
  render_footnote_reference_src isdigit g target body = render_footnote_reference isdigit g target body.
Proof. exact (fun isdigit g target body => conj (render_footnote_ref_src_eq isdigit g target) (render_footnote_reference_src_eq isdigit g target body)). Qed.
Print Assumptions C11_render_src_is_model.

Theorem C11_auto_order_partial_src : forall isdigit int_of fx, O_footnotes fx ->
  forall ft d r, run_src isdigit int_of fx true ft d = Ok r ->
  forall fa fb ka kb i j,
    In fa (x_foots r) -> In fb (x_foots r) ->
    fo_num fa = Some ka -> fo_num fb = Some kb ->
    index_of (lbl fa) (auto_ref_labels isdigit r) = Some i ->
    index_of (lbl fb) (auto_ref_labels isdigit r) = Some j ->
    (i < j)%nat -> ka < kb.
Proof. exact auto_order_sorted_src. Qed.
Print Assumptions C11_auto_order_partial_src.

Theorem C11_referenced_first_src : forall isdigit int_of fx, O_footnotes fx ->
  forall ft d r, run_src isdigit int_of fx true ft d = Ok r ->
  forall fa fb ka kb i,
    In fa (x_foots r) -> In fb (x_foots r) ->
    fo_num fa = Some ka -> fo_num fb = Some kb ->
    index_of (lbl fa) (auto_ref_labels isdigit r) = Some i ->
    index_of (lbl fb) (auto_ref_labels isdigit r) = None ->
    ka < kb.
Proof. exact referenced_first_src. Qed.
Print Assumptions C11_referenced_first_src.

Theorem C11_collect_sorted_src : forall isdigit int_of fx, O_footnotes fx ->
  forall ft d r, run_src isdigit int_of fx true ft d = Ok r ->
    x_layout r = flat_map strip_top (snd (render_doc isdigit regs0 d))
                 ++ transition_for ft (snd (render_doc isdigit regs0 d)) (x_foots r)
                 ++ map (fun f => LFoot (f_label (fo_fn f))) (isort (collect_key int_of) ckey_leb (x_foots r))
    /\ layout_foots (flat_map strip_top (snd (render_doc isdigit regs0 d))) = []
    /\ Permutation (isort (collect_key int_of) ckey_leb (x_foots r)) (x_foots r)
    /\ StronglySorted (fun a b => ckey_leb (collect_key int_of a) (collect_key int_of b) = true)
                      (isort (collect_key int_of) ckey_leb (x_foots r)).
Proof.
  exact (fun isdigit int_of fx O ft d r H =>
           conj (collect_layout_src isdigit int_of fx O ft d r H) (collect_sorted_src isdigit int_of fx O ft d r H)).
Qed.
Print Assumptions C11_collect_sorted_src.

Theorem C11_dup_and_unreferenced_src : forall isdigit int_of fx, O_footnotes fx ->
  forall fs ft d r, run_src isdigit int_of fx fs ft d = Ok r ->
    exists tm, x_warn r = map WDup (dupls [] (all_defs d)) ++ tm ++ flat_map unref_warn (x_foots r)
               /\ (tm = [] \/ tm = [WTooMany]).
Proof. exact warnings_exact_src. Qed.
Print Assumptions C11_dup_and_unreferenced_src.

(* ---- docutils' Footnotes transform, translated from the INSTALLED docutils source ------------------
   Gen/DocutilsFootSrc.v is regenerated on every run from docutils/transforms/references.py (Footnotes.apply,
   number_footnotes, number_footnote_references, resolve_footnotes_and_citations, resolve_references;
   symbolize_footnotes locked by hash: MyST registers no symbol footnotes) over the log state of
   Refs/DocutilsOps.v (the trusted mapping).  [docutils_footnotes_src] runs the translated apply and reads the
   footnotes off the logs. *)

(* the numbering method alone: the `while True` loop is next_label (fuel: C11_total), the nested loops log
   exactly the labels / refids / texts / back-references of the transcription, an anonymous footnote is never named *)
Theorem C11_docutils_number_src : forall ds start,
  number_footnotes_src ds start
  = match number_footnotes (ds_regs ds) (g_autofootnotes (ds_regs ds)) start with
    | Ok outs => Ok (after_auto ds outs, next_start start outs)
    | Raise e => Raise e
    end.
Proof. exact number_footnotes_src_spec. Qed.
Print Assumptions C11_docutils_number_src.

(* the whole transform: on every registry state the renderer can produce (invariant wf: the registered labels
   are pairwise distinct and are the footnotes' names, references are indexed in document order, footnote_refs
   groups them by label, auto/manual follows isdigit) the translated docutils source computes exactly the
   transcription docutils_footnotes - number_footnote_references (one 'Too many' error iff an auto-numbered
   reference has no definition, nothing replaced), resolve_footnotes_and_citations / resolve_references
   (no reference resolved twice), and apply.  This discharges O_footnotes_xform for the translated source. *)
Theorem C11_docutils_footnotes_src : forall isdigit s,
  wf isdigit (s_regs s) -> docutils_footnotes_src s = docutils_footnotes s.
Proof. exact docutils_footnotes_src_eq. Qed.
Print Assumptions C11_docutils_footnotes_src.

(* hence the pipeline in which BOTH the MyST transforms (transforms.py) and docutils' transform (installed
   source) are the regenerated definitions is the model pipeline - no oracle premise *)
Theorem C11_all_src_is_run : forall isdigit int_of fs ft d,
  run_src isdigit int_of docutils_footnotes_src fs ft d = run isdigit int_of docutils_footnotes fs ft d.
Proof. exact run_all_src_eq. Qed.
Print Assumptions C11_all_src_is_run.

(* and the main statements hold for it unconditionally *)
Theorem C11_total_all_src : forall isdigit int_of fs ft d,
  exists r, run_src isdigit int_of docutils_footnotes_src fs ft d = Ok r.
Proof. exact total_all. Qed.
Print Assumptions C11_total_all_src.

Theorem C11_refs_point_to_defs_all_src : forall isdigit int_of fs ft d r,
  run_src isdigit int_of docutils_footnotes_src fs ft d = Ok r ->
    map ro_idx (x_refs r) = seq 0 (length (x_refs r)) /\
    (forall f, In f (x_foots r) ->
       fo_backrefs f = map ro_idx (filter (fun o => str_eqb (ro_label o) (lbl f)) (x_refs r))) /\
    (forall o f, In o (x_refs r) -> In f (x_foots r) -> lbl f = ro_label o ->
       ro_refid o = Some (lbl f) /\ ro_text o = Some (fo_display f) /\ In (ro_idx o) (fo_backrefs f)) /\
    (forall o, In o (x_refs r) -> (forall f, In f (x_foots r) -> lbl f <> ro_label o) -> ro_refid o = None).
Proof. exact refs_point_to_defs_all. Qed.
Print Assumptions C11_refs_point_to_defs_all_src.

Theorem C11_labels_distinct_all_src : forall isdigit int_of fs ft d r,
  run_src isdigit int_of docutils_footnotes_src fs ft d = Ok r -> NoDup (map fo_display (x_foots r)).
Proof. exact labels_distinct_all. Qed.
Print Assumptions C11_labels_distinct_all_src.

Theorem C11_auto_order_partial_all_src : forall isdigit int_of ft d r,
  run_src isdigit int_of docutils_footnotes_src true ft d = Ok r ->
  forall fa fb ka kb i j,
    In fa (x_foots r) -> In fb (x_foots r) ->
    fo_num fa = Some ka -> fo_num fb = Some kb ->
    index_of (lbl fa) (auto_ref_labels isdigit r) = Some i ->
    index_of (lbl fb) (auto_ref_labels isdigit r) = Some j ->
    (i < j)%nat -> ka < kb.
Proof. exact auto_order_all. Qed.
Print Assumptions C11_auto_order_partial_all_src.

(* the registry methods of docutils/nodes.py (class document) that the renderer calls, translated from the
   installed source as well: note_autofootnote / note_footnote / note_autofootnote_ref / note_footnote_ref are the
   model operations; note_explicit_target -> set_name_id_map is the model operation whenever the name is not
   registered yet - the branch into set_duplicate_name_id (dupnames) is outside the footnote model (in C09 the
   registries, dupnames included, are read from the real document) *)
Theorem C11_docutils_registry_methods_src : forall g (f : fn) (r : rf),
  (note_autofootnote_doc g f = note_autofootnote g f /\
   note_footnote_doc g f = note_footnote g f /\
   note_autofootnote_ref_doc g r = note_autofootnote_ref g r /\
   note_footnote_ref_doc g r = note_footnote_ref g r) /\
  (mem_str (f_label f) (g_nameids g) = false ->
   note_explicit_target_doc g f = Ok (note_explicit_target g f)).
Proof. exact (fun g f r => conj (note_methods_doc_eq g f r) (note_explicit_target_doc_eq g f)). Qed.
Print Assumptions C11_docutils_registry_methods_src.

(* symbol footnotes ([*]_) and anonymous auto-numbered footnotes ([#]_) cannot come from Markdown: a label such
   as [^*] is an ordinary name.  On the render model every registered footnote carries exactly its label as
   name, is filed under the manual or the auto-numbered registry, and is registered as a name (so docutils'
   symbol registry stays empty and its anonymous branch is dead); gen/c11_src.py additionally fails when the
   package builds footnote nodes anywhere else or calls note_symbol_footnote*. *)
Theorem C11_only_named_footnotes : forall isdigit d,
  let g := fst (render_doc isdigit regs0 d) in
  Forall (fun f => fn_names f = [f_label f] /\ In (f_label f) (g_nameids g)) (g_autofootnotes g ++ g_footnotes g) /\
  Forall (fun f => f_auto f = true /\ isdigit (f_label f) = false) (g_autofootnotes g) /\
  Forall (fun f => f_auto f = false /\ isdigit (f_label f) = true) (g_footnotes g).
Proof. exact only_named_footnotes. Qed.
Print Assumptions C11_only_named_footnotes.

(* the order of the transforms, from the regenerated priorities and get_transforms lists *)
Theorem C11_transform_order :
  (priority XSortFootnotes < priority XFootnotes)%Z /\
  (priority XFootnotes < priority XUnreferencedFootnotesDetector)%Z /\
  (priority XUnreferencedFootnotesDetector < priority XCollectFootnotes)%Z /\
  In XSortFootnotes docutils_parser_transforms /\ In XCollectFootnotes docutils_parser_transforms /\
  In XUnreferencedFootnotesDetector docutils_parser_transforms /\
  In XSortFootnotes sphinx_parser_transforms /\ In XCollectFootnotes sphinx_parser_transforms /\
  pipeline = [XSortFootnotes; XFootnotes; XUnreferencedFootnotesDetector; XCollectFootnotes; XResolveAnchorIds].
Proof. exact transform_order. Qed.
Print Assumptions C11_transform_order.

(* non-vacuity: x[^b] y[^a] z[^1] + definitions a, b, a container holding a nested container with [^1] and a second [^a],
   an unreferenced u; sorting on *)
Example C11_example :
  let a := [97] in let b := [98] in let one := [49] in let u := [117] in
  let isdigit := fun s => str_eqb s one in
  let int_of := fun s => if str_eqb s one then Some 1 else if str_eqb s [50] then Some 2
                         else if str_eqb s [51] then Some 3 else if str_eqb s [52] then Some 4 else None in
  let d := [BRefs [b; a; one]; BDef a 1 []; BDef b 2 []; BBox [BBox [BDef one 3 []]; BDef a 4 []]; BDef u 5 []] in
  match run isdigit int_of docutils_footnotes true true d with
  | Ok r =>
      map ro_text (x_refs r) = [Some [50]; Some [51]; Some [49]] /\
      x_layout r = [LOther; LBox [LBox []; LMsg]; LTrans; LFoot one; LFoot b; LFoot a; LFoot u] /\
      x_warn r = [WDup a; WUnref u true]
  | Raise _ => False
  end.
Proof. vm_compute. auto. Qed.
