(* C10 - Heading anchors follow the GitHub slug rule, are unique, match myst-anchors.
   Statements only; model in Sect/Slug.v, tables in Gen/PyUnicodeSlug.v (generated from the
   running interpreter and from the two slugify sources), proofs in Sect/SlugProofs.v. *)
From Coq Require Import List NArith Arith Bool.
From MV Require Import Base.PyStr Base.Res Refs.RUtil Refs.Anchors Sect.Slug Sect.SlugTables Sect.SlugProofs
                       Sect.SlugEdge Sect.SlugIds Sect.SlugResolve Gen.PyUnicodeSlug Sect.SlugPy
                       Sect.SlugSrcLib Gen.SlugSrc Sect.SlugSrcProofs Gen.AnchorsCliSrc Sect.AnchorsCliProofs.
Import ListNotations.
Local Open Scope nat_scope.

(* the default slug function of the renderer and the one of the plug-in, on the generated tables *)
Definition py_default_slugify (t : str) : res str := rf py_lower py_is_word render_class t.
Definition py_plugin_slugify (t : str) : str :=
  plugin_slugify py_lower py_is_space py_is_word plugin_class t.

(* The two slugify functions, as read from the sources on this run, have the modelled shapes: the
   plug-in strips the title first, the renderer does not (open finding slug:differs-from-cli:untrimmed-title);
   lower, " " -> "-", remove everything outside the class; the classes are the same. *)
Theorem C10_source_shape :
  render_steps = [StLower; StReplace [32%N] [45%N]; StSubNeg render_class] /\
  plugin_steps = [StStrip; StLower; StReplace [32%N] [45%N]; StSubNeg plugin_class] /\
  render_class = [CWord; CRange 19968 40959; CChar 45%N; CChar 32%N] /\
  plugin_class = render_class.
Proof. repeat split; reflexivity. Qed.
Print Assumptions C10_source_shape.

(* GitHub rule: a default slug is the lower-cased title with spaces turned into hyphens and every
   character removed that is not a word character, CJK, or a hyphen *)
Theorem C10_slug_rule : forall title,
  default_slugify py_lower py_is_word render_class title =
  filter (class_mem py_is_word render_class)
         (map (fun c => if (c =? 32)%N then 45%N else c) (py_lower title)) /\
  forall c, In c (default_slugify py_lower py_is_word render_class title) ->
    py_is_word c = true \/ (19968 <= c /\ c <= 40959)%N \/ c = 45%N.
Proof. intro title. split; [reflexivity | intro c; apply slug_charset]. Qed.
Print Assumptions C10_slug_rule.

(* the uniqueness loop of the renderer and the one of the plug-in never run out of the fuel
   |slugs| + 1 (they terminate), for every base slug and every set of existing slugs *)
Theorem C10_unique_terminates : forall base slugs,
  (exists r, render_unique base slugs = Ok r) /\ (exists r, plugin_unique base slugs = Ok r).
Proof.
  intros base slugs. split.
  - destruct (render_unique_ok base slugs) as (r & H & _). eauto.
  - destruct (plugin_unique_ok base slugs) as (r & H & _). eauto.
Qed.
Print Assumptions C10_unique_terminates.

(* least-suffix rule for one heading: the base slug if free, else base-k for the least k >= 1 such
   that base-k is free *)
Theorem C10_suffix_rule : forall base slugs,
  exists r, render_unique base slugs = Ok r /\
    ((r = base /\ ~ In base slugs) \/
     (exists k, 1 <= k /\ r = suffixed base (N.of_nat k) /\ In base slugs /\ ~ In r slugs /\
                forall j, 1 <= j < k -> In (suffixed base (N.of_nat j)) slugs)).
Proof.
  intros base slugs. destruct (render_unique_ok base slugs) as (r & H & Hr).
  exists r. split; auto. apply SuffixRule_readable. exact Hr.
Qed.
Print Assumptions C10_suffix_rule.

(* the whole document, any depth, any slug function (possibly raising): headings deeper than
   heading_anchors get nothing; a raising slug function gives SlugWarn (one heading_slug warning) and
   leaves the set of slugs alone; otherwise the heading gets the least-suffix slug w.r.t. all slugs
   assigned before it *)
Theorem C10_document_rule : forall depth f hs,
  SeqRule depth f [] hs (fst (render_slugs depth f hs)).
Proof. exact render_slugs_rule. Qed.
Print Assumptions C10_document_rule.

Theorem C10_slugs_nodup : forall depth f hs, NoDup (assigned (fst (render_slugs depth f hs))).
Proof. exact slugs_nodup. Qed.
Print Assumptions C10_slugs_nodup.

(* The disagreement set, exactly: the renderer's slug is the plug-in's slug with one '-' added at the
   left for every U+0020 in the leading white space that strip() removes, and one at the right for
   every U+0020 in the trailing white space; so the two slugs are equal iff neither edge contains an
   ASCII space (other white space - tab, NBSP, ... - is removed by the cleaning on both sides). *)
Theorem C10_edge_decomposition : forall t,
  default_slugify py_lower py_is_word render_class t =
  repeat 45%N (count32 (lead py_is_space t)) ++ py_plugin_slugify t ++ repeat 45%N (count32 (trail py_is_space t)).
Proof. exact py_edge_decomposition. Qed.
Print Assumptions C10_edge_decomposition.

Theorem C10_slug_agree_iff : forall t,
  default_slugify py_lower py_is_word render_class t = py_plugin_slugify t <->
  (~ In 32%N (lead py_is_space t) /\ ~ In 32%N (trail py_is_space t)).
Proof. exact py_agree_iff. Qed.
Print Assumptions C10_slug_agree_iff.

(* the anchors assigned during rendering are exactly those printed by myst-anchors -l depth -
   PARTIAL: for documents in which no heading title (text + inline code content) has an ASCII space in
   its leading / trailing white space - by C10_slug_agree_iff exactly the titles on which the two
   slugify functions agree; the full statement is refuted below (open finding: the renderer's
   default_slugify lacks the plug-in's strip(), and the repair would break the pinned test
   test_references) *)
Theorem C10_matches_cli_partial : forall depth hs, Forall (fun h => 1 <= h_level h) hs ->
  Forall edge_space_free hs ->
  print_anchors depth py_plugin_slugify hs =
  Ok (rendered_anchors hs (fst (render_slugs depth py_default_slugify hs))).
Proof. exact py_matches_cli. Qed.
Print Assumptions C10_matches_cli_partial.

(* "# a ![](x)": the inline children are text "a " and an image *)
Theorem C10_matches_cli_refuted : exists depth hs, Forall (fun h => 1 <= h_level h) hs /\
  print_anchors depth py_plugin_slugify hs <>
  Ok (rendered_anchors hs (fst (render_slugs depth py_default_slugify hs))).
Proof.
  exists 1, [mkh 1 [(TText, [97%N; 32%N]); (TOther, [])]]. split.
  - repeat constructor.
  - vm_compute. discriminate.
Qed.
Print Assumptions C10_matches_cli_refuted.

(* depth: exactly the headings deeper than heading_anchors have no slug (default function), and they
   have no influence on the others *)
Theorem C10_depth : forall depth f hs,
  (forall k h o, nth_error hs k = Some h -> nth_error (fst (render_slugs depth f hs)) k = Some o ->
     (depth < h_level h -> o = SlugNone) /\ (o = SlugNone -> depth < h_level h)) /\
  fst (render_slugs depth f (filter (fun h => h_level h <=? depth) hs)) =
  filter (fun o => match o with SlugNone => false | _ => true end) (fst (render_slugs depth f hs)).
Proof.
  intros depth f hs. split.
  - apply (SeqRule_depth depth f [] hs _ (render_slugs_rule depth f hs)).
  - apply depth_independent.
Qed.
Print Assumptions C10_depth.

(* custom function: it replaces the default (C10_document_rule is stated for any f); where it raises,
   that heading gets a warning and no slug and the rest of the document is as without that heading *)
Theorem C10_custom_func : forall depth f hs,
  SeqRule depth f []
    (filter (fun h => match f (inline_title (h_children h)) with Raise _ => (depth <? h_level h) | Ok _ => true end) hs)
    (filter (fun o => match o with SlugWarn => false | _ => true end) (fst (render_slugs depth f hs))).
Proof. intros. apply SeqRule_drop_failing. apply render_slugs_rule. Qed.
Print Assumptions C10_custom_func.

(* every assigned slug, looked up in document.myst_slugs, gives its own heading *)
Theorem C10_resolvable_model : forall depth f hs k r,
  nth_error (fst (render_slugs depth f hs)) k = Some (SlugOk r) ->
  sdict_get (snd (render_slugs depth f hs)) r = Some k.
Proof. exact resolvable_model. Qed.
Print Assumptions C10_resolvable_model.

(* Resolvability through the modelled ResolveAnchorIds.apply (coq/Refs/Anchors.v, C09): for every
   heading sequence, depth and slug function, with the slug table as the renderer stores it
   (slug -> (line, section id, title)) and no explicit target named like the slug, the link "#s" for an
   assigned slug s gets refid = the id of the heading that owns s, no warning, no pending_xref, no
   system message - under docutils and Sphinx, whatever the suppression setting. *)
Theorem C10_resolvable : forall nl sphinx suppressed slug_hash depth f hs line sid title ex k r rf,
  nth_error (fst (render_slugs depth f hs)) k = Some (SlugOk r) ->
  dget ex r = None ->
  r_frag rf = r ->
  let o := resolve_one nl sphinx suppressed slug_hash ex
             (slugs_of line sid title (snd (render_slugs depth f hs))) rf in
  o_refid o = Some (sid k) /\ o_warn o = [] /\ o_pending o = false /\ o_msg o = false.
Proof. exact resolvable. Qed.
Print Assumptions C10_resolvable.

(* docutils set_id (one name per node, make_id as an external function whose result is the input):
   it terminates and the id is new; hence the sections / rubrics of a document get pairwise distinct
   ids, none of them already in use - the refid above identifies the heading *)
Theorem C10_set_id_fresh : forall base_id tag_id ids counters,
  exists id counters', set_id base_id tag_id ids counters = Ok (id, counters') /\ ~ In id ids.
Proof. exact set_id_fresh. Qed.
Print Assumptions C10_set_id_fresh.

Theorem C10_section_ids_distinct : forall nodes ids counters,
  exists l, assign_ids nodes ids counters = Ok l /\ length l = length nodes /\
            NoDup l /\ forall x, In x l -> ~ In x ids.
Proof. exact assign_ids_distinct. Qed.
Print Assumptions C10_section_ids_distinct.

(* ---- round 3: the CODE regenerated from the sources on this run (Gen/SlugSrc.v) ---- *)

(* default_slugify (base.py) and slugify (plug-in) as translated = the model *)
Theorem C10_slugify_src : forall lower is_space is_word t,
  default_slugify_src lower is_word t = default_slugify lower is_word render_class t /\
  plugin_slugify_src lower is_space is_word t = plugin_slugify lower is_space is_word plugin_class t.
Proof. intros. split; [apply default_slugify_src_eq | apply plugin_slugify_src_eq]. Qed.
Print Assumptions C10_slugify_src.

(* compute_unique_slug translated statement by statement (title comprehension, slug function call,
   `while slug in slugs` on fuel |slugs|+1) = the model *)
Theorem C10_compute_unique_slug_src : forall default children slugs sf,
  compute_unique_slug_src default children slugs sf =
  compute_unique_slug (sel default sf) children slugs.
Proof. exact compute_unique_slug_src_eq. Qed.
Print Assumptions C10_compute_unique_slug_src.

(* least-suffix rule for the regenerated compute_unique_slug (it terminates, too) *)
Theorem C10_suffix_rule_src : forall default children slugs sf base,
  sel default sf (inline_title children) = Ok base ->
  exists r, compute_unique_slug_src default children slugs sf = Ok r /\
    ((r = base /\ ~ In base slugs) \/
     (exists k, 1 <= k /\ r = suffixed base (N.of_nat k) /\ In base slugs /\ ~ In r slugs /\
                forall j, 1 <= j < k -> In (suffixed base (N.of_nat j)) slugs)).
Proof.
  intros default children slugs sf base Hb.
  destruct (suffix_rule_src default children slugs sf base Hb) as (r & H & Hr).
  exists r. split; auto. apply SuffixRule_readable. exact Hr.
Qed.
Print Assumptions C10_suffix_rule_src.

(* the document loop over the regenerated function: distinct slugs, and the full assignment rule *)
Theorem C10_slugs_nodup_src : forall depth default sf hs,
  NoDup (assigned (fst (render_slugs_src depth default sf hs))).
Proof. exact slugs_nodup_src. Qed.
Print Assumptions C10_slugs_nodup_src.

Theorem C10_document_rule_src : forall depth default sf hs,
  SeqRule depth (sel default sf) [] hs (fst (render_slugs_src depth default sf hs)).
Proof. exact document_rule_src. Qed.
Print Assumptions C10_document_rule_src.

(* the plug-in's unique_slug as translated: least-suffix result, added to the set *)
Theorem C10_plugin_unique_slug_src : forall slug slugs,
  exists u, unique_slug_src slug slugs = Ok (u, u :: slugs) /\ SuffixRule slug slugs u.
Proof. exact unique_slug_src_rule. Qed.
Print Assumptions C10_plugin_unique_slug_src.

(* the CLI half regenerated: anchors_plugin's selected_levels, the _anchor_func loop (plug-in) and
   print_anchors' arguments and level filter (cli.py) = the model's print_anchors *)
Theorem C10_print_anchors_src : forall level slug_func hs,
  print_anchors_src level slug_func hs = print_anchors level slug_func hs.
Proof. exact print_anchors_src_eq. Qed.
Print Assumptions C10_print_anchors_src.

(* renderer = myst-anchors, both sides regenerated from the sources (same guard as C10_matches_cli_partial) *)
Theorem C10_matches_cli_src_partial : forall depth hs, Forall (fun h => 1 <= h_level h) hs ->
  Forall edge_space_free hs ->
  print_anchors_src depth py_plugin_slugify hs =
  Ok (rendered_anchors hs (fst (render_slugs_src depth py_default_slugify None hs))).
Proof.
  intros depth hs H1 H2. rewrite print_anchors_src_eq, render_slugs_src_eq. apply py_matches_cli; auto.
Qed.
Print Assumptions C10_matches_cli_src_partial.

(* ---- the code as it was before the repairs ---- *)

(* cumulative suffixing (slug = f"{slug}-{i}") breaks the least-suffix rule: a, a, a -> a-1-2 *)
Theorem C10_suffix_rule_refuted_before_repair :
  exists base slugs r, render_unique_cumulative base slugs = Ok r /\ ~ SuffixRule base slugs r.
Proof. exact suffix_rule_refuted_cumulative. Qed.
Print Assumptions C10_suffix_rule_refuted_before_repair.

(* non-vacuity *)
Definition ex_h (l : nat) (t : str) : heading := mkh l [(TText, t)].
Example C10_example :
  fst (render_slugs 2 py_default_slugify
         [ex_h 1 [97%N]; ex_h 1 [97%N]; ex_h 3 [97%N]; ex_h 2 [97%N; 45%N; 49%N]; ex_h 1 [65%N; 32%N; 98%N; 33%N]; ex_h 1 [97%N]]) =
  [SlugOk [97%N]; SlugOk [97%N; 45%N; 49%N]; SlugNone; SlugOk [97%N; 45%N; 49%N; 45%N; 49%N];
   SlugOk [97%N; 45%N; 98%N]; SlugOk [97%N; 45%N; 50%N]].
Proof. vm_compute. reflexivity. Qed.

(* "a", "a", "" (empty title): ids a, a-1, section-1 *)
Example C10_example_ids :
  assign_ids [([97%N], [115%N]); ([97%N], [115%N]); ([], [115%N])] [] [] =
  Ok [[97%N]; [97%N; 45%N; 49%N]; [115%N; 45%N; 49%N]].
Proof. vm_compute. reflexivity. Qed.
