(* C08 - Directive text splits into arguments, options, body without loss or leakage.
   Statements only; the model is Dir/DirModel.v (on Dir/PyLines.v), proofs are in Dir/DirProofs.v.
   [tokenize] (options_to_items) and [yaml_load] (yaml.safe_load) are arbitrary functions: every theorem
   holds for every behaviour of these two externals; [sg] is an arbitrary directive class. *)
From Coq Require Import List NArith ZArith Bool.
From MV Require Import Base.PyStr.
From MV Require Import Base.Res.
From MV Require Import Dir.PyLines.
From MV Require Import Dir.PyLinesProofs.
From MV Require Import Dir.DirModel.
From MV Require Import Dir.DirProofs.
From MV Require Import Dir.PyRuntime.
From MV Require Import Gen.DirSrc.
From MV Require Import Dir.DirSrcProofs.
From MV Require Import Opt.OptModel.
From MV Require Import Opt.OptComments.
From MV Require Import Opt.YamlSpec.
From MV Require Import Dir.DirTokenizer.
Import ListNotations.

(* The body is exactly the content lines from body_offset on - nothing lost, added or reordered -
   whenever the first line is not itself body text (no-argument directive with text after its name). *)
Theorem C08_body_is_suffix :
  forall tokenize yaml_load sg first_line content line validate additional r,
  parse_directive_text tokenize yaml_load sg first_line content line validate additional = Ok r ->
  first_line_is_body sg first_line = false ->
  (0 <= r_body_offset r)%Z /\
  r_body r = skipn (Z.to_nat (r_body_offset r)) (splitlines content).
Proof. exact body_is_suffix. Qed.
Print Assumptions C08_body_is_suffix.

(* body_offset = number of lines of the option block (delimiter lines included; 0 for a class without
   option_spec) + 1 if the line after it is blank; and it is an index into the content lines. *)
Theorem C08_offset_is_index :
  forall tokenize yaml_load sg first_line content line validate additional r,
  parse_directive_text tokenize yaml_load sg first_line content line validate additional = Ok r ->
  first_line_is_body sg first_line = false ->
  exists n, opt_extent sg (splitlines content) n /\
            let k := (n + if blank_at n (splitlines content) then 1 else 0)%nat in
            r_body_offset r = Z.of_nat k /\ r_body r = skipn k (splitlines content) /\
            (k <= length (splitlines content))%nat.
Proof. exact offset_is_index. Qed.
Print Assumptions C08_offset_is_index.

(* The other case: the first line is the first body line, then the content after the option block, verbatim. *)
Theorem C08_merged_first_line :
  forall tokenize yaml_load sg first_line content line validate additional r,
  parse_directive_text tokenize yaml_load sg first_line content line validate additional = Ok r ->
  first_line_is_body sg first_line = true ->
  exists n, opt_extent sg (splitlines content) n /\
            r_body r = first_line :: skipn n (splitlines content) /\
            r_body_offset r = 0%Z /\ r_arguments r = [].
Proof. exact merged_first_line. Qed.
Print Assumptions C08_merged_first_line.

(* A directive without option_spec never interprets body lines as options: the result does not depend
   on the tokenizer / YAML loader at all, it has no options and no option warning. *)
Theorem C08_no_opts_no_leak :
  forall tokenize yaml_load sg first_line content line validate additional,
  has_option_spec sg = false ->
  forall tokenize' yaml_load',
    parse_directive_text tokenize yaml_load sg first_line content line validate additional =
    parse_directive_text tokenize' yaml_load' sg first_line content line validate additional /\
    forall r, parse_directive_text tokenize yaml_load sg first_line content line validate additional = Ok r ->
      r_options r = [] /\ times_named [] (r_warnings r) = O /\
      (forall w, In w (r_warnings r) -> w = W_split \/ w = W_has_content).
Proof. exact no_opts_no_leak. Qed.
Print Assumptions C08_no_opts_no_leak.

(* Argument counts are enforced against the declaration. *)
Theorem C08_arguments :
  forall sg arg_text,
  let n := length (split_ws arg_text) in
  let total := (required_arguments sg + optional_arguments sg)%nat in
  (parse_directive_arguments sg arg_text = Raise MarkupError <->
     (n < required_arguments sg)%nat \/ ((total < n)%nat /\ final_argument_whitespace sg = false)) /\
  (forall e, parse_directive_arguments sg arg_text = Raise e -> e = MarkupError) /\
  ((required_arguments sg <= n <= total)%nat -> parse_directive_arguments sg arg_text = Ok (split_ws arg_text)) /\
  ((0 < total < n)%nat -> final_argument_whitespace sg = true ->
     exists last, parse_directive_arguments sg arg_text = Ok (firstn (total - 1) (split_ws arg_text) ++ [last]) /\
                  is_suffix last arg_text /\ lstrip last = last /\
                  split_ws last = skipn (total - 1) (split_ws arg_text)).
Proof.
  exact (fun sg t => conj (arguments_error_iff sg t)
                    (conj (arguments_only_markup_error sg t)
                    (conj (arguments_in_range sg t) (arguments_absorb sg t)))).
Qed.
Print Assumptions C08_arguments.

(* ... and that is what parse_directive_text returns / raises. *)
Theorem C08_arguments_in_text :
  forall tokenize yaml_load sg first_line content line validate additional,
  (forall r, parse_directive_text tokenize yaml_load sg first_line content line validate additional = Ok r ->
     if no_arguments sg then r_arguments r = []
     else parse_directive_arguments sg first_line = Ok (r_arguments r)) /\
  (no_arguments sg = false -> parse_directive_arguments sg first_line = Raise MarkupError ->
     forall r, parse_directive_text tokenize yaml_load sg first_line content line validate additional <> Ok r).
Proof.
  exact (fun tk yl sg fl c l v a => conj (arguments_in_text tk yl sg fl c l v a)
                                         (arguments_error_in_text tk yl sg fl c l v a)).
Qed.
Print Assumptions C08_arguments_in_text.

(* Kept options = the merged pairs with a known key whose converter succeeds, converted by that converter;
   every dropped pair (unknown key, or any exception from the converter) is named in exactly one
   warning, kept ones and foreign names in none. [items] is what the tokenizer returns for the block. *)
Theorem C08_option_validation :
  forall tokenize yaml_load sg first_line content line additional r items has_comments,
  has_option_spec sg = true -> is_test sg = false ->
  block_items tokenize content line items has_comments ->
  parse_directive_text tokenize yaml_load sg first_line content line true additional = Ok r ->
  let merged := merged_options items additional in
  r_options r = kept_of sg merged /\
  (forall k v, In (k, v) merged ->
     times_named k (r_warnings r) = match judge sg k v with Kept _ => O | _ => 1%nat end) /\
  (forall k, ~ In k (map fst merged) -> times_named k (r_warnings r) = O).
Proof. exact option_validation. Qed.
Print Assumptions C08_option_validation.

(* Options written in the block take priority over additional_options. *)
Theorem C08_block_priority :
  forall items additional k,
  dict_get (merged_options items additional) k =
  match dict_get (dict_of items) k with
  | Some v => Some v
  | None => match additional with Some a => dict_get (dict_of a) k | None => None end
  end.
Proof. exact block_priority. Qed.
Print Assumptions C08_block_priority.

(* The ':key: value' and '---' delimited styles are interchangeable: for unindented single-line pairs
   [kvs] and any body lines [B], both contents give the same arguments, options, body and warnings (up to
   the warning line), the dash-style offset being larger by its two delimiter lines - relative to the
   tokenizer oracle ignoring the final newline of such a block (O_tok_nl). *)
Theorem C08_styles_interchangeable :
  forall tokenize yaml_load sg first_line c1 c2 d0 d1 kvs B line validate additional,
  has_option_spec sg = true ->
  kvs <> [] -> Forall kv_line kvs ->
  splitlines c1 = map (fun l => c_colon :: l) kvs ++ B -> is_colon_line (hd_line B) = false ->
  splitlines c2 = d0 :: kvs ++ d1 :: B -> is_dash_line d0 = true -> is_dash_line d1 = true ->
  tokenize (join_nl kvs ++ nl) = tokenize (join_nl kvs) ->
  yaml_load (join_nl kvs ++ nl) = yaml_load (join_nl kvs) ->
  res_rel (result_rel sg first_line 2)
          (parse_directive_text tokenize yaml_load sg first_line c1 line validate additional)
          (parse_directive_text tokenize yaml_load sg first_line c2 line validate additional).
Proof. exact styles_interchangeable. Qed.
Print Assumptions C08_styles_interchangeable.

(* The same with the tokenizer oracle instantiated by the C07 model (Opt/OptModel.v options_to_items with the
   has_comments flag of Opt/OptComments.v).  The premise "a final newline does not change the pairs" is now PROVED from
   C07_final_newline_optional for every block that is the text of a well-formed C07 block ending in a key without value
   or with a flow scalar ([c07_block_text]).  PARTIAL in one point only: the invariance of the comments FLAG under the
   final newline stays a premise (no theorem for it in C07; compared by their correspondence and by search here). *)
Theorem C08_styles_interchangeable_c07_partial :
  forall yaml_load sg first_line c1 c2 d0 d1 kvs B line validate additional,
  has_option_spec sg = true ->
  kvs <> [] -> Forall kv_line kvs ->
  splitlines c1 = map (fun l => c_colon :: l) kvs ++ B -> is_colon_line (hd_line B) = false ->
  splitlines c2 = d0 :: kvs ++ d1 :: B -> is_dash_line d0 = true -> is_dash_line d1 = true ->
  c07_block_text (join_nl kvs) ->
  has_comments (join_nl kvs ++ nl) = has_comments (join_nl kvs) ->
  yaml_load (join_nl kvs ++ nl) = yaml_load (join_nl kvs) ->
  res_rel (result_rel sg first_line 2)
          (parse_directive_text c07_tokenize yaml_load sg first_line c1 line validate additional)
          (parse_directive_text c07_tokenize yaml_load sg first_line c2 line validate additional).
Proof. exact styles_interchangeable_c07_block. Qed.
Print Assumptions C08_styles_interchangeable_c07_partial.

(* non-vacuity of [c07_block_text]: the lines "class: x" / "name: y" *)
Example C08_c07_block_example : c07_block_text (join_nl ex_kvs) /\ Forall kv_line ex_kvs.
Proof. exact ex_kvs_block_text. Qed.

(* ---- the same theorems about the definitions REGENERATED from parsers/directives.py on every run (Gen/DirSrc.v,
   gen/c08_dirsrc.py): split_lines, parse_directive_arguments, _parse_directive_options, parse_directive_text translated
   statement by statement and proved equal to the model (Dir/DirSrcProofs.v).  An edit of the Python code changes the
   subject of these theorems. ---- *)

Theorem C08_src_refines_model :
  forall tokenize yaml_load,
  (forall text, split_lines_src text = Ok (splitlines text)) /\
  (forall sg t, parse_directive_arguments_src sg t = parse_directive_arguments sg t) /\
  (forall content sg as_yaml line additional,
     parse_directive_options_src tokenize yaml_load content sg as_yaml line additional =
     parse_directive_options tokenize yaml_load content sg as_yaml line additional) /\
  (forall sg first_line content line validate additional,
     parse_directive_text_src tokenize yaml_load sg first_line content line validate additional =
     parse_directive_text tokenize yaml_load sg first_line content line validate additional).
Proof.
  exact (fun tk yl => conj split_lines_src_eq (conj parse_directive_arguments_src_eq
          (conj (parse_directive_options_src_eq tk yl) (parse_directive_text_src_eq tk yl)))).
Qed.
Print Assumptions C08_src_refines_model.

Theorem C08_body_is_suffix_src :
  forall tokenize yaml_load sg first_line content line validate additional r lines,
  parse_directive_text_src tokenize yaml_load sg first_line content line validate additional = Ok r ->
  split_lines_src content = Ok lines ->
  first_line_is_body sg first_line = false ->
  (0 <= r_body_offset r)%Z /\ r_body r = skipn (Z.to_nat (r_body_offset r)) lines.
Proof. exact body_is_suffix_src. Qed.
Print Assumptions C08_body_is_suffix_src.

Theorem C08_offset_is_index_src :
  forall tokenize yaml_load sg first_line content line validate additional r lines,
  parse_directive_text_src tokenize yaml_load sg first_line content line validate additional = Ok r ->
  split_lines_src content = Ok lines ->
  first_line_is_body sg first_line = false ->
  exists n, opt_extent sg lines n /\
            let k := (n + if blank_at n lines then 1 else 0)%nat in
            r_body_offset r = Z.of_nat k /\ r_body r = skipn k lines /\ (k <= length lines)%nat.
Proof. exact offset_is_index_src. Qed.
Print Assumptions C08_offset_is_index_src.

Theorem C08_arguments_src :
  forall sg arg_text,
  let n := length (split_ws arg_text) in
  let total := (required_arguments sg + optional_arguments sg)%nat in
  (parse_directive_arguments_src sg arg_text = Raise MarkupError <->
     (n < required_arguments sg)%nat \/ ((total < n)%nat /\ final_argument_whitespace sg = false)) /\
  (forall e, parse_directive_arguments_src sg arg_text = Raise e -> e = MarkupError) /\
  ((required_arguments sg <= n <= total)%nat -> parse_directive_arguments_src sg arg_text = Ok (split_ws arg_text)) /\
  ((0 < total < n)%nat -> final_argument_whitespace sg = true ->
     exists last, parse_directive_arguments_src sg arg_text = Ok (firstn (total - 1) (split_ws arg_text) ++ [last]) /\
                  is_suffix last arg_text /\ lstrip last = last /\
                  split_ws last = skipn (total - 1) (split_ws arg_text)).
Proof. exact arguments_src. Qed.
Print Assumptions C08_arguments_src.

Theorem C08_block_priority_src :
  forall tokenize yaml_load sg first_line content line additional r items has_comments,
  has_option_spec sg = true -> is_test sg = false ->
  block_items tokenize content line items has_comments ->
  parse_directive_text_src tokenize yaml_load sg first_line content line true additional = Ok r ->
  r_options r = kept_of sg (merged_options items additional) /\
  forall k, dict_get (merged_options items additional) k =
            match dict_get (dict_of items) k with
            | Some v => Some v
            | None => match additional with Some a => dict_get (dict_of a) k | None => None end
            end.
Proof. exact block_priority_src. Qed.
Print Assumptions C08_block_priority_src.

(* The splitter as it was before fix 601d16e (body re-joined and re-split) does not meet C08_body_is_suffix. *)
Theorem C08_rejoin_refuted :
  exists content,
    let '(body, off) := old_body_and_offset content in
    body <> skipn (Z.to_nat off) (splitlines content).
Proof. exact old_code_refuted. Qed.
Print Assumptions C08_rejoin_refuted.

(* ---- non-vacuity ---- *)
Definition ex_sig : dsig :=
  {| has_option_spec := true;
     opt_known := fun k => str_eqb k [99; 108; 97; 115; 115];          (* "class" *)
     opt_keys := [[99; 108; 97; 115; 115]];
     opt_is_flag := fun _ => false;
     opt_conv := fun _ v => match v with Some s => Ok s | None => Raise ValueError end;
     required_arguments := 1; optional_arguments := 0; final_argument_whitespace := true;
     has_content := true; is_test := false |}.

(* tokenizer stub for the example: "class: x" -> [("class","x")] *)
Definition ex_tok (b : str) : res (list (str * str) * bool) :=
  Ok ([([99; 108; 97; 115; 115], [120]%N)], false).

(* first line "A title", content ":class: x\n\nbody\n\n"  ->  args ["A title"], options class=x,
   body ["body"; ""], offset 2 *)
Example C08_example :
  parse_directive_text ex_tok (fun _ => Y_falsy) ex_sig [65; 32; 116; 105; 116; 108; 101]%N
    [58; 99; 108; 97; 115; 115; 58; 32; 120; 10; 10; 98; 111; 100; 121; 10; 10]%N (Some 7%nat) true None =
  Ok {| r_arguments := [[65; 32; 116; 105; 116; 108; 101]%N];
        r_options := [([99; 108; 97; 115; 115]%N, [120]%N)];
        r_body := [[98; 111; 100; 121]%N; []];
        r_body_offset := 2%Z; r_warnings := [] |}.
Proof. vm_compute. reflexivity. Qed.
