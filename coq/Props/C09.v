(* C09 - Local '#target' links resolve to the right node or warn exactly once.
   Statements only; the model is Refs/Anchors.v (ResolveAnchorIds.apply), proofs in
   Refs/AnchorsProofs.v.  [normalizeLink] is markdown-it's function (external, only passed
   through), [sphinx] = running under Sphinx, [suppressed] = myst.xref_missing is listed in
   suppress_warnings, [slug_hash] = true is the code after the fix: commit. *)
From Coq Require Import List NArith Bool.
From MV Require Import Base.PyStr Base.Res Refs.RUtil Refs.Anchors Refs.AnchorsProofs Refs.AnchorsSphinx.
From MV Require Import Refs.AnchorsOps Gen.AnchorsSrc Refs.AnchorsSrcProofs.
From MV Require XRef.XRefModel.
Import ListNotations.
Open Scope N_scope.

(* The explicit table built from the docutils registries holds exactly the names flagged
   explicit in nametypes whose id is still valid (not invalidated by a duplicate) and whose
   node is not a footnote, a *target node* carrying a refuri (after the fix: commit; before it, any
   node with a refuri - [legacy_refuri]), or an object description: with the
   node's label id and implicit title.  (nametypes is a dict: its keys are distinct.) *)
Theorem C09_explicit_spec : forall legacy_refuri rg ex,
  NoDup (map fst (nametypes rg)) ->
  build_explicit legacy_refuri rg = Ok ex ->
  forall name,
    dget ex name =
    match dget (nametypes rg) name with
    | Some true => match entry legacy_refuri rg name with Ok (Some v) => Some v | _ => None end
    | _ => None
    end.
Proof. exact build_explicit_spec. Qed.
Print Assumptions C09_explicit_spec.

(* explicit targets take priority whatever the slug table says; a heading slug is used only
   when no explicit target carries the name; neither case warns *)
Theorem C09_resolution_order : forall nl sphinx suppressed slug_hash ex slugs r,
  (forall lid title, dget ex (r_frag r) = Some (lid, title) ->
     o_refid (resolve_one nl sphinx suppressed slug_hash ex slugs r) = Some lid /\
     o_warn (resolve_one nl sphinx suppressed slug_hash ex slugs r) = [] /\
     o_pending (resolve_one nl sphinx suppressed slug_hash ex slugs r) = false /\
     o_msg (resolve_one nl sphinx suppressed slug_hash ex slugs r) = false) /\
  (forall line sid title, dget ex (r_frag r) = None ->
     dget slugs (r_frag r) = Some (line, sid, title) ->
     o_refid (resolve_one nl sphinx suppressed slug_hash ex slugs r) = Some sid /\
     o_warn (resolve_one nl sphinx suppressed slug_hash ex slugs r) = [] /\
     o_pending (resolve_one nl sphinx suppressed slug_hash ex slugs r) = false /\
     o_msg (resolve_one nl sphinx suppressed slug_hash ex slugs r) = false).
Proof. exact resolution_order. Qed.
Print Assumptions C09_resolution_order.

(* docutils, warning not suppressed: a link whose target exists neither as explicit target nor
   as slug gets exactly one xref_missing warning carrying the link's own line, keeps its text
   (nothing is added to it), and points at the normalised fragment *)
Theorem C09_missing_warns_once : forall nl slug_hash ex slugs r,
  dget ex (r_frag r) = None -> dget slugs (r_frag r) = None ->
  let o := resolve_one nl false false slug_hash ex slugs r in
  o_warn o = [{| w_line := r_line r; w_target := r_frag r |}] /\
  o_refid o = Some (nl (r_frag r)) /\ o_fill o = None /\ o_msg o = true /\ o_pending o = false.
Proof. exact missing_docutils. Qed.
Print Assumptions C09_missing_warns_once.

(* the same link when the warning is suppressed: no warning, an empty text becomes '#name' *)
Theorem C09_missing_suppressed : forall nl slug_hash ex slugs r,
  dget ex (r_frag r) = None -> dget slugs (r_frag r) = None ->
  let o := resolve_one nl false true slug_hash ex slugs r in
  o_warn o = [] /\ o_refid o = Some (nl (r_frag r)) /\ o_msg o = false /\
  o_fill o = if r_has_text r then None else Some (s_hash ++ r_frag r).
Proof. exact missing_suppressed. Qed.
Print Assumptions C09_missing_suppressed.

(* under Sphinx the transform itself never warns: the missing link is handed to the project-wide
   resolver as one pending_xref *)
Theorem C09_missing_sphinx_pending : forall nl suppressed slug_hash ex slugs r,
  dget ex (r_frag r) = None -> dget slugs (r_frag r) = None ->
  let o := resolve_one nl true suppressed slug_hash ex slugs r in
  o_pending o = true /\ o_warn o = [] /\ o_refid o = None /\ o_fill o = None /\ o_pline o = r_line r.
Proof. exact missing_sphinx. Qed.
Print Assumptions C09_missing_sphinx_pending.

(* Sphinx, end to end for a link the document cannot resolve: ResolveAnchorIds leaves one pending_xref
   carrying the link's own line (fix f134597); MystReferenceResolver (the C12 model XRefModel.resolve_any,
   cf. C12_missing_once_any / C12_missing_at_most_once) then logs exactly one xref_missing naming the
   fragment iff nothing in the project resolves it - no label/document candidate (resolve_ref_nested on
   the lower-cased target, resolve_doc_nested, other std objects, other domains: any_candidates) and no
   intersphinx entry - and none otherwise.  Premise: the target is not listed in nitpick_ignore. *)
Theorem C09_sphinx_fallthrough :
  forall (std_objects other_domains : str -> list XRefModel.cand) (intersphinx : str -> option XRefModel.cand)
         nl suppressed slug_hash ex slugs r P from,
  dget ex (r_frag r) = None -> dget slugs (r_frag r) = None ->
  mem_str (r_frag r) (XRefModel.p_nitpick P) = false ->
  let o := resolve_one nl true suppressed slug_hash ex slugs r in
  let ws := resolver_warnings std_objects other_domains intersphinx P from r in
  o_pending o = true /\ o_warn o = [] /\ o_pline o = r_line r /\
  (XRefModel.count_missing ws <= 1)%nat /\
  (XRefModel.count_missing ws = 1%nat <->
     XRefModel.any_candidates std_objects other_domains P from (r_has_text r) (r_frag r) = []
     /\ intersphinx (r_frag r) = None) /\
  (XRefModel.count_missing ws = 1%nat -> ws = [XRefModel.W_missing (r_frag r)]).
Proof. exact sphinx_fallthrough. Qed.
Print Assumptions C09_sphinx_fallthrough.

(* REFUTED clause (open finding text:missing-empty-not-filled, shared with C14's
   suppress-side-effect:xref_missing:fallback-link-text): an empty link to a missing target is left
   with the system message and no visible text; '#name' appears only when the warning is suppressed
   (C09_missing_suppressed).  The pinned test fixtures expect this output. *)
Theorem C09_missing_empty_text_refuted :
  exists nl r, r_has_text r = false /\
    let o := resolve_one nl false false true [] [] r in
    o_fill o = None /\ o_msg o = true /\ o_refid o = Some (nl (r_frag r)).
Proof. exact missing_empty_text_not_filled. Qed.
Print Assumptions C09_missing_empty_text_refuted.

(* before fix 37bd485 an id attribute on an external link was not a link target *)
Theorem C09_attr_id_on_link_before_fix_refuted :
  exists rg name,
    dget (nametypes rg) name = Some true /\
    (exists ex, build_explicit true rg = Ok ex /\ dget ex name = None) /\
    (exists ex v, build_explicit false rg = Ok ex /\ dget ex name = Some v).
Proof. exact attr_id_on_link_before_fix. Qed.
Print Assumptions C09_attr_id_on_link_before_fix_refuted.

(* the warnings of a whole run: one per missing link, in document order, none for any other *)
Theorem C09_warnings_exact : forall nl sphinx suppressed slug_hash ex slugs refs,
  warnings_of (map (resolve_one nl sphinx suppressed slug_hash ex slugs) refs) =
  map (fun r => {| w_line := r_line r; w_target := r_frag r |})
      (filter (fun r => negb (dmem ex (r_frag r)) && negb (dmem slugs (r_frag r))
                        && negb sphinx && negb suppressed) refs).
Proof. exact warnings_filter. Qed.
Print Assumptions C09_warnings_exact.

(* nothing dropped, duplicated or reordered: the outputs are the references, one for one, in
   order, and a link that had text gets nothing added *)
Theorem C09_refs_preserved : forall nl sphinx suppressed slug_hash legacy_refuri rg slugs refs outs,
  apply nl sphinx suppressed slug_hash legacy_refuri rg slugs refs = Ok outs ->
  length outs = length refs /\
  map o_frag outs = map r_frag refs /\
  Forall2 (fun r o => r_has_text r = true -> o_fill o = None) refs outs.
Proof. exact refs_preserved. Qed.
Print Assumptions C09_refs_preserved.

(* an empty link text is filled from the target's title, or with '#name' when it has none
   (code after the fix: commit, slug_hash = true) *)
Theorem C09_implicit_text : forall nl sphinx suppressed ex slugs r,
  r_has_text r = false ->
  (forall lid title, dget ex (r_frag r) = Some (lid, title) ->
     o_fill (resolve_one nl sphinx suppressed true ex slugs r) =
     Some (match title with
           | Some t => if nonempty t then t else s_hash ++ r_frag r
           | None => s_hash ++ r_frag r
           end)) /\
  (forall line sid title, dget ex (r_frag r) = None ->
     dget slugs (r_frag r) = Some (line, sid, title) ->
     o_fill (resolve_one nl sphinx suppressed true ex slugs r) =
     Some (if nonempty title then title else s_hash ++ r_frag r)).
Proof. exact implicit_text. Qed.
Print Assumptions C09_implicit_text.

(* the code before the fix left an empty link to an empty-titled heading without any text *)
Theorem C09_implicit_text_before_fix_refuted :
  exists nl slugs r,
    r_has_text r = false /\ dmem slugs (r_frag r) = true /\
    o_fill (resolve_one nl false false false [] slugs r) = None.
Proof. exact slug_empty_title_before_fix. Qed.
Print Assumptions C09_implicit_text_before_fix_refuted.

(* ---- the same statements for the code as it is in the source now ----------------------------------
   [apply_src] is the Gallina definition that gen/c09_src.py REGENERATES from ResolveAnchorIds.apply on every
   run (Gen/AnchorsSrc.v: the explicit-table loop with its skips and exceptions, the per-reference chain
   explicit -> slugs -> Sphinx pending_xref / docutils warning, the text filling; domain mapping =
   Refs/AnchorsOps.v); Refs/AnchorsSrcProofs.v proves it equal to the model.  An edit of the method changes
   Gen/AnchorsSrc.v and these are re-checked against it. *)
Theorem C09_apply_src_is_apply : forall nl sphinx suppressed rg slugs refs,
  apply_src nl sphinx suppressed rg slugs refs = apply nl sphinx suppressed true false rg slugs refs.
Proof. exact apply_src_eq. Qed.
Print Assumptions C09_apply_src_is_apply.

Theorem C09_resolution_order_src : forall nl sphinx suppressed rg slugs refs outs,
  apply_src nl sphinx suppressed rg slugs refs = Ok outs ->
  exists ex, build_explicit false rg = Ok ex /\
    Forall2 (fun r o =>
      (forall lid title, dget ex (r_frag r) = Some (lid, title) ->
         o_refid o = Some lid /\ o_warn o = [] /\ o_pending o = false /\ o_msg o = false) /\
      (forall line sid title, dget ex (r_frag r) = None -> dget slugs (r_frag r) = Some (line, sid, title) ->
         o_refid o = Some sid /\ o_warn o = [] /\ o_pending o = false /\ o_msg o = false)) refs outs.
Proof. exact resolution_order_src. Qed.
Print Assumptions C09_resolution_order_src.

Theorem C09_missing_warns_once_src : forall nl rg slugs refs outs,
  apply_src nl false false rg slugs refs = Ok outs ->
  exists ex, build_explicit false rg = Ok ex /\
    Forall2 (fun r o =>
      dget ex (r_frag r) = None -> dget slugs (r_frag r) = None ->
      o_warn o = [{| w_line := r_line r; w_target := r_frag r |}] /\
      o_refid o = Some (nl (r_frag r)) /\ o_fill o = None /\ o_msg o = true /\ o_pending o = false) refs outs /\
    warnings_of outs =
      map (fun r => {| w_line := r_line r; w_target := r_frag r |})
          (filter (fun r => negb (dmem ex (r_frag r)) && negb (dmem slugs (r_frag r)) && negb false && negb false) refs).
Proof. exact missing_warns_once_src. Qed.
Print Assumptions C09_missing_warns_once_src.

Theorem C09_implicit_text_src : forall nl sphinx suppressed rg slugs refs outs,
  apply_src nl sphinx suppressed rg slugs refs = Ok outs ->
  exists ex, build_explicit false rg = Ok ex /\
    Forall2 (fun r o => r_has_text r = false ->
      (forall lid title, dget ex (r_frag r) = Some (lid, title) ->
         o_fill o = Some (match title with
                          | Some t => if nonempty t then t else s_hash ++ r_frag r
                          | None => s_hash ++ r_frag r
                          end)) /\
      (forall line sid title, dget ex (r_frag r) = None -> dget slugs (r_frag r) = Some (line, sid, title) ->
         o_fill o = Some (if nonempty title then title else s_hash ++ r_frag r))) refs outs.
Proof. exact implicit_text_src. Qed.
Print Assumptions C09_implicit_text_src.

(* non-vacuity: 'a' is both an explicit target (a paragraph, no title) and a heading slug;
   'b' only a slug; 'c' missing.  Explicit wins, the slug fills its title, 'c' warns at line 7 *)
Example C09_example :
  let para := DN [112] KOther None false [[97]] [84] [] in
  let rg := {| nametypes := [([97], true); ([120], false)];
               nameids := [([97], Some [105;49]); ([120], Some [105;50])];
               ids := [([105;49], para); ([105;50], para)] |} in
  let slugs := [([97], (Some 1, [115;49], [65])); ([98], (Some 2, [115;50], [66]))] in
  let refs := [ {| r_frag := [97]; r_has_text := false; r_line := Some 5 |};
                {| r_frag := [98]; r_has_text := false; r_line := Some 6 |};
                {| r_frag := [99]; r_has_text := true;  r_line := Some 7 |} ] in
  match apply (fun s => s) false false true false rg slugs refs with
  | Ok outs =>
      map o_refid outs = [Some [105;49]; Some [115;50]; Some [99]] /\
      map o_fill outs = [Some [35;97]; Some [66]; None] /\
      warnings_of outs = [{| w_line := Some 7; w_target := [99] |}]
  | Raise _ => False
  end.
Proof. vm_compute. auto. Qed.
