(* C20 - docutils security settings are honoured for every input.
   Statements only.  Model: Nest/Raw.v (the post-processing loop of Parser.parse on a rose tree,
   the prefix of MockIncludeDirective.run with a file-system trace); regenerated facts about the
   source: Gen/RawSites.v; proofs: Nest/RawProofs.v. *)
From Coq Require Import List NArith Bool.
From MV Require Import Base.PyStr Base.Res Nest.Raw Nest.RawProofs Gen.RawSites Gen.RawSrc Nest.RawSrcProofs Gen.SettingsSites.
Import ListNotations.
Open Scope N_scope.
From MV Require Import Nest.C20Lemmas.

(* With raw content disabled, no raw node of any format survives at any depth of any tree. *)
Theorem C20_no_raw_survives : forall doc : dnode,
  has_raw (fst (post_process false doc)) = false.
Proof. exact post_process_no_raw. Qed.
Print Assumptions C20_no_raw_survives.

(* Every other node keeps its place and order (Rstrip: identical except that a raw node has
   become the warning); a tree without raw nodes is returned as it is; with raw content enabled
   nothing happens; the number of reports is the number of raw nodes; exactly one warning node
   stands in the tree per removed raw node (raw nodes hold text only: raw_flat). *)
Theorem C20_rest_untouched : forall doc : dnode,
  Rstrip doc (fst (post_process false doc))
  /\ (has_raw doc = false -> fst (post_process false doc) = doc)
  /\ post_process true doc = (doc, O)
  /\ snd (post_process false doc) = count_raw doc
  /\ (count_warning doc = O -> raw_flat doc = true ->
      count_warning (fst (post_process false doc)) = count_raw doc).
Proof. exact C20_rest_untouched_l. Qed.
Print Assumptions C20_rest_untouched.

(* Finite table (regenerated on every run from the working tree): each of the 6 sites of the
   package that construct nodes.raw either appends the node to the current node inside a render
   method or returns it to render_html_block - i.e. it is in the document tree when the loop
   runs - the one exception being the section-numbering transform of the project's own
   documentation build (myst_parser/_docs.py, not part of the parser); the loop has exactly the
   modelled shape (no filter on the format, traverse() list), is a top-level statement of
   Parser.parse and comes after parser.render. *)

Theorem C20_all_raw_in_tree :
  length raw_sites = 6%nat
  /\ forallb (fun s => sink_in_tree_before_loop (rs_sink s) || str_eqb (rs_file s) docs_py) raw_sites = true
  /\ raw_loop_exact = true /\ raw_loop_after_render = true /\ raw_loop_top_level = true.
Proof. exact C20_all_raw_in_tree_l. Qed.
Print Assumptions C20_all_raw_in_tree.

(* With file insertion disabled the include directive's run() raises the level-2 directive error
   before any file-system operation (empty trace), for every argument and file system; in the
   source the test is the first statement of run() and no file-system call precedes it; the
   document's other blocks are rendered as without the directive: same registries, same nodes,
   one refusal node where each include stood, no file-system event at all. *)
Theorem C20_include_refuses_before_io :
  (forall st name arg resolve resolve_std fs,      (* every argument, <standard> spelling included *)
      file_insertion_enabled st = false ->
      include_run_prefix st name arg resolve resolve_std fs = (RError 2 name, []))
  /\ (include_check_index = 0%nat /\ include_fs_before_check = 0%nat /\ include_check_level = 2)
  /\ (forall (regs : Type) render_other render_text resolve resolve_std fs st bs (r : regs),
        file_insertion_enabled st = false ->
        render_blocks regs render_other render_text resolve resolve_std fs st bs r
        = (fst (render_refused regs render_other bs r), snd (render_refused regs render_other bs r), [])
        /\ snd (render_refused regs render_other bs r)
           = snd (render_refused regs render_other (filter (fun b => negb (is_include b)) bs) r)
        /\ ((forall id r, forallb (fun n => negb (is_refusal n)) (fst (render_other id r)) = true) ->
            filter (fun n => negb (is_refusal n)) (fst (render_refused regs render_other bs r))
            = fst (render_refused regs render_other (filter (fun b => negb (is_include b)) bs) r))).
Proof. exact C20_include_refuses_before_io_l. Qed.
Print Assumptions C20_include_refuses_before_io.

(* with file insertion enabled the file is read (the model is not vacuously silent) *)
Theorem C20_include_reads_when_enabled : forall st name arg resolve resolve_std fs,
  file_insertion_enabled st = true ->
  In (FsRead (include_path arg resolve resolve_std))
     (snd (include_run_prefix st name arg resolve resolve_std fs))
  /\ (is_standard_arg arg = true -> include_path arg resolve resolve_std = resolve_std (standard_inner arg))
  /\ (is_standard_arg arg = false -> include_path arg resolve resolve_std = resolve arg).
Proof. exact C20_include_reads_when_enabled_l. Qed.
Print Assumptions C20_include_reads_when_enabled.

(* ---- the same, for the code regenerated from the source on this run (Gen/RawSrc.v) ----
   post_process_src is the raw_enabled block of Parser.parse translated statement by statement
   (guard, for loop over document.traverse(nodes.raw), reporter.warning, node.parent.replace);
   include_run_src is MockIncludeDirective.run from its first statement to the
   nested_render_text call (file_insertion test, standard-include branch, path resolution,
   record_dependencies, read, slicing, :literal:/:code: returns, circular-inclusion test). *)
Theorem C20_src_is_model :
  (forall raw_enabled doc, post_process_src raw_enabled doc = post_process raw_enabled doc)
  /\ (forall st opts name arg resolve resolve_std fs slice circular,
        include_run_src st opts name arg resolve resolve_std fs slice circular
        = include_run_head st opts name arg resolve resolve_std fs slice circular).
Proof. exact C20_src_is_model_l. Qed.
Print Assumptions C20_src_is_model.

Theorem C20_no_raw_survives_src : forall doc : dnode,
  has_raw (fst (post_process_src false doc)) = false
  /\ Rstrip doc (fst (post_process_src false doc))
  /\ snd (post_process_src false doc) = count_raw doc
  /\ post_process_src true doc = (doc, O).
Proof. exact C20_no_raw_survives_src_l. Qed.
Print Assumptions C20_no_raw_survives_src.

(* whatever the argument spelling, the options, the file system: with file insertion disabled
   the translated run() returns the level-2 error with an empty file-system trace; with it
   enabled the file named by the argument is read *)
Theorem C20_include_refuses_before_io_src :
  (forall st opts name arg resolve resolve_std fs slice circular,
      file_insertion_enabled st = false ->
      include_run_src st opts name arg resolve resolve_std fs slice circular = (HError 2 name, []))
  /\ (forall st opts name arg resolve resolve_std fs slice circular,
        file_insertion_enabled st = true ->
        In (FsRead (include_path arg resolve resolve_std))
           (snd (include_run_src st opts name arg resolve resolve_std fs slice circular))).
Proof. exact C20_include_refuses_before_io_src_l. Qed.
Print Assumptions C20_include_refuses_before_io_src.

(* O_docutils_checks, structurally: docutils' own raw / include / csv-table checks read
   state.document.settings (inliner.document.settings).  Finite table (regenerated on every run, 19
   sites): at every place where MyST hands a document, a settings object, a mocked state / state
   machine / inliner or a directive instance to docutils code, the settings object reachable from
   it is the main document's settings object - the renderer's document is the document docutils
   created (Parser.parse, setup_render; nothing rebinds it), every mock takes renderer.document,
   the eval-rst document is given self.document.settings before the rST parser runs. *)
Theorem C20_settings_shared :
  length settings_sites = 19%nat
  /\ forallb (site_shares_settings settings_sites) settings_sites = true.
Proof. exact C20_settings_shared_l. Qed.
Print Assumptions C20_settings_shared.

(* non-vacuity: a tree with html and latex raw nodes at two depths *)
Example C20_example :
  post_process false
    (DNode (KElem 0) [] [DNode (KElem 1) [] [DText [97]; DNode (KRaw [104; 116; 109; 108]) [] [DText [60]]];
                         DNode (KRaw [108; 97; 116; 101; 120]) [] []; DText [98]])
  = (DNode (KElem 0) [] [DNode (KElem 1) [] [DText [97]; raw_warning]; raw_warning; DText [98]], 2%nat).
Proof. exact C20_example_l. Qed.
