(* C14 - Warnings: closed typed catalogue; suppression has no side effects.
   Statements only; proofs are in Cfg/WarnProofs.v.  [catalogue] and [sites] are regenerated from
   the package source on every run (Gen/Warnings.v).

   Premise of the dynamic statements (excluded by premise, not modelled): docutils' halt_level is at
   its default, i.e. above WARNING.  With halt_level lowered reporter.warning raises SystemMessage, so
   whether a warning is suppressed changes control flow. *)
From Coq Require Import List NArith Bool String.
From MV Require Import Base.PyStr Cfg.StrLit Cfg.WarnTypes Cfg.Warn Cfg.WarnProofs Gen.Warnings.
From MV Require Import Cfg.WarnSrcPrelude Gen.WarnSrc Cfg.WarnSrcProofs.
Import ListNotations.
Open Scope string_scope.
Open Scope list_scope.

From MV Require Import Cfg.WarnTableProofs.
(* ---- static: every warning-emitting call site of the package (bound: the sites present in the
   regenerated table, [length sites] rows) ---- *)

(* every site passes a MystWarnings member, or an explicit documented non-myst type with a literal
   subtype ("ref.footnote"), or forwards such a parameter; no site logs an untyped warning; explicit
   suppression tests name catalogue tags; every literal type is dot-free *)
Theorem C14_sites_typed : forall s, In s sites -> site_ok catalogue s = true.
Proof. exact C14_sites_typed_proof. Qed.
Print Assumptions C14_sites_typed.

(* the two allow-listed untagged docutils-level messages are single call sites: no further
   reporter.warning call hides in the same functions *)
Theorem C14_untagged_sites_bounded : untagged_sites_bounded sites = true.
Proof. exact C14_untagged_sites_bounded_proof. Qed.
Print Assumptions C14_untagged_sites_bounded.

(* the tags those sites can emit are catalogue tags (myst.<value>) or ref.footnote *)
Theorem C14_site_tags_in_catalogue : forall s, In s sites -> site_tags_allowed catalogue s = true.
Proof. exact C14_site_tags_in_catalogue_proof. Qed.
Print Assumptions C14_site_tags_in_catalogue.

(* every catalogue member has at least one emission site, except the known dead entries
   (DIRECTIVE_BODY), which are reported in the evidence *)
Theorem C14_catalogue_emitted :
  forall n, In n (map fst catalogue) -> In n known_dead \/ member_emitted sites n = true.
Proof. exact C14_catalogue_emitted_proof. Qed.
Print Assumptions C14_catalogue_emitted.

(* every use of create_warning's return value only includes or omits that node, and the node given as
   append_to is not inspected afterwards.  PARTIAL: except at the site(s) of the open finding
   "suppress-side-effect:xref_missing:fallback-link-text" (ResolveAnchorIds.apply tests
   refnode.children after appending the warning to refnode) *)
Theorem C14_result_use_benign_partial : forall s, In s sites ->
  pair_in known_side_effect_sites (s_file s) (s_func s) = false -> use_benign s = true.
Proof. exact C14_result_use_benign_partial_proof. Qed.
Print Assumptions C14_result_use_benign_partial.

Theorem C14_result_use_benign_refuted : exists s, In s sites /\ use_benign s = false.
Proof. exact C14_result_use_benign_refuted_proof. Qed.
Print Assumptions C14_result_use_benign_refuted.

(* ---- dynamic: suppression ---- *)

(* what "the tag matches the suppress list" means: an entry equal to type, type.subtype or type.*  *)
Theorem C14_tag_matches_meaning : forall S ty sub,
  tag_matches S ty sub = true <->
  exists w, In w S /\ (w = ty \/ w = ty ++ c_dot :: sub \/ w = ty ++ [c_dot; c_star]).
Proof. exact tag_matches_iff. Qed.
Print Assumptions C14_tag_matches_meaning.

(* for every sequence of warning calls interleaved with other output, every suppress list and both
   front ends: log and doctree under S = log and doctree under the empty list with exactly the
   matching log lines and system_message nodes taken out ([strip]); everything else unchanged and in
   order.  Premises: types are dot-free (true of every site by C14_sites_typed); halt_level default.
   PARTIAL: guarded by [xref_guard] - a link to a missing '#target' (docutils front end,
   transforms.py ResolveAnchorIds) must carry an explicit text; see the _refuted theorem below
   (open finding "suppress-side-effect:xref_missing:fallback-link-text").  Not covered at all:
   docutils' own reader transforms (DocTitle/DocInfo promotion, Transitions) that run after MyST and
   treat a top-level system_message as document content (open finding
   "suppress-side-effect:docutils:toplevel-system-message"). *)
Theorem C14_suppress_exact_partial : forall fe S items,
  forallb item_type_nodot items = true ->
  forallb xref_guard items = true ->
  run fe S items = strip S (run fe [] items).
Proof. exact run_suppress_exact. Qed.
Print Assumptions C14_suppress_exact_partial.

(* FULL, no guard: for every item sequence the output under S is the output under [] with the matching
   log lines and system_message nodes removed AND, for a reference to a missing '#target' that has no
   explicit text and whose warning is removed, the fallback text "#target" added ([strip_coupled]).
   This is the exact behaviour of the code; the difference between [strip_coupled] and [strip] is the
   open finding "suppress-side-effect:xref_missing:fallback-link-text". *)
Theorem C14_suppress_exact_coupled : forall fe S items,
  forallb item_type_nodot items = true ->
  run fe S items = strip_coupled S (run fe [] items).
Proof. exact run_suppress_coupled. Qed.
Print Assumptions C14_suppress_exact_coupled.

(* without the guard the statement is false for the faithful model: [](#missing) without link text gets
   the fallback text "#missing" only when myst.xref_missing is suppressed *)
Theorem C14_suppress_exact_refuted :
  exists fe S items,
    forallb item_type_nodot items = true /\ run fe S items <> strip S (run fe [] items).
Proof. exact run_suppress_exact_refuted. Qed.
Print Assumptions C14_suppress_exact_refuted.

(* and under the empty list nothing is removed *)
Theorem C14_empty_suppresses_nothing : forall fe items,
  forallb item_type_nodot items = true -> run fe [] items = all_out items.
Proof. exact run_nil_all. Qed.
Print Assumptions C14_empty_suppresses_nothing.

(* MyST's mirror predicate = Sphinx's is_suppressed_warning, for every dot-free type (and None) *)
Theorem C14_mirror_agrees_with_sphinx_partial : forall ty sub S,
  match ty with Some t => nodot t = true | None => True end ->
  is_suppressed ty sub S = sphinx_is_suppressed ty sub S.
Proof. exact mirror_agrees. Qed.
Print Assumptions C14_mirror_agrees_with_sphinx_partial.

(* without the premise the two differ (type "a.b", suppress ["a.b"]); no call site passes a dotted
   type (C14_sites_typed), so this is not reachable from the package *)
Theorem C14_mirror_dotted_type_refuted :
  exists ty sub S, is_suppressed (Some ty) sub S <> sphinx_is_suppressed (Some ty) sub S.
Proof. exact mirror_dotted_refuted. Qed.
Print Assumptions C14_mirror_dotted_type_refuted.

(* hence log (Sphinx's filter) and doctree (MyST's mirror) are filtered identically, and the two
   front ends agree *)
Theorem C14_frontends_agree : forall S items,
  forallb item_type_nodot items = true -> run Docutils S items = run Sphinx S items.
Proof. exact frontends_agree. Qed.
Print Assumptions C14_frontends_agree.

(* ---- source-translation tie (round 3): the same statements about the definitions REGENERATED from
   warnings_.py on every run (Gen/WarnSrc.v: _is_suppressed_warning and the decision skeleton of
   create_warning, statement by statement).  The refinement lemmas are in Cfg/WarnSrcProofs.v; the domain
   mapping of the atomic expressions is gen/c14_src.py + Cfg/WarnSrcPrelude.v. ---- *)

(* the regenerated code is the modelled code *)
Theorem C14_source_refines_model :
  (forall ty sub S, is_suppressed_src ty sub S = is_suppressed ty sub S) /\
  (forall fe S e has_node has_line,
     cw_src fe S e has_node has_line =
     (fst (create_warning fe S e), snd (create_warning fe S e),
      match snd (create_warning fe S e) with Some _ => we_placed e | None => false end)).
Proof. exact C14_source_refines_model_proof. Qed.
Print Assumptions C14_source_refines_model.

(* _is_suppressed_warning as written in the source = the documented rule (dot-free type) = Sphinx's *)
Theorem C14_mirror_agrees_with_sphinx_src : forall ty sub S,
  match ty with Some t => nodot t = true | None => True end ->
  is_suppressed_src ty sub S = sphinx_is_suppressed ty sub S.
Proof. exact mirror_agrees_src. Qed.
Print Assumptions C14_mirror_agrees_with_sphinx_src.

Theorem C14_suppressed_src_meaning : forall ty sub S, nodot ty = true ->
  (is_suppressed_src (Some ty) sub S = true <->
   exists w, In w S /\ (w = ty \/ w = ty ++ c_dot :: sub \/ w = ty ++ [c_dot; c_star])).
Proof. exact C14_suppressed_src_meaning_proof. Qed.
Print Assumptions C14_suppressed_src_meaning.

(* suppression is exact for parses that use the source's create_warning: full coupled statement, and
   the guarded plain one *)
Theorem C14_suppress_exact_src : forall fe S items,
  forallb item_type_nodot items = true ->
  run_src fe S items = strip_coupled S (run_src fe [] items) /\
  (forallb xref_guard items = true -> run_src fe S items = strip S (run_src fe [] items)).
Proof. exact C14_suppress_exact_src_proof. Qed.
Print Assumptions C14_suppress_exact_src.

(* non-vacuity: two warnings and other output, one tag suppressed by "myst.header" *)
Example C14_example :
  run Sphinx [lit "myst.header"]
    [IWarn {| we_wtype := None; we_sub := lit "header"; we_msg := lit "h"; we_placed := true |};
     IOther (lit "p");
     IWarn {| we_wtype := Some (lit "ref"); we_sub := lit "footnote"; we_msg := lit "f"; we_placed := true |}]
  = ([{| wo_msg := lit "f"; wo_type := lit "ref"; wo_sub := lit "footnote" |}],
     [TOther (lit "p"); TSys {| wo_msg := lit "f"; wo_type := lit "ref"; wo_sub := lit "footnote" |}]).
Proof. vm_compute. reflexivity. Qed.
