(* C16 - HTML-to-AST parser: total, tree-consistent, exact round trip on well-formed HTML,
   find = filter over walk, strip/deepcopy pure.
   Statements only; proofs are in Html/HtmlInv.v, Html/HtmlRound.v, Html/HtmlOps.v. *)
From Coq Require Import List NArith Bool Arith.
From MV Require Import Base.PyStr Base.Res Html.HtmlTypes Gen.Html Html.HtmlModel Html.HtmlStore
  Html.HtmlInv Html.HtmlRound Html.HtmlOps Html.HtmlIso Html.HtmlStripRec Html.SrcPrims Gen.HtmlSrc Html.HtmlSrcProofs.
Import ListNotations.
Local Open Scope nat_scope.

(* Totality of the Tree stack machine: for every root name and every event list (whatever
   html.parser emits for whatever text) no handler raises; the stack is never empty, the root
   stays at its bottom and every stack entry is an allocated element.  Unconditional after the
   repair of enclose() (the root is never popped). *)
Theorem C16_build_total : forall (name : str) (evs : list event),
  exists t, build (init_tree name) evs = Ok t
            /\ t_outmost t = 0
            /\ (exists s, t_stack t = s ++ [t_outmost t])
            /\ Forall (fun i => i < length (t_cells t)) (t_stack t).
Proof. exact build_total. Qed.
Print Assumptions C16_build_total.

(* Tree consistency after every event list: each child's parent is the element that lists it,
   parents are allocated before their children (acyclic), each non-root element is listed by
   its parent exactly once - hence walk(root) reaches every element exactly once. *)
Theorem C16_tree_consistent : forall (name : str) (evs : list event) (t : tree),
  build (init_tree name) evs = Ok t ->
  let st := t_cells t in
  (exists c, nth_error st 0 = Some c /\ c_parent c = None)
  /\ (forall p cp k, nth_error st p = Some cp -> In k (c_children cp) ->
        p < k /\ k < length st /\ parent_of st k = Some p)
  /\ (forall k c, nth_error st k = Some c -> k <> 0 ->
        exists p, c_parent c = Some p /\ count_occ Nat.eq_dec (children_of st p) k = 1)
  /\ exists w, walk_top st (t_outmost t) = Ok w
               /\ NoDup (t_outmost t :: w)
               /\ (forall j, In j (t_outmost t :: w) <-> j < length st).
Proof. exact tree_consistent_built. Qed.
Print Assumptions C16_tree_consistent.

(* Exact round trip: for every well-formed document (wf: lower-case ASCII names, attribute values
   arbitrary strings printed double-quoted with the ampersand and the double quote written as the
   references amp / quot (as html.parser decodes them), or absent; distinct attribute names, void
   elements of the HTML standard without end tag, script/style holding text only, no adjacent
   text nodes, comments / processing instructions / doctype declarations without '>', references
   terminated by ';'), rendering the tree built from its text gives back the text.  Marked
   sections (CDATA, MS-Office conditionals: unknown_decl) are not declarations of HTML and are
   excluded: html.parser hands over their content without the closing delimiter, "]]>" or "]>",
   so an exact rendering needs more than the handler sees; other references inside attribute
   values are decoded by html.parser and re-rendered as the characters they denote.  html.parser
   enters as the function [parse] with the named hypothesis O_htmlparser_events. *)
Theorem C16_roundtrip : forall (parse : str -> list event),
  (forall hs, wf_doc hs = true -> parse (print_doc hs) = events_doc hs) ->
  forall (name : str) (hs : list html), wf_doc hs = true ->
  exists t, tokenize parse (print_doc hs) name = Ok t
            /\ render_top (t_cells t) (t_outmost t) = Ok (print_doc hs).
Proof. exact roundtrip. Qed.
Print Assumptions C16_roundtrip.

(* History: tokenize_html creates its parser per call (pinned by the translator: a cached or
   module-level instance makes gen fail), so a call is a function of its own arguments; with the
   html.parser oracle stated for a *fresh* instance, no call of any sequence raises and a
   well-formed document round-trips wherever it stands in the sequence - e.g. after incomplete
   inputs that would leave rawdata / CDATA mode behind in a reused instance. *)
Theorem C16_fresh_state : forall (feed : pstate -> str -> list event * pstate),
  (forall hs, wf_doc hs = true -> fst (feed fresh_pstate (print_doc hs)) = events_doc hs) ->
  forall (calls : list (str * str)) (i : nat),
    (forall c, nth_error calls i = Some c -> exists t, nth_error (session feed calls) i = Some (Ok t))
    /\ (forall hs name, nth_error calls i = Some (print_doc hs, name) -> wf_doc hs = true ->
         exists t, nth_error (session feed calls) i = Some (Ok t)
                   /\ render_top (t_cells t) (t_outmost t) = Ok (print_doc hs)).
Proof. exact session_fresh. Qed.
Print Assumptions C16_fresh_state.

(* find(identifier, attrs, classes, include_self, recurse) from any element of a consistent
   store returns exactly the elements of its domain (walk, or the children, optionally preceded
   by the element itself) that match, in document order; walk lists the descendants once each. *)
Theorem C16_find_is_filter : forall (name : str) (evs : list event) (t : tree) (i : nat) (q : query),
  build (init_tree name) evs = Ok t -> i < length (t_cells t) ->
  let st := t_cells t in
  exists w, walk_top st i = Ok w
            /\ (forall j, In j w <-> Desc st i j) /\ NoDup w
            /\ find_top st i q = Ok (filter (matches_at st q) (find_domain st i q w)).
Proof. exact find_is_filter_built. Qed.
Print Assumptions C16_find_is_filter.

(* deepcopy() and strip(inplace=False, recurse=any) of any element of any store allocate new
   cells only: every pre-existing cell is unchanged (for every store, not only parsed ones). *)
Theorem C16_copy_strip_pure : forall (st : store) (i : nat),
  (forall st' n, deepcopy_top st i = Ok (st', n) ->
     n = length st /\ (forall j, j < length st -> nth_error st' j = nth_error st j) /\ length st < length st')
  /\ (forall recurse st' n, strip_top st i false recurse = Ok (st', n) ->
     n = length st /\ (forall j, j < length st -> nth_error st' j = nth_error st j)).
Proof. exact copy_strip_pure. Qed.
Print Assumptions C16_copy_strip_pure.

(* deepcopy() of any element of a parsed tree returns, on fresh cells, an isomorphic tree
   ([iso]: same class, name, attributes and data at every node, children pairwise isomorphic in
   order): it renders identically and walk visits elements of the same class / name / attributes /
   data in the same order. *)
Theorem C16_deepcopy_isomorphic :
  forall (name : str) (evs : list event) (t : tree) (i : nat) (st' : store) (n : nat),
  build (init_tree name) evs = Ok t ->
  let st := t_cells t in
  deepcopy_top st i = Ok (st', n) ->
  n = length st /\ iso (length st) st' i n
  /\ (forall g, render g st' n = render g st' i)
  /\ (forall g, match walk g st' i, walk g st' n with
                | Ok w, Ok w' => Forall2 (cells_shape_eq st') w w'
                | Raise e, Raise e' => e = e'
                | _, _ => False
                end).
Proof. exact deepcopy_isomorphic_built. Qed.
Print Assumptions C16_deepcopy_isomorphic.

(* strip() = strip(inplace=False, recurse=False) of any element of a parsed tree returns a fresh
   element of the same class / name / attributes whose children are isomorphic copies of exactly
   the children of the original that are not whitespace-only Data, in order; the original cell is
   unchanged.  (This replaces C16_strip_exact_partial of round 1.) *)
Theorem C16_strip_exact :
  forall (name : str) (evs : list event) (t : tree) (i : nat) (st' : store) (n : nat),
  build (init_tree name) evs = Ok t ->
  let st := t_cells t in
  strip_top st i false false = Ok (st', n) ->
  n = length st
  /\ exists c c', nth_error st i = Some c /\ nth_error st' i = Some c /\ nth_error st' n = Some c'
       /\ shape_eq c c'
       /\ Forall2 (iso (length st) st') (filter (fun k => negb (ws_at st k)) (c_children c)) (c_children c').
Proof. exact strip_copy_exact_built. Qed.
Print Assumptions C16_strip_exact.

(* the in-place strip step on any element (the step strip(recurse=True) repeats on every kept
   child): exactly the whitespace-only Data children are dropped, no class, name, attribute, data
   or other child list changes.  (The whole result for recurse=True: C16_strip_recursive_exact.) *)
Theorem C16_strip_step_exact : forall (name : str) (evs : list event) (t : tree) (el : nat) (st' : store),
  build (init_tree name) evs = Ok t -> el < length (t_cells t) ->
  let st := t_cells t in
  strip_inplace (S (length st)) st el false = Ok st' ->
  children_of st' el = filter (fun j => negb (ws_at st j)) (children_of st el)
  /\ (forall j, j <> el -> children_of st' j = children_of st j)
  /\ (forall j, option_map (fun c => (c_kind c, c_name c, c_attrs c, c_data c)) (nth_error st' j)
               = option_map (fun c => (c_kind c, c_name c, c_attrs c, c_data c)) (nth_error st j)).
Proof. exact strip_exact_built. Qed.
Print Assumptions C16_strip_step_exact.

(* strip(recurse=True) of any element of a parsed tree, as one statement about the whole result:
   the original cells are unchanged and the returned fresh element n is the original i minus, at
   every level, exactly the whitespace-only Data children (stripped_of: same class / name /
   attributes / data at every node, the child list of every copy pairs off, in order, with the
   non-whitespace children of its original).  Proof: deepcopy lays every copied subtree out in one
   contiguous block of ids (fp), the in-place strip of a child stays inside the child's block, so
   sibling blocks keep what is established (Html/HtmlStripRec.v). *)
Theorem C16_strip_recursive_exact :
  forall (name : str) (evs : list event) (t : tree) (i : nat) (st' : store) (n : nat),
  build (init_tree name) evs = Ok t ->
  let st := t_cells t in
  strip_top st i false true = Ok (st', n) ->
  n = length st
  /\ (forall a, a < length st -> nth_error st' a = nth_error st a)
  /\ stripped_of (S (length st)) st' i n.
Proof. exact strip_rec_exact_built. Qed.
Print Assumptions C16_strip_recursive_exact.

(* ... hence it renders as the original rendered with those children skipped at every level *)
Theorem C16_strip_recursive_render :
  forall (name : str) (evs : list event) (t : tree) (i : nat) (st' : store) (n : nat),
  build (init_tree name) evs = Ok t ->
  let st := t_cells t in
  strip_top st i false true = Ok (st', n) ->
  forall g, render g st' n = render_stripped g st' i.
Proof. exact strip_rec_render. Qed.
Print Assumptions C16_strip_recursive_render.

(* ---- round 3: the same statements for the code REGENERATED from parse_html.py ----
   Gen/HtmlSrc.v is written on every run by gen/c16_src.py (statement-by-statement translation of
   Element.insert, Tree.last / nest_tag / nest_xtag / nest_vtag / nest_terminal / enclose, the ten
   HtmlToAst handlers, Element.walk / deepcopy (both classes) / reset_children / strip / find);
   Html/HtmlSrcProofs.v proves each regenerated function equal to its hand-written model
   (append_src_eq .. find_src_eq); these refinement lemmas are the obligations a source edit breaks. *)

Theorem C16_build_total_src : forall (name : str) (evs : list event),
  exists t, build_src (init_tree name) evs = Ok t
            /\ t_outmost t = 0
            /\ (exists s, t_stack t = s ++ [t_outmost t])
            /\ Forall (fun i => i < length (t_cells t)) (t_stack t).
Proof. exact build_total_src. Qed.
Print Assumptions C16_build_total_src.

Theorem C16_tree_consistent_src : forall (name : str) (evs : list event) (t : tree),
  build_src (init_tree name) evs = Ok t ->
  let st := t_cells t in
  (exists c, nth_error st 0 = Some c /\ c_parent c = None)
  /\ (forall p cp k, nth_error st p = Some cp -> In k (c_children cp) ->
        p < k /\ k < length st /\ parent_of st k = Some p)
  /\ (forall k c, nth_error st k = Some c -> k <> 0 ->
        exists p, c_parent c = Some p /\ count_occ Nat.eq_dec (children_of st p) k = 1)
  /\ exists w, walk_src (length st) st (t_outmost t) false = Ok w
               /\ NoDup (t_outmost t :: w)
               /\ (forall j, In j (t_outmost t :: w) <-> j < length st).
Proof. exact tree_consistent_src. Qed.
Print Assumptions C16_tree_consistent_src.

Theorem C16_find_is_filter_src : forall (name : str) (evs : list event) (t : tree) (i : nat)
    (identifier : ident) (qa : option attrs) (qc : option (list str)) (include_self recurse : bool),
  build_src (init_tree name) evs = Ok t -> i < length (t_cells t) ->
  let st := t_cells t in
  let q := mkquery identifier qa qc include_self recurse in
  exists w, walk_src (length st) st i false = Ok w
            /\ (forall j, In j w <-> Desc st i j) /\ NoDup w
            /\ find_src (length st) st i identifier qa qc include_self recurse
               = Ok (filter (matches_at st q) (find_domain st i q w)).
Proof. exact find_is_filter_src. Qed.
Print Assumptions C16_find_is_filter_src.

Theorem C16_copy_strip_pure_src : forall (st : store) (i : nat) (fuel : nat),
  (forall st' n, deepcopy_src fuel st i = Ok (n, st') ->
     n = length st /\ (forall j, j < length st -> nth_error st' j = nth_error st j) /\ length st < length st')
  /\ (forall recurse st' n, strip_src fuel st i false recurse = Ok (n, st') ->
     n = length st /\ (forall j, j < length st -> nth_error st' j = nth_error st j)).
Proof. exact copy_strip_pure_src. Qed.
Print Assumptions C16_copy_strip_pure_src.

(* the whole result of the regenerated strip(inplace=False, recurse=True) on a tree built by the
   regenerated parser code, for every fuel with which it terminates *)
Theorem C16_strip_recursive_exact_src :
  forall (name : str) (evs : list event) (t : tree) (i : nat) (fuel : nat) (st' : store) (n : nat),
  build_src (init_tree name) evs = Ok t ->
  let st := t_cells t in
  strip_src fuel st i false true = Ok (n, st') ->
  n = length st
  /\ (forall a, a < length st -> nth_error st' a = nth_error st a)
  /\ exists g, stripped_of g st' i n /\ forall h, render h st' n = render_stripped h st' i.
Proof. exact strip_rec_exact_src. Qed.
Print Assumptions C16_strip_recursive_exact_src.

(* round 5: Tree.__init__, Tree.clear, Attribute.__getitem__ and Attribute.classes regenerated as well:
   a new HtmlToAst(name) followed by feed() - __init__ builds the Tree, feed() clears it, the handlers
   run - is the modelled call build (init_tree name); clear() yields the initial tree whatever the Tree
   held before; the two Attribute accessors equal the modelled ones *)
Theorem C16_tokenize_src : forall (name : str) (evs : list event),
  build_src (clear_src (tree_init_src name) name) evs = build (init_tree name) evs
  /\ (forall t, clear_src t name = init_tree name)
  /\ (forall d k, attr_getitem_src d k = attr_getitem d k)
  /\ (forall d, classes_src d = classes d).
Proof. exact tokenize_src_model. Qed.
Print Assumptions C16_tokenize_src.

(* round 5: the ten render methods regenerated (f-strings, the join over the children as a loop, dispatch
   on the class; tag_overrides = None): the exact round trip holds of regenerated code only - __init__,
   clear, the handlers, render *)
Theorem C16_roundtrip_src : forall (parse : str -> list event),
  (forall hs, wf_doc hs = true -> parse (print_doc hs) = events_doc hs) ->
  forall (name : str) (hs : list html), wf_doc hs = true ->
  exists t, build_src (clear_src (tree_init_src name) name) (parse (print_doc hs)) = Ok t
            /\ render_src (length (t_cells t)) (t_cells t) (t_outmost t) = Ok (print_doc hs).
Proof. exact roundtrip_src. Qed.
Print Assumptions C16_roundtrip_src.

(* ... and whenever the modelled render returns, the regenerated one returns the same text *)
Theorem C16_render_src : forall (f : nat) (st : store) (i : nat) (s : str),
  render f st i = Ok s -> render_src f st i = Ok s.
Proof. exact render_src_refines. Qed.
Print Assumptions C16_render_src.

(* ---- non-vacuity ---- *)
Local Open Scope N_scope.

(* <div class="a b"><br>t<!--c-->&amp;<x k/></div>  is well-formed and round-trips *)
Definition ex_doc : list html :=
  [HElem [100;105;118] [([99;108;97;115;115], Some [97;32;98])]
     [HVoid [98;114] []; HData [116]; HComment [99]; HEntity [97;109;112]; HSelf [120] [([107], None)]]].

Example C16_example_wf : wf_doc ex_doc = true.
Proof. vm_compute. reflexivity. Qed.

Example C16_example_roundtrip :
  (do t <- build (init_tree []) (events_doc ex_doc); render_top (t_cells t) (t_outmost t)) = Ok (print_doc ex_doc).
Proof. vm_compute. reflexivity. Qed.

(* a stray end tag that names the root does not empty the stack (the repaired defect) *)
Example C16_example_root_name :
  is_ok (build (init_tree [100;105;118]) [EStart [112] []; EEnd [100;105;118]; EData [98]]) = true.
Proof. vm_compute. reflexivity. Qed.
