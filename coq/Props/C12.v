(* C12 - Sphinx cross-document links resolve to the right URI or warn exactly once.
   Statements only; the model is in XRef/Path.v and XRef/XRefModel.v, the proofs in
   XRef/PathProofs.v and XRef/XRefProofs.v.

   Reading guide.  A project P describes what the Sphinx environment holds after reading
   (oracle O_sphinx_env: documents with titles and heading-slug tables, std labels, files, the
   builder).  [render_link] is the renderer's classification of a link token, [run_link] the
   whole way to the resolved reference (target, text, warnings).  The parts of Sphinx that MyST
   only queries (other std object types, other domains, intersphinx) are the section variables
   std_objects / other_domains / intersphinx of the model and appear here as universally
   quantified functions with the hypotheses O_contnode_*.
   [target_uri] is get_target_uri of the html (docname.html) and dirhtml (docname/) builders. *)
From Coq Require Import List NArith Bool.
From MV Require Import Base.PyStr.
From MV Require Import XRef.Path.
From MV Require Import XRef.PathProofs.
From MV Require Import Gen.C12Links.
From MV Require Import XRef.XRefModel.
From MV Require Import XRef.XRefProofs.
From MV Require Import XRef.XRefSrcBase.
From MV Require Import Gen.C12Src.
From MV Require Import XRef.XRefSrcProofs.
From MV Require Base.Res.
From MV Require Refs.Anchors.
From MV Require Gen.AnchorsSrc.
From MV Require Import XRef.IncludeModel.
From MV Require Import XRef.IncludeProofs.
From MV Require Import XRef.XRefPipeline.
Import ListNotations.
Open Scope N_scope.

(* ---------- "the correct URI relative to the referencing page, whatever the depth" ---------- *)

(* Resolving the relative URI computed by Sphinx's relative_uri against the page that contains it
   gives back the target, for all page-URI paths: any number of directory segments (not empty, not
   "." or "..", no '/' or '#'), then a file name or the empty segment of a directory URI. *)
Theorem C12_relative_uri_roundtrip : forall from to : list str,
  uri_ok from -> uri_ok to ->
  resolve_ref (join s_slash from) (relative_uri (join s_slash from) (join s_slash to))
  = join s_slash to.
Proof. exact relative_uri_roundtrip. Qed.
Print Assumptions C12_relative_uri_roundtrip.

(* ... in particular for the page URIs of both builders and documents at any depth, including
   index documents of sub-directories (dirhtml: "a/index" lives at "a/") *)
Theorem C12_builder_uri_roundtrip : forall dirhtml (from to : list str),
  from <> [] -> to <> [] -> Forall useg_ok from -> Forall useg_ok to ->
  resolve_ref (target_uri dirhtml (join s_slash from))
              (get_relative_uri dirhtml (join s_slash from) (join s_slash to))
  = target_uri dirhtml (join s_slash to).
Proof. exact builder_uri_roundtrip. Qed.
Print Assumptions C12_builder_uri_roundtrip.

(* the premise "normal segments" is needed: with a "..", an empty or a '#' segment in the target
   the round trip fails (as it does for the real function) *)
Theorem C12_relative_uri_roundtrip_premise_refuted :
  (exists from to, from <> [] /\ to <> [] /\ In s_dotdot to /\
     resolve_ref (join s_slash from) (relative_uri (join s_slash from) (join s_slash to)) <> join s_slash to)
  /\ (exists from to, from <> [] /\ to <> [] /\ In [] (removelast to) /\
     resolve_ref (join s_slash from) (relative_uri (join s_slash from) (join s_slash to)) <> join s_slash to)
  /\ (exists from to, from <> [] /\ to <> [] /\ (exists s, In s to /\ In c_hash s) /\
     resolve_ref (join s_slash from) (relative_uri (join s_slash from) (join s_slash to)) <> join s_slash to).
Proof. exact roundtrip_premise_refuted. Qed.
Print Assumptions C12_relative_uri_roundtrip_premise_refuted.

(* ---------- every spelling normalises to the intended file / docname ---------- *)

(* Every spelling of a file tp below the source directory - relative with any number of "./",
   "../" up to any common ancestor (so x.md, ./x.md, ../d/x.md, d/../d/x.md ...), or with a leading
   "/" - written in a document of any directory d_dir d, normalises to tp, and every link form
   built on it is classified as intended:  [..](sp) and [..](sp#frag) to a source file,
   <project:sp>, [..](project:sp#frag),  [..](sp) to a non-document file,  <path:sp> to an
   existing file (download) or to a missing one (reported when rendered). *)
Theorem C12_path_spellings : forall (P : project) (d : docrec) (tp : list str) (sp : str),
  segs_ok (p_srcdir P) -> segs_ok (d_dir d) -> Forall name_ok tp -> spells (d_dir d) tp sp ->
  plain_url_mode P = false ->
  relfn2path (p_srcdir P) (d_dir d) sp = Inside tp
  /\ (forall dn frag ch,
        is_file P (Inside tp) = true -> path2doc (p_suffixes P) (Inside tp) = Some dn -> dn <> [] ->
        render_link P d (mklink (with_frag sp frag) false ch) = C_doc dn frag)
  /\ (forall dn frag auto ch,
        mem_str s_project (p_url_schemes P) = false -> path2doc (p_suffixes P) (Inside tp) = Some dn -> dn <> [] ->
        render_link P d (mklink (s_project ++ c_colon :: with_frag sp frag) auto ch) = C_doc dn frag)
  /\ (forall ch,
        is_file P (Inside tp) = true -> path2doc (p_suffixes P) (Inside tp) = None ->
        render_link P d (mklink sp false ch) = C_download sp sp
        /\ collect_download P d sp = (T_dl (Inside tp), []))
  /\ (forall auto ch,
        mem_str s_path (p_url_schemes P) = false ->
        (is_file P (Inside tp) = true ->
           render_link P d (mklink (s_path ++ c_colon :: sp) auto ch) = C_download sp sp
           /\ collect_download P d sp = (T_dl (Inside tp), []))
        /\ (is_readable P (Inside tp) = false ->
           render_link P d (mklink (s_path ++ c_colon :: sp) auto ch)
           = C_nofile (abs_str P (Inside tp)) (s_path ++ c_colon :: sp))).
Proof. exact path_spellings_all. Qed.
Print Assumptions C12_path_spellings.

(* the file name loses the first configured source suffix it ends with *)
Theorem C12_path_spellings_path2doc : forall sufs dir name stem,
  first_suffix name sufs = Some stem ->
  path2doc sufs (Inside (dir ++ [name])) = Some (join s_slash (dir ++ [stem])).
Proof. exact path2doc_inside. Qed.
Print Assumptions C12_path_spellings_path2doc.

(* without extension: docname_join of the referencing docname (directory docdir, base name bn)
   with any spelling of the target docname tdn gives tdn *)
Theorem C12_path_spellings_docname : forall docdir bn tdn sp,
  segs_ok docdir -> seg_ok bn -> segs_ok tdn -> spells docdir tdn sp ->
  docname_join (join s_slash (docdir ++ [bn])) sp = join s_slash tdn.
Proof. exact docname_join_spells. Qed.
Print Assumptions C12_path_spellings_docname.

(* ... and with a heading anchor: [..](docname#frag) is a document reference with that anchor
   (code after the repair 5310f28) *)
Theorem C12_path_spellings_docname_anchor : forall P d bn tdn sp frag ch td,
  segs_ok (d_dir d) -> seg_ok bn -> d_name d = join s_slash (d_dir d ++ [bn]) ->
  Forall name_ok tdn -> spells (d_dir d) tdn sp ->
  is_file P (relfn2path (p_srcdir P) (d_dir d) sp) = false ->
  find_doc (p_docs P) (join s_slash tdn) = Some td -> plain_url_mode P = false ->
  render_link P d (mklink (with_frag sp (Some frag)) false ch) = C_doc (join s_slash tdn) (Some frag).
Proof. exact unknown_docname_anchor. Qed.
Print Assumptions C12_path_spellings_docname_anchor.

(* name_ok is needed: a directory literally named "\" is taken for a leading "/" by relfn2path *)
Theorem C12_path_spellings_premise_refuted :
  exists srcdir docdir tp sp, segs_ok srcdir /\ segs_ok docdir /\ segs_ok tp /\ spells docdir tp sp
    /\ relfn2path srcdir docdir sp <> Inside tp.
Proof. exact spelling_premise_refuted. Qed.
Print Assumptions C12_path_spellings_premise_refuted.

(* ---------- links inside a file pulled in by {include} with :relative-docs: ---------- *)

(* A destination of the included file (directory cm ++ r) that starts with the prefix is rewritten
   by _handle_relative_docs into a spelling of THE SAME FILE relative to the including document's
   directory (any depth of either), a #fragment carried along ... *)
Theorem C12_relative_docs_rewrite : forall P d l prefix cm r t k frag,
  segs_ok (p_srcdir P) -> p_srcdir P <> [] -> Forall name_ok (d_dir d) ->
  segs_ok cm -> segs_ok r -> segs_ok t -> t <> [] ->
  (forall x, d_dir d <> (cm ++ t) ++ x) ->
  (match frag with Some f => ~ In c_slash f | None => True end) ->
  l_include l = Some (prefix, cm ++ r) ->
  startswith (with_frag (rel_spelling k r t) frag) prefix = true ->
  exists sp', spells (d_dir d) (cm ++ t) sp'
    /\ handle_relative_docs P d l (with_frag (rel_spelling k r t) frag) = with_frag sp' frag.
Proof. exact relative_docs_rewrite. Qed.
Print Assumptions C12_relative_docs_rewrite.

(* ... so the link reaches the document it would reach from the included file's own location *)
Theorem C12_relative_docs_same_target : forall P d prefix cm r t k frag ch dn,
  segs_ok (p_srcdir P) -> p_srcdir P <> [] -> Forall name_ok (d_dir d) ->
  segs_ok cm -> segs_ok r -> Forall name_ok (cm ++ t) -> t <> [] ->
  (forall x, d_dir d <> (cm ++ t) ++ x) ->
  (match frag with Some f => ~ In c_slash f | None => True end) ->
  startswith (with_frag (rel_spelling k r t) frag) prefix = true ->
  is_file P (Inside (cm ++ t)) = true -> path2doc (p_suffixes P) (Inside (cm ++ t)) = Some dn -> dn <> [] ->
  plain_url_mode P = false ->
  render_link P d (mklink_inc (with_frag (rel_spelling k r t) frag) false ch prefix (cm ++ r)) = C_doc dn frag.
Proof. exact relative_docs_same_target. Qed.
Print Assumptions C12_relative_docs_same_target.

(* ---------- anchors ---------- *)

(* doc.md#slug: the slug is looked up in the slug table of the TARGET document td (the table of
   the referencing document does not occur); a hit gives the section id and title, a miss gives
   one warning (log_missing: exactly [W_missing slug] unless nitpick-ignored), the fallback id and,
   without link text, the target "docname#slug" as the text (code after the repair 3257367) *)
Theorem C12_anchor_lookup : forall P from explicit dn td slug,
  find_doc (p_docs P) dn = Some td -> slug <> [] ->
  (forall e, find_slug (d_slugs td) slug = Some e -> sl_title e <> [] ->
     resolve_myst_ref_doc P from explicit dn (Some slug)
     = mk (make_refnode (p_dirhtml P) from dn (sl_id e)) (if explicit then X_children else X_str (sl_title e)) [])
  /\ (find_slug (d_slugs td) slug = None ->
     resolve_myst_ref_doc P from explicit dn (Some slug)
     = mk (make_refnode (p_dirhtml P) from dn slug)
          (if explicit then X_children else X_lit (dn ++ s_hash ++ slug)) (log_missing P slug)).
Proof. exact anchor_lookup. Qed.
Print Assumptions C12_anchor_lookup.

Theorem C12_anchor_lookup_warning : forall P t,
  mem_str t (p_nitpick P) = false -> log_missing P t = [W_missing t].
Proof. exact log_missing_plain. Qed.
Print Assumptions C12_anchor_lookup_warning.

(* the reference node: same page -> refid, other page -> relative URI of the page + '#' + id *)
Theorem C12_anchor_lookup_uri : forall b from to tid, from <> to -> tid <> [] ->
  make_refnode b from to tid = T_uri (get_relative_uri b from to ++ s_hash ++ tid).
Proof. exact make_refnode_other. Qed.
Print Assumptions C12_anchor_lookup_uri.

(* ---------- link text ---------- *)

(* explicit text is what is rendered on every route, resolved or not (inventory links excepted) *)
Theorem C12_text_explicit :
  forall (std_objects other_domains : str -> list cand) (intersphinx : str -> option cand),
  (forall t c, In c (std_objects t) -> c_txt c = X_children) ->
  (forall t c, In c (other_domains t) -> c_txt c = X_children) ->
  (forall t c, intersphinx t = Some c -> c_txt c = X_children) ->
  forall P d l, l_explicit l = true -> render_link P d l <> C_inv ->
  o_txt (run_link std_objects other_domains intersphinx P d l) = X_children.
Proof. exact text_explicit. Qed.
Print Assumptions C12_text_explicit.

(* empty text: the target's title - of the document, of the section, of the labelled section *)
Theorem C12_text_title_doc : forall P from dn td,
  find_doc (p_docs P) dn = Some td -> d_title td <> [] ->
  o_txt (resolve_myst_ref_doc P from false dn None) = X_str (d_title td)
  /\ o_txt (resolve_myst_ref_doc P from false dn (Some [])) = X_str (d_title td).
Proof. exact text_title_doc. Qed.
Print Assumptions C12_text_title_doc.

Theorem C12_text_title_section : forall P from dn td slug e,
  find_doc (p_docs P) dn = Some td -> slug <> [] -> find_slug (d_slugs td) slug = Some e -> sl_title e <> [] ->
  o_txt (resolve_myst_ref_doc P from false dn (Some slug)) = X_str (sl_title e).
Proof. exact text_title_section. Qed.
Print Assumptions C12_text_title_section.

Theorem C12_text_title_docname :
  forall (std_objects other_domains : str -> list cand) (intersphinx : str -> option cand) P from t td,
  resolve_ref_nested P from false t = None ->
  find_doc (p_docs P) (docname_join from t) = Some td -> d_title td <> [] ->
  o_txt (resolve_any std_objects other_domains intersphinx P from false t) = X_str (d_title td)
  /\ o_tgt (resolve_any std_objects other_domains intersphinx P from false t)
     = make_refnode (p_dirhtml P) from (docname_join from t) [].
Proof. exact text_title_docname. Qed.
Print Assumptions C12_text_title_docname.

Theorem C12_text_title_label :
  forall (std_objects other_domains : str -> list cand) (intersphinx : str -> option cand) P from t e sect,
  find_label (p_labels P) (lower t) = Some e -> lb_doc e <> [] -> lb_sect e = Some sect -> sect <> [] ->
  o_txt (resolve_any std_objects other_domains intersphinx P from false t) = X_str sect
  /\ o_tgt (resolve_any std_objects other_domains intersphinx P from false t)
     = make_refnode (p_dirhtml P) from (lb_doc e) (lb_id e).
Proof. exact text_title_label. Qed.
Print Assumptions C12_text_title_label.

(* ---------- warnings ---------- *)

(* a link never produces two xref_missing warnings *)
Theorem C12_missing_at_most_once :
  forall (std_objects other_domains : str -> list cand) (intersphinx : str -> option cand) P d l,
  (count_missing (o_warns (run_link std_objects other_domains intersphinx P d l)) <= 1)%nat.
Proof. exact missing_at_most_once. Qed.
Print Assumptions C12_missing_at_most_once.

(* Exactly one xref_missing iff the destination cannot be resolved ([unresolved]: the document,
   the slug of the target document, the label/docname or the file is in none of the tables), on every
   route of the classifier - download links included since the repair 30d027a (a download link that
   reaches Sphinx's collector always finds its file: download_resolvable).
   nitpick_ignore is taken empty (an ignored target gives no warning by design). *)
Theorem C12_missing_once :
  forall (std_objects other_domains : str -> list cand) (intersphinx : str -> option cand) P d l,
  p_nitpick P = [] ->
  (unresolved std_objects other_domains intersphinx P d l ->
     count_missing (o_warns (run_link std_objects other_domains intersphinx P d l)) = 1%nat)
  /\ (~ unresolved std_objects other_domains intersphinx P d l ->
     count_missing (o_warns (run_link std_objects other_domains intersphinx P d l)) = 0%nat).
Proof. exact missing_once. Qed.
Print Assumptions C12_missing_once.

(* <path:nofile.txt> (the former open finding): unresolved, exactly one xref_missing *)
Theorem C12_missing_once_path_witness :
  unresolved no_cands no_cands no_cand wit_project wit_doc wit_link
  /\ count_missing (o_warns (run_link_plain wit_project wit_doc wit_link)) = 1%nat.
Proof. exact missing_once_path_witness. Qed.
Print Assumptions C12_missing_once_path_witness.

(* the unresolved outcomes in full: one warning naming the destination, the text kept - and a
   fallback text naming the target when the link has no text *)
Theorem C12_missing_once_any :
  forall (std_objects other_domains : str -> list cand) (intersphinx : str -> option cand) P from ex t,
  any_candidates std_objects other_domains P from ex t = [] -> intersphinx t = None ->
  mem_str t (p_nitpick P) = false ->
  resolve_any std_objects other_domains intersphinx P from ex t
  = mk (T_fallback t) (if ex then X_children else X_lit t) [W_missing t].
Proof. exact missing_any. Qed.
Print Assumptions C12_missing_once_any.

Theorem C12_missing_once_doc : forall P from ex dn tid,
  find_doc (p_docs P) dn = None -> mem_str dn (p_nitpick P) = false ->
  resolve_myst_ref_doc P from ex dn tid = mk T_bare (if ex then X_children else X_lit dn) [W_missing dn].
Proof. exact missing_doc. Qed.
Print Assumptions C12_missing_once_doc.

(* ---------- the same theorems for the definitions REGENERATED from the Python source ---------- *)

(* gen/c12_src.py translates _abs_path, _handle_relative_docs, render_link_project/_path/_unknown
   (sphinx_.py), render_link (base.py), _resolve_ref_nested, _resolve_doc_nested, the candidate list of
   resolve_myst_ref_any and resolve_myst_ref_doc (myst_refs.py) statement by statement into Gen/C12Src.v;
   each is proved equal to the hand-written model (XRef/XRefSrcProofs.v) *)
Theorem C12_src_refines_model :
  (forall P d p, abs_path_src P d p = abs_path P d p)
  /\ (forall P d l dest, handle_relative_docs_src P d l dest = handle_relative_docs P d l dest)
  /\ (forall P d l, render_link_project_src P d l = render_link_project P d l)
  /\ (forall P d l, render_link_path_src P d l = render_link_path P d l)
  /\ (forall P d l, render_link_unknown_src P d l = render_link_unknown P d l)
  /\ (forall P d l, render_link_src P d l = render_link P d l)
  /\ (forall P from ex t, option_map (mkcand r_ref) (resolve_ref_nested_src P from ex t) = resolve_ref_nested P from ex t)
  /\ (forall P from ex t, option_map (mkcand r_doc) (resolve_doc_nested_src P from ex t) = resolve_doc_nested P from ex t)
  /\ (forall std other P from ex t, any_candidates_src std other P from ex t = any_candidates std other P from ex t)
  /\ (forall P from ex dn tid, resolve_myst_ref_doc_src P from ex dn tid = resolve_myst_ref_doc P from ex dn tid).
Proof. exact src_refines_model. Qed.
Print Assumptions C12_src_refines_model.

Theorem C12_path_spellings_src : forall (P : project) (d : docrec) (tp : list str) (sp : str),
  segs_ok (p_srcdir P) -> segs_ok (d_dir d) -> Forall name_ok tp -> spells (d_dir d) tp sp ->
  plain_url_mode P = false ->
  relfn2path (p_srcdir P) (d_dir d) sp = Inside tp
  /\ (forall dn frag ch,
        is_file P (Inside tp) = true -> path2doc (p_suffixes P) (Inside tp) = Some dn -> dn <> [] ->
        render_link_src P d (mklink (with_frag sp frag) false ch) = C_doc dn frag)
  /\ (forall dn frag auto ch,
        mem_str s_project (p_url_schemes P) = false -> path2doc (p_suffixes P) (Inside tp) = Some dn -> dn <> [] ->
        render_link_src P d (mklink (s_project ++ c_colon :: with_frag sp frag) auto ch) = C_doc dn frag)
  /\ (forall ch,
        is_file P (Inside tp) = true -> path2doc (p_suffixes P) (Inside tp) = None ->
        render_link_src P d (mklink sp false ch) = C_download sp sp
        /\ collect_download P d sp = (T_dl (Inside tp), []))
  /\ (forall auto ch,
        mem_str s_path (p_url_schemes P) = false ->
        (is_file P (Inside tp) = true ->
           render_link_src P d (mklink (s_path ++ c_colon :: sp) auto ch) = C_download sp sp
           /\ collect_download P d sp = (T_dl (Inside tp), []))
        /\ (is_readable P (Inside tp) = false ->
           render_link_src P d (mklink (s_path ++ c_colon :: sp) auto ch)
           = C_nofile (abs_str P (Inside tp)) (s_path ++ c_colon :: sp))).
Proof. exact path_spellings_all_src. Qed.
Print Assumptions C12_path_spellings_src.

Theorem C12_anchor_lookup_src : forall P from explicit dn td slug,
  find_doc (p_docs P) dn = Some td -> slug <> [] ->
  (forall e, find_slug (d_slugs td) slug = Some e -> sl_title e <> [] ->
     resolve_myst_ref_doc_src P from explicit dn (Some slug)
     = mk (make_refnode (p_dirhtml P) from dn (sl_id e)) (if explicit then X_children else X_str (sl_title e)) [])
  /\ (find_slug (d_slugs td) slug = None ->
     resolve_myst_ref_doc_src P from explicit dn (Some slug)
     = mk (make_refnode (p_dirhtml P) from dn slug)
          (if explicit then X_children else X_lit (dn ++ s_hash ++ slug)) (log_missing P slug)).
Proof. exact anchor_lookup_src. Qed.
Print Assumptions C12_anchor_lookup_src.

Theorem C12_relative_docs_rewrite_src : forall P d l prefix cm r t k frag,
  segs_ok (p_srcdir P) -> p_srcdir P <> [] -> Forall name_ok (d_dir d) ->
  segs_ok cm -> segs_ok r -> segs_ok t -> t <> [] ->
  (forall x, d_dir d <> (cm ++ t) ++ x) ->
  (match frag with Some f => ~ In c_slash f | None => True end) ->
  l_include l = Some (prefix, cm ++ r) ->
  startswith (with_frag (rel_spelling k r t) frag) prefix = true ->
  exists sp', spells (d_dir d) (cm ++ t) sp'
    /\ handle_relative_docs_src P d l (with_frag (rel_spelling k r t) frag) = with_frag sp' frag.
Proof. exact relative_docs_rewrite_src. Qed.
Print Assumptions C12_relative_docs_rewrite_src.

(* run_link_src = the whole link with the regenerated classifier, document resolver and candidate list *)
Theorem C12_missing_once_src :
  forall (std_objects other_domains : str -> list cand) (intersphinx : str -> option cand) P d l,
  p_nitpick P = [] ->
  (unresolved_src std_objects other_domains intersphinx P d l ->
     count_missing (o_warns (run_link_src std_objects other_domains intersphinx P d l)) = 1%nat)
  /\ (~ unresolved_src std_objects other_domains intersphinx P d l ->
     count_missing (o_warns (run_link_src std_objects other_domains intersphinx P d l)) = 0%nat).
Proof. exact missing_once_src. Qed.
Print Assumptions C12_missing_once_src.

(* ---------- round 4: the whole pipeline and the include bookkeeping, regenerated ---------- *)

(* MystReferenceResolver.run (loop body, one pending_xref node) and resolve_myst_ref_any (whole) as regenerated:
   nodes of another reftype are left alone; refdomain="doc" goes to resolve_myst_ref_doc; otherwise the first
   candidate wins, several candidates give one xref_ambiguous, none gives intersphinx, then one xref_missing and
   the fallback reference; an empty inline is replaced by the target as literal *)
Theorem C12_run_src :
  forall (std_objects other_domains : str -> list cand) (intersphinx : str -> option cand) P from ex t tid,
  run_node_src std_objects other_domains intersphinx P from true false ex t tid
    = Some (resolve_any std_objects other_domains intersphinx P from ex t)
  /\ run_node_src std_objects other_domains intersphinx P from true true ex t tid
    = Some (resolve_myst_ref_doc P from ex t tid)
  /\ (forall is_doc, run_node_src std_objects other_domains intersphinx P from false is_doc ex t tid = None)
  /\ resolve_myst_ref_any_src std_objects other_domains P from ex t
    = (match any_candidates std_objects other_domains P from ex t with _ :: _ :: _ => [W_ambiguous t] | _ => [] end,
       match any_candidates std_objects other_domains P from ex t with c :: _ => Some (cand_ref c) | [] => None end).
Proof. exact run_src_all. Qed.
Print Assumptions C12_run_src.

(* [pipeline_src]: render_link_src, then - for '#target' links - ResolveAnchorIds.apply as regenerated by the C09
   builder (Gen/AnchorsSrc.v, on registries rg whose explicit-name table is the document's: oracle O_sphinx_env),
   then run_node_src.  It computes exactly the model's run_link. *)
Theorem C12_pipeline_src_eq :
  forall (std_objects other_domains : str -> list cand) (intersphinx : str -> option cand) nl supp rg line P d l,
  Refs.Anchors.build_explicit false rg = Base.Res.Ok (ex_of d) ->
  pipeline_src std_objects other_domains intersphinx nl supp rg line P d l
  = Some (run_link std_objects other_domains intersphinx P d l).
Proof. exact pipeline_src_eq. Qed.
Print Assumptions C12_pipeline_src_eq.

Theorem C12_text_explicit_pipeline :
  forall (std_objects other_domains : str -> list cand) (intersphinx : str -> option cand),
  (forall t c, In c (std_objects t) -> c_txt c = X_children) ->
  (forall t c, In c (other_domains t) -> c_txt c = X_children) ->
  (forall t c, intersphinx t = Some c -> c_txt c = X_children) ->
  forall nl supp rg line P d l o,
  Refs.Anchors.build_explicit false rg = Base.Res.Ok (ex_of d) ->
  pipeline_src std_objects other_domains intersphinx nl supp rg line P d l = Some o ->
  l_explicit l = true -> render_link_src P d l <> C_inv -> o_txt o = X_children.
Proof. exact text_explicit_pipeline. Qed.
Print Assumptions C12_text_explicit_pipeline.

Theorem C12_missing_once_pipeline :
  forall (std_objects other_domains : str -> list cand) (intersphinx : str -> option cand) nl supp rg line P d l o,
  Refs.Anchors.build_explicit false rg = Base.Res.Ok (ex_of d) ->
  pipeline_src std_objects other_domains intersphinx nl supp rg line P d l = Some o ->
  p_nitpick P = [] ->
  (unresolved_src std_objects other_domains intersphinx P d l -> count_missing (o_warns o) = 1%nat)
  /\ (~ unresolved_src std_objects other_domains intersphinx P d l -> count_missing (o_warns o) = 0%nat).
Proof. exact missing_once_pipeline. Qed.
Print Assumptions C12_missing_once_pipeline.

(* commonmark_only, gfm_only, all_links_external: render_link renders EVERY link as a plain URL
   (DocutilsRenderer.render_link's first test): no resolution, no warning - the other theorems carry the
   premise plain_url_mode P = false *)
Theorem C12_plain_url_modes :
  forall (std_objects other_domains : str -> list cand) (intersphinx : str -> option cand) P d l,
  plain_url_mode P = true ->
  render_link_src P d l = C_url (l_dest l)
  /\ run_link std_objects other_domains intersphinx P d l = mk (T_ext (l_dest l)) X_children [].
Proof. exact plain_url_mode_link. Qed.
Print Assumptions C12_plain_url_modes.

(* The include directive's bookkeeping of md_env["relative-images"/"relative-docs"], regenerated from
   MockIncludeDirective.run (include_env_src; [render] = the nested render of the included content): whatever the
   nested render does, md_env afterwards is what it was before ... *)
Theorem C12_include_restores_src : forall (A : Type) o root cur dir (render : menv -> A * menv) env,
  include_env_src o root cur dir render env = include_env o root dir render env
  /\ snd (include_env_src o root cur dir render env) = env.
Proof. exact include_restores_src_all. Qed.
Print Assumptions C12_include_restores_src.

(* ... for any nesting of includes (items = links and includes, to any depth) ... *)
Theorem C12_include_nested_restores : forall root l env, snd (render_items root l env) = env.
Proof. exact render_items_restores. Qed.
Print Assumptions C12_include_nested_restores.

(* ... and every link sees the setting of the nearest enclosing include that has :relative-docs:, based at the
   OUTERMOST document's directory [root] - also the links that follow a nested include *)
Theorem C12_include_nested_setting : forall root it env,
  fst (render_item root it env) = seen root (me_docs env) it
  /\ ((match me_docs env with Some (_, r, _) => r = root | None => True end) ->
      Forall (fun s => match s with Some (_, r, _) => r = root | None => True end) (fst (render_item root it env))).
Proof. exact include_nested_setting. Qed.
Print Assumptions C12_include_nested_setting.

(* that md_env entry is what the link model's l_include stands for: with C12_relative_docs_rewrite the destinations
   of an included file at any nesting depth are rewritten to spellings relative to the outermost document *)
Theorem C12_include_setting_is_rewrite : forall P d l prefix incdir dest,
  l_include l = Some (prefix, incdir) ->
  handle_relative_docs_src P d l dest
  = handle_with_setting (Some (prefix, abs_dir_str P (d_dir d), abs_dir_str P incdir)) dest.
Proof. exact include_setting_is_rewrite. Qed.
Print Assumptions C12_include_setting_is_rewrite.

(* ---------- tie to the source: regenerated tables (gen/c12_links.py) ---------- *)

(* (the order of the tests of DocutilsRenderer.render_link is no longer compared as a table: render_link is
   regenerated from the source and proved equal to the model above, up to the order of exclusive tests) *)

(* REGEX_SCHEME is the expression modelled by [scheme_of] *)
Example C12_gen_regex_is_modelled : gen_regex_scheme = [94; 40; 91; 97; 45; 122; 65; 45; 90; 93; 91; 97; 45; 122; 65; 45; 90; 48; 45; 57; 43; 46; 45; 93; 42; 41; 58].
Proof. reflexivity. Qed.

(* str.lower() beyond ASCII comes from the interpreter's table *)
Example C12_gen_lower : lower [76; 65; 66; 45; 220; 66; 69; 82] = [108; 97; 98; 45; 252; 98; 101; 114].
Proof. vm_compute. reflexivity. Qed.

(* ---------- non-vacuity: a concrete project ---------- *)

Definition ex_index : docrec := {| d_name := [105; 110; 100; 101; 120]; d_dir := []; d_title := [73; 110; 100; 101; 120]; d_slugs := [{| sl_slug := [105; 110; 100; 101; 120]; sl_id := [105; 110; 100; 101; 120]; sl_title := [73; 110; 100; 101; 120] |}]; d_local := [] |}.
Definition ex_one : docrec := {| d_name := [97; 47; 111; 110; 101]; d_dir := [[97]]; d_title := [79; 110; 101]; d_slugs := [{| sl_slug := [111; 110; 101]; sl_id := [111; 110; 101]; sl_title := [79; 110; 101] |}; {| sl_slug := [115; 101; 99; 45; 97]; sl_id := [115; 101; 99; 45; 97]; sl_title := [83; 101; 99; 32; 65] |}; {| sl_slug := [115; 101; 99; 45; 97; 45; 49]; sl_id := [105; 100; 49]; sl_title := [83; 101; 99; 32; 65] |}]; d_local := [{| lo_name := [108; 97; 98; 45; 120]; lo_id := [108; 97; 98; 45; 120]; lo_title := Some [83; 101; 99; 32; 65] |}] |}.
Definition ex_two : docrec := {| d_name := [97; 47; 98; 47; 116; 119; 111]; d_dir := [[97]; [98]]; d_title := [84; 119; 111]; d_slugs := [{| sl_slug := [116; 119; 111]; sl_id := [116; 119; 111]; sl_title := [84; 119; 111] |}]; d_local := [] |}.
Definition ex_aindex : docrec := {| d_name := [97; 47; 105; 110; 100; 101; 120]; d_dir := [[97]]; d_title := [65; 32; 105; 110; 100; 101; 120]; d_slugs := [{| sl_slug := [97; 45; 105; 110; 100; 101; 120]; sl_id := [97; 45; 105; 110; 100; 101; 120]; sl_title := [65; 32; 105; 110; 100; 101; 120] |}]; d_local := [] |}.
Definition ex_project : project :=
  {| p_srcdir := [[115; 114; 118]; [115; 114; 99]]; p_suffixes := [[46; 114; 115; 116]; [46; 109; 100]];
     p_docs := [ex_index; ex_one; ex_two; ex_aindex];
     p_labels := [{| lb_name := [108; 97; 98; 45; 120]; lb_doc := [97; 47; 111; 110; 101]; lb_id := [108; 97; 98; 45; 120]; lb_sect := Some [83; 101; 99; 32; 65] |}];
     p_files := [[[105; 110; 100; 101; 120; 46; 109; 100]]; [[97]; [111; 110; 101; 46; 109; 100]]; [[97]; [98]; [116; 119; 111; 46; 109; 100]]; [[97]; [105; 110; 100; 101; 120; 46; 109; 100]]; [[97]; [98]; [100; 97; 116; 97; 46; 116; 120; 116]]; [[115; 110; 105; 112]; [112; 97; 114; 116; 46; 105; 110; 99]]];
     p_nitpick := []; p_url_schemes := [[104; 116; 116; 112]; [104; 116; 116; 112; 115]; [109; 97; 105; 108; 116; 111]; [102; 116; 112]]; p_dirhtml := false; p_all_external := false; p_commonmark_only := false; p_gfm_only := false |}.
Definition ex_project_dirhtml : project :=
  {| p_srcdir := [[115; 114; 118]; [115; 114; 99]]; p_suffixes := [[46; 114; 115; 116]; [46; 109; 100]];
     p_docs := [ex_index; ex_one; ex_two; ex_aindex];
     p_labels := [{| lb_name := [108; 97; 98; 45; 120]; lb_doc := [97; 47; 111; 110; 101]; lb_id := [108; 97; 98; 45; 120]; lb_sect := Some [83; 101; 99; 32; 65] |}];
     p_files := [[[105; 110; 100; 101; 120; 46; 109; 100]]; [[97]; [111; 110; 101; 46; 109; 100]]; [[97]; [98]; [116; 119; 111; 46; 109; 100]]; [[97]; [105; 110; 100; 101; 120; 46; 109; 100]]; [[97]; [98]; [100; 97; 116; 97; 46; 116; 120; 116]]; [[115; 110; 105; 112]; [112; 97; 114; 116; 46; 105; 110; 99]]];
     p_nitpick := []; p_url_schemes := [[104; 116; 116; 112]; [104; 116; 116; 112; 115]; [109; 97; 105; 108; 116; 111]; [102; 116; 112]]; p_dirhtml := true; p_all_external := false; p_commonmark_only := false; p_gfm_only := false |}.

(* a/b/two.md: [](../one.md#sec-a-1)  ->  ../one.html#id1 , text "Sec A", no warning *)
Example C12_example_anchor :
  run_link_plain ex_project ex_two (mklink [46; 46; 47; 111; 110; 101; 46; 109; 100; 35; 115; 101; 99; 45; 97; 45; 49] false false)
  = mk (T_uri [46; 46; 47; 111; 110; 101; 46; 104; 116; 109; 108; 35; 105; 100; 49]) (X_str [83; 101; 99; 32; 65]) [].
Proof. vm_compute. reflexivity. Qed.

(* the same link under dirhtml, and links to index documents of sub-directories *)
Example C12_example_dirhtml :
  run_link_plain ex_project_dirhtml ex_two (mklink [46; 46; 47; 111; 110; 101; 46; 109; 100; 35; 115; 101; 99; 45; 97; 45; 49] false false)
  = mk (T_uri [46; 46; 47; 46; 46; 47; 111; 110; 101; 47; 35; 105; 100; 49]) (X_str [83; 101; 99; 32; 65]) []
  /\ run_link_plain ex_project_dirhtml ex_two (mklink [46; 46; 47; 105; 110; 100; 101; 120; 46; 109; 100] false false)
  = mk (T_uri [46; 46; 47; 46; 46; 47]) (X_str [65; 32; 105; 110; 100; 101; 120]) []
  /\ run_link_plain ex_project_dirhtml ex_aindex (mklink [47; 105; 110; 100; 101; 120; 46; 109; 100] false false)
  = mk (T_uri [46; 46; 47]) (X_str [73; 110; 100; 101; 120]) []
  /\ run_link_plain ex_project_dirhtml ex_index (mklink [97; 47; 105; 110; 100; 101; 120] false false)
  = mk (T_uri [97; 47]) (X_str [65; 32; 105; 110; 100; 101; 120]) [].
Proof. repeat split; vm_compute; reflexivity. Qed.

(* "two" is a slug of the referencing page only: one warning, fallback id, text kept;
   without text the target is shown *)
Example C12_example_anchor_of_referrer :
  run_link_plain ex_project ex_two (mklink [46; 46; 47; 111; 110; 101; 46; 109; 100; 35; 116; 119; 111] false true)
  = mk (T_uri [46; 46; 47; 111; 110; 101; 46; 104; 116; 109; 108; 35; 116; 119; 111]) X_children [W_missing [116; 119; 111]]
  /\ run_link_plain ex_project ex_two (mklink [46; 46; 47; 111; 110; 101; 46; 109; 100; 35; 116; 119; 111] false false)
  = mk (T_uri [46; 46; 47; 111; 110; 101; 46; 104; 116; 109; 108; 35; 116; 119; 111]) (X_lit [97; 47; 111; 110; 101; 35; 116; 119; 111]) [W_missing [116; 119; 111]].
Proof. split; vm_compute; reflexivity. Qed.

(* docname#anchor *)
Example C12_example_docname_anchor :
  run_link_plain ex_project ex_index (mklink [97; 47; 111; 110; 101; 35; 115; 101; 99; 45; 97] false false)
  = mk (T_uri [97; 47; 111; 110; 101; 46; 104; 116; 109; 108; 35; 115; 101; 99; 45; 97]) (X_str [83; 101; 99; 32; 65]) [].
Proof. vm_compute. reflexivity. Qed.

(* a link inside snip/part.inc, included by a/b/two.md with :relative-docs: ../  :
   ../a/one.md is read relative to snip/, i.e. it is a/one.md, reached from a/b/ as ../one.html *)
Example C12_example_include :
  run_link_plain ex_project ex_two (mklink_inc [46; 46; 47; 97; 47; 111; 110; 101; 46; 109; 100; 35; 115; 101; 99; 45; 97] false false [46; 46; 47] [[115; 110; 105; 112]])
  = mk (T_uri [46; 46; 47; 111; 110; 101; 46; 104; 116; 109; 108; 35; 115; 101; 99; 45; 97]) (X_str [83; 101; 99; 32; 65]) []
  /\ render_link ex_project ex_two (mklink_inc [46; 46; 47; 97; 47; 111; 110; 101; 46; 109; 100; 35; 115; 101; 99; 45; 97] false false [46; 46; 47] [[115; 110; 105; 112]])
  = render_link ex_project {| d_name := [115; 110; 105; 112; 47; 120]; d_dir := [[115; 110; 105; 112]]; d_title := [88]; d_slugs := []; d_local := [] |} (mklink [46; 46; 47; 97; 47; 111; 110; 101; 46; 109; 100; 35; 115; 101; 99; 45; 97] false false).
Proof. split; vm_compute; reflexivity. Qed.

Example C12_example_download :
  run_link_plain ex_project ex_index (mklink [112; 97; 116; 104; 58; 97; 47; 98; 47; 100; 97; 116; 97; 46; 116; 120; 116] true true)
  = mk (T_dl (Inside [[97]; [98]; [100; 97; 116; 97; 46; 116; 120; 116]])) (X_lit [97; 47; 98; 47; 100; 97; 116; 97; 46; 116; 120; 116]) [].
Proof. vm_compute. reflexivity. Qed.

Example C12_example_missing :
  run_link_plain ex_project ex_two (mklink [110; 111; 108; 97; 98; 101; 108] false true)
  = mk (T_fallback [110; 111; 108; 97; 98; 101; 108]) X_children [W_missing [110; 111; 108; 97; 98; 101; 108]].
Proof. vm_compute. reflexivity. Qed.

Example C12_example_label_docname :
  run_link_plain ex_project ex_index (mklink [35; 108; 97; 98; 45; 120] false false)
  = mk (T_uri [97; 47; 111; 110; 101; 46; 104; 116; 109; 108; 35; 108; 97; 98; 45; 120]) (X_str [83; 101; 99; 32; 65]) []
  /\ run_link_plain ex_project ex_two (mklink [47; 97; 47; 111; 110; 101] false false)
  = mk (T_uri [46; 46; 47; 111; 110; 101; 46; 104; 116; 109; 108]) (X_str [79; 110; 101]) [].
Proof. split; vm_compute; reflexivity. Qed.

Example C12_example_roundtrip :
  resolve_ref [97; 47; 98; 47; 116; 119; 111; 46; 104; 116; 109; 108] (relative_uri [97; 47; 98; 47; 116; 119; 111; 46; 104; 116; 109; 108] [99; 47; 120; 46; 104; 116; 109; 108]) = [99; 47; 120; 46; 104; 116; 109; 108]
  /\ relative_uri [97; 47; 98; 47; 116; 119; 111; 46; 104; 116; 109; 108] [99; 47; 120; 46; 104; 116; 109; 108] = [46; 46; 47; 46; 46; 47; 99; 47; 120; 46; 104; 116; 109; 108]
  /\ resolve_ref [97; 47; 98; 47; 116; 119; 111; 47] (relative_uri [97; 47; 98; 47; 116; 119; 111; 47] [97; 47]) = [97; 47]
  /\ relative_uri [97; 47; 98; 47; 116; 119; 111; 47] [] = [46; 46; 47; 46; 46; 47; 46; 46; 47].
Proof. repeat split; vm_compute; reflexivity. Qed.

Example C12_example_spelling : spells [[97]; [98]] [[97]; [111; 110; 101; 46; 109; 100]] [46; 47; 46; 46; 47; 111; 110; 101; 46; 109; 100].
Proof. exact (Sp_rel [[97]; [98]] [[97]; [111; 110; 101; 46; 109; 100]] [[97]] [[98]] [[111; 110; 101; 46; 109; 100]] 1 eq_refl eq_refl (fun H => match H with end)). Qed.
