(* C07 - the directive-option tokenizer agrees with YAML on its subset and fails only its own way.
   Statements only; proofs are in Opt/OptSafe.v (totality) and Opt/OptAgree*.v (agreement).
   [options_to_items] is the model (Opt/OptModel.v) of myst_parser.parsers.options.options_to_items;
   its character classes and escape tables are regenerated from the source on every run
   (Gen/OptConsts.v).  [block], [print_block], [meaning_block], [wf_block] are the supported YAML
   subset, its concrete syntax and its YAML 1.1 meaning (Opt/YamlSpec.v). *)
From Coq Require Import List NArith Bool.
From MV Require Import Base.PyStr.
From MV Require Import Base.Res.
From MV Require Import Gen.OptConsts.
From MV Require Import Opt.OptModel.
From MV Require Import Opt.OptSafe.
From MV Require Import Opt.YamlSpec.
From MV Require Import Opt.OptAgreeTop.
From MV Require Import Opt.OptAgreeBlock.
From MV Require Import Opt.OptAgreeQuoted.
From MV Require Import Opt.OptAgreeAll.
From MV Require Import Opt.OptMarksDef.
From MV Require Import Opt.OptMarks.
From MV Require Import Opt.OptCommentsDef.
From MV Require Import Opt.OptComments.
From MV Require Import Opt.OptNul.
From MV Require Import Opt.OptBreaksDef.
From MV Require Import Opt.OptBreaksAll.
From MV Require Import Opt.OptSrcLib.
From MV Require Import Gen.OptSrc.
From MV Require Import Opt.OptSrcTop.
From MV Require Import Opt.OptSrcGlue.
From MV Require Import Opt.OptSrcFull.
From MV Require Import Opt.OptSrcCompose.
From MV Require Import Opt.OptSrcAll.
Import ListNotations.
Open Scope N_scope.

(* every loop of the tokenizer ends within the fuel its entry supplies (the number of remaining
   code points + 1): on no text does the model run out of fuel *)
Theorem C07_terminates : forall text : str, options_to_items text <> Raise OutOfFuel.
Proof. exact terminates. Qed.
Print Assumptions C07_terminates.

(* the buffer is never indexed out of range: the sentinel is never consumed *)
Theorem C07_in_bounds : forall text : str, options_to_items text <> Raise IndexError.
Proof. exact in_bounds. Qed.
Print Assumptions C07_in_bounds.

(* on every text (no premise; texts with an embedded NUL included, which the code reads as end of
   input) the result is pairs or TokenizeError carrying an index inside the text; never
   IndexError / ValueError / OverflowError *)
Theorem C07_only_tokenize_error : forall text : str,
  (exists pairs, options_to_items text = Ok pairs) \/
  (exists p, options_to_items text = Raise (TokenizeError p) /\ p <= N.of_nat (length text)).
Proof. exact only_tokenize_error. Qed.
Print Assumptions C07_only_tokenize_error.

(* without the range test added by the fix: commit, chr() of an 8-digit escape raises OverflowError
   (the code as it was: int(prefix, 16) followed directly by chr) *)
Theorem C07_unguarded_chr_refuted :
  exists ds : str, length ds = 8%nat /\ forallb is_hex ds = true /\
                   (do code <- int16 ds; py_chr code) = Raise OverflowError.
Proof. exists [70; 70; 70; 70; 70; 70; 70; 70]. repeat split. Qed.
Print Assumptions C07_unguarded_chr_refuted.

(* agreement with YAML on the whole supported subset: block mappings whose keys are plain,
   single- or double-quoted scalars and whose values are absent, plain (single or multi-line),
   single-quoted, double-quoted (all escapes, multi-line folding), literal or folded block scalars
   (chomping and indentation indicators in both orders, header comments), with comment lines,
   trailing comments and blank lines.  No family is left to the differential test alone. *)
Theorem C07_yaml_agree : forall b : block,
  wf_block b = true -> options_to_items (print_block b) = Ok (meaning_block b).
Proof. exact yaml_agree. Qed.
Print Assumptions C07_yaml_agree.

(* the per-family lemmas the theorem is composed of (scanning of one key / one value) *)
Theorem C07_yaml_agree_plain_key : forall l, wf_key (KPlain l) = true -> OptAgree.key_spec (KPlain l).
Proof. exact key_spec_plain. Qed.
Print Assumptions C07_yaml_agree_plain_key.

Theorem C07_yaml_agree_multiline_plain : forall vsp l0 more tsp cm trail,
  wf_value (VFlow vsp (FPlain l0 more) tsp cm) = true ->
  OptAgree.value_spec (VFlow vsp (FPlain l0 more) tsp cm) trail.
Proof. exact value_spec_plain. Qed.
Print Assumptions C07_yaml_agree_multiline_plain.

Theorem C07_yaml_agree_squoted : forall vsp l0 more tsp cm trail,
  wf_value (VFlow vsp (FSingle l0 more) tsp cm) = true ->
  OptAgree.value_spec (VFlow vsp (FSingle l0 more) tsp cm) trail.
Proof. exact value_spec_single. Qed.
Print Assumptions C07_yaml_agree_squoted.

Theorem C07_yaml_agree_dquoted_escapes : forall vsp l0 more tsp cm trail,
  wf_value (VFlow vsp (FDouble l0 more) tsp cm) = true ->
  OptAgree.value_spec (VFlow vsp (FDouble l0 more) tsp cm) trail.
Proof. exact value_spec_double. Qed.
Print Assumptions C07_yaml_agree_dquoted_escapes.

Theorem C07_yaml_agree_literal_folded : forall vsp folded h lead indent first more trail,
  wf_value (VBlock vsp folded h lead indent first more) = true -> bl_le indent trail = true ->
  OptAgree.value_spec (VBlock vsp folded h lead indent first more) trail.
Proof. exact value_spec_block. Qed.
Print Assumptions C07_yaml_agree_literal_folded.

(* ---- Round 2 ---- *)

(* C07_yaml_agree above now also covers (Opt/YamlSpec.v, round 2): blank lines that contain spaces
   (before, between and after items, inside multi-line plain scalars, inside and after block
   scalars up to the indentation), comment lines with leading indentation, backslash + line break
   inside double quotes (DBrk), and a last line without its final line break (b_final_nl = false).
   For that last form, stated on its own: *)
Theorem C07_final_newline_optional : forall lead items,
  wf_block (BK lead items true) = true -> last_item_ok items = true ->
  options_to_items (print_block (BK lead items false)) =
  options_to_items (print_block (BK lead items true)).
Proof. exact final_newline_optional. Qed.
Print Assumptions C07_final_newline_optional.

Theorem C07_final_newline_text : forall lead items, last_item_ok items = true ->
  print_block (BK lead items true) = print_block (BK lead items false) ++ [10].
Proof. exact print_block_nolf. Qed.
Print Assumptions C07_final_newline_text.


(* StreamBuffer bookkeeping: after forwarding k characters get_position() is (k, line of k,
   column of k) where the line is the number of recognised line breaks before k (LF, NEL, LS, PS,
   CR not followed by LF) and the column the number of non-BOM characters since the last one.
   Every TokenizeError of the tokenizer carries stream.get_position() as its problem mark. *)
Theorem C07_mark_positions : forall (text : str) (k : nat) (s : stream),
  forward (new_stream text) k = Ok s ->
  s_idx s = N.of_nat k /\ s_line s = line_of (text ++ CHARS_END) k /\
  s_col s = col_of (text ++ CHARS_END) k.
Proof. exact forward_positions. Qed.
Print Assumptions C07_mark_positions.

(* TokenizeError.clone (used by _to_tokens when an offset is given): the index is kept, line and
   column are shifted by exactly the offsets (on every line, not only the first) *)
Theorem C07_clone_positions : forall text lo co p,
  error_mark text lo co p =
  let '(i, l, c) := error_mark text 0 0 p in (i, l + lo, c + co).
Proof. exact clone_positions. Qed.
Print Assumptions C07_clone_positions.

(* State.has_comments is only written: the instrumented tokenizer that also computes the flag
   returns the same pairs and the same errors as the plain one *)
Theorem C07_has_comments_erasure : forall text : str,
  (do x <- options_to_items_state text; Ok (fst x)) = options_to_items text.
Proof. exact options_to_items_state_erase. Qed.
Print Assumptions C07_has_comments_erasure.

(* an embedded NUL is the end of the input: whatever follows it is never looked at (no premise on
   a or b; a may itself contain NULs, the first one decides) *)
Theorem C07_nul_truncates : forall a b : str,
  options_to_items (a ++ 0 :: b) = options_to_items a.
Proof. exact nul_truncates. Qed.
Print Assumptions C07_nul_truncates.

(* ---- Round 3: line-break kinds, indented comments ---- *)

(* C07_yaml_agree now also covers a comment line with leading spaces directly after a multi-line
   plain value or a block scalar (after a block scalar it must be indented less than the scalar,
   otherwise it is a line of the scalar): wf_adj in Opt/YamlSpec.v. *)

(* The kind of line break does not matter: whenever the tokenizer returns pairs on a text without
   carriage returns it returns the same pairs on the text with every LF replaced by CR LF, on the
   text with every LF replaced by CR, and on the text with every LF replaced by NEL (any text,
   not only the YAML subset; one kind per text). *)
Theorem C07_line_breaks_transparent : forall (T : str) r, no_cr T = true ->
  options_to_items T = Ok r ->
  options_to_items (crlf T) = Ok r /\ options_to_items (cr_only T) = Ok r /\
  options_to_items (nel_only T) = Ok r.
Proof. exact line_breaks_transparent. Qed.
Print Assumptions C07_line_breaks_transparent.

(* hence agreement with YAML on the whole subset printed with CR LF, or with CR, as line break *)
Theorem C07_yaml_agree_crlf : forall b : block,
  wf_block b = true -> options_to_items (crlf (print_block b)) = Ok (meaning_block b).
Proof. exact yaml_agree_crlf. Qed.
Print Assumptions C07_yaml_agree_crlf.

Theorem C07_yaml_agree_cr : forall b : block,
  wf_block b = true -> options_to_items (cr_only (print_block b)) = Ok (meaning_block b).
Proof. exact yaml_agree_cr. Qed.
Print Assumptions C07_yaml_agree_cr.

Theorem C07_yaml_agree_nel : forall b : block,
  wf_block b = true -> options_to_items (nel_only (print_block b)) = Ok (meaning_block b).
Proof. exact yaml_agree_nel. Qed.
Print Assumptions C07_yaml_agree_nel.

(* mixing kinds inside one text is not transparent in general: LF LF (a blank line) against
   CR LF (one line break) - the reason why the theorems above replace every line feed alike *)
Theorem C07_mixed_breaks_refuted :
  options_to_items mixed_lf = Ok [([97], [120; 10; 10; 121; 10])] /\
  options_to_items mixed_cr_lf = Ok [([97], [120; 10; 121; 10])].
Proof. exact mixed_breaks_refuted. Qed.
Print Assumptions C07_mixed_breaks_refuted.

(* ---- Round 3: the theorems for the code as it is written now ---- *)

(* [options_to_items_full] is the entry point as gen/c07_src.py translates it statement by statement
   from myst_parser/parsers/options.py on every run (Gen/OptSrc.v): options_to_items, _to_tokens
   (with its handler and TokenizeError.clone on the mark side), the generator _tokenize, the
   thirteen scanner functions (_scan_line_break, _scan_to_next_token, _scan_plain_spaces,
   _scan_plain_scalar, _scan_flow_scalar and its three helpers, _scan_block_scalar and its four
   helpers) and the class StreamBuffer (new_stream_src, peek_src, prefix_src, forward_src,
   get_position_src), whose methods the scanners call.  Nothing of options.py that takes part in
   the result is hand-transcribed in this term; what the translation itself fixes is listed in
   gen/c07_src.py (the representation of the StreamBuffer object as (index, line, column,
   buffer[index:]), marks / messages / State.has_comments erased, tokens reduced to kind +
   value + start index, fuel for the `while` loops).  Opt/OptSrcProofs.v, OptSrcCompose.v,
   OptSrcGlue.v, OptSrcFull.v prove each translated function equal to its hand-written
   counterpart, hence: *)
Theorem C07_src_refines : forall text : str, options_to_items_full text = options_to_items text.
Proof. exact full_refines. Qed.
Print Assumptions C07_src_refines.

Theorem C07_terminates_src : forall text : str, options_to_items_full text <> Raise OutOfFuel.
Proof. exact terminates_src. Qed.
Print Assumptions C07_terminates_src.

Theorem C07_in_bounds_src : forall text : str, options_to_items_full text <> Raise IndexError.
Proof. exact in_bounds_src. Qed.
Print Assumptions C07_in_bounds_src.

Theorem C07_only_tokenize_error_src : forall text : str,
  (exists pairs, options_to_items_full text = Ok pairs) \/
  (exists p, options_to_items_full text = Raise (TokenizeError p) /\ p <= N.of_nat (length text)).
Proof. exact only_tokenize_error_src. Qed.
Print Assumptions C07_only_tokenize_error_src.

Theorem C07_yaml_agree_src : forall b : block,
  wf_block b = true -> options_to_items_full (print_block b) = Ok (meaning_block b).
Proof. exact yaml_agree_src. Qed.
Print Assumptions C07_yaml_agree_src.

Theorem C07_nul_truncates_src : forall a b : str,
  options_to_items_full (a ++ 0 :: b) = options_to_items_full a.
Proof. exact nul_truncates_src. Qed.
Print Assumptions C07_nul_truncates_src.

(* class StreamBuffer as translated from the source = the primitives of the model *)
Theorem C07_streambuffer_src : forall (s : stream) (k : nat) (text : str),
  peek_src s k = peek s k /\ prefix_src s k = prefix s k /\ forward_src s k = forward s k /\
  get_position_src s = (s_idx s, s_line s, s_col s) /\ new_stream_src text = new_stream text.
Proof. exact streambuffer_src. Qed.
Print Assumptions C07_streambuffer_src.

(* C07_mark_positions for the translated class *)
Theorem C07_mark_positions_src : forall (text : str) (k : nat) (s : stream),
  forward_src (new_stream_src text) k = Ok s ->
  get_position_src s = (N.of_nat k, line_of (text ++ CHARS_END) k, col_of (text ++ CHARS_END) k).
Proof. exact forward_positions_src. Qed.
Print Assumptions C07_mark_positions_src.

(* C07_clone_positions for the translated TokenizeError.clone and the translated handler of
   _to_tokens (clone only when an offset is given): the mark reported with offsets is the mark
   without offsets shifted by them, index kept *)
Theorem C07_clone_positions_src : forall text lo co p,
  clone_src (error_mark text 0 0 p) lo co = error_mark text lo co p /\
  reraise_mark_src (error_mark text 0 0 p) lo co = error_mark text lo co p.
Proof. exact clone_positions_src. Qed.
Print Assumptions C07_clone_positions_src.

(* ---- non-vacuity ---- *)

(*  # c
    k1 : v w   # t

    'q''k': "a\tb\x41 \
    (next line)  c"
    lit: |+2
        x
      y

    fo: >-
     a
     b

      c
*)
Definition ex_block : block :=
  BK [1%nat]
     [ IComment 2 [32; 99] [];
       IKV (KPlain (PL [107; 49] [])) 1 (VFlow 1 (FPlain (PL [118] [(1%nat, [119])]) []) 3 (Some [32; 116])) [2%nat];
       IKV (KSingle [113; 39; 107]) 0
           (VFlow 1 (FDouble [DChr 97; DEsc 116; DChr 98; DHex 120 [52; 49]; DBrk [[9]] [32]; DChr 33]
                             [([32], [[32; 9]], [32; 32], [DChr 99])]) 0 None) [];
       IKV (KPlain (PL [108; 105; 116] [])) 0
           (VBlock 1 false (HD Keep true true 0 None) [] 2 [32; 32; 120] [([], [121])]) [0%nat];
       IKV (KPlain (PL [102; 111] [])) 0
           (VBlock 1 true (HD Strip false false 0 None) [1%nat] 1 [97] [([], [98]); ([1%nat], [32; 99])]) [];
       IKV (KDouble [DChr 122]) 1 (VFlow 2 (FSingle [118] []) 1 (Some [33])) [] ]
     false.

Example C07_example_wf : wf_block ex_block = true.
Proof. vm_compute. reflexivity. Qed.

Example C07_example_result :
  options_to_items (print_block ex_block) =
  Ok [ ([107; 49], [118; 32; 119]);
       ([113; 39; 107], [97; 9; 98; 65; 10; 33; 10; 99]);
       ([108; 105; 116], [32; 32; 120; 10; 121; 10; 10]);
       ([102; 111], [10; 97; 32; 98; 10; 10; 32; 99]);
       ([122], [118]) ].
Proof. vm_compute. reflexivity. Qed.

(* an embedded NUL is the end of the input for the tokenizer *)
Example C07_example_nul :
  options_to_items [97; 58; 32; 98; 10; 0; 99; 58; 32; 39] = options_to_items [97; 58; 32; 98; 10].
Proof. vm_compute. reflexivity. Qed.

(* errors carry the index of the offending character *)
Example C07_example_error : options_to_items [97; 58; 32; 39; 98] = Raise (TokenizeError 5).
Proof. vm_compute. reflexivity. Qed.
