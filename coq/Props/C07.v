(* C07 - the directive-option tokenizer agrees with YAML on its subset and fails only its own way.
   Statements only; proofs are in Opt/OptSafe.v and Opt/OptAgree.v.
   [options_to_items] is the model (Opt/OptModel.v) of myst_parser.parsers.options.options_to_items,
   its tables are regenerated from the source on every run (Gen/OptConsts.v). *)
From Coq Require Import List NArith Bool.
From MV Require Import Base.PyStr.
From MV Require Import Base.Res.
From MV Require Import Gen.OptConsts.
From MV Require Import Opt.OptModel.
From MV Require Import Opt.OptSafe.
Import ListNotations.
Open Scope N_scope.

(* every loop of the tokenizer ends within the fuel its entry supplies (the number of remaining
   code points + 1): on no text does the model run out of fuel *)
Theorem C07_terminates : forall text : str, options_to_items text <> Raise OutOfFuel.
Proof. exact terminates. Qed.
Print Assumptions C07_terminates.

(* the buffer is never indexed out of range: the sentinel is never consumed *)
Theorem C07_in_bounds : forall text : str, options_to_items text <> Raise IndexError.
Proof. exact in_bounds. Qed.
Print Assumptions C07_in_bounds.

(* on every text (no premise, embedded NUL included) the result is pairs or TokenizeError carrying
   an index inside the text; never IndexError / ValueError / OverflowError *)
Theorem C07_only_tokenize_error : forall text : str,
  (exists pairs, options_to_items text = Ok pairs) \/
  (exists p, options_to_items text = Raise (TokenizeError p) /\ p <= N.of_nat (length text)).
Proof. exact only_tokenize_error. Qed.
Print Assumptions C07_only_tokenize_error.
