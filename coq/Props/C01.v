(* C01 - Parsing is total: any text, any valid config, never an uncaught exception.
   Statements only; proofs are in Exc/ExcProofs.v (table checks) and Exc/CoreProofs.v (models).

   (b) exception-flow table: Gen/ExcFlow.v is regenerated from the package source on every run
       (every call of a raising callee with the handlers that enclose it, every raise statement,
       the interpreter's MRO of every class named); Exc/ExcFlow.v holds the trusted table
       [raises], the functions [declared] to let classes escape to their own (recorded) call
       sites, the justified [whitelist] / [out_scope], and the [open_sites].
   (a) component totality in small models of the re-entrant parts of the renderer. *)
From Coq Require Import List String Bool Arith NArith.
From MV Require Import Base.PyStr Base.Res Exc.ExcDefs Gen.ExcFlow Exc.ExcFlow Exc.ExcProofs
  Exc.CoreModel Exc.CoreProofs Gen.GuardSrc Exc.CoreSrc Exc.CoreSrcProofs.
Import ListNotations.

(* Bound: the n_sites sites present in the source when the table was regenerated (n_sites is part
   of the generated file): calls of raising callees everywhere, plus - in the transform phase
   (transforms.py, Parser.parse) - every subscript, list.remove and Element.replace.  Every one
   is out of scope, whitelisted with a justification, or checked: each
   class of raises(callee) is caught by an enclosing handler or declared to escape the function
   (to call sites that are checked in turn). *)
Theorem C01_sites_covered :
  List.length sites = n_sites /\ forallb site_ok sites = true.
Proof. exact sites_all_ok. Qed.
Print Assumptions C01_sites_covered.

(* what "checked" means, for any site and without computation *)
Theorem C01_site_check_sound : forall s es,
  lookup (base_key (s_callee s)) raises = Some es -> uncovered s = [] ->
  forall e, In e es ->
  exists h, In h (s_handlers s ++ declared_of (s_file s) (s_func s)) /\ subclass e h = true.
Proof. exact site_checked_sound. Qed.
Print Assumptions C01_site_check_sound.

(* Bound: the n_raise_stmts raise statements present in the source.  Each raises a class that
   an enclosing handler catches or that its function declares (so that the function's call
   sites are checked against it), or sits in an out-of-scope function. *)
Theorem C01_raise_statements_declared :
  List.length raise_stmts = n_raise_stmts /\ forallb rstmt_ok raise_stmts = true.
Proof. exact rstmts_all_ok. Qed.
Print Assumptions C01_raise_statements_declared.

(* the hand tables are consistent with each other and with the source: declared classes are
   among raises(key) of the function's callee key; every class named is known to the
   interpreter; no whitelist / open entry is stale *)
Theorem C01_tables_consistent : declared_ok = true /\ classes_known = true /\ tables_live = true.
Proof. exact tables_ok. Qed.
Print Assumptions C01_tables_consistent.

(* sites listed as open defects (none today) are really uncovered: the list cannot be used to
   hide a covered site.  It held the two urlparse() sites until 3eadb40 and the four
   relfn2path / os.access sites of the Sphinx renderer (NUL in a link destination) until 9a2ab65. *)
Theorem C01_open_sites_are_uncovered :
  forall f g c i sig, In (f, g, c, i, sig) open_sites ->
    exists s, In s sites /\ site_key_eqb s f g c i = true /\ site_ok s = false /\
              In "ValueError"%string (uncovered s).
Proof. exact open_sites_uncovered. Qed.
Print Assumptions C01_open_sites_are_uncovered.

(* (a) component totality.
   1. update_section_level_state never takes max() of an empty set: for every sequence of
      heading levels >= 1, from a level map that holds level 0.
   2. re-entrant expansion ({include} with the include log, substitutions with
      sub_references): if every call names at least one key of a finite universe U, the
      expansion returns within fuel |U|+1, i.e. the nesting depth is bounded by the number of
      distinct include keys / substitution names. *)
(* (The third loop of the renderer that could fail to return, compute_unique_slug's
   "while slug in slugs", is proved terminating in the C10 development (theorem C10_unique_terminates of
   Props/C10.v, model in coq/Sect); it is cited here, not re-modelled.) *)
Theorem C01_core_total :
  (forall levels lm, In 0%N lm -> (forall h, In h levels -> (1 <= h)%N) ->
     exists lm', run_headings lm levels = Ok lm' /\ In 0%N lm') /\
  (forall succs U, closed succs U -> forall ks, ks <> [] -> incl ks U ->
     expand succs (S (List.length U)) [] ks = Ok tt).
Proof. exact (conj section_parent_exists expand_total). Qed.
Print Assumptions C01_core_total.

(* Source-translation tie (round 3).  Gen/GuardSrc.v is regenerated on every run from the statements of
   DocutilsRenderer.render_substitution that touch document.sub_references (intersection test, update,
   try / finally difference_update) and of MockIncludeDirective.run that touch include_log (membership test,
   append, try / finally pop).  The expansion driven by that translated code returns, with the guard state
   restored, within fuel |U|+1: the nesting depth of substitutions is bounded by the number of distinct names
   and that of includes by the number of distinct (normalised path, clip options) keys. *)
Theorem C01_core_total_src :
  (forall succs U, closed succs U -> forall refs, refs <> [] -> incl refs U ->
     expand_subst_src succs (S (List.length U)) [] refs = Ok []) /\
  (forall succs U, (forall k k', In k' (succs k) -> In k' U) -> forall key, In key U ->
     expand_include_src succs (S (List.length U)) [] key = Ok []).
Proof. exact (conj subst_src_total include_src_total). Qed.
Print Assumptions C01_core_total_src.

(* the translated guards refine the hand-written model: same outcome, guard state given back unchanged *)
Theorem C01_guards_refine_model :
  (forall succs fuel active refs,
     expand_subst_src succs fuel active refs = lift (expand succs fuel active refs) active) /\
  (forall succs fuel log active key, equivm log active ->
     expand_include_src succs fuel log key = lift (expand (lift_inc succs) fuel active [key]) log).
Proof. exact (conj subst_src_refines include_src_refines). Qed.
Print Assumptions C01_guards_refine_model.

(* handler bodies (regenerated column "what the except clause does"): every except clause / suppress block of
   the package reports the problem (warning / system message), or re-raises only classes that its function
   declares (so the callers are checked against them), or is a silent fallback with a stated justification;
   in particular read_topmatter re-raises TopmatterReadError (declared, caught by both Parser.parse) and
   render_front_matter / merge_file_level / get_inventory_matches / run_directive warn and continue. *)
Theorem C01_handlers_report : forallb handler_ok handlers = true /\ silent_live = true.
Proof. exact handlers_all_ok. Qed.
Print Assumptions C01_handlers_report.

(* without the include log (the code before the repair) a self-including file exhausts every fuel *)
Theorem C01_include_without_log_refuted :
  exists succs ks, forall fuel, expand_nolog succs fuel ks = Raise OutOfFuel.
Proof. exact (ex_intro _ succs_self (ex_intro _ [[97%N]] (fun fuel => nolog_self_diverges fuel [[97%N]]))). Qed.
Print Assumptions C01_include_without_log_refuted.

(* the premise "every call names a key" of C01_core_total is needed: a substitution whose
   expression references no name is never stopped by the sub_references guard *)
Theorem C01_guard_without_key_refuted :
  exists succs, forall fuel active, expand succs fuel active [] = Raise OutOfFuel.
Proof. exists succs_self. exact guard_needs_a_key. Qed.
Print Assumptions C01_guard_without_key_refuted.

(* non-vacuity *)
Example C01_example_headings : run_headings [0%N] [2; 1; 3; 7; 1]%N = Ok [1; 0]%N.
Proof. vm_compute. reflexivity. Qed.
Example C01_example_yaml_site :
  existsb (fun s => String.eqb (s_callee s) "yaml.safe_load" && String.eqb (s_func s) "read_topmatter"
                    && negb (whitelisted s) && site_ok s) sites = true.
Proof. vm_compute. reflexivity. Qed.
