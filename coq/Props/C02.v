(* C02 - The doctree is a faithful image of the Markdown token tree.
   Statements only; the proofs are in Doc/Refine.v, RenderProofs.v, PostProofs.v, TopProofs.v,
   DecoProofs.v, Final.v.  Model: Doc/Render.v (transcription of DocutilsRenderer / SphinxRenderer),
   specification: Doc/Skel.v (skel_tok reads token fields only; skel_node erases the doctree). *)
From Coq Require Import List NArith Bool.
From MV Require Import Base.PyStr.
From MV Require Import Base.Res.
From MV Require Import Doc.Str.
From MV Require Import Doc.Tok.
From MV Require Import Doc.Node.
From MV Require Import Doc.Registry.
From MV Require Import Doc.Prog.
From MV Require Import Doc.Refine.
From MV Require Import Doc.Render.
From MV Require Import Doc.RenderProofs.
From MV Require Import Doc.Skel.
From MV Require Import Doc.WF.
From MV Require Import Doc.PostProofs.
From MV Require Import Doc.TopProofs.
From MV Require Import Doc.Final.
Import ListNotations.

(* The two semantics of the renderer's instruction set agree.  For every program, every state whose
   current node is an element of the tree: the Python semantics (tree, current path, level map)
   appends at the current path exactly the nodes of the functional reading and leaves current path
   and level map unchanged.  (run_f = None only for programs that open a section.) *)
Theorem C02_refinement : forall (p : prog) (s : istate) r,
  valid (cur s) (tree s) = true ->
  run_f p (tag_at (cur s) (tree s)) (fs s) = Some r ->
  run_i p s = match r with
              | Good (ns, f') => Good (mkI (app_at (cur s) ns (tree s)) (cur s) (lvl s) f')
              | Bad e => Bad e
              end.
Proof. exact refine. Qed.
Print Assumptions C02_refinement.

(* After rendering any token that cannot reach render_heading while the current node is the document
   or a section (every token below a container; every token that is neither a heading nor a
   transparent wrapper - inline, s - of one) the current node and the section level map are what they
   were: every current_node_context is left as it was entered.  For every back end, configuration,
   oracle behaviour, token (any depth, any type) and state; only a heading at section level moves
   the current node (to the section it opens: TopProofs.tinv_step_heading). *)
Theorem C02_render_restores_cur : forall B C OR (t : tok) (s s' : istate),
  valid (cur s) (tree s) = true ->
  is_section_tag (tag_at (cur s) (tree s)) = false \/ opens_section t = false ->
  run_i (rt_run (build B C OR t)) s = Good s' ->
  cur s' = cur s /\ lvl s' = lvl s.
Proof. exact render_restores_cur. Qed.
Print Assumptions C02_render_restores_cur.

(* FAITHFUL IMAGE.  For both back ends, every configuration of the model, every token forest of the
   static grammar (static_forest: attribute dicts, tables = thead(tr) [tbody], field lists = name/body
   pairs, no inv:/path:/project: links, only headings open sections at the top level; arbitrary depth
   and size) that the model renders: unless the renderer dropped content with a warning (a duplicate
   footnote definition, a token type without render method: has_dropped), the skeleton of the doctree
   equals the skeleton of the token tree - every text / literal / code / raw / math / image /
   transition leaf exactly once, in order, with identical content, one container per container, link
   destination, image uri and alt, list enumtype / start / suffix / bullet, cell alignment and code
   language carried over.  Oracle assumptions: the lexer's token values concatenate to the code
   (O_lexer_concat), the destination canonicaliser D is invariant under normalizeLinkText (O_canon),
   Sphinx finds no project file for a link destination (O_no_files). *)
Theorem C02_faithful : forall (D : str -> str) (B : backend) (C : cfg) (OR : oracles)
                              (ts : list tok) (doc : node) (ws : list str),
  O_lexer_concat OR -> O_canon D OR -> O_no_files OR ->
  static_forest B C OR ts = true ->
  render_doc B C OR ts = Good (doc, ws) ->
  has_dropped doc = false ->
  skel_node D doc = skel_toks D B C OR ts.
Proof. exact faithful. Qed.
Print Assumptions C02_faithful.

(* The two back ends agree on everything that is not back-end specific, at the level of the skeleton
   (what erase_backend removes: how a code block carries its language; target nodes).  PARTIAL: the
   attributes outside the skeleton (classes, names, ids) are compared by the correspondence check only. *)
Theorem C02_backends_agree_partial : forall (D : str -> str) C OR ts docD wsD docS wsS,
  O_lexer_concat OR -> O_canon D OR -> O_no_files OR -> O_dyn_agree D OR ->
  static_forest Docutils C OR ts = true -> static_forest Sphinx C OR ts = true ->
  render_doc Docutils C OR ts = Good (docD, wsD) -> has_dropped docD = false ->
  render_doc Sphinx C OR ts = Good (docS, wsS) -> has_dropped docS = false ->
  flat_map erase_backend (skel_node D docD) = flat_map erase_backend (skel_node D docS).
Proof. exact backends_agree. Qed.
Print Assumptions C02_backends_agree_partial.

(* Code text is verbatim (up to one final newline) under O_lexer_concat: instance of C02_faithful for a
   document that is one fenced code block. *)
Theorem C02_code_verbatim_partial : forall (D : str -> str) B C OR (t : tok) doc ws,
  O_lexer_concat OR -> O_canon D OR -> O_no_files OR ->
  kind_of (ty t) = KFence -> dyn_key C OR t = DStatic -> static_forest B C OR [t] = true ->
  render_doc B C OR [t] = Good (doc, ws) -> has_dropped doc = false ->
  skel_node D doc = [SCode (lang_carried B OR t (Some (fence_name B C OR t))) (strip1nl (content t))].
Proof. exact code_verbatim. Qed.
Print Assumptions C02_code_verbatim_partial.

(* ... and REFUTED without it: with a lexer that drops leading newlines (pygments' stripnl behind docutils'
   Lexer: open finding code-verbatim:pygments-stripnl) the code block "\n\nx\n" is not carried verbatim. *)
Theorem C02_code_verbatim_refuted :
  exists (ts : list tok) doc ws,
    static_forest Docutils default_cfg stripnl_oracles ts = true /\
    render_doc Docutils default_cfg stripnl_oracles ts = Good (doc, ws) /\ has_dropped doc = false /\
    skel_node (fun x => x) doc <> skel_toks (fun x => x) Docutils default_cfg stripnl_oracles ts.
Proof. exact code_verbatim_refuted. Qed.
Print Assumptions C02_code_verbatim_refuted.

(* non-vacuity: a heading, a paragraph with text, and a code fence meet every premise of C02_faithful *)
Example C02_example :
  let ts := [tok_heading 1 [tok_text [97]]; tok_para [tok_text [98]]; tok_fence [] [120; 10]] in
  static_forest Docutils default_cfg dummy_oracles ts = true /\
  match render_doc Docutils default_cfg dummy_oracles ts with
  | Good (doc, _) => has_dropped doc = false /\
                     skel_node (fun x => x) doc = skel_toks (fun x => x) Docutils default_cfg dummy_oracles ts
  | Bad _ => False
  end.
Proof. vm_compute. repeat split; reflexivity. Qed.
