(* C02 - The doctree is a faithful image of the Markdown token tree.
   Statements only; proofs are in Doc/Refine.v, Doc/RenderProofs.v. *)
From Coq Require Import List NArith Bool.
From MV Require Import Base.PyStr.
From MV Require Import Base.Res.
From MV Require Import Doc.Str.
From MV Require Import Doc.Tok.
From MV Require Import Doc.Node.
From MV Require Import Doc.Registry.
From MV Require Import Doc.Prog.
From MV Require Import Doc.Refine.
From MV Require Import Doc.Render.
From MV Require Import Doc.RenderProofs.
Import ListNotations.

(* The two semantics of the renderer's instruction set agree: whatever program runs while the
   current node is an element of the tree, the Python semantics (tree, current path, level map)
   appends at the current path exactly the nodes of the functional reading, and leaves current
   path and level map unchanged.  (run_f = None only for programs that open a section.) *)
Theorem C02_refinement : forall (p : prog) (s : istate) r,
  valid (cur s) (tree s) = true ->
  run_f p (tag_at (cur s) (tree s)) (fs s) = Some r ->
  run_i p s = match r with
              | Good (ns, f') => Good (mkI (app_at (cur s) ns (tree s)) (cur s) (lvl s) f')
              | Bad e => Bad e
              end.
Proof. exact refine. Qed.
Print Assumptions C02_refinement.

(* After rendering any token that cannot reach render_heading with the current node being the
   document or a section (i.e. any token under a container, and any non-heading token that is not
   a transparent wrapper of a heading) the current node and the section level map are what they
   were: every current_node_context is left as it was entered - for every backend, configuration,
   oracle behaviour, token (any depth) and state. *)
Theorem C02_render_restores_cur : forall B C OR (t : tok) (s s' : istate),
  valid (cur s) (tree s) = true ->
  is_section_tag (tag_at (cur s) (tree s)) = false \/ opens_section t = false ->
  run_i (rt_run (build B C OR t)) s = Good s' ->
  cur s' = cur s /\ lvl s' = lvl s.
Proof.
  intros B C OR t s s' Hv Hc H.
  apply (run_i_restores (rt_run (build B C OR t)) s s' Hv); [|exact H].
  apply (all_sub_here _ _ (build_frameable B C OR t)). exact Hc.
Qed.
Print Assumptions C02_render_restores_cur.
