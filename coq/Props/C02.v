(* C02 - The doctree is a faithful image of the Markdown token tree.
   Statements only; the proofs are in Doc/Refine.v, RenderProofs.v, PostProofs.v, TopProofs.v,
   DecoProofs.v, Final.v.  Model: Doc/Render.v (transcription of DocutilsRenderer / SphinxRenderer),
   specification: Doc/Skel.v (skel_tok reads token fields only; skel_node erases the doctree). *)
From Coq Require Import List NArith Bool.
From MV Require Import Base.PyStr.
From MV Require Import Base.Res.
From MV Require Import Doc.Str.
From MV Require Import Doc.Tok.
From MV Require Import Doc.Node.
From MV Require Import Doc.Registry.
From MV Require Import Doc.Prog.
From MV Require Import Doc.Refine.
From MV Require Import Doc.Render.
From MV Require Import Doc.RenderProofs.
From MV Require Import Doc.Skel.
From MV Require Import Doc.WF.
From MV Require Import Doc.PostProofs.
From MV Require Import Doc.TopProofs.
From MV Require Import Doc.Final.
From MV Require Import Doc.Total.
From MV Require Import Doc.Backends.
From MV Require Import Gen.RenderSrc.
From MV Require Import Doc.RenderSrcProofs.
Import ListNotations.

(* The two semantics of the renderer's instruction set agree.  For every program, every state whose
   current node is an element of the tree: the Python semantics (tree, current path, level map)
   appends at the current path exactly the nodes of the functional reading and leaves current path
   and level map unchanged.  (run_f = None only for programs that open a section.) *)
Theorem C02_refinement : forall (p : prog) (s : istate) r,
  valid (cur s) (tree s) = true ->
  run_f p (tag_at (cur s) (tree s)) (fs s) = Some r ->
  run_i p s = match r with
              | Good (ns, f') => Good (mkI (app_at (cur s) ns (tree s)) (cur s) (lvl s) f')
              | Bad e => Bad e
              end.
Proof. exact refine. Qed.
Print Assumptions C02_refinement.

(* After rendering any token that cannot reach render_heading while the current node is the document
   or a section (every token below a container; every token that is neither a heading nor a
   transparent wrapper - inline, s - of one) the current node and the section level map are what they
   were: every current_node_context is left as it was entered.  For every back end, configuration,
   oracle behaviour, token (any depth, any type) and state; only a heading at section level moves
   the current node (to the section it opens: TopProofs.tinv_step_heading). *)
Theorem C02_render_restores_cur : forall B C OR (t : tok) (s s' : istate),
  valid (cur s) (tree s) = true ->
  is_section_tag (tag_at (cur s) (tree s)) = false \/ opens_section t = false ->
  run_i (rt_run (build B C OR t)) s = Good s' ->
  cur s' = cur s /\ lvl s' = lvl s.
Proof. exact render_restores_cur. Qed.
Print Assumptions C02_render_restores_cur.

(* FAITHFUL IMAGE.  For both back ends, every configuration of the model, every token forest of the
   static grammar (static_forest: attribute dicts, tables = thead(tr) [tbody], field lists = name/body
   pairs, no inv:/path:/project: links, only headings open sections at the top level; arbitrary depth
   and size) that the model renders: unless the renderer dropped content with a warning (a duplicate
   footnote definition, a token type without render method: has_dropped), the skeleton of the doctree
   equals the skeleton of the token tree - every text / literal / code / raw / math / image /
   transition leaf exactly once, in order, with identical content, one container per container, link
   destination, image uri and alt, list enumtype / start / suffix / bullet, cell alignment and code
   language carried over.  Oracle assumptions: the lexer's token values concatenate to the code
   (O_lexer_concat), the destination canonicaliser D is invariant under normalizeLinkText (O_canon),
   Sphinx finds no project file for a link destination (O_no_files).
   Round 2: the static grammar now contains the DYNAMIC SYNTAX - directive fences, colon-fence directives,
   roles, substitutions, front matter - as an oracle O_dyn (the nodes and warnings the real run produced; the
   model accepts runs that leave the document registries alone and return no section / transition / table
   structure: dyn_static).  The image of such a token is the image of the nodes of its run (Skel.dyn_skel).
   The premise "the model renders the forest" is discharged by C02_faithful_total below, up to failures of the
   docutils registry operations. *)
Theorem C02_faithful : forall (D : str -> str) (B : backend) (C : cfg) (OR : oracles)
                              (ts : list tok) (doc : node) (ws : list str),
  O_lexer_concat OR -> O_canon D OR -> O_no_files OR ->
  static_forest B C OR ts = true ->
  render_doc B C OR ts = Good (doc, ws) ->
  has_dropped doc = false ->
  skel_node D doc = skel_toks D B C OR ts.
Proof. exact faithful. Qed.
Print Assumptions C02_faithful.

(* TOTALITY on the static grammar, up to the registry.  total_forest narrows the static grammar by what the model
   leaves out (Total.total_kind_ok: block-quote attribution, lineno-start / emphasize-lines, image width / height /
   align, html_image / html_admonition, inv: links, glossary definition lists under Sphinx, a heading whose text
   would contain a system message, {eval-rst}, a dynamic token whose run the oracle does not answer within the
   accepted fragment) and by token shapes markdown-it always delivers (heading tag h1..h6, meta keys, table /
   definition-list / field-list structure).  For both back ends, every configuration and oracle behaviour, every
   such forest is rendered - no `Fail` of the renderer is reachable, every heading finds its parent section, every
   current_node_context finds its node - or one of the operations of the registry interface (Total.reg_api:
   allocation, warnings, copy_attributes, note_explicit/implicit_target, names, note_*footnote*, set_id, the splice
   of oracle nodes) returned the error.  That those operations do not fail on the states the renderer produces is
   docutils' registry protocol: not proved; every correspondence case exercises it and the extracted premise is
   evaluated on every case (evidence counts measured:totality: no forest satisfying it has failed to render). *)
Theorem C02_total : forall B C OR ts,
  total_forest B C OR ts = true ->
  (exists doc ws, render_doc B C OR ts = Good (doc, ws)) \/
  (exists e, render_doc B C OR ts = Bad e /\ reg_fail C OR e).
Proof. exact render_doc_total. Qed.
Print Assumptions C02_total.

(* ... hence the faithful image without the premise that the model renders the forest *)
Theorem C02_faithful_total : forall (D : str -> str) B C OR ts,
  O_lexer_concat OR -> O_canon D OR -> O_no_files OR ->
  static_forest B C OR ts = true -> total_forest B C OR ts = true ->
  (exists doc ws, render_doc B C OR ts = Good (doc, ws) /\
                  (has_dropped doc = false -> skel_node D doc = skel_toks D B C OR ts)) \/
  (exists e, render_doc B C OR ts = Bad e /\ reg_fail C OR e).
Proof. exact faithful_total. Qed.
Print Assumptions C02_faithful_total.

(* SOURCE-TRANSLATION TIE (round 3).  render_doc_src is the renderer assembled from Gen/RenderSrc.v, which
   gen/c02_pysrc.py regenerates from base.py on every run: copy_attributes (the loop over token.attrs),
   renderInlineAsText, render_paragraph / em / strong / code_inline / bullet_list / ordered_list / list_item /
   blockquote / hr / hardbreak / softbreak / s / text / math_inline / link_url / image, clean_astext and the registry
   part of generate_heading_target statement by statement; render_heading, update_section_level_state (the three
   tests on the level map and the warning), render_table and render_table_row from statement templates whose
   parameters (copied keys, classes, comparison operators, alignment styles) are read from the source; the methods
   that are only transcribed by hand, the Sphinx overrides, the dispatch loops and the transforms are pinned by
   the hash of their source.  An edit of one of these Python methods changes the regenerated definition; the
   equalities of Doc/RenderSrcProofs.v (regenerated = hand-written, by conversion) and hence this theorem are
   re-checked against it. *)
Theorem C02_faithful_src : forall (D : str -> str) B C OR ts doc ws,
  O_lexer_concat OR -> O_canon D OR -> O_no_files OR ->
  static_forest B C OR ts = true ->
  render_doc_src B C OR ts = Good (doc, ws) ->
  has_dropped doc = false ->
  skel_node D doc = skel_toks D B C OR ts.
Proof. exact faithful_src. Qed.
Print Assumptions C02_faithful_src.

(* the alt text of an image: the regenerated renderInlineAsText is the function the specification uses
   (text leaves, a soft break as a newline, everything else by its children) *)
Theorem C02_image_alt_src : forall r, inline_as_text_src r = inline_as_text r.
Proof. exact image_alt_src. Qed.
Print Assumptions C02_image_alt_src.

(* A dynamic token is spliced exactly once, at its own position: the document that consists of one directive
   fence / role / substitution / front-matter token is the image of the nodes of that run, in order, nothing
   else, and no node object occurs twice (inside a larger forest: C02_faithful + C03_single_occurrence). *)
Theorem C02_dynamic_spliced_once : forall (D : str -> str) B C OR (t : tok) key ns ws doc wsd,
  O_lexer_concat OR -> O_canon D OR -> O_no_files OR ->
  dyn_key C OR t = DKey key -> o_dyn OR (dyn_full_key B key) = Some (ns, ws) ->
  static_forest B C OR [t] = true ->
  render_doc B C OR [t] = Good (doc, wsd) -> has_dropped doc = false ->
  skel_node D doc = skel_nodes D ns /\ NoDup (oids doc).
Proof. exact dynamic_spliced_once. Qed.
Print Assumptions C02_dynamic_spliced_once.

(* The two back ends agree on everything that is not back-end specific, at the level of the skeleton
   (what erase_backend removes: how a code block carries its language; target nodes); for dynamic tokens under
   the premise that the two runs have the same image (O_dyn_agree).  PARTIAL: see the next theorem and the
   measured statement below it for the attributes outside the skeleton. *)
Theorem C02_backends_agree_partial : forall (D : str -> str) C OR ts docD wsD docS wsS,
  O_lexer_concat OR -> O_canon D OR -> O_no_files OR -> O_dyn_agree D OR ->
  static_forest Docutils C OR ts = true -> static_forest Sphinx C OR ts = true ->
  render_doc Docutils C OR ts = Good (docD, wsD) -> has_dropped docD = false ->
  render_doc Sphinx C OR ts = Good (docS, wsS) -> has_dropped docS = false ->
  flat_map erase_backend (skel_node D docD) = flat_map erase_backend (skel_node D docS).
Proof. exact backends_agree. Qed.
Print Assumptions C02_backends_agree_partial.

(* Beyond the skeleton, FULL NODE EQUALITY.  (1) For forests without back-end specific constructs
   (Backends.backend_free: no code block, equation label / amsmath, definition list, dynamic token; links only
   where every link is an external URL) the two renderers are literally the same program: same doctree - every
   node, attribute, name, id - and same warnings, no erasure at all. *)
Theorem C02_backends_same_fragment : forall C OR ts,
  forallb (backend_free C) ts = true -> render_doc Sphinx C OR ts = render_doc Docutils C OR ts.
Proof. exact render_backend_free. Qed.
Print Assumptions C02_backends_same_fragment.

(* (2) For every other forest the specification of "equal up to what is Sphinx specific" is Backends.erase_be:
   system messages; target nodes with a preset `equation-` id; a literal_block's attributes and the shape of its
   children (language attribute vs classes + pygments inlines; text up to one final newline); on math_block
   label / number / numbered / names; pending_xref / download_reference with the inner inline [xref, myst] vs
   reference with refname (destination compared modulo normalizeLinkText, link title `title` vs `reftitle`);
   ids / backrefs / refid (auto_id_prefix), docname and the pending_xref bookkeeping attributes; the MathJax
   classes of a section.  MEASURED, not proved: Backends.agree_check evaluates trees_agree on the documents the
   model produces under both back ends for every correspondence case without dynamic syntax (evidence counts
   measured:backends-tree); the only differences found are the ones where the lexer oracle violates
   O_lexer_concat (open finding backends:literal_block:pygments-stripnl).  Non-vacuity of the comparison: *)
Example C02_backends_tree_example :
  let ts := [tok_heading 1 [tok_text [97]]; tok_fence v_python [120; 10]; tok_math_label [97] [108]] in
  match render_doc Docutils default_cfg dummy_oracles ts, render_doc Sphinx sphinx_cfg dummy_oracles ts with
  | Good (d, _), Good (s, _) => trees_agree (fun x => x) d s = true /\ node_eqb d s = false
  | _, _ => False
  end.
Proof. vm_compute. split; reflexivity. Qed.

(* Code text is verbatim (up to one final newline) under O_lexer_concat: instance of C02_faithful for a
   document that is one fenced code block. *)
Theorem C02_code_verbatim_partial : forall (D : str -> str) B C OR (t : tok) doc ws,
  O_lexer_concat OR -> O_canon D OR -> O_no_files OR ->
  kind_of (ty t) = KFence -> dyn_key C OR t = DStatic -> static_forest B C OR [t] = true ->
  render_doc B C OR [t] = Good (doc, ws) -> has_dropped doc = false ->
  skel_node D doc = [SCode (lang_carried B OR t (Some (fence_name B C OR t))) (strip1nl (content t))].
Proof. exact code_verbatim. Qed.
Print Assumptions C02_code_verbatim_partial.

(* ... and REFUTED without it: with a lexer that drops leading newlines (pygments' stripnl behind docutils'
   Lexer: open finding code-verbatim:pygments-stripnl) the code block "\n\nx\n" is not carried verbatim. *)
Theorem C02_code_verbatim_refuted :
  exists (ts : list tok) doc ws,
    static_forest Docutils default_cfg stripnl_oracles ts = true /\
    render_doc Docutils default_cfg stripnl_oracles ts = Good (doc, ws) /\ has_dropped doc = false /\
    skel_node (fun x => x) doc <> skel_toks (fun x => x) Docutils default_cfg stripnl_oracles ts.
Proof. exact code_verbatim_refuted. Qed.
Print Assumptions C02_code_verbatim_refuted.

(* non-vacuity: a heading, a paragraph with text, and a code fence meet every premise of C02_faithful *)
Example C02_example :
  let ts := [tok_heading 1 [tok_text [97]]; tok_para [tok_text [98]]; tok_fence [] [120; 10]] in
  static_forest Docutils default_cfg dummy_oracles ts = true /\
  match render_doc Docutils default_cfg dummy_oracles ts with
  | Good (doc, _) => has_dropped doc = false /\
                     skel_node (fun x => x) doc = skel_toks (fun x => x) Docutils default_cfg dummy_oracles ts
  | Bad _ => False
  end.
Proof. vm_compute. repeat split; reflexivity. Qed.
