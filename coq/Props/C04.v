(* C04 - Nodes and warnings carry the true source line, at any nesting depth.
   Statements only.  Model: Dir/Lines.v (document grammar [blk], its layout [print]/[print_seq], the true lines
   [locate_seq] known by construction, and the renderer's arithmetic [document_lines], which runs the C08 model of
   parse_directive_text on the printed content of every directive).  Proofs: Dir/LinesProofs.v.

   Oracles (Section variables turned premises):  [tokenize], [yaml_load] arbitrary;  the directive class [sg] and the
   text [first_line] after its name are arbitrary subject to: it has an option_spec, the first line is not body text,
   and it accepts every text (O_parse_ok: no MarkupError, no exception from the tokenizer - see C04_parse_ok_when).
   The markdown-it parser enters through the way [lines_blk] is driven: a block's token.map[0] is the index of its
   first line in the parsed text (O_map), a fence's content is the lines between its fences (O_fence_content). *)
From Coq Require Import List NArith ZArith Bool.
From MV Require Import Base.PyStr.
From MV Require Import Base.Res.
From MV Require Import Dir.PyLines.
From MV Require Import Dir.DirModel.
From MV Require Import Dir.DirProofs.
From MV Require Import Dir.Lines.
From MV Require Import Dir.LinesProofs.
From MV Require Import Gen.LinesSrc.
From MV Require Import Dir.PyRuntime.
From MV Require Import Gen.DirSrc.
From MV Require Import Dir.DirSrcProofs.
From MV Require Import Opt.OptModel.
From MV Require Import Opt.OptComments.
From MV Require Import Dir.DirTokenizer.
Import ListNotations.

(* Every construct - leaf, block quote, list item, plain div, backtick or colon directive with no / ':key:' / '---'
   option block, with any number of blank lines before the body (parse_directive_text strips one and adds 1 to the
   offset, the others stay in the body) and any number after it - at ANY
   nesting depth gets exactly the 1-based line at which it starts in the printed source. *)
Theorem C04_lines_nested :
  forall tokenize yaml_load sg first_line,
  has_option_spec sg = true ->
  first_line_is_body sg first_line = false ->
  (forall content line, exists r,
      parse_directive_text tokenize yaml_load sg first_line content line true None = Ok r) ->
  forall doc, wf_seq doc = true ->
  document_lines tokenize yaml_load sg first_line doc = Ok (lift (locate_seq 1 doc)).
Proof. exact lines_nested. Qed.
Print Assumptions C04_lines_nested.

(* with the C07 model of options_to_items as the tokenizer and a class without arguments (note, tip, warning ...)
   nothing is assumed about the tokenizer: "accepts every text" follows from C07_only_tokenize_error *)
Theorem C04_lines_nested_c07 :
  forall yaml_load sg first_line,
  has_option_spec sg = true -> no_arguments sg = true ->
  first_line_is_body sg first_line = false ->
  forall doc, wf_seq doc = true ->
  document_lines c07_tokenize yaml_load sg first_line doc = Ok (lift (locate_seq 1 doc)).
Proof. exact lines_nested_c07. Qed.
Print Assumptions C04_lines_nested_c07.

(* Source-translation tie.  (a) Every line computed by [document_lines] goes through the expressions REGENERATED from
   base.py / mocking.py (Gen/LinesSrc.v): token_line, the two map updates, content_offset, the lineno of nested_parse,
   the include lineno / start-after advance, the warning line.  Their normal forms - what the theorems above rely on: *)
Theorem C04_arithmetic_src :
  (forall base idx, node_line base idx = (Z.of_nat idx + base + 1)%Z) /\
  (forall map0 map1, token_line_src map0 map1 = map0) /\
  (forall map0 map1, render_tokens_map0_src map0 map1 = (map0 + 1)%Z) /\
  (forall map0 map1 lineno, nested_map0_src map0 map1 lineno = (map0 + lineno)%Z) /\
  (forall body_offset prepended, content_offset_src body_offset prepended = (body_offset - prepended)%Z) /\
  (forall lineno input_offset, nested_parse_lineno_src lineno input_offset = (lineno + input_offset)%Z) /\
  Z.to_nat hack_prepended_src = 1%nat /\
  (forall startline, include_lineno_src startline = (startline + 1)%Z) /\
  (forall lineno position, warning_line_src lineno position = match lineno with Some l => l | None => position end).
Proof. exact arithmetic_src. Qed.
Print Assumptions C04_arithmetic_src.

(* (a') the other line-carrying methods of the mocks, through the regenerated expressions: MockState.block_quote
   (epigraph / pull-quote / highlights) hands the body offset on unchanged, so the body is rendered exactly like an
   admonition's; an attribution found on body index i gets its true line position + 1 + offset + i, for the node and for
   the warnings of its text; MockStateMachine.get_source_and_line; MockState.parse_directive_block. *)
Theorem C04_mock_methods_src :
  (forall position off, block_quote_lineno position off = (position + off)%Z) /\
  (forall position off i, (0 <= i)%Z -> attribution_node_line position off i = (position + 1 + off + i)%Z) /\
  (forall position off i, (0 <= i)%Z -> attribution_text_line position off i = (position + 1 + off + i)%Z) /\
  (forall lineno position, (0 < lineno)%Z -> source_line (Some lineno) position = lineno) /\
  (forall position, source_line None position = position) /\
  (forall lo bo, directive_block_offset lo bo = (lo + bo)%Z).
Proof. exact mock_methods_src. Qed.
Print Assumptions C04_mock_methods_src.

(* Open finding line:directive-title:+1, characterised exactly: docutils directives pass the 1-based line of a title to
   state.inline_text(title, self.lineno); MockInliner.parse hands it to nested_render_text as a 0-based offset, so every
   warning / node from the inline text of a title on line [position] carries position + 1. *)
Theorem C04_directive_title_offset : forall position, title_text_line position = (position + 1)%Z.
Proof. exact title_text_line_eq. Qed.
Print Assumptions C04_directive_title_offset.

(* (b) the directive splitter the line model runs is the one regenerated from parsers/directives.py (Gen/DirSrc.v) *)
Theorem C04_splitter_src :
  forall tokenize yaml_load sg first_line content line validate additional,
  parse_directive_text_src tokenize yaml_load sg first_line content line validate additional =
  parse_directive_text tokenize yaml_load sg first_line content line validate additional.
Proof. exact parse_directive_text_src_eq. Qed.
Print Assumptions C04_splitter_src.

(* the same for a block anywhere inside a nested render: [base] is the lineno accumulated so far, [idx] the
   token.map[0] the parser reports (the inductive statement behind C04_lines_nested) *)
Theorem C04_lines_at_depth :
  forall tokenize yaml_load sg first_line,
  has_option_spec sg = true ->
  first_line_is_body sg first_line = false ->
  (forall content line, exists r,
      parse_directive_text tokenize yaml_load sg first_line content line true None = Ok r) ->
  forall b, wf b = true ->
  forall base idx start, Z.of_nat start = (Z.of_nat idx + base + 1)%Z ->
  lines_blk tokenize yaml_load sg first_line base idx b = Ok (lift (locate start b)).
Proof. exact lines_at_depth. Qed.
Print Assumptions C04_lines_at_depth.

(* the premise "accepts every text" holds e.g. for every class without arguments whose option tokenizer fails only
   with TokenizeError (converter failures become warnings) *)
Theorem C04_parse_ok_when :
  forall tokenize yaml_load sg first_line,
  no_arguments sg = true ->
  (forall b, match tokenize b with Ok _ => True | Raise (TokenizeError _) => True | Raise _ => False end) ->
  forall content line additional,
  exists r, parse_directive_text tokenize yaml_load sg first_line content line true additional = Ok r.
Proof. exact parse_ok_when. Qed.
Print Assumptions C04_parse_ok_when.

(* Warnings of a directive are created with line = the directive's first line; option warnings of a '---' block carry
   the line of the opening '---' (the directive's line + 1). *)
Theorem C04_warning_lines :
  forall tokenize yaml_load sg first_line content position validate additional r,
  parse_directive_text tokenize yaml_load sg first_line content (Some position) validate additional = Ok r ->
  forall w, In w (r_warnings r) ->
  warning_line position w =
  match opt_line w with
  | Some _ => if startswith content dashes then S position else position
  | None => position
  end.
Proof. exact warning_lines. Qed.
Print Assumptions C04_warning_lines.

(* Inline level: _render_tokens copies the block token's map to its inline children, so every inline-created node and
   warning (unknown role, link, image, footnote reference, html_inline ...) carries the FIRST line of its block, not the
   line it is written on.  Reading used for the property: the "construct that produced it" is the block (markdown-it has
   no line information for inline tokens), so this is what [locate] expects of inline constructs too. *)
Theorem C04_inline_lines :
  forall tokenize yaml_load sg first_line base idx k m more ins,
  lines_blk tokenize yaml_load sg first_line base idx (Leaf k m more ins) =
  Ok ((m, (Z.of_nat idx + base + 1)%Z) :: map (fun p => (fst p, (Z.of_nat idx + base + 1)%Z)) ins).
Proof. exact inline_lines. Qed.
Print Assumptions C04_inline_lines.

(* Open finding line:include:+1, characterised exactly: for an included file rendered from line index s on, EVERY
   construct at any depth is reported at its true line in the file + 1 - no other shift. *)
Theorem C04_include_lines_offset :
  forall tokenize yaml_load sg first_line,
  has_option_spec sg = true ->
  first_line_is_body sg first_line = false ->
  (forall content line, exists r,
      parse_directive_text tokenize yaml_load sg first_line content line true None = Ok r) ->
  forall s body, wf_seq body = true ->
  include_lines tokenize yaml_load sg first_line s body = Ok (lift (shift1 (locate_seq (s + 1) body))).
Proof. exact include_lines_offset. Qed.
Print Assumptions C04_include_lines_offset.

(* Open finding line:dir-firstline-body, characterised exactly: when the text after the directive name is body text,
   every document is rendered to [locate_seq_gen true] (the children of a directive are placed 2 + blank_before lines
   after its first line, whatever option block stands in between); for a directive without option block whose body
   holds no further directive that is the true line + 1 for every construct of the body. *)
Theorem C04_first_line_body_offset :
  forall tokenize yaml_load sg first_line,
  has_option_spec sg = true ->
  first_line_is_body sg first_line = true ->
  (forall content line, exists r,
      parse_directive_text tokenize yaml_load sg first_line content line true None = Ok r) ->
  (forall doc, wf_seq doc = true ->
     document_lines tokenize yaml_load sg first_line doc = Ok (lift (locate_seq_gen true 1 doc))) /\
  (forall start m fk n bb ba bs, dir_free_seq bs = true ->
     locate_gen true start (Dir m fk NoOpts n bb ba bs) =
     (m, start) :: shift1 (locate_seq (start + 1 + bb) bs)).
Proof. exact first_line_body_offset. Qed.
Print Assumptions C04_first_line_body_offset.

(* Includes: the line counter handed to the nested render is start-line + 1 (+ the number of line breaks skipped by
   start-after).  PARTIAL: this makes lines relative to the included file only up to a constant + 1 - see
   C04_include_lines_refuted (open finding line:include:+1; the repository's fixtures pin the value). *)
Theorem C04_include_lines_partial :
  (forall file_lines start_line,
     let s := match start_line with Some s => s | None => O end in
     include_start file_lines start_line None =
     Some ((s + 1)%nat, join_nl (firstn (length file_lines - s) (skipn s file_lines)))) /\
  (forall file_lines start_line needle ln text,
     include_start file_lines start_line (Some needle) = Some (ln, text) ->
     let s := match start_line with Some s => s | None => O end in
     exists skipped, join_nl (include_select file_lines start_line None) = skipped ++ text /\
                     ln = (s + count_nl skipped + 1)%nat).
Proof. exact (conj include_lineno_plain include_lineno_start_after). Qed.
Print Assumptions C04_include_lines_partial.

(* a block on line k+1 of an included file is reported at k + lineno + 1 = k + 2 *)
Theorem C04_include_lines_refuted :
  exists file_lines k ln text,
    include_start file_lines None None = Some (ln, text) /\ (k + ln + 1 <> k + 1)%nat.
Proof. exact include_off_by_one. Qed.
Print Assumptions C04_include_lines_refuted.

(* before fix 451703c start-after added a character index: a two-line file got lineno 16 *)
Theorem C04_include_start_after_char_index_refuted :
  exists file_lines needle ln ln' text,
    include_start_old file_lines needle = Some (ln, text) /\
    include_start file_lines None (Some needle) = Some (ln', text) /\
    (length file_lines < ln)%nat /\ ln' = 1%nat.
Proof. exact include_start_after_old_refuted. Qed.
Print Assumptions C04_include_start_after_char_index_refuted.

(* text on the first line of a no-argument directive is the first body line, but body_offset stays 0: the following
   body lines are reported one line too low (open finding line:dir-firstline-body) *)
Theorem C04_first_line_body_refuted :
  exists fl content position r,
    first_line_is_body note_sig fl = true /\
    parse_directive_text stub_tok (fun _ => Y_falsy) note_sig fl content (Some position) true None = Ok r /\
    nth_error (r_body r) 1 = nth_error (splitlines content) 0 /\
    nth_error (splitlines content) 0 <> None /\
    (Z.of_nat 1 + (Z.of_nat position + r_body_offset r) + 1 <> Z.of_nat position + 0 + 1)%Z.
Proof. exact first_line_body_refuted. Qed.
Print Assumptions C04_first_line_body_refuted.

(* ---- non-vacuity: a colon directive holding a colon directive (the prepended-line case) with a ':key:' block, three
   blank lines before its body and a trailing blank line, inside a quote inside a list item; the premises of C04_lines_nested hold for note_sig/stub_tok ---- *)
Definition ex_doc : list blk :=
  [ListItem 1 [Quote 2 [Dir 3 ColonFence NoOpts 0 0 0
                          [Dir 4 ColonFence ColonOpts 1 3 1 [Leaf LPara 5 1 [(8%nat, 1%nat)]; Leaf LTable 6 0 []]]]];
   Leaf LHeading 7 0 []].

Example C04_example :
  wf_seq ex_doc = true /\
  document_lines stub_tok (fun _ => Y_falsy) note_sig [] ex_doc =
  Ok [(1%nat, 1%Z); (2%nat, 1%Z); (3%nat, 1%Z); (4%nat, 2%Z); (5%nat, 8%Z); (8%nat, 8%Z); (6%nat, 11%Z); (7%nat, 17%Z)].
Proof. split; vm_compute; reflexivity. Qed.
