From Coq Require Import Extraction ExtrOcamlBasic NArith List.
From MV Require Import Base.PyStr Base.Res Refs.RUtil Refs.Anchors.
Extraction Language OCaml.
Extraction "model.ml" N.succ N.to_nat apply build_explicit resolve_one warnings_of.
