From Coq Require Import Extraction ExtrOcamlBasic ExtrOcamlString NArith List String.
From MV Require Import Hist.HistDefs Hist.Hist.
Extraction Language OCaml.
Extraction "model.ml" N.succ N.to_nat trace kl_table ws_table klass_name.
