From Coq Require Import Extraction ExtrOcamlBasic NArith List.
From MV Require Import Base.PyStr.
From MV Require Import Base.Res.
From MV Require Import Doc.Str.
From MV Require Import Doc.Tok.
From MV Require Import Doc.Node.
From MV Require Import Doc.Registry.
From MV Require Import Doc.Prog.
From MV Require Import Doc.Render.
From MV Require Import Doc.Transforms.
From MV Require Import Doc.Skel.
From MV Require Import Doc.WF.
From MV Require Import Doc.SkelCheck.
From MV Require Import Doc.Backends.
Extraction Language OCaml.
Extraction "model.ml" N.succ N.to_nat render_doc render_xform faithful_check total_check xform_check agree_check.
