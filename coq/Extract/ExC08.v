From Coq Require Import Extraction ExtrOcamlBasic NArith ZArith List.
From MV Require Import Base.PyStr.
From MV Require Import Base.Res.
From MV Require Import Dir.PyLines.
From MV Require Import Dir.DirModel.
Extraction Language OCaml.
Extraction "model.ml" N.succ N.to_nat Z.of_nat parse_directive_text dedent splitlines split_ws split_max
  old_body_and_offset.
