From Coq Require Import Extraction ExtrOcamlBasic NArith List.
From MV Require Import Base.PyStr Base.Res Refs.RUtil Refs.Anchors Sect.Slug Sect.SlugTables Sect.SlugIds Gen.PyUnicodeSlug.
Extraction Language OCaml.
Extraction "model.ml" N.succ N.to_nat render_slugs print_anchors default_slugify plugin_slugify
  py_lower py_is_space py_is_word py_supported render_class plugin_class inline_title rev assign_ids.
