From Coq Require Import Extraction ExtrOcamlBasic NArith List.
From MV Require Import Base.PyStr Base.Res Nest.Raw.
Extraction Language OCaml.
Extraction "model.ml" N.succ N.to_nat post_process has_raw count_raw include_run_prefix.
