From Coq Require Import Extraction ExtrOcamlBasic NArith List.
From MV Require Import Base.PyStr Cfg.StrLit Cfg.WarnTypes Cfg.Warn.
Extraction Language OCaml.
Extraction "model.ml" N.succ N.to_nat is_suppressed sphinx_is_suppressed create_warning run strip tag_matches.
