From Coq Require Import Extraction ExtrOcamlBasic NArith List.
From MV Require Import Base.PyStr Base.Res Nest.Lines Nest.Split Nest.Fence.
Extraction Language OCaml.
Extraction "model.ml" N.succ N.to_nat split_lines unlines parse_info directive_name
  parse_directive_text adm_class admt_class print_lines nested_calls closes no_closer
  directive_content opt_lines parse_fence.
