From Coq Require Import Extraction ExtrOcamlBasic NArith List.
From MV Require Import Base.Res Sect.Sections.
Extraction Language OCaml.
Extraction "model.ml" N.succ N.to_nat render_document run_levels.
