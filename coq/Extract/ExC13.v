From Coq Require Import Extraction ExtrOcamlBasic NArith ZArith List.
From MV Require Import Base.PyStr Base.Res Cfg.StrOps Cfg.Cfg Cfg.CfgSpec Gen.Config Cfg.MdParserPrelude Gen.MdParserSrc.
Extraction Language OCaml.
Extraction "model.ml" N.succ N.to_nat Z.of_N validate mk_config copy merge_file_level merge_file_level_gen
  docutils_config decode_options sphinx_config decode optparse_kind fields known_extensions optparse_rules cfg_get unused_rule_indices rule_index copy_o shares_field create_md_parser_src.
