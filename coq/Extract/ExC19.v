From Coq Require Import Extraction ExtrOcamlBasic NArith List.
From MV Require Import Base.PyStr Inv.WildModel Inv.SphinxModel.
From MV Require Import Inv.LinkModel.
Extraction Language OCaml.
Extraction "model.ml" N.succ N.to_nat match_with_wildcard pmatch create_regex filter_inventories inv_link to_sphinx filter_sphinx_inventories render_link_inventory.
