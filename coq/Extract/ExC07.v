From Coq Require Import Extraction ExtrOcamlBasic NArith List.
From MV Require Import Base.PyStr.
From MV Require Import Base.Res.
From MV Require Import Gen.OptConsts.
From MV Require Import Opt.OptModel.
From MV Require Import Opt.YamlSpec.
From MV Require Import Opt.OptMarksDef.
From MV Require Import Opt.OptCommentsDef.
Extraction Language OCaml.
Extraction "model.ml" N.succ N.to_nat options_to_items tokenize print_block meaning_block wf_block error_mark options_to_items_state.
