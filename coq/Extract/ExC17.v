From Coq Require Import Extraction ExtrOcamlBasic NArith List.
From MV Require Import Base.PyStr Base.Res Html.HtmlTypes Gen.Html Gen.HtmlNodes Html.HtmlModel Html.HtmlToNodes Html.OptRead Html.OptReadProofs Html.OptExtract.
Extraction Language OCaml.
Extraction "model.ml" N.succ N.to_nat gfm_filter tag_ahead option_line option_value plain_fullmatch html_to_nodes options_to_items extract_options.
