From Coq Require Import Extraction ExtrOcamlBasic NArith List.
From MV Require Import Base.PyStr.
From MV Require Import XRef.Path.
From MV Require Import XRef.XRefModel.
Extraction Language OCaml.
Extraction "model.ml" N.succ N.to_nat
  split_on before after normpath pjoin docname_join path_root path_parts relfn2path path2doc
  relative_uri target_uri get_relative_uri resolve_ref relpath scheme_of lower
  render_link run_link_plain count_missing.
