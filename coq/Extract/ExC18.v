From Coq Require Import Extraction ExtrOcamlBasic NArith List.
From MV Require Import Base.PyStr Inv.WildModel InvLoad.Regex Gen.Inventory InvLoad.Basics InvLoad.PyText
  InvLoad.Reader InvLoad.Load InvLoad.SphinxInv InvLoad.TableCodec InvLoad.Cli.
Extraction Language OCaml.
Extraction "model.ml" N.succ N.to_nat load_exec sphinx_exec to_sphinx from_sphinx
  utf8_decode rstrip brstrip split_ws splitlines pjoin match_line_exec contains
  cli_filter cli_fetch fetch_inventory.
