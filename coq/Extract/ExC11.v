From Coq Require Import Extraction ExtrOcamlBasic NArith ZArith List.
From MV Require Import Base.PyStr Base.Res Refs.RUtil Gen.Transforms Refs.Foot Refs.FootOps Refs.DocutilsOps Gen.DocutilsFootSrc.
Extraction Language OCaml.
Extraction "model.ml" N.succ N.to_nat run run_legacy run_with pipeline docutils_footnotes ref_out dappend dval footnotes_apply_src ds_init project ref_result.
