From Coq Require Import Extraction ExtrOcamlBasic NArith ZArith List.
From MV Require Import Base.PyStr.
From MV Require Import Base.Res.
From MV Require Import Dir.PyLines.
From MV Require Import Dir.DirModel.
From MV Require Import Dir.Lines.
Extraction Language OCaml.
Extraction "model.ml" N.succ N.to_nat Z.of_nat print_seq locate_seq document_lines include_lines include_start include_start_old
  warning_line.
