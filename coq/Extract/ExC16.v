From Coq Require Import Extraction ExtrOcamlBasic NArith List.
From MV Require Import Base.PyStr Base.Res Html.HtmlTypes Gen.Html Html.HtmlModel.
Extraction Language OCaml.
Extraction "model.ml" N.succ N.to_nat
  init_tree build tokenize render_top walk_top find_top deepcopy_top strip_top
  print_doc events_doc wf_doc get.
