(* C15: hand classification of the regenerated global writes, and the abstract process model
   in which history independence is proved.  Executable definitions only; proofs in HistProofs.v. *)
From Coq Require Import List String Bool Arith.
From MV Require Import Hist.HistDefs Gen.GlobalWrites.
Import ListNotations.
Open Scope string_scope.

(* ------------------------------------------------------------------ classification table
   file, function, target ("*" = every write of the function), class, probe id, justification.
   The probe id names the history of the correspondence check that would expose the cell if it leaked. *)
Definition classification : list (string * string * string * klass * string * string) := [
  ("myst_parser/config/main.py", "check_extensions", "inst.field.name", FreshObject, "merge",
   "validators coerce the value on the instance they validate: the config under construction (__post_init__) or the copy made by merge_file_level");
  ("myst_parser/config/main.py", "check_url_schemes", "inst.field.name", FreshObject, "merge", "see check_extensions");
  ("myst_parser/config/main.py", "check_heading_slug_func", "inst.field.name", FreshObject, "merge", "see check_extensions");
  ("myst_parser/config/main.py", "check_fence_as_directive", "inst.field.name", FreshObject, "merge", "see check_extensions");
  ("myst_parser/inventory.py", "_create_regex", "functools.lru_cache", PureCache, "regex-cache",
   "lru_cache of a pure function of the pattern string (C19 model); a hit returns the regex a miss would compile");
  ("myst_parser/mdit_to_docutils/base.py", "DocutilsRenderer._render_finalise",
   "self.sphinx_env.metadata[self.sphinx_env.docname]['myst_slugs']", WriteBeforeRead, "sphinx-metadata",
   "slot of the current document in env.metadata (keyed by docname); Sphinx clears it before re-reading the document");
  ("myst_parser/mdit_to_docutils/base.py", "DocutilsRenderer._render_finalise", "self.sphinx_env.metadata.setdefault",
   WriteBeforeRead, "sphinx-metadata", "slot of the current document in env.metadata (keyed by docname)");
  ("myst_parser/mocking.py", "MockIncludeDirective.run", "self.document.settings.record_dependencies.add", WriteBeforeRead, "include",
   "dependency list of the document being parsed (settings object of the current document)");
  ("myst_parser/mocking.py", "MockRSTParser.parse", "roles._roles['']", RestoredInFinally, "default-role",
   "docutils' RST parser removes the default role at the end of a parse; the mock puts the previous entry back");
  ("myst_parser/parsers/docutils_.py", "Parser.parse", "roles._roles.pop", RestoredInFinally, "default-role",
   "the default role a {default-role} directive may have set during the parse is removed at the end of the parse (as the docutils rST parser does): the entry is absent before and after every parse");
  ("myst_parser/parsers/docutils_.py", "Parser.parse", "HTMLTranslator.visit_rubric", IdempotentConst, "html-writer",
   "module-level function assigned at the very start of every parse; only writers read it");
  ("myst_parser/parsers/docutils_.py", "Parser.parse", "HTMLTranslator.depart_rubric", IdempotentConst, "html-writer", "see visit_rubric");
  ("myst_parser/parsers/docutils_.py", "Parser.parse", "HTMLTranslator.visit_container", IdempotentConst, "html-writer", "see visit_rubric");
  ("myst_parser/parsers/docutils_.py", "Parser.parse", "HTMLTranslator.depart_container", IdempotentConst, "html-writer", "see visit_rubric");
  ("myst_parser/sphinx_ext/directives.py", "FigureMarkdown.run", "state._renderer.md_config.enable_extensions.add", RestoredInFinally, "figure-md",
   "html_image is added for the nested parse of the figure body and the saved copy is assigned back in the finally clause");
  ("myst_parser/sphinx_ext/directives.py", "FigureMarkdown.run", "state._renderer.md_config.enable_extensions", RestoredInFinally, "figure-md",
   "the assignment in the finally clause that restores the saved copy");
  ("myst_parser/sphinx_ext/main.py", "setup_sphinx", "*", NotInParse, "-", "extension set-up, run once per Sphinx application");
  ("myst_parser/sphinx_ext/main.py", "create_myst_config", "*", NotInParse, "-", "builder-inited handler, once per build, before any document is read");
  ("myst_parser/sphinx_ext/mathjax.py", "override_mathjax", "*", NotInParse, "-", "builder-inited handler, once per build")
].

(* cells whose Leak classification is an open finding (reproduced by the search on every run) *)
Definition open_leaks : list string := [
  (* none today.  Until commit 0676245 (C11 builder): self.document.settings.myst_footnote_transition / myst_footnote_sort,
     per-document values written onto a settings object that several publish calls may share, under the names of the global
     options (found by the shared-settings histories of round 4). *)
].

Definition entry_matches (w : gwrite) (e : string * string * string * klass * string * string) : bool :=
  match e with (f, g, t, _, _, _) =>
    String.eqb f (w_file w) && String.eqb g (w_func w) && (String.eqb t "*" || String.eqb t (w_target w))
  end.

Definition classify (w : gwrite) : option klass :=
  match find (entry_matches w) classification with
  | Some (_, _, _, k, _, _) => Some k
  | None => None
  end.

Definition classified (w : gwrite) : bool := match classify w with Some _ => true | None => false end.
Definition is_leak (w : gwrite) : bool := match classify w with Some Leak => true | _ => false end.

(* classification entries that no longer match any write of the source *)
Definition entry_live (e : string * string * string * klass * string * string) : bool :=
  existsb (fun w => entry_matches w e) writes.

(* renderer state: every self.<attr> read by the renderer classes is a method / property / constant
   class attribute, or is assigned by __init__ / setup_render (i.e. re-initialised for every render) *)
Definition mem_s (x : string) (l : list string) : bool := existsb (String.eqb x) l.
Definition render_state_reset : bool :=
  forallb (fun a => mem_s a render_init || mem_s a render_members) render_reads.

(* table rendering for the correspondence harness: file|func|target|class|probe; *)
Definition write_line (w : gwrite) : string :=
  w_file w ++ "|" ++ w_func w ++ "|" ++ w_target w ++ "|" ++
  match find (entry_matches w) classification with
  | Some (_, _, _, k, p, _) => klass_name k ++ "|" ++ p
  | None => "UNCLASSIFIED|-"
  end ++ ";".
Definition hist_table : string := String.concat "" (map write_line writes).

(* ------------------------------------------------------------------ abstract process model *)

Section Model.
  Variables (I O value key : Type).
  Variable key_eqb : key -> key -> bool.
  Variable kl : string -> klass.               (* class of every cell of the process state *)
  Variable ws : list string.                   (* the cells one parse writes, in program order *)
  Variable K : string -> value.                (* IdempotentConst: the constant written *)
  Variable W : string -> I -> value.           (* WriteBeforeRead: a function of the current input *)
  Variable F : string -> key -> value.         (* PureCache: the pure function that is memoised *)
  Variable keyof : string -> I -> key.
  Variable T : string -> value -> value.       (* RestoredInFinally: the temporary content during the parse *)
  Variable L : string -> I -> value -> value.  (* Leak: the new content depends on the old one *)
  Variable init : string -> value.
  Variable out_fn : I -> (string -> value) -> O.   (* output = function of the input and of what reads of cells observe *)

  Inductive cstate := Plain (v : value) | Cache (es : list (key * value)).
  Definition G := string -> cstate.

  Definition g0 : G := fun c => match kl c with PureCache => Cache [] | _ => Plain (init c) end.

  Definition upd (g : G) (c : string) (s : cstate) : G := fun c' => if String.eqb c' c then s else g c'.

  Definition step (i : I) (g : G) (c : string) : G :=
    match kl c with
    | IdempotentConst => upd g c (Plain (K c))
    | WriteBeforeRead => upd g c (Plain (W c i))
    | PureCache => match g c with
                   | Cache es => upd g c (Cache ((keyof c i, F c (keyof c i)) :: es))
                   | Plain _ => g
                   end
    | Leak => match g c with Plain v => upd g c (Plain (L c i v)) | Cache _ => g end
    | RestoredInFinally | FreshObject | NotInParse => g      (* net effect on the process state: none *)
    end.

  Fixpoint steps (i : I) (g : G) (cs : list string) : G :=
    match cs with [] => g | c :: t => steps i (step i g c) t end.

  Fixpoint cache_get (es : list (key * value)) (k : key) : option value :=
    match es with
    | [] => None
    | (k', v) :: t => if key_eqb k k' then Some v else cache_get t k
    end.

  (* what a read of cell c observes during the parse of i, g being the state after the parse's writes *)
  Definition observe (i : I) (g : G) (c : string) : value :=
    match g c with
    | Cache es => match cache_get es (keyof c i) with Some v => v | None => F c (keyof c i) end
    | Plain v => match kl c with RestoredInFinally => T c v | _ => v end
    end.

  Definition parse (g : G) (i : I) : O * G :=
    let g1 := steps i g ws in (out_fn i (observe i g1), g1).

  Fixpoint run (g : G) (h : list I) : G :=
    match h with [] => g | i :: t => run (snd (parse g i)) t end.

  Definition out_after (h : list I) (i : I) : O := fst (parse (run g0 h) i).
  Definition out_fresh (i : I) : O := fst (parse g0 i).
End Model.

(* ------------------------------------------------------------------ merging worker environments
   Sphinx: per-document data live under env.metadata[docname]; merging the environment of a read
   worker into the main one copies the entries of the worker's documents. *)
Section Merge.
  Variable data : Type.
  Definition env := list (string * data).            (* association list: first binding wins *)
  Fixpoint elookup (k : string) (e : env) : option data :=
    match e with [] => None | (k', v) :: t => if String.eqb k k' then Some v else elookup k t end.
  Definition eset (e : env) (k : string) (v : data) : env := (k, v) :: e.

  (* a worker: the documents it read and its environment *)
  Definition worker := (list string * env)%type.

  (* BuildEnvironment.merge_info_from(docnames, other): self.metadata[d] = other.metadata[d] *)
  Fixpoint merge_docs (main : env) (docs : list string) (other : env) : env :=
    match docs with
    | [] => main
    | d :: t => match elookup d other with
                | Some v => merge_docs (eset main d v) t other
                | None => merge_docs main t other
                end
    end.

  Definition merge_worker (main : env) (w : worker) : env := merge_docs main (fst w) (snd w).
  Definition merge_all (main : env) (wks : list worker) : env := fold_left merge_worker wks main.
End Merge.

(* ------------------------------------------------------------------ the model instance given by the tables,
   and a concrete run of it (extracted for the correspondence check: coq/Extract/ExC15.v) *)
Definition ws_table : list string := map w_target writes.
Definition kl_table (c : string) : klass :=
  match find (fun w => String.eqb (w_target w) c) writes with
  | Some w => match classify w with Some k => k | None => Leak end
  | None => NotInParse          (* not a cell the package writes *)
  end.

(* inputs are numbered; the constant written is 1, a per-document value is 2 + input, the cached
   function is the identity on keys, the key of an input is the input, a leak adds to the old content *)
Definition trace_step (g : G nat nat) (i : nat) : G nat nat :=
  steps nat nat nat kl_table (fun _ => 1) (fun _ i => 2 + i) (fun _ k => k) (fun _ i => i) (fun _ i v => S (v + i)) i g ws_table.

Fixpoint trace_states (g : G nat nat) (h : list nat) : list (G nat nat) :=
  match h with [] => [] | i :: t => let g' := trace_step g i in g' :: trace_states g' t end.

(* the cell states before the first parse and after each parse of the history, for the given cells *)
Definition trace (cells : list string) (h : list nat) : list (list (cstate nat nat)) :=
  let g := g0 nat nat kl_table (fun _ => 0) in
  map (fun st => map st cells) (g :: trace_states g h).

(* ------------------------------------------------------------------ source translation (round 3) *)

(* every attribute that some renderer method reads before writing it is Fresh after construction + setup_render,
   whatever an earlier render left in it *)
Definition state_reads : list string := map snd reads_before_write.

(* attributes that belong to the parser object, not to one render: assigned by __init__ only, by design *)
Definition ctor_scoped : list (string * string) := [
  ("md", "the MarkdownIt parser the renderer belongs to: a constructor constant");
  ("rules", "the dispatch table render_<type> -> bound method, built once from the class: a constructor constant");
  ("_inventories", "inventories loaded lazily for the configuration the parser object was created with (create_md_parser binds one MdParserConfig to the object): a memo of that configuration, not per-render state")
].
Definition is_ctor_scoped (a : string) : bool := existsb (fun e => String.eqb a (fst e)) ctor_scoped.

(* a parser object may render several documents (md.render(t1); md.render(t2)): every other attribute that a method reads
   before writing must be assigned by setup_render ALONE, whatever earlier renders (and __init__) left in the instance *)
Definition reset_ok (st : rstate) : bool :=
  forallb (fun a => is_ctor_scoped a || is_fresh (setup_render_src st a)) state_reads.
(* the constructor-scoped attributes are assigned by __init__ *)
Definition ctor_ok (st : rstate) : bool :=
  forallb (fun e => is_fresh (init_src st (fst e))) ctor_scoped.

(* merge_file_level on named objects: parameters are objects 0, 1, 2 ...; a copy or a new value is a new object *)
Fixpoint mlookup (v : string) (env : list (string * nat)) : option nat :=
  match env with [] => None | (k, o) :: t => if String.eqb v k then Some o else mlookup v t end.

Fixpoint merge_run (steps : list mstep) (env : list (string * nat)) (next : nat) (written returned : list nat)
  : option (list nat * list nat) :=
  match steps with
  | [] => Some (written, returned)
  | MBindCopy v p :: t => match mlookup p env with
                          | Some _ => merge_run t ((v, next) :: env) (S next) written returned
                          | None => None
                          end
  | MBindAlias v p :: t => match mlookup p env with
                           | Some o => merge_run t ((v, o) :: env) next written returned
                           | None => None
                           end
  | MBindFresh v :: t => merge_run t ((v, next) :: env) (S next) written returned
  | MWrite v :: t => match mlookup v env with
                     | Some o => merge_run t env next (o :: written) returned
                     | None => None
                     end
  | MReturn v :: t => match mlookup v env with
                      | Some o => merge_run t env next written (o :: returned)
                      | None => None
                      end
  end.

Fixpoint number_params (ps : list string) (n : nat) : list (string * nat) :=
  match ps with [] => [] | p :: t => (p, n) :: number_params t (S n) end.

Definition merge_result : option (list nat * list nat) :=
  merge_run merge_file_level_src (number_params merge_file_level_params 0) (List.length merge_file_level_params) [] [].

Definition mem_nat (n : nat) (l : list nat) : bool := existsb (Nat.eqb n) l.
(* the config parameter is object 0: never written, never returned; something is returned *)
Definition merge_copies_ok : bool :=
  match merge_result with
  | Some (written, returned) => negb (mem_nat 0 written) && negb (mem_nat 0 returned) &&
                                match returned with [] => false | _ => true end
  | None => false
  end.

(* ------------------------------------------------------------------ Sphinx environment uses in read-phase code (round 5)
   function ("*" = any), attribute, class, justification.  With parallel reading each worker has its own copy of the
   environment, in which the incrementally filled tables only know the documents read by that worker so far. *)
Definition env_class : list (string * string * eclass * string) := [
  ("*", "config", EComplete, "the Sphinx configuration: fixed before reading starts");
  ("*", "srcdir", EComplete, "source directory: fixed");
  ("*", "app", EComplete, "the application object (events.emit of include-read)");
  ("*", "myst_config", EComplete, "created by the builder-inited handler, before any document is read");
  ("*", "found_docs", EComplete, "all source documents, discovered by env.find_files before reading starts (identical in every worker)");
  ("*", "relfn2path", EComplete, "pure function of srcdir and the current docname");
  ("*", "path2doc", EComplete, "pure function of the project's source suffixes and srcdir");
  ("*", "docname", ECurrentDoc, "the document being read");
  ("*", "temp_data", ECurrentDoc, "per-document scratch data (highlight_language set by a directive of the same document)");
  ("*", "metadata", EWriteOwnSlot, "written under the current docname only (myst_slugs, wordcount); merged from the workers by docname (C15_merge_commutes)");
  ("*", "note_included", EWriteOwnSlot, "records a dependency of the current document; env.included is merged from the workers");
  ("*", "get_domain", EWriteOwnSlot, "math domain: note_equation / get_equation_number_for exactly as sphinx.directives.patches.MathDirective; merged by MathDomain.merge_domaindata and renumbered at resolve time");
  ("DocutilsRenderer._render_finalise", "<object>", EIdentity, "truthiness test");
  ("DocutilsRenderer.create_highlighted_code_block", "<object>", EIdentity, "is not None");
  ("DocutilsRenderer.render_fence", "<object>", EIdentity, "is not None");
  ("DocutilsRenderer.blocks_mathjax_processing", "<object>", EIdentity, "is not None");
  ("DocutilsRenderer.render_dl", "<object>", EWriteOwnSlot, "handed to sphinx.domains.std.make_glossary_term, which registers the term for the current document (std domain data are merged from the workers)");
  ("DocutilsRenderer.render_substitution", "<object>", EUserDriven, "put into the Jinja context as 'env': what the document's own expression reads from it is the document's choice");
  ("SphinxRenderer.get_inventory_matches", "<object>", EComplete, "InventoryAdapter(env).named_inventory: intersphinx inventories are loaded by its builder-inited handler");
  ("MockIncludeDirective.run", "<object>", EIdentity, "is not None / local alias for the calls listed separately");
  (* the incrementally filled tables, listed so that a use of them is rejected by name *)
  ("*", "all_docs", EFilledWhileReading, "docname -> mtime of the documents read so far by this process");
  ("*", "titles", EFilledWhileReading, "filled by the TitleCollector after each document");
  ("*", "longtitles", EFilledWhileReading, "see titles");
  ("*", "tocs", EFilledWhileReading, "filled by the TocTreeCollector after each document");
  ("*", "toc_num_entries", EFilledWhileReading, "see tocs");
  ("*", "domaindata", EFilledWhileReading, "objects / labels of the documents read so far");
  ("*", "domains", EFilledWhileReading, "see domaindata");
  ("*", "dependencies", EFilledWhileReading, "filled per document");
  ("*", "included", EFilledWhileReading, "filled per document");
  ("*", "images", EFilledWhileReading, "filled by the ImageCollector");
  ("*", "dlfiles", EFilledWhileReading, "filled by the DownloadFileCollector")
].

Definition env_class_of (func attr : string) : option eclass :=
  match find (fun e => match e with (f, a, _, _) => (String.eqb f "*" || String.eqb f func) && String.eqb a attr end) env_class with
  | Some (_, _, k, _) => Some k
  | None => None
  end.

(* every use is classified and none is of an incrementally filled table *)
Definition env_reads_ok : bool :=
  forallb (fun r => match r with (_, func, attr) =>
     match env_class_of func attr with
     | Some k => negb (eclass_eqb k EFilledWhileReading)
     | None => false
     end end) env_reads.
