(* C15: proofs about the abstract process model (history independence), the merge of worker
   environments, and the finite checks over the regenerated tables. *)
From Coq Require Import List String Bool Arith Permutation.
From MV Require Import Hist.HistDefs Gen.GlobalWrites Hist.Hist.
Import ListNotations.
Open Scope string_scope.

Section ModelProofs.
  Variables (I O value key : Type).
  Variable key_eqb : key -> key -> bool.
  Hypothesis key_eqb_eq : forall a b, key_eqb a b = true -> a = b.
  Variable kl : string -> klass.
  Variable ws : list string.
  Variable K : string -> value.
  Variable W : string -> I -> value.
  Variable F : string -> key -> value.
  Variable keyof : string -> I -> key.
  Variable T : string -> value -> value.
  Variable L : string -> I -> value -> value.
  Variable init : string -> value.
  Variable out_fn : I -> (string -> value) -> O.

  Local Notation G := (G value key).
  Local Notation g0 := (g0 value key kl init).
  Local Notation step := (step I value key kl K W F keyof L).
  Local Notation steps := (steps I value key kl K W F keyof L).
  Local Notation cache_get := (cache_get value key key_eqb).
  Local Notation observe := (observe I value key key_eqb kl F keyof T).
  Local Notation parse := (parse I O value key key_eqb kl ws K W F keyof T L out_fn).
  Local Notation run := (run I O value key key_eqb kl ws K W F keyof T L out_fn).

  (* no cell written by a parse is classified Leak *)
  Hypothesis no_leak : forall c, In c ws -> kl c <> Leak.

  Definition valid (c : string) (es : list (key * value)) : Prop :=
    forall k v, cache_get es k = Some v -> v = F c k.

  Lemma upd_same (g : G) c s : upd value key g c s c = s.
  Proof. unfold upd. rewrite String.eqb_refl. reflexivity. Qed.

  Lemma upd_other (g : G) c s c' : c' <> c -> upd value key g c s c' = g c'.
  Proof. unfold upd. intro H. destruct (String.eqb c' c) eqn:E; [apply String.eqb_eq in E; contradiction|reflexivity]. Qed.

  Lemma step_other i (g : G) c c' : c' <> c -> step i g c c' = g c'.
  Proof.
    intro H. unfold Hist.step. destruct (kl c); try reflexivity; try (apply upd_other; exact H).
    - destruct (g c); [reflexivity|apply upd_other; exact H].
    - destruct (g c); [apply upd_other; exact H|reflexivity].
  Qed.

  Lemma steps_other i : forall cs (g : G) c, ~ In c cs -> steps i g cs c = g c.
  Proof.
    induction cs as [|d t IH]; intros g c Hn; [reflexivity|].
    cbn [Hist.steps]. rewrite IH; [|intro; apply Hn; right; assumption].
    apply step_other. intro E. apply Hn. left. symmetry. exact E.
  Qed.

  (* the state that the invariant describes: what every reachable state looks like *)
  Definition Inv (g : G) : Prop :=
    forall c,
      (~ In c ws -> g c = g0 c) /\
      match kl c with
      | PureCache => exists es, g c = Cache value key es /\ valid c es
      | IdempotentConst | WriteBeforeRead => exists v, g c = Plain value key v
      | _ => g c = g0 c
      end.

  Lemma Inv_g0 : Inv g0.
  Proof.
    intro c. split; [reflexivity|]. unfold Hist.g0. destruct (kl c); try reflexivity; try (eexists; reflexivity).
    exists []. split; [reflexivity|]. intros k v H. discriminate.
  Qed.

  (* per-class shape of a cell, preserved by every step *)
  Definition shape (c : string) (s : cstate value key) : Prop :=
    match kl c with
    | PureCache => exists es, s = Cache value key es /\ valid c es
    | IdempotentConst | WriteBeforeRead => exists v, s = Plain value key v
    | _ => s = g0 c
    end.

  Lemma step_shape i (g : G) d c : (In d ws) -> shape c (g c) -> shape c (step i g d c).
  Proof.
    intros Hd Hs. destruct (String.eqb c d) eqn:E.
    - apply String.eqb_eq in E. subst d. unfold shape in *. unfold Hist.step.
      pose proof (no_leak c Hd) as Hnl.
      destruct (kl c) eqn:Ek.
      + rewrite upd_same. eexists. reflexivity.
      + destruct Hs as [es [Hg Hv]]. rewrite Hg. rewrite upd_same.
        eexists. split; [reflexivity|]. intros k v H. cbn [Hist.cache_get] in H.
        destruct (key_eqb k (keyof c i)) eqn:Ekk.
        * apply key_eqb_eq in Ekk. subst k. inversion H. reflexivity.
        * apply Hv. exact H.
      + exact Hs.
      + rewrite upd_same. eexists. reflexivity.
      + exact Hs.
      + exact Hs.
      + congruence.
    - rewrite step_other; [exact Hs|]. intro E'. subst. rewrite String.eqb_refl in E. discriminate.
  Qed.

  Lemma steps_shape i : forall cs (g : G) c, incl cs ws -> shape c (g c) -> shape c (steps i g cs c).
  Proof.
    induction cs as [|d t IH]; intros g c Hi Hs; [exact Hs|].
    cbn [Hist.steps]. apply IH; [intros x Hx; apply Hi; right; exact Hx|].
    apply step_shape; [apply Hi; left; reflexivity|exact Hs].
  Qed.

  Lemma Inv_steps i (g : G) : Inv g -> Inv (steps i g ws).
  Proof.
    intros HI c. destruct (HI c) as [H1 H2]. split.
    - intro Hn. rewrite steps_other; [apply H1; exact Hn|exact Hn].
    - apply (steps_shape i ws g c (incl_refl ws)). exact H2.
  Qed.

  (* content of a written Const / WriteBeforeRead cell after the writes of a parse: independent of the state before *)
  Lemma steps_const_stable i c v : (kl c = IdempotentConst /\ v = K c) \/ (kl c = WriteBeforeRead /\ v = W c i) ->
    forall cs (g : G), g c = Plain value key v -> steps i g cs c = Plain value key v.
  Proof.
    intros Hk. induction cs as [|d t IH]; intros g Hg; [exact Hg|].
    cbn [Hist.steps]. apply IH. destruct (String.eqb c d) eqn:E.
    - apply String.eqb_eq in E. subst d. unfold Hist.step.
      destruct Hk as [[Hk Hv]|[Hk Hv]]; rewrite Hk; rewrite upd_same; subst v; reflexivity.
    - rewrite step_other; [exact Hg|]. intro E'. subst. rewrite String.eqb_refl in E. discriminate.
  Qed.

  Lemma steps_written i c v : (kl c = IdempotentConst /\ v = K c) \/ (kl c = WriteBeforeRead /\ v = W c i) ->
    forall cs (g : G), In c cs -> steps i g cs c = Plain value key v.
  Proof.
    intros Hk. induction cs as [|d t IH]; intros g Hin; [destruct Hin|].
    cbn [Hist.steps]. destruct (String.eqb c d) eqn:E.
    - apply String.eqb_eq in E. subst d. apply (steps_const_stable i c v Hk).
      unfold Hist.step. destruct Hk as [[Hk Hv]|[Hk Hv]]; rewrite Hk; rewrite upd_same; subst v; reflexivity.
    - destruct Hin as [Hd|Hin]; [subst; rewrite String.eqb_refl in E; discriminate|]. apply IH. exact Hin.
  Qed.

  (* what a read observes after the writes of the parse of i does not depend on the (reachable) state before *)
  Lemma observe_indep i (g : G) : Inv g -> forall c, observe i (steps i g ws) c = observe i (steps i g0 ws) c.
  Proof.
    intros HI c.
    pose proof (Inv_steps i g HI c) as [Ha1 Ha2].
    pose proof (Inv_steps i g0 Inv_g0 c) as [Hb1 Hb2].
    destruct (in_dec String.string_dec c ws) as [Hin|Hn].
    - unfold Hist.observe. pose proof (no_leak c Hin) as Hnl.
      destruct (kl c) eqn:Ek.
      + rewrite (steps_written i c (K c) (or_introl (conj Ek eq_refl)) ws g Hin).
        rewrite (steps_written i c (K c) (or_introl (conj Ek eq_refl)) ws g0 Hin). reflexivity.
      + destruct Ha2 as [es [E1 V1]]. destruct Hb2 as [es' [E2 V2]]. rewrite E1, E2.
        destruct (cache_get es (keyof c i)) eqn:C1; destruct (cache_get es' (keyof c i)) eqn:C2;
          try (apply V1 in C1); try (apply V2 in C2); congruence.
      + rewrite Ha2, Hb2. reflexivity.
      + rewrite (steps_written i c (W c i) (or_intror (conj Ek eq_refl)) ws g Hin).
        rewrite (steps_written i c (W c i) (or_intror (conj Ek eq_refl)) ws g0 Hin). reflexivity.
      + rewrite Ha2, Hb2. reflexivity.
      + rewrite Ha2, Hb2. reflexivity.
      + congruence.
    - unfold Hist.observe. rewrite (Ha1 Hn), (Hb1 Hn). reflexivity.
  Qed.

  (* reading through a memo table: in every state that satisfies the invariant, a hit returns what a miss computes *)
  Lemma cache_read_hit_equals_miss (g : G) : Inv g -> forall c es k v,
    kl c = PureCache -> g c = Cache value key es -> cache_get es k = Some v -> v = F c k.
  Proof.
    intros HI c es k v Hk Hg Hc. destruct (HI c) as [_ H2]. rewrite Hk in H2.
    destruct H2 as [es' [E V]]. rewrite Hg in E. inversion E. subst es'. exact (V k v Hc).
  Qed.

  Lemma Inv_run : forall h (g : G), Inv g -> Inv (run g h).
  Proof.
    induction h as [|i t IH]; intros g HI; [exact HI|].
    cbn [Hist.run]. apply IH. unfold Hist.parse. cbn [snd]. apply Inv_steps. exact HI.
  Qed.

  Theorem cache_hit_equals_miss_reachable : forall (h : list I) c es k v,
    kl c = PureCache -> run g0 h c = Cache value key es -> cache_get es k = Some v -> v = F c k.
  Proof.
    intros h c es k v. apply cache_read_hit_equals_miss. apply Inv_run. apply Inv_g0.
  Qed.

  Hypothesis out_ext : forall i f f', (forall c, f c = f' c) -> out_fn i f = out_fn i f'.

  (* the induction over histories *)
  Theorem history_independent : forall (h : list I) (i : I),
    out_after I O value key key_eqb kl ws K W F keyof T L init out_fn h i =
    out_fresh I O value key key_eqb kl ws K W F keyof T L init out_fn i.
  Proof.
    intros h i. unfold out_after, out_fresh, Hist.parse. cbn [fst].
    apply out_ext. intro c. apply observe_indep. apply Inv_run. apply Inv_g0.
  Qed.
End ModelProofs.

(* a Leak breaks it: one cell, the parse flips it and the output shows it *)
Definition leak_kl (c : string) : klass := Leak.
Lemma leak_refutes :
  exists (h : list unit) (i : unit),
    out_after unit bool bool unit (fun _ _ => true) leak_kl ["Include.option_spec"]
      (fun _ => false) (fun _ _ => false) (fun _ _ => false) (fun _ _ => tt) (fun _ v => v) (fun _ _ v => negb v)
      (fun _ => false) (fun _ f => f "Include.option_spec") h i
    <>
    out_fresh unit bool bool unit (fun _ _ => true) leak_kl ["Include.option_spec"]
      (fun _ => false) (fun _ _ => false) (fun _ _ => false) (fun _ _ => tt) (fun _ v => v) (fun _ _ v => negb v)
      (fun _ => false) (fun _ f => f "Include.option_spec") i.
Proof.
  (* the content before the write is what the first parse of a process observes ... *)
  exists [tt], tt. vm_compute. discriminate.
Qed.

(* ------------------------------------------------------------------ merging worker environments *)

Section MergeProofs.
  Variable data : Type.
  Local Notation env := (env data).
  Local Notation worker := (worker data).
  Local Notation elookup := (elookup data).
  Local Notation merge_docs := (merge_docs data).
  Local Notation merge_worker := (merge_worker data).
  Local Notation merge_all := (merge_all data).

  Lemma mem_s_In x l : mem_s x l = true <-> In x l.
  Proof.
    unfold mem_s. rewrite existsb_exists. split.
    - intros [y [Hy E]]. apply String.eqb_eq in E. subst. exact Hy.
    - intro H. exists x. split; [exact H|apply String.eqb_refl].
  Qed.

  Lemma lookup_merge_docs : forall docs main other k,
    elookup k (merge_docs main docs other) =
    if mem_s k docs then match elookup k other with Some v => Some v | None => elookup k main end
    else elookup k main.
  Proof.
    induction docs as [|d t IH]; intros main other k; [reflexivity|].
    cbn [Hist.merge_docs]. unfold mem_s. cbn [existsb]. fold (mem_s k t).
    destruct (Hist.elookup data d other) as [v|] eqn:Ed.
    - rewrite IH. unfold eset. cbn [Hist.elookup].
      destruct (String.eqb k d) eqn:Ek.
      + apply String.eqb_eq in Ek. subst d. rewrite Ed. cbn [orb]. destruct (mem_s k t); reflexivity.
      + cbn [orb]. reflexivity.
    - rewrite IH. destruct (String.eqb k d) eqn:Ek.
      + apply String.eqb_eq in Ek. subst d. rewrite Ed. cbn [orb]. destruct (mem_s k t); reflexivity.
      + cbn [orb]. reflexivity.
  Qed.

  Definition equiv (a b : env) : Prop := forall k, elookup k a = elookup k b.

  Lemma merge_worker_equiv a b w : equiv a b -> equiv (merge_worker a w) (merge_worker b w).
  Proof.
    intros H k. unfold Hist.merge_worker. rewrite !lookup_merge_docs. rewrite (H k). reflexivity.
  Qed.

  Lemma merge_all_equiv : forall l a b, equiv a b -> equiv (merge_all a l) (merge_all b l).
  Proof.
    induction l as [|w t IH]; intros a b H; [exact H|].
    cbn [Hist.merge_all fold_left]. apply IH. apply merge_worker_equiv. exact H.
  Qed.

  Lemma merge_swap m (x y : worker) :
    (forall d, In d (fst x) -> In d (fst y) -> False) ->
    equiv (merge_worker (merge_worker m x) y) (merge_worker (merge_worker m y) x).
  Proof.
    intros Hd k. unfold Hist.merge_worker. rewrite !lookup_merge_docs.
    destruct (mem_s k (fst y)) eqn:Ey; destruct (mem_s k (fst x)) eqn:Ex; try reflexivity.
    apply mem_s_In in Ey. apply mem_s_In in Ex. exfalso. exact (Hd k Ex Ey).
  Qed.

  Lemma nodup_app_r {A} (a b : list A) : NoDup (a ++ b) -> NoDup b.
  Proof. induction a as [|x a IH]; intro H; [exact H|]. inversion H; subst. apply IH. assumption. Qed.

  Lemma nodup_app_disj {A} (a b : list A) : NoDup (a ++ b) -> forall d, In d a -> In d b -> False.
  Proof.
    induction a as [|x a IH]; intros H d Ha Hb; [destruct Ha|].
    cbn [app] in H. inversion H as [|x' l0 Hnotin Hnd]; subst.
    destruct Ha as [->|Ha].
    - apply Hnotin. apply in_or_app. right. exact Hb.
    - exact (IH Hnd d Ha Hb).
  Qed.

  (* the documents are partitioned among the workers: every docname belongs to at most one of them.
     Then the merged metadata is the same map whatever the order in which the workers are merged. *)
  Theorem merge_commutes : forall (wks wks' : list worker),
    Permutation wks wks' -> NoDup (flat_map fst wks) ->
    forall main, equiv (merge_all main wks) (merge_all main wks').
  Proof.
    intros wks wks' HP. induction HP as [|x l l' HP IH|x y l|l l' l'' HP1 IH1 HP2 IH2]; intros HN main.
    - intro k. reflexivity.
    - cbn [Hist.merge_all fold_left]. apply IH. cbn [flat_map] in HN. apply nodup_app_r in HN. exact HN.
    - cbn [Hist.merge_all fold_left]. apply merge_all_equiv. apply merge_swap.
      intros d Hy Hx. cbn [flat_map] in HN.
      apply (nodup_app_disj _ _ HN d Hy). apply in_or_app. left. exact Hx.
    - intro k. rewrite (IH1 HN main k). apply IH2.
      apply (Permutation_NoDup (l := flat_map fst l)); [|exact HN].
      apply Permutation_flat_map. exact HP1.
  Qed.
End MergeProofs.

(* ------------------------------------------------------------------ finite checks over the regenerated tables *)

Lemma writes_all_classified : List.length writes = n_writes /\ forallb classified writes = true.
Proof. split; vm_compute; reflexivity. Qed.

Lemma classification_live : forallb entry_live classification = true.
Proof. vm_compute. reflexivity. Qed.

Lemma render_state_reset_ok : render_state_reset = true.
Proof. vm_compute. reflexivity. Qed.

Lemma table_no_leak_b : forallb (fun c => mem_s c open_leaks || negb (klass_eqb (kl_table c) Leak)) ws_table = true.
Proof. vm_compute. reflexivity. Qed.

Lemma table_no_leak : forall c, In c ws_table -> mem_s c open_leaks = false -> kl_table c <> Leak.
Proof.
  intros c Hc Ho E. pose proof table_no_leak_b as H. rewrite forallb_forall in H.
  specialize (H c Hc). rewrite Ho, E in H. discriminate.
Qed.

(* the open leaks (none today) are written cells that are classified Leak: the list cannot hide a non-leak *)
Lemma open_leaks_are_leaks :
  forallb (fun c => mem_s c ws_table && klass_eqb (kl_table c) Leak) open_leaks = true.
Proof. vm_compute. reflexivity. Qed.

Lemma table_no_leak_full : forall c, In c ws_table -> kl_table c <> Leak.
Proof. intros c Hc. apply table_no_leak; [exact Hc|reflexivity]. Qed.

(* source translation: the regenerated __init__ / setup_render assignments reset every attribute that a renderer
   method reads before writing, for every prior state (the state stays a variable: the computation only goes
   through when each attribute is assigned by the generated code) *)
Lemma reset_ok_all : forall st, reset_ok st = true /\ ctor_ok st = true.
Proof. intro st. split; vm_compute; reflexivity. Qed.

Lemma merge_copies : merge_copies_ok = true.
Proof. vm_compute. reflexivity. Qed.

Lemma env_reads_all_ok : env_reads_ok = true.
Proof. vm_compute. reflexivity. Qed.
