(* C15: record type of the regenerated table of writes to state that can outlive a parse. *)
From Coq Require Import List String Bool Arith.
Import ListNotations.
Open Scope string_scope.

Record gwrite := mk_gwrite {
  w_file : string;
  w_func : string;
  w_line : nat;      (* information only *)
  w_kind : string;   (* global-assign | attr-assign | subscript-assign | delete | mutating-call | setattr |
                        cache-decorator | registry-call | global-decl *)
  w_target : string; (* source text of the written place *)
  w_idx : nat
}.

Inductive klass :=
| IdempotentConst     (* every parse writes the same constant, before anything of the parse reads the cell *)
| PureCache           (* memo table of a pure function: a hit returns what a miss computes *)
| RestoredInFinally   (* changed for the duration of a nested call and put back in a finally clause *)
| WriteBeforeRead     (* a slot owned by the current document (keyed by its docname / its settings object):
                         written by the parse with a function of the current input before the parse reads it *)
| FreshObject         (* the object written is created by the same call chain (config copy under construction) *)
| NotInParse          (* executed at extension set-up / builder-inited, once per build, not by a parse *)
| Leak.               (* the new content depends on the old one and later parses read it *)

Definition klass_eqb (a b : klass) : bool :=
  match a, b with
  | IdempotentConst, IdempotentConst | PureCache, PureCache | RestoredInFinally, RestoredInFinally
  | WriteBeforeRead, WriteBeforeRead | FreshObject, FreshObject | NotInParse, NotInParse | Leak, Leak => true
  | _, _ => false
  end.

Definition klass_name (k : klass) : string :=
  match k with
  | IdempotentConst => "IdempotentConst" | PureCache => "PureCache" | RestoredInFinally => "RestoredInFinally"
  | WriteBeforeRead => "WriteBeforeRead" | FreshObject => "FreshObject" | NotInParse => "NotInParse" | Leak => "Leak"
  end.

(* ------------------------------------------------------------------ renderer state (source translation, round 3) *)
(* value of an instance attribute: assigned by the current construction / setup_render, or whatever an earlier render left *)
Inductive aval := Fresh | Stale.
Definition rstate := string -> aval.
Definition assign (st : rstate) (a : string) : rstate := fun x => if String.eqb x a then Fresh else st x.
Definition is_fresh (v : aval) : bool := match v with Fresh => true | Stale => false end.

(* merge_file_level, as a sequence of steps on named objects *)
Inductive mstep :=
| MBindCopy (v p : string)    (* v = p.copy() *)
| MBindAlias (v p : string)   (* v = p          (same object) *)
| MBindFresh (v : string)     (* v = <new object> *)
| MWrite (v : string)         (* setattr(v, ...), v.attr = ..., v[...] = ..., v.mutator(...) *)
| MReturn (v : string).

(* ------------------------------------------------------------------ uses of the Sphinx environment while reading (round 5) *)
Inductive eclass :=
| EComplete            (* complete before the first document is read: config, srcdir, found_docs, project paths, myst_config, app *)
| ECurrentDoc          (* state of the document being read: docname, temp_data *)
| EWriteOwnSlot        (* written (not read) under the current docname / through a Sphinx note_* API that is merged from the workers *)
| EIdentity            (* only tested against None / truthiness *)
| EUserDriven          (* handed to the document's own template expression *)
| EFilledWhileReading. (* grows as documents are read BY THIS PROCESS: all_docs, titles, tocs, domaindata, metadata of others *)
Definition eclass_eqb (a b : eclass) : bool :=
  match a, b with
  | EComplete, EComplete | ECurrentDoc, ECurrentDoc | EWriteOwnSlot, EWriteOwnSlot | EIdentity, EIdentity
  | EUserDriven, EUserDriven | EFilledWhileReading, EFilledWhileReading => true
  | _, _ => false
  end.
