(* Python exceptions as values. *)
From Coq Require Import List NArith.
Import ListNotations.

Inductive exn : Type :=
| TokenizeError (pos : N)     (* options.TokenizeError, index of the mark *)
| MarkupError
| IndexError
| ValueError
| OverflowError
| KeyError
| AssertionError
| TypeError
| AttributeError
| OutOfFuel.                  (* not a Python exception: model fuel exhausted *)

Inductive res (A : Type) : Type :=
| Ok (a : A)
| Raise (e : exn).
Arguments Ok {A} a.
Arguments Raise {A} e.

Definition bind {A B} (r : res A) (f : A -> res B) : res B :=
  match r with Ok a => f a | Raise e => Raise e end.

Notation "'do' x <- r ; k" := (bind r (fun x => k))
  (at level 200, x pattern, r at level 100, k at level 200, right associativity).

Definition is_ok {A} (r : res A) : bool := match r with Ok _ => true | _ => false end.
