(* Python str as list of code points; the operations the modelled cores use. *)
From Coq Require Import List NArith Bool Lia.
Import ListNotations.
Open Scope N_scope.

Definition str := list N.

Fixpoint str_eqb (a b : str) : bool :=
  match a, b with
  | [], [] => true
  | x :: a', y :: b' => N.eqb x y && str_eqb a' b'
  | _, _ => false
  end.

Lemma str_eqb_eq a b : str_eqb a b = true <-> a = b.
Proof.
  revert b; induction a as [|x a IH]; intros [|y b]; simpl; split; intro H;
    try congruence; try discriminate; auto.
  - apply andb_true_iff in H as [H1 H2]. apply N.eqb_eq in H1. apply IH in H2. congruence.
  - inversion H; subst. rewrite N.eqb_refl. simpl. apply IH. reflexivity.
Qed.

Lemma str_eqb_refl a : str_eqb a a = true.
Proof. apply str_eqb_eq. reflexivity. Qed.

Lemma str_eqb_neq a b : str_eqb a b = false <-> a <> b.
Proof.
  split; intro H.
  - intro E. apply str_eqb_eq in E. congruence.
  - destruct (str_eqb a b) eqn:E; auto. apply str_eqb_eq in E. contradiction.
Qed.

Definition mem_N (c : N) (l : list N) : bool := existsb (N.eqb c) l.

Lemma mem_N_In c l : mem_N c l = true <-> In c l.
Proof.
  unfold mem_N. rewrite existsb_exists. split.
  - intros [x [Hx E]]. apply N.eqb_eq in E. subst. exact Hx.
  - intro H. exists c. split; auto. apply N.eqb_refl.
Qed.

Fixpoint mem_str (s : str) (l : list str) : bool :=
  match l with [] => false | x :: l' => str_eqb s x || mem_str s l' end.

Lemma mem_str_In s l : mem_str s l = true <-> In s l.
Proof.
  induction l as [|x l IH]; simpl.
  - split; [discriminate | tauto].
  - rewrite orb_true_iff, IH, str_eqb_eq. split; intros [H|H]; auto.
Qed.

(* "sep".join(parts) *)
Fixpoint join (sep : str) (parts : list str) : str :=
  match parts with
  | [] => []
  | [p] => p
  | p :: rest => p ++ sep ++ join sep rest
  end.

(* decimal printing of naturals: str(int) *)
Definition digit (d : N) : N := 48 + d.

Fixpoint show_fuel (fuel : nat) (n : N) (acc : str) : str :=
  match fuel with
  | O => acc
  | S f => let acc' := digit (n mod 10) :: acc in
           if n / 10 =? 0 then acc' else show_fuel f (n / 10) acc'
  end.

Definition show (n : N) : str := show_fuel (S (N.to_nat (N.log2 n))) n [].

(* s.startswith(p) *)
Fixpoint startswith (s p : str) : bool :=
  match p, s with
  | [], _ => true
  | c :: p', x :: s' => N.eqb c x && startswith s' p'
  | _ :: _, [] => false
  end.

Definition endswith (s p : str) : bool := startswith (rev s) (rev p).

(* Python str.find for a single character, as option index *)
Fixpoint find_char (c : N) (s : str) : option nat :=
  match s with
  | [] => None
  | x :: s' => if N.eqb x c then Some O else option_map S (find_char c s')
  end.
