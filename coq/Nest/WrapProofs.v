(* C06: transparency of admonition wrappers, include and substitution, at the level of the
   pure denotation and (through SimProofs.sim_tokens) of the renderer as written. *)
From Coq Require Import List Arith NArith Bool Lia.
From MV Require Import Base.PyStr Base.Res Nest.Lines Nest.Split Nest.Nest Nest.TreeProofs
  Nest.SimProofs Nest.WrapSpec.
Import ListNotations.
Open Scope N_scope.

Lemma directive_name_braces name :
  directive_name ([c_lbrace] ++ name ++ [c_rbrace]) = Some name.
Proof.
  unfold directive_name.
  assert (Hs : startswith ([c_lbrace] ++ name ++ [c_rbrace]) [c_lbrace] = true).
  { simpl. destruct (name ++ [c_rbrace]); reflexivity. }
  assert (He : endswith ([c_lbrace] ++ name ++ [c_rbrace]) [c_rbrace] = true).
  { unfold endswith. change ([c_lbrace] ++ name ++ [c_rbrace]) with (c_lbrace :: (name ++ [c_rbrace])).
    simpl rev. rewrite rev_app_distr. simpl.
    destruct (rev name ++ [c_lbrace]); reflexivity. }
  rewrite Hs, He. simpl. rewrite removelast_last. reflexivity.
Qed.

Section Wrap.
  Variable env : Type.
  Variable orc : oracles env.
  Hypothesis O_adm : adm_spec env orc.
  Hypothesis O_fence : fence_oracle env orc.

  Local Notation shared := (shared env).
  Local Notation dres := (dres env).

  Lemma set_env_same (h : shared) : set_env (s_env h) h = h.
  Proof. destruct h; reflexivity. Qed.

  Lemma den_fold_single (g : shared -> tok -> res dres) h t :
    den_fold g h [t] = match g h t with Ok (ns, h', b) => Ok (ns, h', b) | Raise e => Raise e end.
  Proof.
    simpl. destruct (g h t) as [[[ns h'] b]|e]; simpl; [|reflexivity].
    rewrite app_nil_r, orb_false_r. reflexivity.
  Qed.

  Lemma den_fold_single' (g : shared -> tok -> res dres) h t : den_fold g h [t] = g h t.
  Proof. rewrite den_fold_single. destruct (g h t) as [[[ns h'] b]|e]; reflexivity. Qed.

  (* one admonition layer: the fence token denotes the admonition node around the body's own
     denotation *)
  Lemma den_fence_adm f top ho h titled name first o k len X a b bd :
    ho = 0 ->
    wfW env orc (Adm titled name first o k len) X ->
    (forall h' lineno, den_text_at env orc f false 0 h' (unlines X) lineno = bd h' lineno) ->
    den_tok env orc (S f) top ho h
      (TFence (is_colon k) (info_of name first) (unlines (opt_lines o ++ X)) (Some (a, b)))
    = expected env orc f (Adm titled name first o k len) X bd h a.
  Proof.
    intros Hho [Hsafe [Hinfo [Hrst [Hdir [p [Hp [Hbody Hne]]]]]]] Hbd.
    subst ho. cbn [den_tok den_step]. unfold den_fence. rewrite Hinfo.
    rewrite directive_name_braces. rewrite Hrst. rewrite andb_false_r.
    cbn [token_line bind].
    unfold den_directive. rewrite Hdir.
    change (if is_colon k && startswith (unlines (opt_lines o ++ X)) colons3
            then nl ++ unlines (opt_lines o ++ X) else unlines (opt_lines o ++ X))
      with (directive_content k (opt_lines o ++ X)).
    cbn [expected]. rewrite Hp.
    destruct (o_opt_validate orc name (p_optblock p)) as [attrs warns].
    rewrite O_adm. unfold admonition_run. rewrite Hbody.
    destruct X as [|x X']; [congruence|]. cbn [is_nil].
    set (off := (p_off p - prepended_lines (is_colon k) (unlines (opt_lines o ++ x :: X')))%nat).
    assert (Hbody_den : forall h1 (n1 : node),
      (do r2 <- cb_nested_parse (den_mock_state env orc (den_tok env orc f) 0 a) (x :: X') off n1 h1;
       Ok (DNodes [fst r2], snd r2))
      = (do r <- bd h1 (a + N.of_nat off);
         Ok (DNodes [add_kids n1 (fst (fst r))], snd (fst r)))).
    { intros h1 n1. cbn [cb_nested_parse den_mock_state].
      rewrite <- Hbd. unfold den_text_at, den_nested. change (0 + 0) with 0.
      rewrite (join_nl_unlines (x :: X')) by discriminate.
      destruct (o_P orc (s_env h1) (unlines (x :: X'))) as [toks e'].
      destruct (den_fold (den_tok env orc f false 0) (set_env e' h1) _) as [[[ns h'] bb]|e];
        reflexivity. }
    destruct titled.
    - destruct (p_args p) as [|ta targs]; [reflexivity|].
      cbn [cb_inline_text den_mock_state]. unfold den_title.
      destruct (den_nested env orc (den_tok env orc f) false 0 h ta a true 0) as [[[tn h1] tb]|e];
        [|reflexivity].
      cbn [bind fst snd].
      rewrite (Hbody_den h1 (add_kids (Node NAdm (name ++ attrs) (Some a) []) [Node NTitle ta None tn])).
      destruct (bd h1 (a + N.of_nat off)) as [[[ns h'] bb]|e]; reflexivity.
    - cbn [bind fst snd].
      rewrite (Hbody_den h (Node NAdm (name ++ attrs) (Some a) [])).
      destruct (bd h (a + N.of_nat off)) as [[[ns h'] bb]|e]; reflexivity.
  Qed.

  Lemma wf_parts w : forall X, wfW env orc w X ->
    let '(k, len, info, body) := fence_parts w X in
    fence_safe k len info body = true
    /\ print_lines w X = (repeat (fchar k) len ++ info) :: body ++ [close_line k len].
  Proof.
    induction w as [titled name first o k len|o IHo i IHi|path|key]; intros X H.
    - destruct H as [Hsafe _]. cbn [fence_parts]. split; [exact Hsafe|].
      cbn [print_lines]. unfold open_line, info_of. rewrite <- !app_assoc. reflexivity.
    - destruct H as [Ho Hi]. cbn [fence_parts print_lines]. apply IHo. exact Ho.
    - destruct H.
    - destruct H.
  Qed.

  Lemma expected_flag w : forall F X bd h pos r,
    wfW env orc w X -> expected env orc F w X bd h pos = Ok r -> snd r = false.
  Proof.
    induction w as [titled name first o k len|o IHo i IHi|path|key]; intros F X bd h pos r Hwf H.
    - cbn [expected] in H.
      destruct (parse_directive_text (cls_of titled) first (directive_content k (opt_lines o ++ X)))
        as [p|]; [|discriminate].
      destruct (o_opt_validate orc name (p_optblock p)) as [attrs warns].
      match type of H with (do r1 <- ?E; _) = _ => destruct E as [r1|]; [|discriminate] end.
      cbn [bind] in H.
      destruct (bd _ _); [|discriminate].
      simpl in H. inversion H; reflexivity.
    - destruct Hwf as [Ho Hi]. cbn [expected] in H. eapply IHo; eauto.
    - destruct Hwf.
    - destruct Hwf.
  Qed.

  (* any depth *)
  Lemma den_wrapper w : forall X F bd top h a b,
    wfW env orc w X ->
    (forall h' lineno, den_text_at env orc F false 0 h' (unlines X) lineno = bd h' lineno) ->
    den_tok env orc (depth w + F) top 0 h (fence_tok w X a b) = expected env orc F w X bd h a.
  Proof.
    induction w as [titled name first o k len|o IHo i IHi|path|key];
      intros X F bd top h a b Hwf Hbd.
    - unfold fence_tok. cbn [fence_parts depth]. apply den_fence_adm; [reflexivity|assumption|assumption].
    - destruct Hwf as [Ho Hi].
      unfold fence_tok in *. cbn [fence_parts depth expected].
      rewrite <- Nat.add_assoc.
      apply (IHo (print_lines i X) (depth i + F)%nat); [exact Ho|].
      intros h' lineno. unfold den_text_at.
      pose proof (wf_parts i X Hi) as Hparts.
      destruct (fence_parts i X) as [[[ki leni] infoi] bodyi] eqn:Ep.
      destruct Hparts as [Hsafe Hprint].
      rewrite Hprint.
      change (unlines ((repeat (fchar ki) leni ++ infoi) :: bodyi ++ [close_line ki leni]))
        with (fence_text ki leni infoi bodyi).
      rewrite (O_fence (s_env h') ki leni infoi bodyi Hsafe).
      cbn [drop_front_matter map shift_tok shift_map].
      rewrite den_fold_single'. rewrite set_env_same.
      specialize (IHi X F bd false h' (0 + lineno + 1) (N.of_nat (length bodyi) + 2 + lineno + 1) Hi Hbd).
      rewrite Ep in IHi. rewrite IHi. reflexivity.
    - destruct Hwf.
    - destruct Hwf.
  Qed.

  (* ---- document level ---- *)
  Lemma good_st0 (h : shared) : good env true (st0 h).
  Proof.
    split; [|discriminate]. split; [|reflexivity].
    eexists. reflexivity.
  Qed.

  Lemma render_doc_den f e0 text toks e' ns h :
    o_P orc e0 text = (toks, e') ->
    den_tokens env orc f true (sh0 e') toks = Ok (ns, h, false) ->
    render_doc env orc f e0 text = Ok (ns, h).
  Proof.
    intros HP Hden. unfold render_doc. rewrite HP.
    rewrite (sim_tokens env orc O_adm f true (st0 (sh0 e')) toks ns h (good_st0 _) eq_refl Hden).
    reflexivity.
  Qed.

  Theorem directive_transparent w X F e0 r :
    wfW env orc w X ->
    expected env orc F w X (fun h k => den_text_at env orc F false 0 h (unlines X) k) (sh0 e0) 1 = Ok r ->
    render_doc env orc (depth w + F) e0 (unlines (print_lines w X)) = Ok (fst (fst r), snd (fst r)).
  Proof.
    intros Hwf Hexp.
    pose proof (wf_parts w X Hwf) as Hparts.
    destruct (fence_parts w X) as [[[k len] info] body] eqn:Ep.
    destruct Hparts as [Hsafe Hprint].
    eapply render_doc_den.
    - rewrite Hprint. apply (O_fence e0 k len info body Hsafe).
    - unfold den_tokens. cbn [map shift_tok shift_map]. rewrite den_fold_single'.
      pose proof (den_wrapper w X F
                    (fun h k => den_text_at env orc F false 0 h (unlines X) k)
                    true (sh0 e0) (0 + 1) (N.of_nat (length body) + 2 + 1)
                    Hwf (fun h' lineno => eq_refl)) as Hd.
      unfold fence_tok in Hd. rewrite Ep in Hd. rewrite Hd.
      change (0 + 1) with 1.
      pose proof (expected_flag w F X _ (sh0 e0) 1 r Hwf Hexp) as Hf.
      transitivity (Ok r); [exact Hexp|].
      destruct r as [[ns h] bb]. simpl in *. subst bb. reflexivity.
  Qed.

  (* the document itself, where no heading is rendered at section level *)
  Theorem top_level_is_den f e0 text toks e' ns h :
    o_P orc e0 text = (toks, e') ->
    den_tokens env orc f true (sh0 e') toks = Ok (ns, h, false) ->
    render_doc env orc f e0 text = Ok (ns, h).
  Proof. exact (render_doc_den f e0 text toks e' ns h). Qed.

End Wrap.
