(* C06: the definitions regenerated from the source (Gen/NestSrc.v) equal the hand-written model
   of Nest/Nest.v.  These are the proof obligations that an edit of nested_render_text,
   MockState.nested_parse, render_fence / render_colon_fence, render_directive / run_directive or
   render_substitution breaks. *)
From Coq Require Import List Arith NArith Bool Lia.
From MV Require Import Base.PyStr Base.Res Nest.Lines Nest.Split Nest.Nest Nest.TreeProofs
  Nest.SimProofs Nest.WrapSpec Nest.WrapProofs Nest.MoreProofs Gen.NestSrc.
Import ListNotations.
Open Scope N_scope.

Lemma bind_ret {A} (r : res A) : (do x <- r; Ok x) = r.
Proof. destruct r; reflexivity. Qed.

Lemma fold_res_ext {S T} (f g : S -> T -> res S) :
  (forall s t, f s t = g s t) -> forall ts s, fold_res f s ts = fold_res g s ts.
Proof.
  intros H ts. induction ts as [|t r IH]; intro s; [reflexivity|].
  simpl. rewrite H. destruct (g s t); simpl; [apply IH|reflexivity].
Qed.

(* name == '{eval-rst}'  <->  the directive name between the braces is eval-rst *)
Lemma eval_rst_name_test name :
  str_eqb name [123; 101; 118; 97; 108; 45; 114; 115; 116; 125]
  = match directive_name name with Some dn => str_eqb dn eval_rst_name | None => false end.
Proof.
  destruct (str_eqb name [123; 101; 118; 97; 108; 45; 114; 115; 116; 125]) eqn:E.
  - apply str_eqb_eq in E. subst. reflexivity.
  - unfold directive_name.
    destruct (startswith name [c_lbrace] && endswith name [c_rbrace]) eqn:T; [|reflexivity].
    destruct (str_eqb (removelast (tl name)) eval_rst_name) eqn:D; [|reflexivity].
    exfalso. apply str_eqb_eq in D. apply andb_true_iff in T as [T1 T2].
    destruct name as [|c x]; [discriminate|]. cbn [startswith] in T1.
    apply andb_true_iff in T1 as [Ec _]. apply N.eqb_eq in Ec. subst c.
    cbn [tl] in D.
    destruct (rev x) as [|y ry] eqn:Er.
    { assert (x = []) by (apply (f_equal (@rev N)) in Er; rewrite rev_involutive in Er; exact Er).
      subst x. discriminate. }
    assert (Hx : x = rev ry ++ [y]).
    { apply (f_equal (@rev N)) in Er. rewrite rev_involutive in Er. exact Er. }
    unfold endswith in T2. cbn [rev] in T2. rewrite Er in T2. cbn [app startswith] in T2.
    destruct (c_rbrace =? y) eqn:Ey; [|discriminate]. apply N.eqb_eq in Ey. subst y.
    rewrite Hx in D. rewrite removelast_last in D.
    rewrite Hx, D in E. discriminate.
Qed.

Section Refine.
  Variable env : Type.
  Variable orc : oracles env.
  Hypothesis O_adm : adm_spec env orc.

  Local Notation st := (st env).

  (* ---- the translated methods, for one and the same [rec] ---- *)
  Lemma nested_render_text_src_model rec s text lineno inline tr ho :
    nested_render_text_src env orc rec s text lineno inline tr ho
    = nested_render_text env orc rec s text lineno inline tr ho.
  Proof.
    unfold nested_render_text_src, nested_render_text.
    destruct (if inline then o_PI orc (s_env (shr s)) text else o_P orc (s_env (shr s)) (text ++ nl))
      as [toks e'].
    cbn [fst snd]. destruct tr as [l|]; cbn [is_some_o].
    - destruct (render_tokens_ rec _ _); reflexivity.
    - destruct (render_tokens_ rec _ _); reflexivity.
  Qed.

  Lemma with_detached_ext (s : st) n (f g : st -> res st) :
    (forall x, f x = g x) -> with_detached s n f = with_detached s n g.
  Proof. intro H. unfold with_detached. rewrite H. reflexivity. Qed.

  Lemma with_node_ext' (s : st) n (f g : st -> res st) :
    (forall x, f x = g x) -> with_node s n f = with_node s n g.
  Proof.
    intro H. unfold with_node. destruct (get_loc (cur s) (roots s)); [|reflexivity]. simpl.
    destruct (extend_cur s [n]); [|reflexivity]. simpl. rewrite H. reflexivity.
  Qed.

  Lemma nested_parse_src_model rec lineno block off n s :
    nested_parse_src env orc rec lineno block off n false s
    = cb_nested_parse (mock_state env orc rec lineno) block off n s.
  Proof.
    unfold nested_parse_src. cbn [cb_nested_parse mock_state].
    rewrite (with_detached_ext s n _
               (fun s => nested_render_text env orc rec s (join nl block) (lineno + N.of_nat off) false None 0)).
    - destruct (with_detached s n _) as [[n' s']|]; reflexivity.
    - intro x. rewrite bind_ret. apply nested_render_text_src_model.
  Qed.

  Lemma inline_text_src_model rec lineno text ln s :
    cb_inline_text (mock_state_src env orc rec lineno) text ln s
    = cb_inline_text (mock_state env orc rec lineno) text ln s.
  Proof.
    cbn [cb_inline_text mock_state_src mock_state].
    rewrite (with_detached_ext s _ _
               (fun s => nested_render_text env orc rec s text ln true None 0)); [reflexivity|].
    intro x. apply nested_render_text_src_model.
  Qed.

  Lemma admonition_run_ext (cb1 cb2 : callbacks st) titled name args attrs content off lineno s :
    (forall b o n x, cb_nested_parse cb1 b o n x = cb_nested_parse cb2 b o n x) ->
    (forall t l x, cb_inline_text cb1 t l x = cb_inline_text cb2 t l x) ->
    admonition_run st cb1 titled name args attrs content off lineno s
    = admonition_run st cb2 titled name args attrs content off lineno s.
  Proof.
    intros H1 H2. unfold admonition_run. destruct (is_nil content); [reflexivity|].
    destruct titled.
    - destruct args as [|a r]; [reflexivity|]. rewrite H2.
      destruct (cb_inline_text cb2 a lineno s); [|reflexivity]. simpl. rewrite H1. reflexivity.
    - simpl. rewrite H1. reflexivity.
  Qed.

  Lemma run_directive_src_model rec s name first content position pre :
    run_directive_src env orc rec s name first content position pre
    = run_directive env orc rec s name first content position pre.
  Proof.
    unfold run_directive_src, run_directive.
    destruct (o_dir_lookup orc name) as [[kind cls]|]; [|reflexivity].
    destruct (parse_directive_text cls first content) as [p|e]; [|reflexivity].
    destruct (o_opt_validate orc name (p_optblock p)) as [attrs warns]. cbn [fst snd].
    destruct (extend_cur s (directive_warnings p warns position)) as [s1|]; [|reflexivity].
    cbn [bind].
    destruct kind as [titled| |]; cbn [is_kinclude run_docutils_directive].
    - rewrite !O_adm.
      rewrite (admonition_run_ext (mock_state_src env orc rec position) (mock_state env orc rec position)).
      + destruct (admonition_run st _ titled name (p_args p) attrs (p_body p) (p_off p - pre) position s1)
          as [[out s2]|]; [|reflexivity].
        cbn [bind fst snd]. destruct out; reflexivity.
      + intros b o n x. apply nested_parse_src_model.
      + intros t l x. apply inline_text_src_model.
    - destruct (include_run env orc rec s1 p) as [[out s2]|]; [|reflexivity].
      cbn [bind fst snd]. destruct out; reflexivity.
    - destruct (o_other_directive orc name (p_args p) (p_optblock p) (p_body p) (p_off p - pre) position (shr s1))
        as [ns h].
      cbn [bind fst snd]. reflexivity.
  Qed.

  Lemma render_directive_src_model rec s name args content mp pre :
    render_directive_src env orc rec s name args content mp pre
    = render_directive env orc rec s name args content mp pre.
  Proof.
    unfold render_directive_src, render_directive.
    destruct (token_line mp); [|reflexivity]. cbn [bind].
    rewrite run_directive_src_model.
    destruct (run_directive env orc rec s name args content a pre) as [[ns s1]|]; [|reflexivity].
    cbn [bind fst snd]. apply bind_ret.
  Qed.

  Lemma parse_info_parts info :
    parse_info info
    = (match split_ws_max 1 (strip info) with n :: _ => n | [] => [] end,
       match split_ws_max 1 (strip info) with _ :: a :: _ => a | _ => [] end).
  Proof. unfold parse_info. destruct (split_ws_max 1 (strip info)) as [|n [|a r]]; reflexivity. Qed.

  Lemma render_fence_src_model rec s info content mp :
    render_fence_src env orc rec false false [] s info content mp
    = render_fence env orc rec s false info content mp.
  Proof.
    unfold render_fence_src, render_fence. rewrite parse_info_parts.
    set (name := match split_ws_max 1 (strip info) with n :: _ => n | [] => [] end).
    set (args := match split_ws_max 1 (strip info) with _ :: a :: _ => a | _ => [] end).
    cbn [negb andb mem_str]. rewrite eval_rst_name_test.
    unfold directive_name.
    destruct (startswith name [c_lbrace] && endswith name [c_rbrace]).
    - destruct (str_eqb (removelast (tl name)) eval_rst_name).
      + reflexivity.
      + unfold prepended_lines. cbn [andb]. apply render_directive_src_model.
    - apply bind_ret.
  Qed.

  Lemma render_colon_fence_src_model rec s info content mp :
    render_colon_fence_src env orc rec s info content mp
    = render_fence env orc rec s true info content mp.
  Proof.
    unfold render_colon_fence_src, render_fence. rewrite parse_info_parts.
    set (name := match split_ws_max 1 (strip info) with n :: _ => n | [] => [] end).
    set (args := match split_ws_max 1 (strip info) with _ :: a :: _ => a | _ => [] end).
    unfold directive_name.
    destruct (startswith name [c_lbrace] && endswith name [c_rbrace]).
    - cbn [negb andb]. rewrite render_directive_src_model. unfold prepended_lines. cbn [andb].
      destruct (startswith content colons3); reflexivity.
    - rewrite bind_ret. apply with_node_ext'. intro x. rewrite bind_ret.
      apply nested_render_text_src_model.
  Qed.

  Lemma cyclic_test refs subrefs :
    negb (is_nil (filter (fun r => mem_str r subrefs) refs)) = existsb (fun r => mem_str r subrefs) refs.
  Proof.
    induction refs as [|r refs IH]; [reflexivity|].
    simpl. destruct (mem_str r subrefs); [reflexivity|exact IH].
  Qed.

  Lemma render_substitution_src_model rec s inline key mp :
    render_substitution_src env orc rec s inline key mp
    = render_substitution env orc rec s inline key mp.
  Proof.
    unfold render_substitution_src, render_substitution.
    destruct (token_line mp) as [position|]; [|reflexivity]. cbn [bind].
    destruct (o_jinja orc key) as [rendered|]; [|reflexivity].
    rewrite cyclic_test.
    destruct (existsb (fun r => mem_str r (s_subrefs (shr s))) (o_sub_names orc key)).
    - apply bind_ret.
    - destruct (inline && negb (o_is_directive_start orc rendered)) eqn:E;
        rewrite bind_ret, nested_render_text_src_model;
        destruct (nested_render_text env orc rec _ rendered position _ None 0); reflexivity.
  Qed.

  Theorem render_step_src_model rec s t :
    render_step_src env orc rec false false [] s t = render_step env orc rec s t.
  Proof.
    destruct t; try reflexivity; cbn [render_step_src render_step].
    - destruct colon; [apply render_colon_fence_src_model | apply render_fence_src_model].
    - apply render_substitution_src_model.
  Qed.

  (* ---- the model does not care which (extensionally equal) recursive call it is given ---- *)
  Section Ext.
    Variables r1 r2 : st -> tok -> res st.
    Hypothesis Hr : forall s t, r1 s t = r2 s t.

    Lemma nested_render_text_ext s text lineno inline tr ho :
      nested_render_text env orc r1 s text lineno inline tr ho
      = nested_render_text env orc r2 s text lineno inline tr ho.
    Proof.
      unfold nested_render_text.
      destruct (if inline then o_PI orc (s_env (shr s)) text else o_P orc (s_env (shr s)) (text ++ nl)).
      unfold render_tokens_. rewrite (fold_res_ext r1 r2 Hr). reflexivity.
    Qed.

    Lemma run_directive_ext s name first content position pre :
      run_directive env orc r1 s name first content position pre
      = run_directive env orc r2 s name first content position pre.
    Proof.
      unfold run_directive.
      destruct (o_dir_lookup orc name) as [[kind cls]|]; [|reflexivity].
      destruct (parse_directive_text cls first content) as [p|e]; [|reflexivity].
      destruct (o_opt_validate orc name (p_optblock p)) as [attrs warns].
      destruct (extend_cur s (directive_warnings p warns position)) as [s1|]; [|reflexivity].
      cbn [bind]. destruct kind as [titled| |]; [| |reflexivity].
      - rewrite !O_adm.
        rewrite (admonition_run_ext (mock_state env orc r1 position) (mock_state env orc r2 position));
          [reflexivity| |].
        + intros b o n x. cbn [cb_nested_parse mock_state]. apply with_detached_ext.
          intro y. apply nested_render_text_ext.
        + intros t l x. cbn [cb_inline_text mock_state].
          rewrite (with_detached_ext x _ _ (fun s => nested_render_text env orc r2 s t l true None 0));
            [reflexivity|]. intro y. apply nested_render_text_ext.
      - unfold include_run. destruct (p_args p) as [|a r]; [reflexivity|].
        destruct (o_fs_read orc a); [|reflexivity].
        destruct (o_include_opts orc (p_optblock p)) as [literal ho].
        destruct literal; [reflexivity|]. destruct (mem_str a _); [reflexivity|].
        rewrite nested_render_text_ext. reflexivity.
    Qed.

    Lemma render_step_ext s t : render_step env orc r1 s t = render_step env orc r2 s t.
    Proof.
      destruct t; cbn [render_step]; try reflexivity.
      - apply with_node_ext'. intro x. unfold render_children. apply fold_res_ext. exact Hr.
      - unfold render_children. apply fold_res_ext. exact Hr.
      - unfold render_heading. destruct (seccap s) as [sc|]; [|reflexivity]. cbn [bind].
        destruct (negb sc).
        + rewrite (with_node_ext' s _ _ (fun s => render_children r2 s kids)); [reflexivity|].
          intro x. unfold render_children. apply fold_res_ext. exact Hr.
        + destruct (max_below (lmap s) (level + hoff s) None); [|reflexivity].
          destruct (lookup_level (lmap s) n); [|reflexivity].
          destruct (if (n <? level + hoff s) && negb (n + 1 =? level + hoff s) then _ else _) as [s0|];
            [|reflexivity].
          cbn [bind]. destruct (get_loc l (roots s0)); [|reflexivity]. cbn [bind].
          destruct (extend_loc l _ (roots s0)); [|reflexivity]. cbn [bind].
          unfold render_children. rewrite (fold_res_ext r1 r2 Hr). reflexivity.
      - destruct (mem_strs label (s_footdefs (shr s))); [reflexivity|].
        destruct (note_explicit_target label (token_line_d mp 0) (add_footdef label (shr s))).
        apply with_node_ext'. intro x. unfold render_children. apply fold_res_ext. exact Hr.
      - unfold render_fence. destruct (parse_info info) as [name args].
        destruct (directive_name name).
        + destruct (negb colon && str_eqb s0 eval_rst_name); [reflexivity|].
          unfold render_directive. destruct (token_line mp); [|reflexivity]. cbn [bind].
          rewrite run_directive_ext. reflexivity.
        + destruct colon; [|reflexivity]. apply with_node_ext'. intro x. apply nested_render_text_ext.
      - unfold render_substitution. destruct (token_line mp); [|reflexivity]. cbn [bind].
        destruct (o_jinja orc key); [|reflexivity].
        destruct (existsb _ _); [reflexivity|]. rewrite nested_render_text_ext. reflexivity.
    Qed.
  End Ext.

  (* ---- all fuel ---- *)
  Theorem render_tok_src_model f : forall s t,
    render_tok_src env orc f s t = render_tok env orc f s t.
  Proof.
    induction f as [|f IH]; intros s t; [reflexivity|].
    cbn [render_tok_src render_tok]. rewrite render_step_src_model.
    apply render_step_ext. exact IH.
  Qed.

  (* DocutilsRenderer.render with the translated methods *)
  Definition render_doc_src (f : nat) (e : env) (text : str) : res (list node * shared env) :=
    let '(toks, e') := o_P orc e text in
    do s <- fold_res (render_tok_src env orc f) (st0 (sh0 e')) (map (shift_tok 1) toks);
    match roots s with
    | [d] => Ok (node_kids d, shr s)
    | _ => Raise AssertionError
    end.

  Theorem render_doc_src_model f e text : render_doc_src f e text = render_doc env orc f e text.
  Proof.
    unfold render_doc_src, render_doc, render_tokens, render_tokens_.
    destruct (o_P orc e text) as [toks e'].
    rewrite (fold_res_ext _ _ (render_tok_src_model f)). reflexivity.
  Qed.

End Refine.
