(* C20 - docutils security settings.
   * the doctree as a rose tree with node kinds, and the post-processing loop of
     myst_parser/parsers/docutils_.py  Parser.parse:
         if not getattr(document.settings, "raw_enabled", True):
             for node in document.traverse(nodes.raw):
                 warning = document.reporter.warning("Raw content disabled.")
                 node.parent.replace(node, warning)
     (traverse() builds the full list of raw nodes before the first replacement);
   * the prefix of MockIncludeDirective.run with file-system operations as trace events.
   Executable definitions only; proofs in RawProofs.v. *)
From Coq Require Import List Arith NArith Bool.
From MV Require Import Base.PyStr Base.Res.
Import ListNotations.
Open Scope N_scope.

Inductive kind :=
| KRaw (format : str)          (* nodes.raw, any format *)
| KSysMsg (level : N)          (* nodes.system_message *)
| KElem (tag : N).             (* every other Element class *)

Inductive dnode :=
| DText (s : str)
| DNode (k : kind) (payload : str) (kids : list dnode).

Definition is_raw (k : kind) : bool := match k with KRaw _ => true | _ => false end.

(* document.reporter.warning("Raw content disabled.") *)
Definition raw_disabled_msg : str :=
  [82; 97; 119; 32; 99; 111; 110; 116; 101; 110; 116; 32; 100; 105; 115; 97; 98; 108; 101; 100; 46].
Definition raw_warning : dnode := DNode (KSysMsg 2) raw_disabled_msg [].

(* number of raw nodes, at any depth (also below another raw node): the length of the list
   document.traverse(nodes.raw) returns = the number of reporter.warning calls *)
Fixpoint count_raw (n : dnode) : nat :=
  match n with
  | DText _ => O
  | DNode k _ ks =>
      (if is_raw k then 1 else 0)%nat + fold_right (fun c acc => (count_raw c + acc)%nat) O ks
  end.

(* the tree after the loop: every raw node that is still in the tree when its turn comes is
   replaced by the warning; a raw node below an already replaced one is replaced inside the
   detached subtree, which is not part of the document any more *)
Fixpoint strip_raw (n : dnode) : dnode :=
  match n with
  | DText s => DText s
  | DNode k p ks => if is_raw k then raw_warning else DNode k p (map strip_raw ks)
  end.

(* ---- vocabulary for the loop as the source writes it (Gen/RawSrc.v) ----
   a node of the tree is named by its path from the root *)
Fixpoint replace_nth_d (i : nat) (x : dnode) (l : list dnode) : list dnode :=
  match l, i with
  | [], _ => []
  | _ :: r, O => x :: r
  | y :: r, S j => y :: replace_nth_d j x r
  end.

(* document.traverse(nodes.raw): the raw nodes in document order, all of them (also below another
   raw node), listed before the loop body runs *)
Fixpoint traverse_raw (n : dnode) : list (list nat) :=
  match n with
  | DText _ => []
  | DNode k _ ks =>
      (if is_raw k then [[]] else [])
      ++ (fix kids (i : nat) (l : list dnode) : list (list nat) :=
            match l with
            | [] => []
            | c :: r => map (cons i) (traverse_raw c) ++ kids (S i) r
            end) O ks
  end.

Fixpoint replace_at (p : list nat) (w : dnode) (n : dnode) {struct p} : dnode :=
  match p with
  | [] => w
  | i :: p' =>
      match n with
      | DText _ => n
      | DNode k pl ks =>
          match nth_error ks i with
          | Some c => DNode k pl (replace_nth_d i (replace_at p' w c) ks)
          | None => n
          end
      end
  end.

(* node.parent.replace(node, new): when the node's parent has already been taken out of the
   document (a raw node below a replaced raw node) the document does not change *)
Definition parent_replace (doc : dnode) (node : list nat) (new : dnode) : dnode :=
  replace_at node new doc.

(* what Parser.parse does to the document after rendering; the root is a nodes.document *)
Definition post_process (raw_enabled : bool) (doc : dnode) : dnode * nat :=
  if raw_enabled then (doc, O) else (strip_raw doc, count_raw doc).

Fixpoint has_raw (n : dnode) : bool :=
  match n with
  | DText _ => false
  | DNode k _ ks => is_raw k || existsb has_raw ks
  end.

(* number of raw nodes that have no raw ancestor = number of warnings placed in the tree *)
Fixpoint count_top_raw (n : dnode) : nat :=
  match n with
  | DText _ => O
  | DNode k _ ks =>
      if is_raw k then 1%nat else fold_right (fun c acc => (count_top_raw c + acc)%nat) O ks
  end.

Fixpoint count_warning (n : dnode) : nat :=
  match n with
  | DText _ => O
  | DNode k p ks =>
      ((match k with KSysMsg 2 => if str_eqb p raw_disabled_msg then 1 else 0 | _ => 0 end)
       + fold_right (fun c acc => (count_warning c + acc)%nat) O ks)%nat
  end.

(* ---------------------------------------------------------------- include *)
Inductive fs_event :=
| FsRead (path : str)              (* Path.read_text *)
| FsResolve (path : str)           (* sphinx_env.relfn2path / note_included *)
| FsDepend (path : str).           (* settings.record_dependencies.add *)

Inductive run_out :=
| RNodes (text : str)              (* run() goes on with the file's text *)
| RError (level : N) (msg : str).  (* raise DirectiveError(level, msg) *)

Record settings := { file_insertion_enabled : bool; has_sphinx_env : bool }.

(* include_arg.startswith("<") and include_arg.endswith(">"): the docutils "standard include"
   spelling; include_arg[1:-1] is joined onto Include.standard_include_path - an absolute path
   or "../" inside the brackets reaches any file *)
Definition is_standard_arg (arg : str) : bool :=
  startswith arg [60] && endswith arg [62].
Definition standard_inner (arg : str) : str := removelast (tl arg).

(* MockIncludeDirective.run up to the point where it has the file's text.
   fs: path -> content (None: FileNotFoundError); resolve: ordinary argument -> path
   (source_dir.joinpath, Sphinx relfn2path); resolve_std: inner of <...> -> path
   (Path(standard_include_path).joinpath) *)
Definition include_path (arg : str) (resolve resolve_std : str -> str) : str :=
  if is_standard_arg arg then resolve_std (standard_inner arg) else resolve arg.

Definition include_run_prefix (st : settings) (name arg : str)
    (resolve resolve_std : str -> str) (fs : str -> option str) : run_out * list fs_event :=
  if negb (file_insertion_enabled st) then
    (RError 2 name, [])                                      (* Directive "<name>" disabled. *)
  else
    let path := include_path arg resolve resolve_std in
    let t1 := (if has_sphinx_env st && negb (is_standard_arg arg) then [FsResolve arg] else [])
              ++ [FsDepend path] in
    match fs path with
    | None => (RError 4 path, t1 ++ [FsRead path])           (* file not found *)
    | Some text => (RNodes text, t1 ++ [FsRead path])
    end.

(* ---- the head of run() up to the nested_render_text call ---- *)
Record incl_opts := { io_literal : bool; io_code : bool }.

Inductive head_out :=
| HNested (text : str)             (* goes on to nested_render_text(file_content, ...) *)
| HLiteral (text : str)            (* :literal: -> return [literal_block] *)
| HCode (text : str)               (* :code:    -> return codeblock.run() *)
| HError (level : N) (msg : str).

(* slice: start-line/end-line/start-after/end-before (None: "text not found", DirectiveError 4);
   circular: include_key in include_log *)
Definition include_run_head (st : settings) (opts : incl_opts) (name arg : str)
    (resolve resolve_std : str -> str) (fs : str -> option str)
    (slice : str -> option str) (circular : str -> bool) : head_out * list fs_event :=
  match include_run_prefix st name arg resolve resolve_std fs with
  | (RError level msg, tr) => (HError level msg, tr)
  | (RNodes text, tr) =>
      match slice text with
      | None => (HError 4 name, tr)
      | Some text' =>
          if io_literal opts then (HLiteral text', tr)
          else if io_code opts then (HCode text', tr)
          else if circular (include_path arg resolve resolve_std) then (HError 2 name, tr)
          else (HNested text', tr)
      end
  end.

(* run_directive around it: a DirectiveError becomes a system_message holding the directive's
   content; the registries are untouched *)
Definition include_directive (st : settings) (name arg content : str)
    (resolve resolve_std : str -> str) (fs : str -> option str)
    (render_text : str -> list dnode) : list dnode * list fs_event :=
  match include_run_prefix st name arg resolve resolve_std fs with
  | (RError level msg, tr) => ([DNode (KSysMsg level) msg [DNode (KElem 0) content []]], tr)
  | (RNodes text, tr) => (render_text text, tr)
  end.

(* a document as a sequence of blocks rendered one after the other into the root; a block is
   either some other token (opaque: nodes from registries) or the include directive *)
Inductive block := BOther (id : N) | BInclude (name arg content : str).

Section Doc.
  Variable regs : Type.
  Variable render_other : N -> regs -> list dnode * regs.
  Variable render_text : str -> regs -> list dnode * regs.
  Variable resolve : str -> str.
  Variable resolve_std : str -> str.
  Variable fs : str -> option str.

  Fixpoint render_blocks (st : settings) (bs : list block) (r : regs)
    : list dnode * regs * list fs_event :=
    match bs with
    | [] => ([], r, [])
    | BOther id :: rest =>
        let '(ns, r1) := render_other id r in
        let '(ms, r2, tr) := render_blocks st rest r1 in
        (ns ++ ms, r2, tr)
    | BInclude name arg content :: rest =>
        match include_run_prefix st name arg resolve resolve_std fs with
        | (RError level msg, tr0) =>
            let '(ms, r2, tr) := render_blocks st rest r in
            (DNode (KSysMsg level) msg [DNode (KElem 0) content []] :: ms, r2, tr0 ++ tr)
        | (RNodes text, tr0) =>
            let '(ns, r1) := render_text text r in
            let '(ms, r2, tr) := render_blocks st rest r1 in
            (ns ++ ms, r2, tr0 ++ tr)
        end
    end.
End Doc.

Definition is_include (b : block) : bool := match b with BInclude _ _ _ => true | _ => false end.

(* ---------------------------------------------------------------- site table (Gen/RawSites.v) *)
Inductive sink :=
| SinkCurrentNode        (* self.current_node.append(nodes.raw(...)) inside a render_* method *)
| SinkRenderReturn       (* returned to render_html_block, which extends self.current_node *)
| SinkTransform          (* created by a transform / after Parser.parse *)
| SinkUnknown.

Record raw_site := {
  rs_file : str; rs_func : str; rs_format : option str;   (* None: format is not a literal *)
  rs_sink : sink }.

Definition sink_in_tree_before_loop (s : sink) : bool :=
  match s with SinkCurrentNode | SinkRenderReturn => true | _ => false end.

(* ---------------------------------------------------------------- settings hand-over table (Gen/SettingsSites.v) *)
(* where the document / settings / state object that MyST hands to docutils code comes from *)
Inductive prov :=
| PMain        (* Parser.parse: parser.options["document"] = document, the document docutils created *)
| POptions     (* setup_render: self.document = options.get("document", ...) *)
| PRenderer    (* a mock's __init__: self.document = renderer.document *)
| PSelf        (* a call that passes self.document *)
| PSettings    (* render_restructuredtext: newdoc.settings = self.document.settings *)
| PMock        (* a call that passes a mock built from the renderer *)
| POther.      (* anything else *)

Record settings_site := { ss_where : str; ss_prov : prov }.

Definition prov_eqb (a b : prov) : bool :=
  match a, b with
  | PMain, PMain | POptions, POptions | PRenderer, PRenderer | PSelf, PSelf
  | PSettings, PSettings | PMock, PMock | POther, POther => true
  | _, _ => false
  end.

Definition has_prov (p : prov) (t : list settings_site) : bool :=
  existsb (fun s => prov_eqb (ss_prov s) p) t.

(* the settings object reachable from the object handed over at the site is the main document's:
   the renderer's document is the main document (PMain + POptions); a mock's document is the
   renderer's; the eval-rst document carries the renderer's document's settings object *)
Definition site_shares_settings (t : list settings_site) (s : settings_site) : bool :=
  match ss_prov s with
  | PMain => true
  | POptions => has_prov PMain t
  | PRenderer | PSelf | PSettings => has_prov PMain t && has_prov POptions t
  | PMock => has_prov PMain t && has_prov POptions t && has_prov PRenderer t && negb (has_prov POther t)
  | POther => false
  end.
