(* C06: remaining lemmas - the denotation does not depend on the kind of the current node
   where no heading is met at section level; include and substitution; backtick = colon;
   registries shared with the rest of the document. *)
From Coq Require Import List Arith NArith Bool Lia.
From MV Require Import Base.PyStr Base.Res Nest.Lines Nest.Split Nest.Nest Nest.TreeProofs
  Nest.SimProofs Nest.WrapSpec Nest.WrapProofs.
Import ListNotations.
Open Scope N_scope.

(* ---- induction over token trees ---- *)
Section TokInd.
  Variable Q : tok -> Prop.
  Hypothesis Hleaf : forall k c m, Q (TLeaf k c m).
  Hypothesis Hcont : forall k c m ks, Forall Q ks -> Q (TCont k c m ks).
  Hypothesis Hinline : forall ks, Forall Q ks -> Q (TInline ks).
  Hypothesis Hhead : forall l c m ks, Forall Q ks -> Q (THeading l c m ks).
  Hypothesis Htarget : forall l m, Q (TTarget l m).
  Hypothesis Hfdef : forall l m ks, Forall Q ks -> Q (TFootDef l m ks).
  Hypothesis Hfref : forall l m, Q (TFootRef l m).
  Hypothesis Hfence : forall c i b m, Q (TFence c i b m).
  Hypothesis Hsubst : forall i k m, Q (TSubst i k m).
  Hypothesis Hfm : forall c m, Q (TFrontMatter c m).

  Fixpoint tok_ind' (t : tok) : Q t :=
    let fix all (ks : list tok) : Forall Q ks :=
      match ks with
      | [] => Forall_nil Q
      | k :: r => Forall_cons k (tok_ind' k) (all r)
      end in
    match t with
    | TLeaf k c m => Hleaf k c m
    | TCont k c m ks => Hcont k c m ks (all ks)
    | TInline ks => Hinline ks (all ks)
    | THeading l c m ks => Hhead l c m ks (all ks)
    | TTarget l m => Htarget l m
    | TFootDef l m ks => Hfdef l m ks (all ks)
    | TFootRef l m => Hfref l m
    | TFence c i b m => Hfence c i b m
    | TSubst i k m => Hsubst i k m
    | TFrontMatter c m => Hfm c m
    end.
End TokInd.

Lemma shift_map_0 m : shift_map 0 m = m.
Proof. destruct m as [[a b]|]; simpl; [|reflexivity]. rewrite !N.add_0_r. reflexivity. Qed.

Lemma map_id_Forall {A} (f : A -> A) l : Forall (fun x => f x = x) l -> map f l = l.
Proof. induction 1; simpl; congruence. Qed.

Lemma shift_tok_0 t : shift_tok 0 t = t.
Proof.
  induction t using tok_ind'; simpl; rewrite ?shift_map_0; try reflexivity;
    rewrite (map_id_Forall _ _ H); reflexivity.
Qed.

Lemma map_shift_tok_0 ts : map (shift_tok 0) ts = ts.
Proof. apply map_id_Forall. apply Forall_forall. intros. apply shift_tok_0. Qed.

Section More.
  Variable env : Type.
  Variable orc : oracles env.
  Hypothesis O_adm : adm_spec env orc.

  Local Notation shared := (shared env).
  Local Notation dres := (dres env).

  (* ---- where no heading is met at section level, the kind of the current node is irrelevant *)
  Definition topmono (rd : bool -> N -> shared -> tok -> res dres) : Prop :=
    forall ho h t ns h', rd true ho h t = Ok (ns, h', false) -> rd false ho h t = Ok (ns, h', false).

  Lemma topmono_fold rd : topmono rd ->
    forall ho ts h ns h', den_fold (rd true ho) h ts = Ok (ns, h', false) ->
                          den_fold (rd false ho) h ts = Ok (ns, h', false).
  Proof.
    intros Hm ho ts. induction ts as [|t r IH]; intros h ns h' H; [exact H|].
    simpl in *.
    destruct (rd true ho h t) as [[[n1 h1] b1]|] eqn:E1; [|discriminate]. simpl in H.
    destruct (den_fold (rd true ho) h1 r) as [[[n2 h2] b2]|] eqn:E2; [|discriminate].
    simpl in H. injection H as Hns Hh Hb.
    apply orb_false_iff in Hb as [Hb1 Hb2]. subst b1 b2 ns h'.
    rewrite (Hm _ _ _ _ _ E1). simpl. rewrite (IH _ _ _ E2). reflexivity.
  Qed.

  Lemma topmono_nested rd : topmono rd ->
    forall ho0 h text lineno inline ho ns h',
      den_nested env orc rd true ho0 h text lineno inline ho = Ok (ns, h', false) ->
      den_nested env orc rd false ho0 h text lineno inline ho = Ok (ns, h', false).
  Proof.
    intros Hm ho0 h text lineno inline ho ns h' H. unfold den_nested in *.
    destruct (if inline then o_PI orc (s_env h) text else o_P orc (s_env h) (text ++ nl)).
    apply topmono_fold; assumption.
  Qed.

  Lemma topmono_step rd : topmono rd -> topmono (den_step env orc rd).
  Proof.
    intros Hm ho h t ns h' H.
    destruct t as [k c mp|k c mp ks|ks|lvl c mp ks|label mp|label mp ks|label mp
                   |colon info content mp|inline key mp|c mp]; simpl in *; try exact H.
    - (* inline *) apply topmono_fold; assumption.
    - (* heading *) discriminate.
    - (* fence *)
      unfold den_fence in *. destruct (parse_info info) as [name arguments].
      destruct (directive_name name) as [dn|]; [|exact H].
      destruct (negb colon && str_eqb dn eval_rst_name); [exact H|].
      destruct (token_line mp) as [position|]; [|discriminate]. simpl in *.
      unfold den_directive in *.
      destruct (o_dir_lookup orc dn) as [[kind cls]|]; [|exact H].
      destruct (parse_directive_text cls arguments _) as [p|]; [|exact H].
      destruct (o_opt_validate orc dn (p_optblock p)) as [attrs warns].
      destruct kind as [titled| |]; try exact H.
      unfold den_include in *.
      destruct (p_args p) as [|a args']; [discriminate|].
      destruct (o_fs_read orc a) as [file|]; [|exact H].
      destruct (o_include_opts orc (p_optblock p)) as [literal iho].
      destruct literal; [exact H|].
      destruct (mem_str a (o_source orc :: s_incl h)); [exact H|].
      destruct (den_nested env orc rd true ho (set_incl (s_incl h ++ [a]) h)
                  (join nl (split_lines file)) (0 + 1) false iho)
        as [[[direct h2] b2]|] eqn:E; [|discriminate].
      simpl in H. assert (b2 = false) by (inversion H; reflexivity). subst b2.
      rewrite (topmono_nested rd Hm _ _ _ _ _ _ _ _ E). exact H.
    - (* substitution *)
      unfold den_substitution in *.
      destruct (token_line mp) as [position|]; [|discriminate]. simpl in *.
      destruct (o_jinja orc key) as [rendered|]; [|exact H].
      destruct (existsb (fun r => mem_str r (s_subrefs h)) (o_sub_names orc key)); [exact H|].
      destruct (den_nested env orc rd true ho
                  (set_subrefs (add_all (o_sub_names orc key) (s_subrefs h)) h) rendered position
                  (inline && negb (o_is_directive_start orc rendered)) 0)
        as [[[ms h2] b2]|] eqn:E; [|discriminate].
      simpl in H. assert (b2 = false) by (inversion H; reflexivity). subst b2.
      rewrite (topmono_nested rd Hm _ _ _ _ _ _ _ _ E). exact H.
  Qed.

  Lemma topmono_tok f : topmono (den_tok env orc f).
  Proof.
    induction f as [|f IH]; [intros ho h t ns h' H; discriminate|].
    exact (topmono_step _ IH).
  Qed.

  (* the document's own rendering is the body denotation at shift 0 *)
  Lemma den_text_at_0 f h text toks e' ns h' :
    o_P orc (s_env h) text = (toks, e') -> drop_front_matter toks = toks ->
    den_tokens env orc f true (set_env e' h) toks = Ok (ns, h', false) ->
    den_text_at env orc f false 0 h text 0 = Ok (ns, h', false).
  Proof.
    intros HP Hfm H. unfold den_text_at. rewrite HP, Hfm, map_shift_tok_0.
    unfold den_tokens in H. apply (topmono_fold _ (topmono_tok f)). exact H.
  Qed.

  (* ---- include ---- *)
  Section Include.
    Hypothesis O_fence : fence_oracle env orc.

    Theorem include_transparent f e0 path cls p a args' file iho attrs warns ns h :
      fence_safe Backtick 3 (info_of include_name path) [] = true ->
      parse_info (info_of include_name path) = ([c_lbrace] ++ include_name ++ [c_rbrace], path) ->
      o_dir_lookup orc include_name = Some (KInclude, cls) ->
      parse_directive_text cls path [] = Ok p -> p_args p = a :: args' ->
      o_fs_read orc a = Some file ->
      o_include_opts orc (p_optblock p) = (false, iho) ->
      o_opt_validate orc include_name (p_optblock p) = (attrs, warns) ->
      str_eqb a (o_source orc) = false ->
      (* the file's text, rendered as a document body with the include's heading offset *)
      den_text_at env orc f true iho (set_incl [a] (sh0 e0)) (join nl (split_lines file) ++ nl) 1
        = Ok (ns, h, false) ->
      render_doc env orc (S f) e0 (unlines (print_lines (Include path) []))
      = Ok (directive_warnings p warns 1 ++ ns, set_incl (removelast (s_incl h)) h).
    Proof.
      intros Hsafe Hinfo Hdir Hp Hargs Hfs Hopts Hval Hsrc Hden.
      eapply (render_doc_den env orc O_adm).
      - cbn [print_lines]. unfold open_line.
        change (unlines [repeat (fchar Backtick) 3 ++ [c_lbrace] ++ include_name ++ [c_rbrace] ++
                         match path with [] => [] | _ :: _ => c_space :: path end;
                         close_line Backtick 3])
          with (fence_text Backtick 3 (info_of include_name path) []).
        apply (O_fence e0 Backtick 3%nat _ [] Hsafe).
      - unfold den_tokens. cbn [map shift_tok shift_map]. rewrite den_fold_single'.
        cbn [den_tok den_step is_colon]. unfold den_fence. rewrite Hinfo.
        rewrite directive_name_braces.
        replace (negb false && str_eqb include_name eval_rst_name) with false by reflexivity.
        cbn [token_line bind andb]. unfold den_directive. rewrite Hdir.
        cbn [unlines]. rewrite Hp, Hval. unfold den_include. rewrite Hargs, Hfs, Hopts.
        replace (mem_str a (o_source orc :: s_incl (sh0 e0))) with false
          by (simpl; rewrite Hsrc; reflexivity).
        unfold den_text_at in Hden. unfold den_nested.
        change (set_incl (s_incl (sh0 e0) ++ [a]) (sh0 e0)) with (set_incl [a] (sh0 e0)).
        destruct (o_P orc (s_env (set_incl [a] (sh0 e0))) (join nl (split_lines file) ++ nl)) as [toks e'].
        change (0 + 1) with 1. change (0 + iho) with iho. rewrite Hden. simpl. rewrite app_nil_r. reflexivity.
    Qed.
  End Include.

  (* ---- backtick = colon ---- *)
  Section SameFence.
    Hypothesis O_fence : fence_oracle env orc.

    Theorem backtick_colon_same titled name first o len1 len2 X F e0 r :
      wfW env orc (Adm titled name first o Backtick len1) X ->
      wfW env orc (Adm titled name first o Colon len2) X ->
      startswith (unlines (opt_lines o ++ X)) colons3 = false ->
      expected env orc F (Adm titled name first o Backtick len1) X
        (fun h k => den_text_at env orc F false 0 h (unlines X) k) (sh0 e0) 1 = Ok r ->
      render_doc env orc (1 + F) e0 (unlines (print_lines (Adm titled name first o Backtick len1) X))
        = Ok (fst (fst r), snd (fst r))
      /\ render_doc env orc (1 + F) e0 (unlines (print_lines (Adm titled name first o Colon len2) X))
        = Ok (fst (fst r), snd (fst r)).
    Proof.
      intros Hb Hc Hns Hexp. split.
      - apply (directive_transparent env orc O_adm O_fence _ X F e0 r Hb Hexp).
      - apply (directive_transparent env orc O_adm O_fence _ X F e0 r Hc).
        cbn [expected] in *. unfold directive_content, prepended_lines in *.
        cbn [is_colon andb] in *. rewrite Hns. exact Hexp.
    Qed.
  End SameFence.

  (* the renderer as written: an include token is nested_render_text on the file's text in
     the state it finds - headings included *)
  Theorem include_unfolds rr (s : st env) path mp position cls p a args' file iho attrs warns :
    parse_info (info_of include_name path) = ([c_lbrace] ++ include_name ++ [c_rbrace], path) ->
    token_line mp = Ok position ->
    o_dir_lookup orc include_name = Some (KInclude, cls) ->
    parse_directive_text cls path [] = Ok p -> p_args p = a :: args' ->
    o_fs_read orc a = Some file ->
    o_include_opts orc (p_optblock p) = (false, iho) ->
    o_opt_validate orc include_name (p_optblock p) = (attrs, warns) ->
    mem_str a (o_source orc :: s_incl (shr s)) = false ->
    render_step env orc rr s (TFence false (info_of include_name path) [] mp)
    = (do s1 <- extend_cur s (directive_warnings p warns position);
       do s2 <- nested_render_text env orc rr
                  (set_shr (set_incl (s_incl (shr s1) ++ [a]) (shr s1)) s1)
                  (join nl (split_lines file)) 1 false None iho;
       extend_cur (set_shr (set_incl (removelast (s_incl (shr s2))) (shr s2)) s2) []).
  Proof.
    intros Hinfo Hline Hdir Hp Hargs Hfs Hopts Hval Hlog.
    cbn [render_step]. unfold render_fence. rewrite Hinfo, directive_name_braces.
    replace (negb false && str_eqb include_name eval_rst_name) with false by reflexivity.
    cbn [andb]. unfold render_directive. rewrite Hline. cbn [bind].
    unfold run_directive. rewrite Hdir, Hp, Hval.
    destruct (extend_cur s (directive_warnings p warns position)) as [s1|] eqn:E1; [|reflexivity].
    cbn [bind]. unfold include_run. rewrite Hargs, Hfs, Hopts.
    assert (Hshr : shr s1 = shr s).
    { unfold extend_cur in E1. destruct (extend_loc (cur s) _ (roots s)); [|discriminate].
      inversion E1; reflexivity. }
    rewrite Hshr, Hlog.
    change (0 + 1) with 1.
    destruct (nested_render_text env orc rr _ (join nl (split_lines file)) 1 false None iho);
      reflexivity.
  Qed.

  (* ---- what nested_render_text saves and restores ---- *)
  Theorem nested_restores rr (s s' : st env) text lineno inline tr ho :
    nested_render_text env orc rr s text lineno inline tr ho = Ok s' ->
    hoff s' = hoff s
    /\ (tr <> None -> lmap s' = lmap s /\ troot s' = troot s).
  Proof.
    unfold nested_render_text.
    destruct (if inline then o_PI orc (s_env (shr s)) text else o_P orc (s_env (shr s)) (text ++ nl))
      as [toks0 e'].
    destruct (render_tokens_ rr _ _) as [s4|]; [|discriminate].
    cbn [bind]. intro H. destruct tr as [l|]; inversion H; subst s'; simpl.
    - split; [reflexivity|]. intros _. split; reflexivity.
    - split; [reflexivity|]. intro C. congruence.
  Qed.

  (* ---- substitution ---- *)
  Theorem subst_transparent f e0 text key rendered ns h2 :
    o_P orc e0 text = ([TSubst false key (Some (0, 1))], e0) ->
    o_jinja orc key = Some rendered ->
    den_text_at env orc f true 0
      (set_subrefs (add_all (o_sub_names orc key) []) (sh0 e0)) (rendered ++ nl) 1
      = Ok (ns, h2, false) ->
    render_doc env orc (S f) e0 text
    = Ok (ns, set_subrefs (remove_all (o_sub_names orc key) (s_subrefs h2)) h2).
  Proof.
    intros HP Hj Hden.
    eapply (render_doc_den env orc O_adm); [exact HP|].
    unfold den_tokens. cbn [map shift_tok shift_map]. rewrite den_fold_single'.
    cbn [den_tok den_step]. unfold den_substitution. cbn [token_line bind]. rewrite Hj.
    replace (existsb (fun r => mem_str r (s_subrefs (sh0 e0))) (o_sub_names orc key)) with false.
    2:{ simpl. clear Hden. induction (o_sub_names orc key) as [|x l IHl]; simpl; [reflexivity|exact IHl]. }
    unfold den_text_at in Hden. unfold den_nested. cbn [andb].
    change (0 + 1) with 1.
    destruct (o_P orc (s_env (set_subrefs (add_all (o_sub_names orc key) (s_subrefs (sh0 e0))) (sh0 e0)))
                (rendered ++ nl)) as [toks e'] eqn:EP.
    simpl in EP, Hden. rewrite EP in Hden.
    change (s_subrefs (sh0 e0)) with (@nil str). change (0 + 0) with 0. rewrite Hden. reflexivity.
  Qed.

  (* ---- the rest of the document sees the same registries ---- *)
  Lemma den_fold_app (g : shared -> tok -> res dres) a b h :
    den_fold g h (a ++ b)
    = (do ra <- den_fold g h a;
       do rb <- den_fold g (snd (fst ra)) b;
       Ok (fst (fst ra) ++ fst (fst rb), snd (fst rb), snd ra || snd rb)).
  Proof.
    revert h. induction a as [|t a IH]; intro h.
    - simpl. destruct (den_fold g h b) as [[[n2 h2] b2]|]; reflexivity.
    - simpl. destruct (g h t) as [[[n1 h1] b1]|]; simpl; [|reflexivity].
      rewrite IH. destruct (den_fold g h1 a) as [[[na ha] ba]|]; simpl; [|reflexivity].
      destruct (den_fold g ha b) as [[[nb hb] bb]|]; simpl; [|reflexivity].
      rewrite app_assoc, orb_assoc. reflexivity.
  Qed.

  (* Two middles (a wrapper token / the body's own tokens) that leave the same registries are
     followed by the same nodes and the same final registries, whatever surrounds them. *)
  Theorem registries_shared (g : shared -> tok -> res dres) h before mid1 mid2 after
          nb hb n1 n2 hm :
    den_fold g h before = Ok (nb, hb, false) ->
    den_fold g hb mid1 = Ok (n1, hm, false) ->
    den_fold g hb mid2 = Ok (n2, hm, false) ->
    forall na ha fa, den_fold g hm after = Ok (na, ha, fa) ->
      den_fold g h (before ++ mid1 ++ after) = Ok (nb ++ n1 ++ na, ha, fa)
      /\ den_fold g h (before ++ mid2 ++ after) = Ok (nb ++ n2 ++ na, ha, fa).
  Proof.
    intros Hb H1 H2 na ha fa Ha.
    split; rewrite den_fold_app, Hb; simpl; rewrite den_fold_app.
    - rewrite H1. simpl. rewrite Ha. reflexivity.
    - rewrite H2. simpl. rewrite Ha. reflexivity.
  Qed.

End More.
