(* C06: the lemmas behind the multi-step theorems of Props/C06.v (statements repeated there). *)
From Coq Require Import List NArith Bool.
From MV Require Import Base.PyStr Base.Res Nest.Lines Nest.Split Nest.Nest Nest.TreeProofs
  Nest.SimProofs Nest.WrapSpec Nest.WrapProofs Nest.MoreProofs Nest.SplitProofs Nest.Fence Nest.Toy
  Nest.RefutedProofs Nest.FenceProofs Nest.ShiftProofs Gen.NestSrc Nest.NestSrcProofs.
Import ListNotations.
Open Scope N_scope.


Lemma C06_directive_transparent_l :
  forall (env : Type) (orc : oracles env), adm_spec env orc -> fence_oracle env orc ->
  forall (w : wrapper) (X : list str) (F : nat) (e0 : env), wfW env orc w X ->
    (forall r,
        expected env orc F w X (fun h k => den_text_at env orc F false 0 h (unlines X) k) (sh0 e0) 1 = Ok r ->
        render_doc env orc (depth w + F) e0 (unlines (print_lines w X)) = Ok (fst (fst r), snd (fst r)))
    /\
    (forall toks e' ns h,
        o_P orc e0 (unlines X) = (toks, e') -> drop_front_matter toks = toks ->
        den_tokens env orc F true (sh0 e') toks = Ok (ns, h, false) ->
        render_doc env orc F e0 (unlines X) = Ok (ns, h)
        /\ den_text_at env orc F false 0 (sh0 e0) (unlines X) 0 = Ok (ns, h, false)).
Proof.
  intros env orc Hadm Hfence w X F e0 Hwf. split.
  - intros r Hr. exact (directive_transparent env orc Hadm Hfence w X F e0 r Hwf Hr).
  - intros toks e' ns h HP Hfm Hden. split.
    + exact (top_level_is_den env orc Hadm F e0 (unlines X) toks e' ns h HP Hden).
    + exact (den_text_at_0 env orc F (sh0 e0) (unlines X) toks e' ns h HP Hfm Hden).
Qed.

Lemma C06_line_shift_equivariant_l :
  forall (env : Type) (orc : oracles env), adm_spec env orc -> shift_oracles env orc ->
  (forall f top ho h t k, mapped t = true ->
     den_tok env orc f top ho h (shift_tok k t)
     = map_res (shift_dres env k) (den_tok env orc f top ho h t))
  /\ (forall f top ho h text k,
        den_text_at env orc f top ho h text k
        = map_res (shift_dres env k) (den_text_at env orc f top ho h text 0)).
Proof.
  intros env orc Hadm Hs. split.
  - intros f. exact (den_tok_shift env orc Hadm Hs f).
  - intros f top ho h text k. exact (den_text_at_shift env orc Hadm Hs f top ho h text k).
Qed.

Lemma C06_oracles_satisfiable_l : adm_spec bool toy /\ fence_oracle bool toy.
Proof. split; [exact toy_adm_spec | exact toy_fence_oracle]. Qed.

Lemma C06_src_is_model_l :
  forall (env : Type) (orc : oracles env), adm_spec env orc ->
  (forall rec s text lineno inline tr ho,
      nested_render_text_src env orc rec s text lineno inline tr ho
      = nested_render_text env orc rec s text lineno inline tr ho)
  /\ (forall rec lineno block off n s,
        nested_parse_src env orc rec lineno block off n false s
        = cb_nested_parse (mock_state env orc rec lineno) block off n s)
  /\ (forall rec s info content mp,
        render_fence_src env orc rec false false [] s info content mp
        = render_fence env orc rec s false info content mp)
  /\ (forall rec s info content mp,
        render_colon_fence_src env orc rec s info content mp = render_fence env orc rec s true info content mp)
  /\ (forall rec s name first content position pre,
        run_directive_src env orc rec s name first content position pre
        = run_directive env orc rec s name first content position pre)
  /\ (forall rec s inline key mp,
        render_substitution_src env orc rec s inline key mp = render_substitution env orc rec s inline key mp)
  /\ (forall f s t, render_tok_src env orc f s t = render_tok env orc f s t)
  /\ (forall f e text, render_doc_src env orc f e text = render_doc env orc f e text).
Proof.
  intros env orc Hadm. repeat split; intros.
  - apply nested_render_text_src_model.
  - apply nested_parse_src_model.
  - apply (render_fence_src_model env orc Hadm).
  - apply (render_colon_fence_src_model env orc Hadm).
  - apply (run_directive_src_model env orc Hadm).
  - apply render_substitution_src_model.
  - apply (render_tok_src_model env orc Hadm).
  - apply (render_doc_src_model env orc Hadm).
Qed.

Lemma C06_nested_restores_src_l :
  forall (env : Type) (orc : oracles env) rr (s s' : st env) text lineno inline tr ho,
    nested_render_text_src env orc rr s text lineno inline tr ho = Ok s' ->
    hoff s' = hoff s /\ (tr <> None -> lmap s' = lmap s /\ troot s' = troot s).
Proof.
  intros env orc rr s s' text lineno inline tr ho H. rewrite nested_render_text_src_model in H.
  exact (nested_restores env orc rr s s' text lineno inline tr ho H).
Qed.

Lemma C06_registries_shared_src_l :
  forall (env : Type) (orc : oracles env), adm_spec env orc ->
  forall f top (s : st env) before mid1 mid2 after nb hb n1 n2 hm na ha,
    good env top s ->
    den_fold (den_tok env orc f top (hoff s)) (shr s) before = Ok (nb, hb, false) ->
    den_fold (den_tok env orc f top (hoff s)) hb mid1 = Ok (n1, hm, false) ->
    den_fold (den_tok env orc f top (hoff s)) hb mid2 = Ok (n2, hm, false) ->
    den_fold (den_tok env orc f top (hoff s)) hm after = Ok (na, ha, false) ->
    fold_res (render_tok_src env orc f) s (before ++ mid1 ++ after) = ext env s (nb ++ n1 ++ na) ha
    /\ fold_res (render_tok_src env orc f) s (before ++ mid2 ++ after) = ext env s (nb ++ n2 ++ na) ha.
Proof.
  intros env orc Hadm f top s before mid1 mid2 after nb hb n1 n2 hm na ha Hg Hb H1 H2 Ha.
  destruct (registries_shared env (den_tok env orc f top (hoff s)) (shr s) before mid1 mid2 after
              nb hb n1 n2 hm Hb H1 H2 na ha false Ha) as [R1 R2].
  split; rewrite (fold_res_ext _ _ (render_tok_src_model env orc Hadm f));
    apply (sim_fold env _ _ (sim_tok env orc Hadm f) top); assumption.
Qed.

Lemma C06_subst_transparent_src_l :
  forall (env : Type) (orc : oracles env), adm_spec env orc ->
  forall f e0 text key rendered ns h2,
    o_P orc e0 text = ([TSubst false key (Some (0, 1))], e0) ->
    o_jinja orc key = Some rendered ->
    den_text_at env orc f true 0
      (set_subrefs (add_all (o_sub_names orc key) []) (sh0 e0)) (rendered ++ nl) 1
      = Ok (ns, h2, false) ->
    render_doc_src env orc (S f) e0 text
    = Ok (ns, set_subrefs (remove_all (o_sub_names orc key) (s_subrefs h2)) h2).
Proof.
  intros env orc Hadm f e0 text key rendered ns h2 HP Hj Hden.
  rewrite (render_doc_src_model env orc Hadm).
  exact (subst_transparent env orc Hadm f e0 text key rendered ns h2 HP Hj Hden).
Qed.
