(* C06: the include chain (md_env["include_log"]) is bookkeeping that every include restores:
   after any token has been rendered - in particular after MockIncludeDirective.run returns - the
   chain is what it was before.  Hence a file may be included any number of times in one document
   (the circular-inclusion test only sees the files currently being included). *)
From Coq Require Import List Arith NArith Bool Lia.
From MV Require Import Base.PyStr Base.Res Nest.Lines Nest.Split Nest.Nest Nest.TreeProofs
  Nest.SimProofs Gen.NestSrc Nest.NestSrcProofs.
Import ListNotations.
Open Scope N_scope.

Section Incl.
  Variable env : Type.
  Variable orc : oracles env.
  Hypothesis O_adm : adm_spec env orc.

  Local Notation st := (st env).

  (* opaque directives and eval-rst do not touch the include chain *)
  Definition log_oracles : Prop :=
    (forall name args ob body off pos h,
        s_incl (snd (o_other_directive orc name args ob body off pos h)) = s_incl h)
    /\ (forall c pos h, s_incl (snd (o_eval_rst orc c pos h)) = s_incl h).
  Hypothesis O_log : log_oracles.

  Definition keeps (rr : st -> tok -> res st) : Prop :=
    forall s t s', rr s t = Ok s' -> s_incl (shr s') = s_incl (shr s).

  Lemma extend_cur_shr (s s' : st) ns : extend_cur s ns = Ok s' -> shr s' = shr s.
  Proof.
    unfold extend_cur. destruct (extend_loc (cur s) ns (roots s)); [|discriminate].
    intro H. inversion H. reflexivity.
  Qed.

  Lemma fold_keeps rr : keeps rr -> forall ts s s', fold_res rr s ts = Ok s' -> s_incl (shr s') = s_incl (shr s).
  Proof.
    intros Hk ts. induction ts as [|t r IH]; intros s s' H.
    - inversion H. reflexivity.
    - simpl in H. destruct (rr s t) as [s1|] eqn:E; [|discriminate]. simpl in H.
      rewrite (IH s1 s' H). exact (Hk s t s1 E).
  Qed.

  Lemma with_node_keeps (s s' : st) n (body : st -> res st) :
    (forall x x', body x = Ok x' -> s_incl (shr x') = s_incl (shr x)) ->
    with_node s n body = Ok s' -> s_incl (shr s') = s_incl (shr s).
  Proof.
    intros Hb. unfold with_node. destruct (get_loc (cur s) (roots s)); [|discriminate]. simpl.
    destruct (extend_cur s [n]) as [s1|] eqn:E1; [|discriminate]. simpl.
    destruct (body _) as [s2|] eqn:E2; [|discriminate]. simpl. intro H. inversion H. simpl.
    rewrite (Hb _ _ E2). simpl. rewrite (extend_cur_shr _ _ _ E1). reflexivity.
  Qed.

  Lemma with_detached_keeps (s : st) n (body : st -> res st) r :
    (forall x x', body x = Ok x' -> s_incl (shr x') = s_incl (shr x)) ->
    with_detached s n body = Ok r -> s_incl (shr (snd r)) = s_incl (shr s).
  Proof.
    intros Hb. unfold with_detached.
    destruct (body _) as [s2|] eqn:E2; cbn [bind]; [|discriminate].
    destruct (nth_error (roots s2) (length (roots s))); [|discriminate].
    intro H. inversion H. simpl. rewrite (Hb _ _ E2). reflexivity.
  Qed.

  Lemma nested_keeps rr : keeps rr ->
    forall s text lineno inline tr ho s',
      nested_render_text env orc rr s text lineno inline tr ho = Ok s' -> s_incl (shr s') = s_incl (shr s).
  Proof.
    intros Hk s text lineno inline tr ho s'. unfold nested_render_text.
    destruct (if inline then o_PI orc (s_env (shr s)) text else o_P orc (s_env (shr s)) (text ++ nl)) as [toks e'].
    unfold render_tokens_.
    destruct (fold_res rr _ _) as [s4|] eqn:E; [|discriminate].
    cbn [bind]. intro H. apply (fold_keeps rr Hk) in E.
    destruct tr as [l|]; inversion H; simpl; rewrite E; reflexivity.
  Qed.

  (* MockIncludeDirective.run: the chain is pushed for the nested render and popped afterwards *)
  Lemma include_run_keeps rr : keeps rr ->
    forall s p r, include_run env orc rr s p = Ok r -> s_incl (shr (snd r)) = s_incl (shr s).
  Proof.
    intros Hk s p r. unfold include_run.
    destruct (p_args p) as [|a args]; [discriminate|].
    destruct (o_fs_read orc a); [|intro H; inversion H; reflexivity].
    destruct (o_include_opts orc (p_optblock p)) as [literal ho].
    destruct literal; [intro H; inversion H; reflexivity|].
    destruct (mem_str a _); [intro H; inversion H; reflexivity|].
    destruct (nested_render_text env orc rr _ _ _ _ _ _) as [s2|] eqn:E; [|discriminate].
    cbn [bind]. intro H. inversion H. simpl.
    rewrite (nested_keeps rr Hk _ _ _ _ _ _ _ E). simpl. apply removelast_last.
  Qed.

  Lemma adm_keeps rr : keeps rr ->
    forall s position titled name args attrs content off r,
      admonition_run st (mock_state env orc rr position) titled name args attrs content off position s = Ok r ->
      s_incl (shr (snd r)) = s_incl (shr s).
  Proof.
    intros Hk s position titled name args attrs content off r. unfold admonition_run.
    destruct (is_nil content); [intro H; inversion H; reflexivity|].
    assert (Hnp : forall n x r2, cb_nested_parse (mock_state env orc rr position) content off n x = Ok r2 ->
                                 s_incl (shr (snd r2)) = s_incl (shr x)).
    { intros n x r2. cbn [cb_nested_parse mock_state]. apply with_detached_keeps.
      intros y y'. apply nested_keeps. exact Hk. }
    destruct titled.
    - destruct args as [|a args']; [discriminate|].
      cbn [cb_inline_text mock_state].
      destruct (with_detached s _ _) as [r0|] eqn:E0; [|discriminate]. cbn [bind fst snd].
      destruct (cb_nested_parse _ content off _ (snd r0)) as [r2|] eqn:E2; [|discriminate].
      cbn [bind]. intro H. inversion H. simpl. rewrite (Hnp _ _ _ E2).
      eapply with_detached_keeps; [|exact E0]. intros y y'. apply nested_keeps. exact Hk.
    - cbn [bind fst snd].
      destruct (cb_nested_parse _ content off _ s) as [r2|] eqn:E2; [|discriminate].
      cbn [bind]. intro H. inversion H. simpl. exact (Hnp _ _ _ E2).
  Qed.

  Lemma run_directive_keeps rr : keeps rr ->
    forall s name first content position pre r,
      run_directive env orc rr s name first content position pre = Ok r ->
      s_incl (shr (snd r)) = s_incl (shr s).
  Proof.
    intros Hk s name first content position pre r. unfold run_directive.
    destruct (o_dir_lookup orc name) as [[kind cls]|]; [|intro H; inversion H; reflexivity].
    destruct (parse_directive_text cls first content) as [p|]; [|intro H; inversion H; reflexivity].
    destruct (o_opt_validate orc name (p_optblock p)) as [attrs warns].
    destruct (extend_cur s _) as [s1|] eqn:E1; [|discriminate]. cbn [bind].
    pose proof (extend_cur_shr _ _ _ E1) as Hs1.
    destruct kind as [titled| |].
    - rewrite O_adm.
      destruct (admonition_run st _ titled name (p_args p) attrs (p_body p) (p_off p - pre) position s1) as [x|] eqn:E;
        [|discriminate].
      cbn [bind]. intro H. inversion H. simpl. rewrite (adm_keeps rr Hk _ _ _ _ _ _ _ _ _ E). rewrite Hs1. reflexivity.
    - destruct (include_run env orc rr s1 p) as [x|] eqn:E; [|discriminate].
      cbn [bind]. intro H. inversion H. simpl. rewrite (include_run_keeps rr Hk _ _ _ E). rewrite Hs1. reflexivity.
    - destruct (o_other_directive orc name (p_args p) (p_optblock p) (p_body p) (p_off p - pre) position (shr s1))
        as [ns h] eqn:E.
      cbn [bind]. intro H. inversion H. simpl.
      pose proof (proj1 O_log name (p_args p) (p_optblock p) (p_body p) (p_off p - pre)%nat position (shr s1)) as Ho.
      rewrite E in Ho. simpl in Ho. rewrite Ho, Hs1. reflexivity.
  Qed.

  Lemma children_keeps rr : keeps rr ->
    forall ks x x', render_children rr x ks = Ok x' -> s_incl (shr x') = s_incl (shr x).
  Proof. intros Hk ks x x'. apply fold_keeps. exact Hk. Qed.

  Lemma step_keeps rr : keeps rr -> keeps (render_step env orc rr).
  Proof.
    intros Hk s t s' H.
    destruct t as [k c mp|k c mp ks|ks|lvl c mp ks|label mp|label mp ks|label mp
                   |colon info content mp|inline key mp|c mp]; cbn [render_step] in H.
    - rewrite (extend_cur_shr _ _ _ H). reflexivity.
    - eapply with_node_keeps; [|exact H]. apply children_keeps. exact Hk.
    - eapply children_keeps; eauto.
    - unfold render_heading in H. destruct (seccap s) as [sc|]; [|discriminate]. cbn [bind] in H.
      destruct (negb sc).
      + destruct (with_node s _ _) as [s1|] eqn:E; [|discriminate]. cbn [bind] in H. inversion H. simpl.
        eapply with_node_keeps; [|exact E]. apply children_keeps. exact Hk.
      + destruct (max_below (lmap s) (lvl + hoff s) None); [|discriminate].
        destruct (lookup_level (lmap s) n); [|discriminate].
        destruct (if (n <? lvl + hoff s) && negb (n + 1 =? lvl + hoff s) then _ else _) as [s0|] eqn:E0; [|discriminate].
        cbn [bind] in H.
        assert (Hs0 : shr s0 = shr s).
        { destruct ((n <? lvl + hoff s) && negb (n + 1 =? lvl + hoff s)).
          - apply (extend_cur_shr _ _ _ E0).
          - inversion E0. reflexivity. }
        destruct (get_loc l (roots s0)); [|discriminate]. cbn [bind] in H.
        destruct (extend_loc l _ (roots s0)); [|discriminate]. cbn [bind] in H.
        destruct (render_children rr _ ks) as [s2|] eqn:E2; [|discriminate]. cbn [bind] in H.
        inversion H. simpl. rewrite (children_keeps rr Hk _ _ _ E2). simpl. rewrite Hs0. reflexivity.
    - destruct (note_explicit_target label (token_line_d mp 0) (shr s)) as [msgs h] eqn:E.
      rewrite (extend_cur_shr _ _ _ H). simpl. unfold note_explicit_target in E.
      destruct (mem_strs label (s_names (shr s))); inversion E; reflexivity.
    - destruct (mem_strs label (s_footdefs (shr s))).
      + rewrite (extend_cur_shr _ _ _ H). reflexivity.
      + destruct (note_explicit_target label (token_line_d mp 0) (add_footdef label (shr s))) as [msgs h] eqn:E.
        rewrite (with_node_keeps _ _ _ _ (children_keeps rr Hk ks) H). simpl.
        unfold note_explicit_target in E.
        destruct (mem_strs label (s_names (add_footdef label (shr s)))); inversion E; reflexivity.
    - rewrite (extend_cur_shr _ _ _ H). reflexivity.
    - unfold render_fence in H. destruct (parse_info info) as [name args].
      destruct (directive_name name) as [dn|].
      + destruct (negb colon && str_eqb dn eval_rst_name).
        * destruct (o_eval_rst orc content (token_line_d mp 0) (shr s)) as [ns h] eqn:E.
          rewrite (extend_cur_shr _ _ _ H). simpl.
          pose proof (proj2 O_log content (token_line_d mp 0) (shr s)) as Ho. rewrite E in Ho. exact Ho.
        * unfold render_directive in H. destruct (token_line mp); [|discriminate]. cbn [bind] in H.
          destruct (run_directive env orc rr s dn args _ a _) as [r|] eqn:E; [|discriminate]. cbn [bind] in H.
          rewrite (extend_cur_shr _ _ _ H). exact (run_directive_keeps rr Hk _ _ _ _ _ _ _ E).
      + destruct colon.
        * eapply with_node_keeps; [|exact H]. intros x x'. apply nested_keeps. exact Hk.
        * rewrite (extend_cur_shr _ _ _ H). reflexivity.
    - unfold render_substitution in H. destruct (token_line mp); [|discriminate]. cbn [bind] in H.
      destruct (o_jinja orc key); [|rewrite (extend_cur_shr _ _ _ H); reflexivity].
      destruct (existsb _ _); [rewrite (extend_cur_shr _ _ _ H); reflexivity|].
      destruct (nested_render_text env orc rr _ _ _ _ _ _) as [s2|] eqn:E; [|discriminate].
      cbn [bind] in H. inversion H. simpl. rewrite (nested_keeps rr Hk _ _ _ _ _ _ _ E). reflexivity.
    - rewrite (extend_cur_shr _ _ _ H). reflexivity.
  Qed.

  Theorem render_tok_keeps f : keeps (render_tok env orc f).
  Proof.
    induction f as [|f IH]; [intros s t s' H; discriminate|]. exact (step_keeps _ IH).
  Qed.

  (* the tail of run() as the source writes it *)
  Lemma include_tail_src_model rr s a file ho :
    include_tail_src env orc rr s a file 0 ho
    = (do s2 <- nested_render_text env orc rr (set_shr (set_incl (s_incl (shr s) ++ [a]) (shr s)) s) file (0 + 1) false None ho;
       Ok (set_shr (set_incl (removelast (s_incl (shr s2))) (shr s2)) s2)).
  Proof.
    unfold include_tail_src. rewrite bind_ret, nested_render_text_src_model.
    destruct (nested_render_text env orc rr _ file (0 + 1) false None ho); reflexivity.
  Qed.

  Theorem include_tail_src_restores f s a file ho s' :
    include_tail_src env orc (render_tok env orc f) s a file 0 ho = Ok s' ->
    s_incl (shr s') = s_incl (shr s).
  Proof.
    rewrite include_tail_src_model.
    destruct (nested_render_text env orc (render_tok env orc f) _ file (0 + 1) false None ho) as [s2|] eqn:E; [|discriminate].
    cbn [bind]. intro H. inversion H. simpl.
    rewrite (nested_keeps _ (render_tok_keeps f) _ _ _ _ _ _ _ E). simpl. apply removelast_last.
  Qed.

End Incl.
