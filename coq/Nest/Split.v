(* Concrete, executable part of the C06 model:
   - render_fence / render_colon_fence: splitting of the info string, directive name
   - parsers/directives.py: parse_directive_text restricted to what decides body and
     body_offset (option *values* are opaque: dedent / options_to_items / validation are
     an oracle of Nest.v that receives the raw option block)
   - the wrapper printer  print_lines W X  and the prediction of every nested_render_text
     call (text, lineno) that rendering  print_lines W X  makes.
   Executable definitions only; lemmas are in SplitProofs.v. *)
From Coq Require Import List Arith NArith Bool.
From MV Require Import Base.PyStr Base.Res Nest.Lines.
Import ListNotations.
Open Scope N_scope.

Definition c_dash : N := 45.
Definition c_colon : N := 58.
Definition c_lbrace : N := 123.
Definition c_rbrace : N := 125.
Definition c_space : N := 32.
Definition dashes3 : str := [c_dash; c_dash; c_dash].
Definition colons3 : str := [c_colon; c_colon; c_colon].

(* ---- render_fence: parts = info.strip().split(maxsplit=1) ---- *)
Definition parse_info (info : str) : str * str :=
  match split_ws_max 1 (strip info) with
  | [] => ([], [])
  | [n] => (n, [])
  | n :: a :: _ => (n, a)
  end.

(* name.startswith("{") and name.endswith("}")  ->  name[1:-1] *)
Definition directive_name (name : str) : option str :=
  if startswith name [c_lbrace] && endswith name [c_rbrace]
  then Some (removelast (tl name)) else None.

(* ---- the directive class attributes parse_directive_text looks at ---- *)
Record dclass := {
  d_optspec : bool;        (* bool(directive_class.option_spec) *)
  d_req : nat;             (* required_arguments *)
  d_opt : nat;             (* optional_arguments *)
  d_final_ws : bool;       (* final_argument_whitespace *)
  d_has_content : bool }.

(* docutils BaseAdmonition subclasses (note, warning, tip, ...) and Admonition *)
Definition adm_class : dclass :=
  {| d_optspec := true; d_req := 0; d_opt := 0; d_final_ws := true; d_has_content := true |}.
Definition admt_class : dclass :=
  {| d_optspec := true; d_req := 1; d_opt := 0; d_final_ws := true; d_has_content := true |}.

Record parsed := {
  p_args : list str;
  p_optblock : option str;     (* raw option block (before dedent), None = no block *)
  p_body : list str;
  p_off : nat;                 (* body_offset *)
  p_warn_split : bool;         (* "Splitting content across first line and body ..." *)
  p_warn_content : bool }.     (* "Has content, but none permitted" *)

Fixpoint count_dashes (s : str) : nat :=
  match s with
  | c :: r => if c =? c_dash then S (count_dashes r) else O
  | [] => O
  end.

(* re.search(r"^-{3,}", s, re.MULTILINE) -> (match.start(), match.end()) *)
Fixpoint search_dashes (s : str) (bol : bool) (i : nat) : option (nat * nat) :=
  match s with
  | [] => None
  | c :: r =>
      if bol && startswith s dashes3 then Some (i, (i + count_dashes s)%nat)
      else search_dashes r (c =? c_nl) (S i)
  end.

(* the while-loop popping lines whose lstrip starts with ":" *)
Fixpoint span_opts (ls : list str) : list str * list str :=
  match ls with
  | [] => ([], [])
  | l :: r =>
      if startswith (lstrip l) [c_colon]
      then let '(y, rest) := span_opts r in (tl (lstrip l) :: y, rest)
      else ([], ls)
  end.

Fixpoint count_occ_N (c : N) (s : str) : nat :=
  match s with
  | [] => O
  | x :: r => if x =? c then S (count_occ_N c r) else count_occ_N c r
  end.

(* _parse_directive_options: (lines of the remaining content - always a suffix of
   content.split_lines() -, raw option block) *)
Definition parse_directive_options (content : str) : list str * option str :=
  let content_lines := split_lines content in
  if startswith content dashes3 then
    let content_lines := tl content_lines in
    let content1 := join nl content_lines in
    match search_dashes content1 true 0 with
    | Some (s, e) =>
        let options_block := firstn s content1 in
        (* the (whole) closing delimiter line ends the block *)
        (skipn (S (count_occ_N c_nl options_block)) content_lines, Some options_block)
    | None => ([], Some content1)
    end
  else if startswith (lstrip content) [c_colon] then
    let '(y, rest) := span_opts content_lines in
    (rest, Some (join nl y))
  else (content_lines, None).

Definition parse_directive_arguments (cls : dclass) (arg_text : str) : res (list str) :=
  let arguments := split_ws arg_text in
  let n := length arguments in
  if (n <? d_req cls)%nat then Raise MarkupError
  else if (d_req cls + d_opt cls <? n)%nat then
    if d_final_ws cls then Ok (split_ws_max (d_req cls + d_opt cls - 1) arg_text)
    else Raise MarkupError
  else Ok arguments.

Definition is_nil {A} (l : list A) : bool := match l with [] => true | _ => false end.

Definition parse_directive_text (cls : dclass) (first_line content : str) : res parsed :=
  let '(body0, off0, ob) :=
    if d_optspec cls then
      let '(bl, ob) := parse_directive_options content in
      (bl, (length (split_lines content) - length bl)%nat, ob)
    else (split_lines content, O, None) in
  let has_opts := match ob with Some _ => true | None => false end in
  do r1 <-
    (if (d_req cls =? 0)%nat && (d_opt cls =? 0)%nat then
       if negb (is_blank first_line) then
         Ok (first_line :: body0, O, [], has_opts && existsb (fun l => negb (is_nil l)) body0)
       else Ok (body0, off0, [], false)
     else
       do a <- parse_directive_arguments cls first_line;
       Ok (body0, off0, a, false));
  let '(body1, off1, args, wsplit) := r1 in
  let '(body2, off2) :=
    match body1 with
    | l :: r => if is_blank l then (r, S off1) else (body1, off1)
    | [] => (body1, off1)
    end in
  Ok {| p_args := args; p_optblock := ob; p_body := body2; p_off := off2;
        p_warn_split := wsplit;
        p_warn_content := negb (is_nil body2) && negb (d_has_content cls) |}.

(* ---- wrappers ---- *)
Inductive fkind := Backtick | Tilde | Colon.
Definition fchar (k : fkind) : N :=
  match k with Backtick => 96 | Tilde => 126 | Colon => c_colon end.
Definition is_colon (k : fkind) : bool := match k with Colon => true | _ => false end.

Inductive ostyle :=
| ONone                                   (* body directly after the opening line *)
| OBlank                                  (* one blank line, then the body *)
| OColon (opts : list str) (blank : bool) (* ":key: value" lines, optional blank line *)
| ODash (opts : list str) (blank : bool). (* "---" / yaml lines / "---", optional blank *)

Inductive wrapper :=
| Adm (titled : bool) (name first : str) (o : ostyle) (k : fkind) (len : nat)
| Nest (outer inner : wrapper)
| Include (path : str)                    (* ```{include} path : X is the file's text *)
| Subst (key : str).                      (* {{ key }}         : X is the value *)

Definition open_line (k : fkind) (len : nat) (name first : str) : str :=
  repeat (fchar k) len ++ [c_lbrace] ++ name ++ [c_rbrace] ++
  (match first with [] => [] | _ => c_space :: first end).
Definition close_line (k : fkind) (len : nat) : str := repeat (fchar k) len.

Definition opt_lines (o : ostyle) : list str :=
  match o with
  | ONone => []
  | OBlank => [[]]
  | OColon os b => map (cons c_colon) os ++ (if b then [[]] else [])
  | ODash os b => dashes3 :: os ++ [dashes3] ++ (if b then [[]] else [])
  end.

Definition include_name : str := [105; 110; 99; 108; 117; 100; 101].   (* "include" *)

Fixpoint print_lines (w : wrapper) (X : list str) : list str :=
  match w with
  | Adm _ name first o k len =>
      open_line k len name first :: opt_lines o ++ X ++ [close_line k len]
  | Nest o i => print_lines o (print_lines i X)
  | Include path => [open_line Backtick 3 include_name path; close_line Backtick 3]
  | Subst key => [[c_lbrace; c_lbrace] ++ key ++ [c_rbrace; c_rbrace]]
  end.

Fixpoint depth (w : wrapper) : nat :=
  match w with Nest o i => (depth o + depth i)%nat | _ => 1%nat end.

Fixpoint adm_only (w : wrapper) : bool :=
  match w with Adm _ _ _ _ _ _ => true | Nest o i => adm_only o && adm_only i | _ => false end.

(* the line would end a fence of this kind and length (markdown-it: up to 3 spaces of
   indentation; over-approximated here by any space/tab indentation) *)
Fixpoint count_char (c : N) (s : str) : nat :=
  match s with x :: r => if x =? c then S (count_char c r) else O | [] => O end.
Fixpoint skip_blanks (s : str) : str :=
  match s with x :: r => if (x =? c_space) || (x =? 9) then skip_blanks r else s | [] => [] end.
Definition closes (k : fkind) (len : nat) (l : str) : bool :=
  let l1 := skip_blanks l in
  let n := count_char (fchar k) l1 in
  (len <=? n)%nat && is_nil (skip_blanks (skipn n l1)).

Definition no_closer (k : fkind) (len : nat) (X : list str) : bool :=
  forallb (fun l => negb (closes k len l)) X.

(* ---- prediction of the nested_render_text calls made while rendering print_lines W X ----
   (inline?, text, lineno); pos = token_line of the opening fence (1-based) *)
Definition directive_content (k : fkind) (body_lines : list str) : str :=
  let c := unlines body_lines in
  if is_colon k && startswith c colons3 then nl ++ c else c.   (* render_colon_fence *)

(* render_colon_fence: one line is prepended to a content that starts with ":::"; it does not
   count towards the line offset of the body *)
Definition prepended_lines (colon : bool) (content : str) : nat :=
  if colon && startswith content colons3 then 1%nat else 0%nat.

Fixpoint nested_calls (w : wrapper) (X : list str) (pos : nat)
  : res (list (bool * str * nat)) :=
  match w with
  | Adm titled name first o k len =>
      do p <- parse_directive_text (if titled then admt_class else adm_class) first
                (directive_content k (opt_lines o ++ X));
      let title_call := match titled, p_args p with
                        | true, a :: _ => [(true, a, pos)]
                        | _, _ => [] end in
      Ok (title_call ++ [(false, join nl (p_body p),
                          (pos + (p_off p - prepended_lines (is_colon k) (unlines (opt_lines o ++ X))))%nat)])
  | Nest o i =>
      do c <- nested_calls o (print_lines i X) pos;
      match last_opt c with
      | Some (_, _, ln) => do c2 <- nested_calls i X (S ln); Ok (c ++ c2)
      | None => Raise AssertionError
      end
  | Include _ => Ok [(false, join nl (split_lines (unlines X)), 1%nat)]
  | Subst _ => Ok [(false, join nl X, pos)]
  end.
