(* C06: the body/offset facts of parse_directive_text for the usual layouts of an admonition
   (no options; one blank line; ":key: value" lines followed by a blank line), for every body X.
   The "---" layout is covered by examples and by the correspondence runs. *)
From Coq Require Import List Arith NArith Bool Lia.
From MV Require Import Base.PyStr Base.Res Nest.Lines Nest.Split.
Import ListNotations.
Open Scope N_scope.

Lemma is_blank_nil : is_blank [] = true.
Proof. reflexivity. Qed.

Lemma split_lines_nl_cons rest : split_lines (nl ++ rest) = [] :: split_lines rest.
Proof. apply (split_lines_line [] rest). reflexivity. Qed.

(* ---- layout 1: the body directly after the opening line ---- *)
Lemma split_none (X : list str) x X' :
  X = x :: X' -> all_sepfree X = true -> is_blank x = false ->
  startswith (unlines X) dashes3 = false ->
  startswith (lstrip (unlines X)) [c_colon] = false ->
  parse_directive_text adm_class [] (unlines X)
  = Ok {| p_args := []; p_optblock := None; p_body := X; p_off := 0;
          p_warn_split := false; p_warn_content := false |}.
Proof.
  intros HX Hsf Hb Hd Hc. unfold parse_directive_text, parse_directive_options.
  cbn [d_optspec adm_class]. rewrite Hd, Hc.
  rewrite (split_lines_unlines X Hsf). rewrite Nat.sub_diag.
  subst X. simpl. rewrite Hb. reflexivity.
Qed.

(* ---- layout 2: one blank line, then the body ---- *)
Lemma split_blank (X : list str) :
  X <> [] -> all_sepfree X = true ->
  startswith (lstrip (unlines X)) [c_colon] = false ->
  parse_directive_text adm_class [] (unlines ([] :: X))
  = Ok {| p_args := []; p_optblock := None; p_body := X; p_off := 1;
          p_warn_split := false; p_warn_content := false |}.
Proof.
  intros Hne Hsf Hc. unfold parse_directive_text, parse_directive_options.
  cbn [d_optspec adm_class unlines].
  replace (startswith ([] ++ nl ++ unlines X) dashes3) with false by reflexivity.
  replace (lstrip ([] ++ nl ++ unlines X)) with (lstrip (unlines X)) by reflexivity.
  rewrite Hc.
  change ([] ++ nl ++ unlines X) with (nl ++ unlines X).
  rewrite split_lines_nl_cons. rewrite (split_lines_unlines X Hsf). rewrite Nat.sub_diag.
  destruct X; [congruence|]. reflexivity.
Qed.

(* ---- layout 3: option lines ":key: value", a blank line, the body ---- *)
Lemma span_opts_colon os rest :
  span_opts (map (cons c_colon) os ++ [] :: rest) = (os, [] :: rest).
Proof.
  induction os as [|o os IH]; [reflexivity|].
  cbn [map app span_opts].
  replace (lstrip (c_colon :: o)) with (c_colon :: o) by reflexivity.
  replace (startswith (c_colon :: o) [c_colon]) with true
    by (simpl; destruct o; reflexivity).
  rewrite IH. reflexivity.
Qed.

Lemma all_sepfree_app a b : all_sepfree (a ++ b) = all_sepfree a && all_sepfree b.
Proof. unfold all_sepfree. apply forallb_app. Qed.

Lemma split_colon (os X : list str) o os' :
  os = o :: os' -> X <> [] ->
  all_sepfree (map (cons c_colon) os) = true -> all_sepfree X = true ->
  parse_directive_text adm_class [] (unlines (map (cons c_colon) os ++ [] :: X))
  = Ok {| p_args := []; p_optblock := Some (join nl os); p_body := X;
          p_off := S (length os);
          p_warn_split := false; p_warn_content := false |}.
Proof.
  intros Hos Hne Hsfo Hsfx. unfold parse_directive_text, parse_directive_options.
  cbn [d_optspec adm_class].
  assert (Hsf : all_sepfree (map (cons c_colon) os ++ [] :: X) = true).
  { rewrite all_sepfree_app, Hsfo. simpl. exact Hsfx. }
  assert (Hstart : exists r, unlines (map (cons c_colon) os ++ [] :: X) = c_colon :: r).
  { subst os. simpl. eexists; reflexivity. }
  destruct Hstart as [r Hr]. rewrite Hr.
  replace (startswith (c_colon :: r) dashes3) with false by reflexivity.
  replace (lstrip (c_colon :: r)) with (c_colon :: r) by reflexivity.
  replace (startswith (c_colon :: r) [c_colon]) with true by (simpl; destruct r; reflexivity).
  rewrite <- Hr. rewrite (split_lines_unlines _ Hsf). rewrite span_opts_colon.
  rewrite app_length, map_length. cbn [length].
  match goal with
  | |- context [(?a + ?b - ?c)%nat] =>
      replace (a + b - c)%nat with a by (change c with b; lia)
  end.
  destruct X; [congruence|]. reflexivity.
Qed.

(* ---- the "---" layout and a nested wrapper, by computation ---- *)
Example split_dash_example :
  option_map (fun p => (p_body p, p_off p, p_optblock p))
    (match parse_directive_text adm_class []
             (unlines (opt_lines (ODash [[99; 108; 97; 115; 115; 58; 32; 120]] true) ++ [[97]; []; [98]]))
     with Ok p => Some p | Raise _ => None end)
  = Some ([[97]; []; [98]], 4%nat, Some [99; 108; 97; 115; 115; 58; 32; 120; 10]).
Proof. vm_compute. reflexivity. Qed.

Example nested_calls_example :
  nested_calls (Nest (Adm false [110; 111; 116; 101] [] (OColon [[99; 108; 97; 115; 115; 58; 32; 120]] true) Backtick 4)
                     (Adm false [116; 105; 112] [] ONone Colon 3))
               [[104; 105]] 1
  = Ok [(false, [58; 58; 58; 123; 116; 105; 112; 125; 10; 104; 105; 10; 58; 58; 58], 3%nat);
        (false, [104; 105], 4%nat)].
Proof. vm_compute. reflexivity. Qed.

(* ---- layout 4: "---" / yaml lines / "---", for every body ---- *)
Lemma startswith_nil_r s : startswith s [] = true.
Proof. destruct s; reflexivity. Qed.

Lemma startswith_line_dashes o t :
  startswith (o ++ nl ++ t) dashes3 = startswith o dashes3.
Proof.
  unfold dashes3, nl.
  destruct o as [|a [|b [|c o']]]; cbn [app startswith].
  - reflexivity.
  - destruct (c_dash =? a); reflexivity.
  - destruct (c_dash =? a); [|reflexivity]. destruct (c_dash =? b); reflexivity.
  - rewrite !startswith_nil_r. reflexivity.
Qed.

Lemma sepfree_no_nl c l : sepfree (c :: l) = true -> (c =? c_nl) = false /\ sepfree l = true.
Proof.
  simpl. intro H. apply andb_true_iff in H as [H1 H2]. split; [|exact H2].
  destruct (c =? c_nl) eqn:E; [|reflexivity]. apply N.eqb_eq in E. subst. discriminate.
Qed.

Lemma search_inside_line l : forall t i,
  sepfree l = true ->
  search_dashes (l ++ nl ++ t) false i = search_dashes t true (i + length l + 1)%nat.
Proof.
  induction l as [|c l IH]; intros t i H.
  - simpl. f_equal. lia.
  - apply sepfree_no_nl in H as [Hc Hl].
    change ((c :: l) ++ nl ++ t) with (c :: (l ++ nl ++ t)). cbn [search_dashes andb].
    rewrite Hc. rewrite IH by assumption. f_equal. simpl. lia.
Qed.

Lemma search_skip_line l t i :
  sepfree l = true -> startswith l dashes3 = false ->
  search_dashes (l ++ nl ++ t) true i = search_dashes t true (i + length l + 1)%nat.
Proof.
  intros Hsf Hst. destruct l as [|c l].
  - simpl. f_equal. lia.
  - apply sepfree_no_nl in Hsf as [Hc Hl].
    pose proof (startswith_line_dashes (c :: l) t) as E. rewrite Hst in E.
    change ((c :: l) ++ nl ++ t) with (c :: (l ++ nl ++ t)) in *.
    cbn [search_dashes]. rewrite E. cbn [andb]. rewrite Hc.
    rewrite search_inside_line by assumption. f_equal. simpl. lia.
Qed.

Lemma join_app_unlines a b : b <> [] -> join nl (a ++ b) = unlines a ++ join nl b.
Proof.
  intro Hb. induction a as [|x a IH]; [reflexivity|].
  simpl app. destruct (a ++ b) as [|y ys] eqn:E.
  - destruct a; destruct b; simpl in E; congruence.
  - change (join nl (x :: y :: ys)) with (x ++ nl ++ join nl (y :: ys)).
    rewrite IH. cbn [unlines]. rewrite <- !app_assoc. reflexivity.
Qed.

Lemma search_dashes_join os rest : forall i,
  all_sepfree os = true -> forallb (fun o => negb (startswith o dashes3)) os = true ->
  exists e, search_dashes (join nl (os ++ dashes3 :: rest)) true i
            = Some ((i + length (unlines os))%nat, e).
Proof.
  induction os as [|o os IH]; intros i Hsf Hst.
  - simpl app. exists (i + count_dashes (join nl (dashes3 :: rest)))%nat.
    destruct rest; simpl; rewrite Nat.add_0_r; reflexivity.
  - simpl in Hsf, Hst. apply andb_true_iff in Hsf as [Ho Hos].
    apply andb_true_iff in Hst as [Hd Hds]. apply negb_true_iff in Hd.
    rewrite (join_app_unlines (o :: os) (dashes3 :: rest)) by discriminate.
    cbn [unlines]. rewrite <- !app_assoc.
    rewrite (search_skip_line o _ i Ho Hd).
    rewrite <- (join_app_unlines os (dashes3 :: rest)) by discriminate.
    destruct (IH (i + length o + 1)%nat Hos Hds) as [e He]. exists e. rewrite He.
    f_equal. f_equal. rewrite !app_length. simpl. lia.
Qed.

Lemma count_nl_unlines os : all_sepfree os = true -> count_occ_N c_nl (unlines os) = length os.
Proof.
  induction os as [|o os IH]; intro H; [reflexivity|].
  simpl in H. apply andb_true_iff in H as [Ho Hos].
  cbn [unlines]. 
  assert (G : forall l t, sepfree l = true -> count_occ_N c_nl (l ++ nl ++ t) = S (count_occ_N c_nl t)).
  { induction l as [|c l IHl]; intros t Hl; [reflexivity|].
    apply sepfree_no_nl in Hl as [Hc Hl]. simpl. rewrite Hc. apply IHl. exact Hl. }
  rewrite G by assumption. rewrite IH by assumption. reflexivity.
Qed.

Lemma dash_options os rest :
  all_sepfree os = true -> all_sepfree rest = true ->
  forallb (fun o => negb (startswith o dashes3)) os = true ->
  parse_directive_options (unlines (dashes3 :: os ++ dashes3 :: rest)) = (rest, Some (unlines os)).
Proof.
  intros Hos Hrest Hst. unfold parse_directive_options.
  assert (Hsf : all_sepfree (dashes3 :: os ++ dashes3 :: rest) = true).
  { change (all_sepfree (dashes3 :: os ++ dashes3 :: rest))
      with (sepfree dashes3 && all_sepfree (os ++ dashes3 :: rest)).
    rewrite all_sepfree_app, Hos. simpl. exact Hrest. }
  rewrite (split_lines_unlines _ Hsf).
  replace (startswith (unlines (dashes3 :: os ++ dashes3 :: rest)) dashes3) with true by reflexivity.
  cbn [tl].
  destruct (search_dashes_join os rest 0 Hos Hst) as [e He]. rewrite He. cbn [Nat.add].
  rewrite (join_app_unlines os (dashes3 :: rest)) by discriminate.
  rewrite firstn_app, Nat.sub_diag, firstn_all. cbn [firstn]. rewrite app_nil_r.
  rewrite (count_nl_unlines os Hos).
  replace (skipn (S (length os)) (os ++ dashes3 :: rest)) with rest; [reflexivity|].
  clear. induction os as [|o os IH]; [reflexivity|]. exact IH.
Qed.

Lemma split_dash (os X : list str) :
  X <> [] -> all_sepfree os = true -> all_sepfree X = true ->
  forallb (fun o => negb (startswith o dashes3)) os = true ->
  parse_directive_text adm_class [] (unlines (opt_lines (ODash os true) ++ X))
  = Ok {| p_args := []; p_optblock := Some (unlines os); p_body := X;
          p_off := (length os + 3)%nat;
          p_warn_split := false; p_warn_content := false |}.
Proof.
  intros Hne Hos HX Hst. unfold parse_directive_text. cbn [d_optspec adm_class opt_lines].
  replace ((dashes3 :: os ++ [dashes3] ++ [[]]) ++ X) with (dashes3 :: os ++ dashes3 :: [] :: X)
    by (simpl; rewrite <- app_assoc; reflexivity).
  rewrite (dash_options os ([] :: X) Hos HX Hst).
  assert (Hsf : all_sepfree (dashes3 :: os ++ dashes3 :: [] :: X) = true).
  { change (all_sepfree (dashes3 :: os ++ dashes3 :: [] :: X))
      with (sepfree dashes3 && all_sepfree (os ++ dashes3 :: [] :: X)).
    rewrite all_sepfree_app, Hos. simpl. exact HX. }
  rewrite (split_lines_unlines _ Hsf).
  cbn [length]. rewrite app_length. cbn [length].
  match goal with
  | |- context [(S (?a + S (S ?b)) - S ?c)%nat] =>
      replace (S (a + S (S b)) - S c)%nat with (a + 2)%nat by (change c with b; lia)
  end.
  destruct X; [congruence|]. simpl. repeat f_equal. lia.
Qed.
