(* C06: the body/offset facts of parse_directive_text for the usual layouts of an admonition
   (no options; one blank line; ":key: value" lines followed by a blank line), for every body X.
   The "---" layout is covered by examples and by the correspondence runs. *)
From Coq Require Import List Arith NArith Bool Lia.
From MV Require Import Base.PyStr Base.Res Nest.Lines Nest.Split.
Import ListNotations.
Open Scope N_scope.

Lemma is_blank_nil : is_blank [] = true.
Proof. reflexivity. Qed.

Lemma splitlines_nl_cons rest : splitlines (nl ++ rest) = [] :: splitlines rest.
Proof. apply (splitlines_line [] rest). reflexivity. Qed.

(* ---- layout 1: the body directly after the opening line ---- *)
Lemma split_none (X : list str) x X' :
  X = x :: X' -> all_sepfree X = true -> is_blank x = false ->
  startswith (unlines X) dashes3 = false ->
  startswith (lstrip (unlines X)) [c_colon] = false ->
  parse_directive_text adm_class [] (unlines X)
  = Ok {| p_args := []; p_optblock := None; p_body := X; p_off := 0;
          p_warn_split := false; p_warn_content := false |}.
Proof.
  intros HX Hsf Hb Hd Hc. unfold parse_directive_text, parse_directive_options.
  cbn [d_optspec adm_class]. rewrite Hd, Hc.
  rewrite (splitlines_unlines X Hsf). rewrite Nat.sub_diag.
  subst X. simpl. rewrite Hb. reflexivity.
Qed.

(* ---- layout 2: one blank line, then the body ---- *)
Lemma split_blank (X : list str) :
  X <> [] -> all_sepfree X = true ->
  startswith (lstrip (unlines X)) [c_colon] = false ->
  parse_directive_text adm_class [] (unlines ([] :: X))
  = Ok {| p_args := []; p_optblock := None; p_body := X; p_off := 1;
          p_warn_split := false; p_warn_content := false |}.
Proof.
  intros Hne Hsf Hc. unfold parse_directive_text, parse_directive_options.
  cbn [d_optspec adm_class unlines].
  replace (startswith ([] ++ nl ++ unlines X) dashes3) with false by reflexivity.
  replace (lstrip ([] ++ nl ++ unlines X)) with (lstrip (unlines X)) by reflexivity.
  rewrite Hc.
  change ([] ++ nl ++ unlines X) with (nl ++ unlines X).
  rewrite splitlines_nl_cons. rewrite (splitlines_unlines X Hsf). rewrite Nat.sub_diag.
  destruct X; [congruence|]. reflexivity.
Qed.

(* ---- layout 3: option lines ":key: value", a blank line, the body ---- *)
Lemma span_opts_colon os rest :
  span_opts (map (cons c_colon) os ++ [] :: rest) = (os, [] :: rest).
Proof.
  induction os as [|o os IH]; [reflexivity|].
  cbn [map app span_opts].
  replace (lstrip (c_colon :: o)) with (c_colon :: o) by reflexivity.
  replace (startswith (c_colon :: o) [c_colon]) with true
    by (simpl; destruct o; reflexivity).
  rewrite IH. reflexivity.
Qed.

Lemma all_sepfree_app a b : all_sepfree (a ++ b) = all_sepfree a && all_sepfree b.
Proof. unfold all_sepfree. apply forallb_app. Qed.

Lemma split_colon (os X : list str) o os' :
  os = o :: os' -> X <> [] ->
  all_sepfree (map (cons c_colon) os) = true -> all_sepfree X = true ->
  parse_directive_text adm_class [] (unlines (map (cons c_colon) os ++ [] :: X))
  = Ok {| p_args := []; p_optblock := Some (join nl os); p_body := X;
          p_off := S (length os);
          p_warn_split := false; p_warn_content := false |}.
Proof.
  intros Hos Hne Hsfo Hsfx. unfold parse_directive_text, parse_directive_options.
  cbn [d_optspec adm_class].
  assert (Hsf : all_sepfree (map (cons c_colon) os ++ [] :: X) = true).
  { rewrite all_sepfree_app, Hsfo. simpl. exact Hsfx. }
  assert (Hstart : exists r, unlines (map (cons c_colon) os ++ [] :: X) = c_colon :: r).
  { subst os. simpl. eexists; reflexivity. }
  destruct Hstart as [r Hr]. rewrite Hr.
  replace (startswith (c_colon :: r) dashes3) with false by reflexivity.
  replace (lstrip (c_colon :: r)) with (c_colon :: r) by reflexivity.
  replace (startswith (c_colon :: r) [c_colon]) with true by (simpl; destruct r; reflexivity).
  rewrite <- Hr. rewrite (splitlines_unlines _ Hsf). rewrite span_opts_colon.
  rewrite app_length, map_length. cbn [length].
  match goal with
  | |- context [(?a + ?b - ?c)%nat] =>
      replace (a + b - c)%nat with a by (change c with b; lia)
  end.
  destruct X; [congruence|]. reflexivity.
Qed.

(* ---- the "---" layout and a nested wrapper, by computation ---- *)
Example split_dash_example :
  option_map (fun p => (p_body p, p_off p, p_optblock p))
    (match parse_directive_text adm_class []
             (unlines (opt_lines (ODash [[99; 108; 97; 115; 115; 58; 32; 120]] true) ++ [[97]; []; [98]]))
     with Ok p => Some p | Raise _ => None end)
  = Some ([[97]; []; [98]], 4%nat, Some [99; 108; 97; 115; 115; 58; 32; 120; 10]).
Proof. vm_compute. reflexivity. Qed.

Example nested_calls_example :
  nested_calls (Nest (Adm false [110; 111; 116; 101] [] (OColon [[99; 108; 97; 115; 115; 58; 32; 120]] true) Backtick 4)
                     (Adm false [116; 105; 112] [] ONone Colon 3))
               [[104; 105]] 1
  = Ok [(false, [58; 58; 58; 123; 116; 105; 112; 125; 10; 104; 105; 10; 58; 58; 58], 3%nat);
        (false, [104; 105], 4%nat)].
Proof. vm_compute. reflexivity. Qed.
