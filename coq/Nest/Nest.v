(* C06 - abstract model of the nested-render machinery of
   myst_parser/mdit_to_docutils/base.py and myst_parser/mocking.py.

   The Markdown parser (markdown-it-py + plugins) is the oracle  P : env -> str -> list tok * env
   (md.parse(text, env): the token forest and the mutated environment - reference definitions
   live in env and are consumed by P itself), PI the inline-only parser (md.parseInline).
   docutils' directive classes, the option validation, Jinja and the file system are oracles too.

   Two renderers are defined:
   * render_tok / render_tokens : the code as written - a mutable object graph (roots: the document
     and the detached nodes under construction by directives), the current-node pointer, the
     level map _level_to_section, _heading_offset, md_env["temp_root_node"], and the registries
     shared by every nested parse (document.nameids, footnote references, sub_references, md_env);
   * den_tok / den_toks : a pure denotation "token forest -> appended nodes" that has no current
     node, no level map and no tree; it threads only the shared registries.
   NestProofs.v shows that the first is the second (C06_render_context_free) and derives
   the transparency theorems.  Executable definitions only in this file. *)
From Coq Require Import List Arith NArith Bool.
From MV Require Import Base.PyStr Base.Res Nest.Lines Nest.Split.
Import ListNotations.
Open Scope N_scope.

(* ------------------------------------------------------------------ tokens *)
(* markdown_it.tree.SyntaxTreeNode, by the way render_<type> treats it *)
Definition omap := option (N * N).

Inductive tok :=
| TLeaf (k : N) (content : str) (mp : omap)                 (* text, code_inline, code_block, hr, html_*, math_*, myst_role, image ...: one node, no shared state *)
| TCont (k : N) (content : str) (mp : omap) (kids : list tok) (* paragraph, em, strong, blockquote, lists, list_item, table, link ...: node appended, children rendered inside *)
| TInline (kids : list tok)                                 (* inline: render_children only *)
| THeading (level : N) (content : str) (mp : omap) (kids : list tok)
| TTarget (label : str) (mp : omap)                         (* myst_target *)
| TFootDef (label : str) (mp : omap) (kids : list tok)      (* footnote_reference (a definition) *)
| TFootRef (label : str) (mp : omap)                        (* footnote_ref *)
| TFence (colon : bool) (info : str) (content : str) (mp : omap)  (* fence / colon_fence *)
| TSubst (inline : bool) (key : str) (mp : omap)            (* substitution_inline / _block *)
| TFrontMatter (content : str) (mp : omap).

Definition shift_map (k : N) (m : omap) : omap :=
  match m with Some (a, b) => Some (a + k, b + k) | None => None end.

(* token.map = [map[0] + k, map[1] + k] on every token of the (flat) stream *)
Fixpoint shift_tok (k : N) (t : tok) : tok :=
  match t with
  | TLeaf a c m => TLeaf a c (shift_map k m)
  | TCont a c m ks => TCont a c (shift_map k m) (map (shift_tok k) ks)
  | TInline ks => TInline (map (shift_tok k) ks)
  | THeading l c m ks => THeading l c (shift_map k m) (map (shift_tok k) ks)
  | TTarget l m => TTarget l (shift_map k m)
  | TFootDef l m ks => TFootDef l (shift_map k m) (map (shift_tok k) ks)
  | TFootRef l m => TFootRef l (shift_map k m)
  | TFence c i b m => TFence c i b (shift_map k m)
  | TSubst i key m => TSubst i key (shift_map k m)
  | TFrontMatter c m => TFrontMatter c (shift_map k m)
  end.

Definition line_of (m : omap) : option N :=
  match m with Some (a, _) => Some a | None => None end.

(* token_line(token) without default: ValueError when the token has no map *)
Definition token_line (m : omap) : res N :=
  match m with Some (a, _) => Ok a | None => Raise ValueError end.
Definition token_line_d (m : omap) (d : N) : N :=
  match m with Some (a, _) => a | None => d end.

(* ------------------------------------------------------------------ doctree *)
Inductive ntag :=
| NDoc | NSection | NTitle | NRubric (level : N) | NTarget | NFootnote | NFootRef | NSysMsg
| NAdm | NDiv | NElement | NLiteral | NGen (k : N).

Inductive node := Node (tag : ntag) (payload : str) (line : option N) (kids : list node).

Definition node_tag (n : node) : ntag := match n with Node t _ _ _ => t end.
Definition node_kids (n : node) : list node := match n with Node _ _ _ ks => ks end.
Definition add_kids (n : node) (ns : list node) : node :=
  match n with Node t p l ks => Node t p l (ks ++ ns) end.

Fixpoint shift_node (k : N) (n : node) : node :=
  match n with
  | Node t p l ks => Node t p (match l with Some a => Some (a + k) | None => None end)
                          (map (shift_node k) ks)
  end.

(* run_directive: a returned Element without a line gets the directive's line (848582d) *)
Definition fill_line (position : N) (n : node) : node :=
  match n with Node t p None ks => Node t p (Some position) ks | _ => n end.
Definition fill_lines (position : N) (ns : list node) : list node := map (fill_line position) ns.

Definition is_doc_or_section (t : ntag) : bool :=
  match t with NDoc | NSection => true | _ => false end.

(* paths into the object graph.  Children are only ever appended, so a path stays valid. *)
Definition path := list nat.
Definition loc := (nat * path)%type.      (* (root number, path) *)

Fixpoint replace_nth {A} (i : nat) (x : A) (l : list A) : list A :=
  match l, i with
  | [], _ => []
  | _ :: r, O => x :: r
  | y :: r, S j => y :: replace_nth j x r
  end.

Fixpoint get_at (p : path) (t : node) {struct p} : res node :=
  match p with
  | [] => Ok t
  | i :: p' => match nth_error (node_kids t) i with
               | Some c => get_at p' c
               | None => Raise IndexError
               end
  end.

(* node.extend(ns) for the node at path p *)
Fixpoint extend_at (p : path) (ns : list node) (t : node) {struct p} : res node :=
  match p with
  | [] => Ok (add_kids t ns)
  | i :: p' =>
      match t with Node tg pl ln ks =>
        match nth_error ks i with
        | Some c => do c' <- extend_at p' ns c; Ok (Node tg pl ln (replace_nth i c' ks))
        | None => Raise IndexError
        end
      end
  end.

Definition get_loc (l : loc) (roots : list node) : res node :=
  match nth_error roots (fst l) with
  | Some t => get_at (snd l) t
  | None => Raise IndexError
  end.

Definition extend_loc (l : loc) (ns : list node) (roots : list node) : res (list node) :=
  match nth_error roots (fst l) with
  | Some t => do t' <- extend_at (snd l) ns t; Ok (replace_nth (fst l) t' roots)
  | None => Raise IndexError
  end.

Definition child_loc (l : loc) (i : nat) : loc := (fst l, snd l ++ [i]).

Fixpoint path_eqb (a b : path) : bool :=
  match a, b with
  | [], [] => true
  | x :: a', y :: b' => Nat.eqb x y && path_eqb a' b'
  | _, _ => false
  end.
Definition loc_eqb (a b : loc) : bool := Nat.eqb (fst a) (fst b) && path_eqb (snd a) (snd b).

Fixpoint fold_res {S T} (f : S -> T -> res S) (s : S) (ts : list T) : res S :=
  match ts with
  | [] => Ok s
  | t :: r => do s' <- f s t; fold_res f s' r
  end.

(* what a directive's run() hands back: nodes, or a DirectiveError (caught by run_directive) *)
Inductive dout := DNodes (ns : list node) | DError (level : N) (msg : str).

Inductive dkind := KAdm (titled : bool) | KInclude | KOther.

(* everything every nested parse shares: md_env and the document's registries *)
Record shared (env : Type) := {
  s_env : env;                 (* md_env as markdown-it reads/writes it (reference definitions ...) *)
  s_names : list str;          (* keys of document.nameids *)
  s_footrefs : list str;       (* note_footnote_ref / note_autofootnote_ref *)
  s_footdefs : list str;       (* names of document.footnotes + document.autofootnotes *)
  s_subrefs : list str;        (* document.sub_references *)
  s_incl : list str }.         (* md_env["include_log"] after its first entry (the document itself) *)
Arguments s_env {env}. Arguments s_names {env}. Arguments s_footrefs {env}. Arguments s_subrefs {env}.
Arguments s_incl {env}. Arguments s_footdefs {env}.

(* docutils' admonition directives only act through the state object they are given *)
Record callbacks (S : Type) := {
  cb_nested_parse : list str -> nat -> node -> S -> res (node * S);   (* state.nested_parse(content, offset, node) *)
  cb_inline_text : str -> N -> S -> res (list node * S) }.            (* state.inline_text(text, lineno) *)
Arguments cb_nested_parse {S}.
Arguments cb_inline_text {S}.

(* ------------------------------------------------------------------ oracles *)
Record oracles (env : Type) := {
  o_P : env -> str -> list tok * env;             (* md.parse(text, env): tokens, mutated env *)
  o_PI : env -> str -> list tok * env;            (* md.parseInline(text, env) *)
  o_dir_lookup : str -> option (dkind * dclass);  (* directives.directive(name, ...) *)
  (* dedent + options_to_items + validation against option_spec:
     (attributes the directive puts on its node, warnings) *)
  o_opt_validate : str -> option str -> str * list str;
  (* any directive that is neither admonition-type nor include: name, arguments, raw option
     block, body, body_offset, position, registries -> nodes, registries *)
  o_other_directive :
    str -> list str -> option str -> list str -> nat -> N -> shared env -> list node * shared env;
  o_eval_rst : str -> N -> shared env -> list node * shared env;   (* render_restructuredtext *)
  o_jinja : str -> option str;                    (* None: the template raised *)
  o_sub_names : str -> list str;                  (* jinja2 Name nodes of the expression *)
  o_is_directive_start : str -> bool;             (* REGEX_DIRECTIVE_START.match *)
  o_fs_read : str -> option str;                  (* Path.read_text; None: not found *)
  o_include_opts : option str -> bool * N;        (* (literal or code?, heading-offset) *)
  o_source : str;                                 (* the document's own (normalised) path *)
  o_adm_run : forall S : Type, callbacks S ->     (* the run() of the admonition classes *)
    bool -> str -> list str -> str -> list str -> nat -> N -> S -> res (dout * S) }.
Arguments o_P {env}. Arguments o_PI {env}. Arguments o_dir_lookup {env}.
Arguments o_opt_validate {env}. Arguments o_other_directive {env}. Arguments o_eval_rst {env}.
Arguments o_jinja {env}. Arguments o_sub_names {env}. Arguments o_is_directive_start {env}.
Arguments o_fs_read {env}. Arguments o_include_opts {env}. Arguments o_adm_run {env}.
Arguments o_source {env}.

Section Nest.
  Variable env : Type.
  Variable orc : oracles env.
  Local Notation P := (o_P orc).
  Local Notation PI := (o_PI orc).
  Local Notation dir_lookup := (o_dir_lookup orc).
  Local Notation opt_validate := (o_opt_validate orc).
  Local Notation other_directive := (o_other_directive orc).
  Local Notation eval_rst := (o_eval_rst orc).
  Local Notation jinja := (o_jinja orc).
  Local Notation sub_names := (o_sub_names orc).
  Local Notation is_directive_start := (o_is_directive_start orc).
  Local Notation fs_read := (o_fs_read orc).
  Local Notation include_opts := (o_include_opts orc).
  Local Notation adm_run := (o_adm_run orc).
  Local Notation shared := (shared env).

  Definition set_env (e : env) (h : shared) : shared :=
    {| s_env := e; s_names := s_names h; s_footrefs := s_footrefs h; s_footdefs := s_footdefs h;
       s_subrefs := s_subrefs h; s_incl := s_incl h |}.
  Definition add_name (n : str) (h : shared) : shared :=
    {| s_env := s_env h; s_names := s_names h ++ [n]; s_footrefs := s_footrefs h;
       s_footdefs := s_footdefs h; s_subrefs := s_subrefs h; s_incl := s_incl h |}.
  Definition add_footref (n : str) (h : shared) : shared :=
    {| s_env := s_env h; s_names := s_names h; s_footrefs := s_footrefs h ++ [n];
       s_footdefs := s_footdefs h; s_subrefs := s_subrefs h; s_incl := s_incl h |}.
  Definition add_footdef (n : str) (h : shared) : shared :=
    {| s_env := s_env h; s_names := s_names h; s_footrefs := s_footrefs h;
       s_footdefs := s_footdefs h ++ [n]; s_subrefs := s_subrefs h; s_incl := s_incl h |}.
  Definition set_subrefs (l : list str) (h : shared) : shared :=
    {| s_env := s_env h; s_names := s_names h; s_footrefs := s_footrefs h; s_footdefs := s_footdefs h;
       s_subrefs := l; s_incl := s_incl h |}.
  Definition set_incl (l : list str) (h : shared) : shared :=
    {| s_env := s_env h; s_names := s_names h; s_footrefs := s_footrefs h; s_footdefs := s_footdefs h;
       s_subrefs := s_subrefs h; s_incl := l |}.

  (* BaseAdmonition.run as it reads in docutils/parsers/rst/directives/admonitions.py *)
  Definition admonition_run (S : Type) (cb : callbacks S) (titled : bool) (name : str)
      (args : list str) (attrs : str) (content : list str) (off : nat) (lineno : N) (s : S)
    : res (dout * S) :=
    if is_nil content then Ok (DError 3 [], s)                   (* assert_has_content *)
    else
      let node0 := Node NAdm (name ++ attrs) (Some lineno) [] in
      do r1 <- (if titled then
                  match args with
                  | a :: _ => do r <- cb_inline_text cb a lineno s;
                              Ok (add_kids node0 [Node NTitle a None (fst r)], snd r)
                  | [] => Raise IndexError
                  end
                else Ok (node0, s));
      do r2 <- cb_nested_parse cb content off (fst r1) (snd r1);
      Ok (DNodes [fst r2], snd r2).

  (* ---------------------------------------------------------------- renderer state *)
  Record st := {
    roots : list node;             (* roots[0] = the document; the others: detached nodes being built *)
    cur : loc;                     (* self.current_node *)
    lmap : list (N * loc);         (* self._level_to_section (insertion order) *)
    hoff : N;                      (* self._heading_offset *)
    troot : option loc;            (* self.md_env.get("temp_root_node") *)
    shr : shared }.

  Definition set_roots r s := {| roots := r; cur := cur s; lmap := lmap s; hoff := hoff s; troot := troot s; shr := shr s |}.
  Definition set_cur c s := {| roots := roots s; cur := c; lmap := lmap s; hoff := hoff s; troot := troot s; shr := shr s |}.
  Definition set_lmap m s := {| roots := roots s; cur := cur s; lmap := m; hoff := hoff s; troot := troot s; shr := shr s |}.
  Definition set_hoff o s := {| roots := roots s; cur := cur s; lmap := lmap s; hoff := o; troot := troot s; shr := shr s |}.
  Definition set_troot t s := {| roots := roots s; cur := cur s; lmap := lmap s; hoff := hoff s; troot := t; shr := shr s |}.
  Definition set_shr h s := {| roots := roots s; cur := cur s; lmap := lmap s; hoff := hoff s; troot := troot s; shr := h |}.

  (* self.current_node.extend(ns) *)
  Definition extend_cur (s : st) (ns : list node) : res st :=
    do r <- extend_loc (cur s) ns (roots s); Ok (set_roots r s).

  (* with self.current_node_context(node, append=True): body *)
  Definition with_node (s : st) (n : node) (body : st -> res st) : res st :=
    do c <- get_loc (cur s) (roots s);
    do s1 <- extend_cur s [n];
    let saved := cur s in
    do s2 <- body (set_cur (child_loc saved (length (node_kids c))) s1);
    Ok (set_cur saved s2).

  (* with self.current_node_context(node): body   for a node that is not (yet) in any tree:
     it becomes a new root; afterwards it is taken out again *)
  Definition with_detached (s : st) (n : node) (body : st -> res st) : res (node * st) :=
    let saved := cur s in
    let r := length (roots s) in
    do s2 <- body (set_cur (r, []) (set_roots (roots s ++ [n]) s));
    match nth_error (roots s2) r with
    | Some n' => Ok (n', set_cur saved (set_roots (firstn r (roots s2)) s2))
    | None => Raise IndexError
    end.

  Definition seccap (s : st) : res bool :=
    do c <- get_loc (cur s) (roots s);
    Ok ((match troot s with Some l => loc_eqb (cur s) l | None => false end)
        || is_doc_or_section (node_tag c)).

  Definition sysmsg (text : str) (line : N) : node := Node NSysMsg text (Some line) [].

  Fixpoint lookup_level (m : list (N * loc)) (l : N) : option loc :=
    match m with
    | [] => None
    | (k, v) :: r => if k =? l then Some v else lookup_level r l
    end.
  (* max(section_level for section_level in self._level_to_section if level > section_level) *)
  Fixpoint max_below (m : list (N * loc)) (level : N) (acc : option N) : option N :=
    match m with
    | [] => acc
    | (k, _) :: r =>
        max_below r level
          (if k <? level then match acc with Some a => Some (N.max a k) | None => Some k end
           else acc)
    end.
  (* self._level_to_section[level] = section (dict assignment keeps the position of an existing key) *)
  Fixpoint assign_level (m : list (N * loc)) (l : N) (v : loc) : list (N * loc) :=
    match m with
    | [] => [(l, v)]
    | (k, w) :: r => if k =? l then (k, v) :: r else (k, w) :: assign_level r l v
    end.

  Definition mem_strs (x : str) (l : list str) : bool := mem_str x l.

  (* document.note_explicit_target(node, msgnode): a duplicate name makes docutils add a
     system_message to msgnode *)
  Definition note_explicit_target (label : str) (line : N) (h : shared) : list node * shared :=
    if mem_strs label (s_names h) then ([sysmsg label line], h) else ([], add_name label h).

  Definition remove_all (xs l : list str) : list str := filter (fun y => negb (mem_str y xs)) l.
  Definition add_all (xs l : list str) : list str :=
    l ++ filter (fun y => negb (mem_str y l)) xs.

  Definition drop_front_matter (ts : list tok) : list tok :=
    match ts with TFrontMatter _ _ :: r => r | _ => ts end.

  (* ---------------------------------------------------------------- the renderer as written *)
  (* Open recursion: [rec] is "render one token" one level of fuel down. *)
  Section Step.
    Variable rec : st -> tok -> res st.

    Definition render_children (s : st) (ks : list tok) : res st := fold_res rec s ks.

    (* self._render_tokens(tokens): line numbers become 1-based, then every token is rendered *)
    Definition render_tokens_ (s : st) (ts : list tok) : res st :=
      fold_res rec s (map (shift_tok 1) ts).

    (* nested_render_text(text, lineno, inline, temp_root_node, heading_offset) *)
    Definition nested_render_text (s : st) (text : str) (lineno : N) (inline : bool)
        (temp_root_node : option loc) (heading_offset : N) : res st :=
      let '(toks0, e') := if inline then PI (s_env (shr s)) text
                          else P (s_env (shr s)) (text ++ nl) in
      let s1 := set_shr (set_env e' (shr s)) s in
      let toks := map (shift_tok lineno) (drop_front_matter toks0) in
      (* _restore() *)
      let current_heading_offset := hoff s1 in
      (* offsets accumulate (94acff7) *)
      let s2 := set_hoff (current_heading_offset + heading_offset) s1 in
      let current_level_to_section := lmap s2 in
      let current_root_node := troot s2 in
      let s3 := match temp_root_node with Some _ => set_troot temp_root_node s2 | None => s2 end in
      do s4 <- render_tokens_ s3 toks;
      let s5 := set_hoff current_heading_offset s4 in
      Ok (match temp_root_node with
          | Some _ => set_lmap current_level_to_section (set_troot current_root_node s5)
          | None => s5
          end).

    (* MockState(renderer, state_machine, lineno) *)
    Definition mock_state (lineno : N) : callbacks st :=
      {| cb_nested_parse := fun (block : list str) (input_offset : nat) (n : node) (s : st) =>
           (* match_titles=False for the admonitions *)
           with_detached s n (fun s =>
             nested_render_text s (join nl block) (lineno + N.of_nat input_offset) false None 0);
         cb_inline_text := fun (text : str) (ln : N) (s : st) =>
           (* MockInliner.parse: parse into a temporary nodes.Element() *)
           do r <- with_detached s (Node NElement [] None []) (fun s =>
                     nested_render_text s text ln true None 0);
           Ok (node_kids (fst r), snd r) |}.

    Definition directive_warnings (p : parsed) (warns : list str) (position : N) : list node :=
      map (fun w => sysmsg w position) warns
      ++ (if p_warn_split p then [sysmsg [] position] else [])
      ++ (if p_warn_content p then [sysmsg [] position] else []).

    Definition directive_error (msg content : str) (position : N) : node :=
      Node NSysMsg msg (Some position) [Node NLiteral content None []].

    (* MockIncludeDirective.run (file insertion enabled, no slicing options; the argument stands
       for the resolved path) *)
    Definition include_run (s : st) (p : parsed) : res (dout * st) :=
      match p_args p with
      | [] => Raise IndexError
      | a :: _ =>
          match fs_read a with
          | None => Ok (DError 4 a, s)
          | Some file_content =>
              let '(literal, ho) := include_opts (p_optblock p) in
              let file_content := join nl (split_lines file_content) in
              if literal then Ok (DNodes [Node NLiteral file_content (Some 1) []], s)
              else if mem_str a (o_source orc :: s_incl (shr s)) then
                Ok (DError 2 a, s)                               (* circular inclusion *)
              else
                let s1 := set_shr (set_incl (s_incl (shr s) ++ [a]) (shr s)) s in   (* include_log.append *)
                do s2 <- nested_render_text s1 file_content (0 + 1) false None ho;
                (* finally: include_log.pop() *)
                Ok (DNodes [], set_shr (set_incl (removelast (s_incl (shr s2))) (shr s2)) s2)
          end
      end.

    (* run_directive(name, first_line, content, position, prepended_lines) -> nodes *)
    Definition run_directive (s : st) (name first_line content : str) (position : N)
        (prepended : nat) : res (list node * st) :=
      match dir_lookup name with
      | None => Ok ([sysmsg name position], s)                (* Unknown directive type *)
      | Some (kind, cls) =>
          match parse_directive_text cls first_line content with
          | Raise _ => Ok ([sysmsg name position], s)         (* except MarkupError *)
          | Ok p =>
              let '(attrs, warns) := opt_validate name (p_optblock p) in
              do s1 <- extend_cur s (directive_warnings p warns position);
              do r <-
                match kind with
                | KAdm titled =>
                    (* content_offset = parsed.body_offset - prepended_lines *)
                    adm_run st (mock_state position) titled name (p_args p) attrs
                            (p_body p) (p_off p - prepended)%nat position s1
                | KInclude => include_run s1 p
                | KOther =>
                    let '(ns, h) := other_directive name (p_args p) (p_optblock p) (p_body p)
                                      (p_off p - prepended)%nat position (shr s1) in
                    Ok (DNodes ns, set_shr h s1)
                end;
              let result := match fst r with
                            | DNodes ns => ns
                            | DError level msg => [directive_error msg content position]
                            end in
              Ok (fill_lines position result, snd r)
          end
      end.

    (* render_directive(token, name, arguments, prepended_lines) *)
    Definition render_directive (s : st) (name arguments content : str) (mp : omap)
        (prepended : nat) : res st :=
      do position <- token_line mp;
      do r <- run_directive s name arguments content position prepended;
      extend_cur (snd r) (fst r).

    Definition eval_rst_name : str := [101; 118; 97; 108; 45; 114; 115; 116].  (* "eval-rst" *)

    Definition render_heading (s : st) (lvl : N) (c : str) (mp : omap) (ks : list tok) : res st :=
      let level := lvl + hoff s in
      do sc <- seccap s;
      if negb sc then
        (* a rubric; generate_heading_target registers the implicit name *)
        do s1 <- with_node s (Node (NRubric level) c (line_of mp) []) (fun s => render_children s ks);
        Ok (set_shr (add_name c (shr s1)) s1)
      else
        (* update_section_level_state(new_section, level) *)
        match max_below (lmap s) level None with
        | None => Raise ValueError                      (* max() of an empty sequence *)
        | Some parent_level =>
            match lookup_level (lmap s) parent_level with
            | None => Raise KeyError
            | Some parent =>
                do s0 <- (if (parent_level <? level) && negb (parent_level + 1 =? level)
                          then extend_cur s [sysmsg c (token_line_d mp 0)] else Ok s);
                do pn <- get_loc parent (roots s0);
                let sec := child_loc parent (length (node_kids pn)) in
                do r1 <- extend_loc parent
                           [Node NSection c (line_of mp) [Node NTitle c (line_of mp) []]]
                           (roots s0);
                let m1 := assign_level (lmap s0) level sec in
                let m2 := filter (fun kv => fst kv <=? level) m1 in
                let s1 := set_lmap m2 (set_roots r1 s0) in
                (* with self.current_node_context(title_node): self.render_children(token) *)
                do s2 <- render_children (set_cur (child_loc sec 0) s1) ks;
                Ok (set_cur sec (set_shr (add_name c (shr s2)) s2))
            end
        end.

    Definition render_fence (s : st) (colon : bool) (info content : str) (mp : omap) : res st :=
      let '(name, arguments) := parse_info info in
      match directive_name name with
      | Some dn =>
          if negb colon && str_eqb dn eval_rst_name
          then
            let '(ns, h) := eval_rst content (token_line_d mp 0) (shr s) in
            extend_cur (set_shr h s) ns
          else
            let content' := if colon && startswith content colons3 then nl ++ content
                            else content in
            render_directive s dn arguments content' mp (prepended_lines colon content)
      | None =>
          if colon then
            with_node s (Node NDiv name (line_of mp) [])
                      (fun s => nested_render_text s content (token_line_d mp 0) false None 0)
          else extend_cur s [Node NLiteral (info ++ nl ++ content) (line_of mp) []]
      end.

    Definition render_substitution (s : st) (inline : bool) (key : str) (mp : omap) : res st :=
      do position <- token_line mp;
      match jinja key with
      | None => extend_cur s [sysmsg key position]             (* Substitution error *)
      | Some rendered =>
          let references := sub_names key in
          if existsb (fun r => mem_str r (s_subrefs (shr s))) references then
            extend_cur s [sysmsg key position]                 (* circular substitution *)
          else
            let s1 := set_shr (set_subrefs (add_all references (s_subrefs (shr s))) (shr s)) s in
            do s2 <- nested_render_text s1 rendered position
                       (inline && negb (is_directive_start rendered)) None 0;
            Ok (set_shr (set_subrefs (remove_all references (s_subrefs (shr s2))) (shr s2)) s2)
      end.

    Definition render_step (s : st) (t : tok) : res st :=
      match t with
      | TLeaf k c mp => extend_cur s [Node (NGen k) c (line_of mp) []]
      | TCont k c mp ks => with_node s (Node (NGen k) c (line_of mp) []) (fun s => render_children s ks)
      | TInline ks => render_children s ks
      | THeading lvl c mp ks => render_heading s lvl c mp ks
      | TTarget label mp =>
          let '(msgs, h) := note_explicit_target label (token_line_d mp 0) (shr s) in
          extend_cur (set_shr h s) (msgs ++ [Node NTarget label (line_of mp) []])
      | TFootDef label mp ks =>
          (* a duplicate only of another footnote definition (21b92da) *)
          if mem_strs label (s_footdefs (shr s)) then
            extend_cur s [sysmsg label (token_line_d mp 0)]      (* Duplicate footnote definition *)
          else
            (* note_(auto)footnote; note_explicit_target(footnote, footnote): a name that is already a
               target / heading puts docutils' message into the footnote itself *)
            let '(msgs, h) := note_explicit_target label (token_line_d mp 0) (add_footdef label (shr s)) in
            with_node (set_shr h s) (Node NFootnote label (line_of mp) msgs)
                      (fun s => render_children s ks)
      | TFootRef label mp =>
          extend_cur (set_shr (add_footref label (shr s)) s) [Node NFootRef label (line_of mp) []]
      | TFence colon info content mp => render_fence s colon info content mp
      | TSubst inline key mp => render_substitution s inline key mp
      | TFrontMatter c mp => extend_cur s [Node (NGen 0) c (line_of mp) []]
      end.
  End Step.

  Fixpoint render_tok (f : nat) (s : st) (t : tok) {struct f} : res st :=
    match f with
    | O => Raise OutOfFuel
    | S f' => render_step (render_tok f') s t
    end.

  Definition render_tokens (f : nat) (s : st) (ts : list tok) : res st :=
    render_tokens_ (render_tok f) s ts.

  Definition sh0 (e : env) : shared :=
    {| s_env := e; s_names := []; s_footrefs := []; s_footdefs := []; s_subrefs := []; s_incl := [] |}.

  Definition st0 (h : shared) : st :=
    {| roots := [Node NDoc [] None []]; cur := (O, []); lmap := [(0, (O, []))];
       hoff := 0; troot := None; shr := h |}.

  (* DocutilsRenderer.render(md.parse(text, env)): children of the document, registries *)
  Definition render_doc (f : nat) (e : env) (text : str) : res (list node * shared) :=
    let '(toks, e') := P e text in
    do s <- render_tokens f (st0 (sh0 e')) toks;
    match roots s with
    | [d] => Ok (node_kids d, shr s)
    | _ => Raise AssertionError
    end.

  (* ---------------------------------------------------------------- the pure denotation *)
  (* result: appended nodes, registries, "a heading was met where a section would be made" *)
  Definition dres := (list node * shared * bool)%type.

  Fixpoint den_fold {T} (g : shared -> T -> res dres) (h : shared) (ts : list T) : res dres :=
    match ts with
    | [] => Ok ([], h, false)
    | t :: r =>
        do a <- g h t;
        do b <- den_fold g (snd (fst a)) r;
        Ok (fst (fst a) ++ fst (fst b), snd (fst b), snd a || snd b)
    end.

  Definition wrap1 (n : node) (r : dres) : dres :=
    ([add_kids n (fst (fst r))], snd (fst r), snd r).

  Section DStep.
    (* top: the node being filled is a document/section (headings would make sections);
       ho: the heading offset in force *)
    Variable rec : bool -> N -> shared -> tok -> res dres.

    Definition den_children (top : bool) (ho : N) (h : shared) (ks : list tok) : res dres :=
      den_fold (rec top ho) h ks.

    (* nested_render_text(text, lineno, inline, heading_offset) into a node of kind [top] *)
    Definition den_nested (top : bool) (ho : N) (h : shared) (text : str) (lineno : N) (inline : bool)
        (heading_offset : N) : res dres :=
      let '(toks0, e') := if inline then PI (s_env h) text else P (s_env h) (text ++ nl) in
      den_fold (rec top (ho + heading_offset)) (set_env e' h)
               (map (shift_tok 1) (map (shift_tok lineno) (drop_front_matter toks0))).

    Definition den_mock_state (ho : N) (lineno : N) : callbacks shared :=
      {| cb_nested_parse := fun (block : list str) (input_offset : nat) (n : node) (h : shared) =>
           do r <- den_nested false ho h (join nl block) (lineno + N.of_nat input_offset) false 0;
           Ok (add_kids n (fst (fst r)), snd (fst r));
         cb_inline_text := fun (text : str) (ln : N) (h : shared) =>
           do r <- den_nested false ho h text ln true 0;
           Ok (fst (fst r), snd (fst r)) |}.

    (* (what run() returns, nodes appended directly to the current node, registries, flag) *)
    Definition den_include (top : bool) (ho : N) (h : shared) (p : parsed)
      : res (dout * list node * shared * bool) :=
      match p_args p with
      | [] => Raise IndexError
      | a :: _ =>
          match fs_read a with
          | None => Ok (DError 4 a, [], h, false)
          | Some file_content =>
              let '(literal, iho) := include_opts (p_optblock p) in
              let file_content := join nl (split_lines file_content) in
              if literal then Ok (DNodes [Node NLiteral file_content (Some 1) []], [], h, false)
              else if mem_str a (o_source orc :: s_incl h) then Ok (DError 2 a, [], h, false)
              else
                (* the included text is rendered into the *current* node *)
                do x <- den_nested top ho (set_incl (s_incl h ++ [a]) h) file_content (0 + 1) false iho;
                Ok (DNodes [], fst (fst x),
                    set_incl (removelast (s_incl (snd (fst x)))) (snd (fst x)), snd x)
          end
      end.

    Definition den_directive (top : bool) (ho : N) (h : shared) (name first_line content : str)
        (position : N) (prepended : nat) : res dres :=
      match dir_lookup name with
      | None => Ok ([sysmsg name position], h, false)
      | Some (kind, cls) =>
          match parse_directive_text cls first_line content with
          | Raise _ => Ok ([sysmsg name position], h, false)
          | Ok p =>
              let '(attrs, warns) := opt_validate name (p_optblock p) in
              let ws := directive_warnings p warns position in
              do r <-
                match kind with
                | KAdm titled =>
                    do x <- adm_run shared (den_mock_state ho position) titled name (p_args p) attrs
                              (p_body p) (p_off p - prepended)%nat position h;
                    Ok (fst x, [], snd x, false)
                | KInclude => den_include top ho h p
                | KOther =>
                    let '(ns, h') := other_directive name (p_args p) (p_optblock p) (p_body p)
                                       (p_off p - prepended)%nat position h in
                    Ok (DNodes ns, [], h', false)
                end;
              let '(out, direct, h', b) := r in
              let result := match out with
                            | DNodes ns => ns
                            | DError level msg => [directive_error msg content position]
                            end in
              Ok (ws ++ direct ++ fill_lines position result, h', b)
          end
      end.

    Definition den_fence (top : bool) (ho : N) (h : shared) (colon : bool) (info content : str) (mp : omap)
      : res dres :=
      let '(name, arguments) := parse_info info in
      match directive_name name with
      | Some dn =>
          if negb colon && str_eqb dn eval_rst_name
          then
            let '(ns, h') := eval_rst content (token_line_d mp 0) h in Ok (ns, h', false)
          else
            let content' := if colon && startswith content colons3 then nl ++ content
                            else content in
            do position <- token_line mp;
            den_directive top ho h dn arguments content' position (prepended_lines colon content)
      | None =>
          if colon then
            do r <- den_nested false ho h content (token_line_d mp 0) false 0;
            Ok (wrap1 (Node NDiv name (line_of mp) []) r)
          else Ok ([Node NLiteral (info ++ nl ++ content) (line_of mp) []], h, false)
      end.

    Definition den_substitution (top : bool) (ho : N) (h : shared) (inline : bool) (key : str) (mp : omap)
      : res dres :=
      do position <- token_line mp;
      match jinja key with
      | None => Ok ([sysmsg key position], h, false)
      | Some rendered =>
          let references := sub_names key in
          if existsb (fun r => mem_str r (s_subrefs h)) references then
            Ok ([sysmsg key position], h, false)
          else
            let h1 := set_subrefs (add_all references (s_subrefs h)) h in
            do r <- den_nested top ho h1 rendered position
                      (inline && negb (is_directive_start rendered)) 0;
            Ok (fst (fst r),
                set_subrefs (remove_all references (s_subrefs (snd (fst r)))) (snd (fst r)),
                snd r)
      end.

    Definition den_step (top : bool) (ho : N) (h : shared) (t : tok) : res dres :=
      match t with
      | TLeaf k c mp => Ok ([Node (NGen k) c (line_of mp) []], h, false)
      | TCont k c mp ks =>
          do r <- den_children false ho h ks; Ok (wrap1 (Node (NGen k) c (line_of mp) []) r)
      | TInline ks => den_children top ho h ks
      | THeading lvl c mp ks =>
          if top then Ok ([], h, true)
          else
            do r <- den_children false ho h ks;
            Ok ([Node (NRubric (lvl + ho)) c (line_of mp) (fst (fst r))],
                add_name c (snd (fst r)), snd r)
      | TTarget label mp =>
          let '(msgs, h') := note_explicit_target label (token_line_d mp 0) h in
          Ok (msgs ++ [Node NTarget label (line_of mp) []], h', false)
      | TFootDef label mp ks =>
          if mem_strs label (s_footdefs h) then Ok ([sysmsg label (token_line_d mp 0)], h, false)
          else
            let '(msgs, h1) := note_explicit_target label (token_line_d mp 0) (add_footdef label h) in
            do r <- den_children false ho h1 ks;
            Ok (wrap1 (Node NFootnote label (line_of mp) msgs) r)
      | TFootRef label mp => Ok ([Node NFootRef label (line_of mp) []], add_footref label h, false)
      | TFence colon info content mp => den_fence top ho h colon info content mp
      | TSubst inline key mp => den_substitution top ho h inline key mp
      | TFrontMatter c mp => Ok ([Node (NGen 0) c (line_of mp) []], h, false)
      end.
  End DStep.

  Fixpoint den_tok (f : nat) (top : bool) (ho : N) (h : shared) (t : tok) {struct f} : res dres :=
    match f with
    | O => Raise OutOfFuel
    | S f' => den_step (den_tok f') top ho h t
    end.

  Definition den_tokens (f : nat) (top : bool) (h : shared) (ts : list tok) : res dres :=
    den_fold (den_tok f top 0) h (map (shift_tok 1) ts).

  (* the nodes a text denotes when it is parsed and rendered from registries h *)
  Definition den_text (f : nat) (top : bool) (h : shared) (text : str) : res dres :=
    let '(toks, e') := P (s_env h) text in
    den_tokens f top (set_env e' h) toks.

End Nest.

Arguments set_roots {env}. Arguments set_cur {env}. Arguments set_lmap {env}.
Arguments set_hoff {env}. Arguments set_troot {env}. Arguments set_shr {env}.
Arguments set_env {env}. Arguments add_name {env}. Arguments add_footref {env}. Arguments add_footdef {env}.
Arguments set_subrefs {env}. Arguments set_incl {env}. Arguments roots {env}. Arguments cur {env}. Arguments lmap {env}.
Arguments hoff {env}. Arguments troot {env}. Arguments shr {env}.
Arguments extend_cur {env}. Arguments with_node {env}. Arguments with_detached {env}.
Arguments seccap {env}. Arguments note_explicit_target {env}. Arguments wrap1 {env}.
Arguments den_fold {env T}. Arguments sh0 {env}. Arguments st0 {env}.
Arguments render_children {env}. Arguments render_tokens_ {env}.
Arguments render_heading {env}.
