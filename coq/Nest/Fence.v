(* C06: a concrete model of fence detection on lines (markdown-it's fence rule and the
   colon_fence plug-in): an opening run of >= 3 backticks / tildes / colons after at most three
   spaces, the rest of the line is the info string (no backtick in it for a backtick fence), the
   fence ends at the first line that closes it (a run of the same character at least as long,
   nothing but blanks after it) or at the end of the text, the content is the lines in between
   with the opening line's indentation removed.  Executable definitions only. *)
From Coq Require Import List Arith NArith Bool.
From MV Require Import Base.PyStr Base.Res Nest.Lines Nest.Split.
Import ListNotations.
Open Scope N_scope.

Definition fence_kind_of (c : N) : option fkind :=
  if c =? 96 then Some Backtick else if c =? 126 then Some Tilde
  else if c =? c_colon then Some Colon else None.

Fixpoint count_lead_spaces (s : str) : nat :=
  match s with x :: r => if x =? c_space then S (count_lead_spaces r) else O | [] => O end.

(* remove up to i leading spaces *)
Fixpoint strip_upto (i : nat) (s : str) : str :=
  match i, s with
  | S j, x :: r => if x =? c_space then strip_upto j r else s
  | _, _ => s
  end.

(* lines up to the closing fence; what follows it (None: the fence is never closed) *)
Fixpoint scan_close (k : fkind) (len : nat) (ls : list str) : list str * option (list str) :=
  match ls with
  | [] => ([], None)
  | l :: r => if closes k len l then ([], Some r)
              else let '(c, rest) := scan_close k len r in (l :: c, rest)
  end.

Record fence := {
  fe_colon : bool; fe_info : str; fe_content : str;
  fe_lines : N;                       (* map[1] - map[0] *)
  fe_rest : list str }.

Definition parse_fence (ls : list str) : option fence :=
  match ls with
  | [] => None
  | l :: r =>
      let i := count_lead_spaces l in
      if (3 <? i)%nat then None else
      let l1 := skipn i l in
      match l1 with
      | [] => None
      | c :: _ =>
          match fence_kind_of c with
          | None => None
          | Some k =>
              let n := count_char (fchar k) l1 in
              if (n <? 3)%nat then None else
              let info := skipn n l1 in
              if (match k with Backtick => mem_N 96 info | _ => false end) then None else
              let '(body, rest) := scan_close k n r in
              Some {| fe_colon := is_colon k; fe_info := info;
                      fe_content := unlines (map (strip_upto i) body);
                      fe_lines := N.of_nat (length body)
                                  + (match rest with Some _ => 2 | None => 1 end);
                      fe_rest := match rest with Some x => x | None => [] end |}
          end
      end
  end.
