(* Lemmas on the path-addressed object graph of Nest.v (get_at / extend_at / locs). *)
From Coq Require Import List Arith NArith Bool Lia.
From MV Require Import Base.PyStr Base.Res Nest.Lines Nest.Split Nest.Nest.
Import ListNotations.

Lemma replace_nth_length {A} i (x : A) l : length (replace_nth i x l) = length l.
Proof. revert i; induction l as [|y l IH]; intros [|i]; simpl; auto. Qed.

Lemma nth_error_replace_nth_eq {A} i (x : A) l :
  (i < length l)%nat -> nth_error (replace_nth i x l) i = Some x.
Proof.
  revert i; induction l as [|y l IH]; intros [|i] H; simpl in *; try lia; auto.
  apply IH. lia.
Qed.

Lemma replace_nth_twice {A} i (x y : A) l :
  replace_nth i x (replace_nth i y l) = replace_nth i x l.
Proof. revert i; induction l as [|z l IH]; intros [|i]; simpl; auto. f_equal. apply IH. Qed.

Lemma replace_nth_app_last {A} (x y : A) l :
  replace_nth (length l) x (l ++ [y]) = l ++ [x].
Proof. induction l as [|z l IH]; simpl; auto. f_equal. exact IH. Qed.

Lemma nth_error_app_last {A} (y : A) l : nth_error (l ++ [y]) (length l) = Some y.
Proof. induction l; simpl; auto. Qed.

Lemma nth_error_lt {A} (l : list A) i x : nth_error l i = Some x -> (i < length l)%nat.
Proof. intro H. apply nth_error_Some. congruence. Qed.

Lemma replace_nth_same {A} i (x : A) l : nth_error l i = Some x -> replace_nth i x l = l.
Proof.
  revert i; induction l as [|y l IH]; intros [|i] H; simpl in *; try discriminate; auto.
  - congruence.
  - f_equal. auto.
Qed.

Lemma add_kids_nil n : add_kids n [] = n.
Proof. destruct n. simpl. rewrite app_nil_r. reflexivity. Qed.

Lemma add_kids_app n a b : add_kids (add_kids n a) b = add_kids n (a ++ b).
Proof. destruct n. simpl. rewrite app_assoc. reflexivity. Qed.

Lemma node_tag_add_kids n a : node_tag (add_kids n a) = node_tag n.
Proof. destruct n; reflexivity. Qed.

Lemma node_kids_add_kids n a : node_kids (add_kids n a) = node_kids n ++ a.
Proof. destruct n; reflexivity. Qed.

(* ---- extend_at ---- *)

Lemma extend_at_ok p : forall ns t c,
  get_at p t = Ok c ->
  exists t', extend_at p ns t = Ok t' /\ get_at p t' = Ok (add_kids c ns).
Proof.
  induction p as [|i p IH]; intros ns t c H.
  - simpl in *. inversion H; subst. eexists; split; reflexivity.
  - destruct t as [tg pl ln ks]. simpl in *.
    destruct (nth_error ks i) as [ci|] eqn:E; [|discriminate].
    destruct (IH ns ci c H) as [ci' [H1 H2]]. rewrite H1. simpl.
    eexists; split; [reflexivity|]. simpl.
    rewrite nth_error_replace_nth_eq by (eapply nth_error_lt; eauto). exact H2.
Qed.

Lemma extend_at_nil p : forall t c, get_at p t = Ok c -> extend_at p [] t = Ok t.
Proof.
  induction p as [|i p IH]; intros t c H.
  - simpl. rewrite add_kids_nil. reflexivity.
  - destruct t as [tg pl ln ks]. simpl in *.
    destruct (nth_error ks i) as [ci|] eqn:E; [|discriminate].
    rewrite (IH ci c H). simpl. rewrite replace_nth_same by assumption. reflexivity.
Qed.

Lemma extend_at_app p : forall a b t t1,
  extend_at p a t = Ok t1 -> extend_at p b t1 = extend_at p (a ++ b) t.
Proof.
  induction p as [|i p IH]; intros a b t t1 H.
  - simpl in *. inversion H; subst. rewrite add_kids_app. reflexivity.
  - destruct t as [tg pl ln ks]. simpl in *.
    destruct (nth_error ks i) as [ci|] eqn:E; [|discriminate].
    destruct (extend_at p a ci) as [ci1|] eqn:E1; [|discriminate].
    simpl in H. inversion H; subst. simpl.
    rewrite nth_error_replace_nth_eq by (eapply nth_error_lt; eauto).
    rewrite (IH a b ci ci1 E1).
    destruct (extend_at p (a ++ b) ci); simpl; [|reflexivity].
    rewrite replace_nth_twice. reflexivity.
Qed.

Lemma extend_at_nest p : forall n ms t c t1,
  get_at p t = Ok c -> extend_at p [n] t = Ok t1 ->
  extend_at (p ++ [length (node_kids c)]) ms t1 = extend_at p [add_kids n ms] t.
Proof.
  induction p as [|i p IH]; intros n ms t c t1 Hg He.
  - simpl in Hg, He. inversion Hg; subst c. inversion He; subst t1.
    destruct t as [tg pl ln ks]. simpl.
    rewrite nth_error_app_last. simpl. rewrite replace_nth_app_last. reflexivity.
  - destruct t as [tg pl ln ks]. simpl in Hg, He.
    destruct (nth_error ks i) as [ci|] eqn:E; [|discriminate].
    destruct (extend_at p [n] ci) as [ci1|] eqn:E1; [|discriminate].
    simpl in He. inversion He; subst t1.
    change ((i :: p) ++ [length (node_kids c)]) with (i :: (p ++ [length (node_kids c)])).
    cbn [extend_at]. rewrite E.
    rewrite nth_error_replace_nth_eq by (eapply nth_error_lt; eauto).
    rewrite (IH n ms ci c ci1 Hg E1).
    destruct (extend_at p [add_kids n ms] ci); simpl; [|reflexivity].
    rewrite replace_nth_twice. reflexivity.
Qed.

(* the tag of an inner node reached by a path does not change when another extension happens
   at the same path *)
Lemma get_at_tag_extend p : forall ns t c t',
  get_at p t = Ok c -> extend_at p ns t = Ok t' -> get_at p t' = Ok (add_kids c ns).
Proof.
  intros ns t c t' Hg He. destruct (extend_at_ok p ns t c Hg) as [t2 [H1 H2]]. congruence.
Qed.

(* ---- locs ---- *)

Lemma extend_loc_ok l ns roots c :
  get_loc l roots = Ok c ->
  exists r', extend_loc l ns roots = Ok r' /\ get_loc l r' = Ok (add_kids c ns)
             /\ length r' = length roots.
Proof.
  unfold get_loc, extend_loc. intro H.
  destruct (nth_error roots (fst l)) as [t|] eqn:E; [|discriminate].
  destruct (extend_at_ok (snd l) ns t c H) as [t' [H1 H2]]. rewrite H1. simpl.
  eexists; split; [reflexivity|]. split.
  - rewrite nth_error_replace_nth_eq by (eapply nth_error_lt; eauto). exact H2.
  - apply replace_nth_length.
Qed.

Lemma extend_loc_nil l roots c : get_loc l roots = Ok c -> extend_loc l [] roots = Ok roots.
Proof.
  unfold get_loc, extend_loc. intro H.
  destruct (nth_error roots (fst l)) as [t|] eqn:E; [|discriminate].
  rewrite (extend_at_nil _ _ _ H). simpl. rewrite replace_nth_same by assumption. reflexivity.
Qed.

Lemma extend_loc_app l a b roots r1 :
  extend_loc l a roots = Ok r1 -> extend_loc l b r1 = extend_loc l (a ++ b) roots.
Proof.
  unfold extend_loc. intro H.
  destruct (nth_error roots (fst l)) as [t|] eqn:E; [|discriminate].
  destruct (extend_at (snd l) a t) as [t1|] eqn:E1; [|discriminate].
  simpl in H. inversion H; subst r1.
  rewrite nth_error_replace_nth_eq by (eapply nth_error_lt; eauto).
  rewrite (extend_at_app _ _ _ _ _ E1).
  destruct (extend_at (snd l) (a ++ b) t); simpl; [|reflexivity].
  rewrite replace_nth_twice. reflexivity.
Qed.

Lemma extend_loc_nest l n ms roots c r1 :
  get_loc l roots = Ok c -> extend_loc l [n] roots = Ok r1 ->
  extend_loc (child_loc l (length (node_kids c))) ms r1 = extend_loc l [add_kids n ms] roots.
Proof.
  unfold get_loc, extend_loc, child_loc. simpl. intros Hg He.
  destruct (nth_error roots (fst l)) as [t|] eqn:E; [|discriminate].
  destruct (extend_at (snd l) [n] t) as [t1|] eqn:E1; [|discriminate].
  simpl in He. inversion He; subst r1.
  rewrite nth_error_replace_nth_eq by (eapply nth_error_lt; eauto).
  rewrite (extend_at_nest _ _ _ _ _ _ Hg E1).
  destruct (extend_at (snd l) [add_kids n ms] t); simpl; [|reflexivity].
  rewrite replace_nth_twice. reflexivity.
Qed.

(* the new child is where child_loc says *)
Lemma get_child_after_extend l n roots c r1 :
  get_loc l roots = Ok c -> extend_loc l [n] roots = Ok r1 ->
  get_loc (child_loc l (length (node_kids c))) r1 = Ok n.
Proof.
  intros Hg He.
  destruct (extend_loc_ok l [n] roots c Hg) as [r' [H1 [H2 _]]].
  assert (r' = r1) by congruence. subst r'.
  unfold get_loc, child_loc in *. simpl.
  destruct (nth_error r1 (fst l)) as [t|]; [|discriminate].
  revert H2. generalize (snd l) t. clear.
  induction p as [|i p IH]; intros t H; simpl in *.
  - inversion H. rewrite node_kids_add_kids. rewrite nth_error_app_last. reflexivity.
  - destruct (nth_error (node_kids t) i); [|discriminate]. apply IH. exact H.
Qed.
